#![allow(dead_code)]
//! oxiverif: correspondence streams and oracles for the Lean model of oxipng.
//!
//! `oxiverif <stream> --seed S --n N --out FILE --stats FILE`
//! Stream files hold one `request => implementation answer` per line; the driver answers the
//! request part and `check` diffs. Oracle subcommands compare the implementation with
//! specification-level reference code in this crate and report failures in the stats file.

mod gen;
mod img;
mod rng;
mod util;

mod corr_filters;
mod corr_geom;
mod corr_eval;
mod corr_decision;
mod corr_reduce;
mod corr_lineage;
mod corr_deadline;
mod front;
mod corr_chunks;
mod cli;
mod io;
mod sched;
mod meta_oracle;
mod raw_api;

#[global_allocator]
static ALLOC: front::Counting = front::Counting;
mod e2e;
mod pngparse;

use std::io::Write;

pub struct Ctx {
    pub seed: u64,
    pub n: usize,
    pub out: Box<dyn Write>,
    pub stats_path: Option<String>,
    pub tier_thorough: bool,
    pub args: Vec<String>,
}

impl Ctx {
    pub fn line(&mut self, req: &str, ans: &str) {
        writeln!(self.out, "{} => {}", req, ans).unwrap();
    }
    pub fn write_stats(&self, stats: &util::Stats) {
        if let Some(p) = &self.stats_path {
            let mut stats = stats.clone();
            let pairs = front::SHARED_STREAM_PAIRS.load(std::sync::atomic::Ordering::Relaxed);
            let reps = front::REPEATED_FRAMES.load(std::sync::atomic::Ordering::Relaxed);
            let misread = cli::CLI_READS_DIFFERENTLY.load(std::sync::atomic::Ordering::Relaxed);
            if misread > 0 { stats.counters.insert("options_the_executable_read_differently_from_what_was_asked".into(), misread as u64); }
            let twins = front::ADLER_TWINS.load(std::sync::atomic::Ordering::Relaxed);
            if twins > 0 { stats.counters.insert("apng_frame_pairs_with_equal_length_and_checksum".into(), twins as u64); }
            if pairs + reps > 0 {
                stats.counters.insert("apng_frame_pairs_of_different_size_sharing_a_stream".into(), pairs as u64);
                stats.counters.insert("apng_repeated_frames".into(), reps as u64);
            }
            std::fs::write(p, stats.to_json()).unwrap();
        }
    }
}

/// milliseconds since this process started
pub fn process_ms() -> u64 {
    static T0: std::sync::OnceLock<std::time::Instant> = std::sync::OnceLock::new();
    T0.get_or_init(std::time::Instant::now).elapsed().as_millis() as u64
}

fn main() {
    let _ = process_ms();
    std::thread::spawn(|| loop {
        std::thread::sleep(std::time::Duration::from_secs(2));
        let t = e2e::CASE_STARTED_MS.load(std::sync::atomic::Ordering::Relaxed);
        if t != 0 && process_ms().saturating_sub(t) > e2e::CASE_LIMIT_S * 1000 {
            eprintln!("oxiverif: a library call has not returned after {} s; aborting (the case is noted for the check)", e2e::CASE_LIMIT_S);
            std::process::abort();
        }
    });

    let args: Vec<String> = std::env::args().collect();
    if args.len() < 2 {
        eprintln!("usage: oxiverif <stream> [--seed S] [--n N] [--out F] [--stats F] [--thorough]");
        std::process::exit(2);
    }
    let cmd = args[1].clone();
    if cmd == "c05-worker" {
        std::panic::set_hook(Box::new(|_| {}));
        front::worker_main();
        return;
    }
    let mut seed = 1u64;
    let mut n = 100usize;
    let mut out: Box<dyn Write> = Box::new(std::io::BufWriter::new(std::io::stdout()));
    let mut stats_path = None;
    let mut thorough = false;
    let mut rest = vec![];
    let mut i = 2;
    while i < args.len() {
        match args[i].as_str() {
            "--seed" => {
                seed = args[i + 1].parse().unwrap();
                i += 2;
            }
            "--n" => {
                n = args[i + 1].parse().unwrap();
                i += 2;
            }
            "--out" => {
                out = Box::new(std::io::BufWriter::new(
                    std::fs::File::create(&args[i + 1]).unwrap(),
                ));
                i += 2;
            }
            "--stats" => {
                stats_path = Some(args[i + 1].clone());
                i += 2;
            }
            "--thorough" => {
                thorough = true;
                i += 1;
            }
            _ => {
                rest.push(args[i].clone());
                i += 1;
            }
        }
    }
    // Silence the default panic message: panics of the code under test are outcomes, not noise.
    // (OXIVERIF_PANIC_MSG=1 keeps it, for diagnosing an abort)
    if std::env::var_os("OXIVERIF_PANIC_MSG").is_none() {
        std::panic::set_hook(Box::new(|_| {}));
    }
    if let Some(p) = &stats_path {
        let _ = e2e::CURRENT_CASE_FILE.set(format!("{}.current", p));
    }
    let mut ctx = Ctx {
        seed,
        n,
        out,
        stats_path,
        tier_thorough: thorough,
        args: rest,
    };
    match cmd.as_str() {
        "corr-filters" => corr_filters::corr(&mut ctx),
        "oracle-c19" => corr_filters::oracle(&mut ctx),
        "corr-geom" => corr_geom::corr(&mut ctx),
        "oracle-geom-e2e" => corr_geom::oracle_e2e(&mut ctx),
        "e2e" => e2e::oracle(&mut ctx),
        "corr-eval" => corr_eval::corr(&mut ctx),
        "oracle-determinism" => corr_eval::oracle(&mut ctx),
        "outputs" => corr_eval::outputs(&mut ctx),
        "corr-decision" => corr_decision::corr(&mut ctx),
        "corr-reduce" => corr_reduce::corr(&mut ctx),
        "corr-lineage" => corr_lineage::corr(&mut ctx),
        "corr-deadline" => corr_deadline::corr(&mut ctx),
        "oracle-c05" => front::oracle(&mut ctx),
        "corr-front" => front::corr(&mut ctx),
        "corr-chunks" => corr_chunks::corr(&mut ctx),
        "corr-cli" => cli::corr(&mut ctx),
        "oracle-cli" => cli::oracle(&mut ctx),
        "corr-io" => io::corr(&mut ctx),
        "corr-sched" => sched::corr(&mut ctx),
        "oracle-meta" => meta_oracle::oracle(&mut ctx),
        "corr-raw" => raw_api::corr(&mut ctx),
        "oracle-c11" => raw_api::oracle(&mut ctx),
        "oracle-files" => corr_decision::oracle_files(&mut ctx),
        _ => {
            eprintln!("unknown stream {cmd}");
            std::process::exit(2);
        }
    }
    ctx.out.flush().unwrap();
}

//! End-to-end oracles: generated PNG files x generated options through the real
//! `optimize_from_memory`, judged by specification-level reference code (pngparse, img).

use crate::gen::*;
use crate::img::*;
use crate::pngparse::*;
use crate::rng::Rng;
use crate::util::*;
use crate::Ctx;
use oxipng::{Deflaters, Interlacing, Options, RowFilter, StripChunks};
use std::num::NonZeroU8;

#[derive(Clone, Debug, PartialEq)]
pub enum HStrip {
    None,
    Strip(Vec<[u8; 4]>),
    Safe,
    Keep(Vec<[u8; 4]>),
    All,
}

/// The strip policy as MANUAL.txt states it (not asked of the implementation): `safe` keeps the seven display chunks,
/// a strip list removes what it names, a keep list keeps what it names, `all` keeps nothing, no policy keeps everything
pub fn spec_keeps(strip: &HStrip, name: &[u8; 4]) -> bool {
    const DISPLAY: [&[u8; 4]; 7] = [b"cICP", b"iCCP", b"sRGB", b"pHYs", b"acTL", b"fcTL", b"fdAT"];
    match strip {
        HStrip::None => true,
        HStrip::Strip(l) => !l.contains(name),
        HStrip::Safe => DISPLAY.contains(&name),
        HStrip::Keep(l) => l.contains(name),
        HStrip::All => false,
    }
}

/// The rendering intent of a profile oxipng may replace by an sRGB chunk: byte 67 of a profile whose ID (bytes 84..100)
/// is one of the four libpng knows, or that has no ID and one of three known (CRC-32, length) pairs
pub fn spec_srgb_intent(icc: &[u8]) -> Option<u8> {
    let intent = *icc.get(67)?;
    let id = icc.get(84..100)?;
    if crate::corr_chunks::KNOWN_SRGB_IDS.iter().any(|k| k == id) {
        return Some(intent);
    }
    if id.iter().all(|b| *b == 0) {
        let mut h = crc32fast::Hasher::new();
        h.update(icc);
        let crc = h.finalize();
        if crate::corr_chunks::KNOWN_BAD_PROFILES.contains(&(crc, icc.len())) {
            return Some(intent);
        }
    }
    None
}

/// a caBX chunk holding a C2PA manifest: a `jumb` superbox whose first box is a `jumd` description box of type `c2pa`
/// (box = 4-byte length incl. header, 4-byte type; the description box starts with the 4-byte type `c2pa`)
pub fn spec_is_c2pa(data: &[u8]) -> bool {
    fn boxed<'a>(d: &'a [u8], ty: &[u8; 4]) -> Option<&'a [u8]> {
        if d.len() < 8 { return None; }
        let len = u32::from_be_bytes(d[0..4].try_into().unwrap()) as usize;
        if len < 8 || len > d.len() || &d[4..8] != ty { return None; }
        Some(&d[8..len])
    }
    boxed(data, b"jumb").and_then(|inner| boxed(inner, b"jumd")).map_or(false, |desc| desc.get(0..4) == Some(&b"c2pa"[..]))
}

#[derive(Clone, Debug)]
pub struct HOpts {
    pub fix_errors: bool,
    pub force: bool,
    pub filter: Vec<u8>,
    /// None = keep
    pub interlace: Option<u8>,
    pub optimize_alpha: bool,
    pub bit_depth_reduction: bool,
    pub color_type_reduction: bool,
    pub palette_reduction: bool,
    pub grayscale_reduction: bool,
    pub idat_recoding: bool,
    pub scale_16: bool,
    pub strip: HStrip,
    /// Ok(level) = libdeflate, Err(iterations) = zopfli
    pub deflate: Result<u8, u8>,
    pub fast_evaluation: bool,
}

impl HOpts {
    pub fn from_preset(p: u8) -> HOpts {
        let o = Options::from_preset(p);
        HOpts {
            fix_errors: o.fix_errors,
            force: o.force,
            filter: o.filter.iter().map(|f| *f as u8).collect(),
            interlace: o.interlace.map(|i| i as u8),
            optimize_alpha: o.optimize_alpha,
            bit_depth_reduction: o.bit_depth_reduction,
            color_type_reduction: o.color_type_reduction,
            palette_reduction: o.palette_reduction,
            grayscale_reduction: o.grayscale_reduction,
            idat_recoding: o.idat_recoding,
            scale_16: o.scale_16,
            strip: HStrip::None,
            deflate: match o.deflate {
                Deflaters::Libdeflater { compression } => Ok(compression),
                Deflaters::Zopfli { iterations } => Err(iterations.get()),
            },
            fast_evaluation: o.fast_evaluation,
        }
    }

    pub fn to_oxi(&self) -> Options {
        let mut o = Options::default();
        o.fix_errors = self.fix_errors;
        o.force = self.force;
        o.filter = self
            .filter
            .iter()
            .map(|&f| RowFilter::try_from(f).unwrap())
            .collect();
        o.interlace = self.interlace.map(|i| {
            if i == 1 {
                Interlacing::Adam7
            } else {
                Interlacing::None
            }
        });
        o.optimize_alpha = self.optimize_alpha;
        o.bit_depth_reduction = self.bit_depth_reduction;
        o.color_type_reduction = self.color_type_reduction;
        o.palette_reduction = self.palette_reduction;
        o.grayscale_reduction = self.grayscale_reduction;
        o.idat_recoding = self.idat_recoding;
        o.scale_16 = self.scale_16;
        o.strip = match &self.strip {
            HStrip::None => StripChunks::None,
            HStrip::Safe => StripChunks::Safe,
            HStrip::All => StripChunks::All,
            HStrip::Strip(v) => StripChunks::Strip(v.iter().copied().collect()),
            HStrip::Keep(v) => StripChunks::Keep(v.iter().copied().collect()),
        };
        o.deflate = match self.deflate {
            Ok(c) => Deflaters::Libdeflater { compression: c },
            Err(i) => Deflaters::Zopfli {
                iterations: NonZeroU8::new(i.max(1)).unwrap(),
            },
        };
        o.fast_evaluation = self.fast_evaluation;
        o.timeout = None;
        o
    }

    pub fn show(&self) -> String {
        let names = |v: &Vec<[u8; 4]>| {
            v.iter()
                .map(|n| name_str(n))
                .collect::<Vec<_>>()
                .join(",")
        };
        format!(
            "fix={} force={} filter={:?} il={} alpha={} bd={} ct={} pal={} gray={} recode={} scale16={} strip={} deflate={} fast={}",
            self.fix_errors as u8,
            self.force as u8,
            self.filter,
            self.interlace.map_or("keep".to_string(), |i| i.to_string()),
            self.optimize_alpha as u8,
            self.bit_depth_reduction as u8,
            self.color_type_reduction as u8,
            self.palette_reduction as u8,
            self.grayscale_reduction as u8,
            self.idat_recoding as u8,
            self.scale_16 as u8,
            match &self.strip {
                HStrip::None => "none".to_string(),
                HStrip::Safe => "safe".to_string(),
                HStrip::All => "all".to_string(),
                HStrip::Strip(v) => format!("strip:{}", names(v)),
                HStrip::Keep(v) => format!("keep:{}", names(v)),
            },
            match self.deflate {
                Ok(c) => format!("zc{}", c),
                Err(i) => format!("zopfli{}", i),
            },
            self.fast_evaluation as u8
        )
    }
}

impl HOpts {
    /// inverse of `show`
    pub fn parse(s: &str) -> Option<HOpts> {
        let mut o = HOpts::from_preset(2);
        // the filter list contains spaces: normalise first
        let s = s.replace(", ", ",");
        for kv in s.split_whitespace() {
            let (k, v) = kv.split_once('=')?;
            let b = || v == "1";
            let names = |l: &str| -> Vec<[u8; 4]> {
                l.split(',')
                    .filter(|x| x.len() == 4)
                    .map(|x| x.as_bytes().try_into().unwrap())
                    .collect()
            };
            match k {
                "fix" => o.fix_errors = b(),
                "force" => o.force = b(),
                "filter" => {
                    o.filter = v
                        .trim_matches(|c| c == '[' || c == ']')
                        .split(',')
                        .filter(|x| !x.is_empty())
                        .map(|x| x.parse().unwrap())
                        .collect()
                }
                "il" => o.interlace = if v == "keep" { None } else { Some(v.parse().ok()?) },
                "alpha" => o.optimize_alpha = b(),
                "bd" => o.bit_depth_reduction = b(),
                "ct" => o.color_type_reduction = b(),
                "pal" => o.palette_reduction = b(),
                "gray" => o.grayscale_reduction = b(),
                "recode" => o.idat_recoding = b(),
                "scale16" => o.scale_16 = b(),
                "strip" => {
                    o.strip = match v {
                        "none" => HStrip::None,
                        "safe" => HStrip::Safe,
                        "all" => HStrip::All,
                        _ if v.starts_with("strip:") => HStrip::Strip(names(&v[6..])),
                        _ if v.starts_with("keep:") => HStrip::Keep(names(&v[5..])),
                        _ => return None,
                    }
                }
                "deflate" => {
                    o.deflate = if let Some(i) = v.strip_prefix("zopfli") {
                        Err(i.parse().ok()?)
                    } else {
                        Ok(v.strip_prefix("zc")?.parse().ok()?)
                    }
                }
                "fast" => o.fast_evaluation = b(),
                _ => return None,
            }
        }
        Some(o)
    }
}

/// Corpus of minimised past failures: `/verif/corpus/e2e/<prop>-*.case`, two lines (options, hex)
pub fn load_corpus(prop: &str) -> Vec<(String, HOpts, Vec<u8>)> {
    let dir = std::path::Path::new(env!("CARGO_MANIFEST_DIR")).join("../corpus/e2e");
    let mut out = vec![];
    if let Ok(rd) = std::fs::read_dir(dir) {
        let mut names: Vec<_> = rd.filter_map(|e| e.ok()).map(|e| e.path()).collect();
        names.sort();
        for p in names {
            let fname = p.file_name().unwrap().to_string_lossy().to_string();
            if !fname.starts_with(prop) || !fname.ends_with(".case") {
                continue;
            }
            if let Ok(text) = std::fs::read_to_string(&p) {
                let mut lines = text.lines();
                if let (Some(o), Some(h)) = (lines.next(), lines.next()) {
                    if let Some(o) = HOpts::parse(o) {
                        out.push((fname, o, unhex(h.trim())));
                    }
                }
            }
        }
    }
    out
}

#[derive(Clone, Copy, Debug, PartialEq)]
pub enum Profile {
    /// alpha=false, scale16=false
    Lossless,
    /// alpha=true, scale16=false
    Alpha,
    /// scale16=true
    Scale16,
    /// anything
    Any,
}

pub fn gen_opts(rng: &mut Rng, profile: Profile, thorough: bool) -> HOpts {
    let mut o = HOpts::from_preset(rng.below(7) as u8);
    // keep the expensive compressor levels rare
    if let Ok(c) = &mut o.deflate {
        if rng.chance(1, 2) {
            *c = *rng.choose(&[1u8, 5, 8, 11, 12, 0, 3]);
        }
    }
    if thorough && rng.chance(1, 25) {
        o.deflate = Err(rng.range(1, 2) as u8);
    }
    if rng.chance(1, 2) {
        o.filter = match rng.below(4) {
            0 => vec![rng.below(10) as u8],
            1 => {
                let a = rng.below(10) as u8;
                let b = rng.below(10) as u8;
                if a == b {
                    vec![a]
                } else {
                    vec![a, b]
                }
            }
            2 => (0..10).collect(),
            _ => (0..10u8).filter(|_| rng.bool()).collect(),
        };
    }
    o.interlace = *rng.choose(&[Some(0), Some(0), Some(1), None]);
    o.bit_depth_reduction = rng.chance(3, 4);
    o.color_type_reduction = rng.chance(3, 4);
    o.palette_reduction = rng.chance(3, 4);
    o.grayscale_reduction = rng.chance(3, 4);
    o.idat_recoding = rng.chance(4, 5);
    o.force = rng.chance(1, 4);
    if rng.chance(1, 4) {
        o.fast_evaluation = rng.bool();
    }
    o.strip = match rng.below(8) {
        0 => HStrip::Safe,
        1 => HStrip::All,
        _ => HStrip::None,
    };
    match profile {
        Profile::Lossless => {
            o.optimize_alpha = false;
            o.scale_16 = false;
        }
        Profile::Alpha => {
            o.optimize_alpha = true;
            o.scale_16 = false;
        }
        Profile::Scale16 => {
            o.optimize_alpha = rng.chance(1, 4);
            o.scale_16 = true;
        }
        Profile::Any => {
            o.optimize_alpha = rng.chance(1, 3);
            o.scale_16 = rng.chance(1, 4);
        }
    }
    o
}

pub struct Case {
    pub img: HImg,
    pub class: String,
    pub enc: EncOpts,
    pub input: Vec<u8>,
    pub opts: HOpts,
}

impl Case {
    pub fn replay_json(&self) -> String {
        format!(
            "{{\"input_png_hex\": {}, \"options\": {}, \"image\": {}, \"class\": {}}}",
            jstr(&hex(&self.input)),
            jstr(&self.opts.show()),
            jstr(&format!(
                "{}x{} ct{} d{} il{}",
                self.img.w, self.img.h, self.img.ct, self.img.depth, self.img.il as u8
            )),
            jstr(&self.class)
        )
    }
}

pub fn gen_case(rng: &mut Rng, profile: Profile, thorough: bool, max_dim: u32) -> Case {
    let (img, info) = gen_himg(rng, max_dim);
    let mut enc = EncOpts::default();
    enc.level = *rng.choose(&[0u8, 1, 6, 9]);
    enc.idat_parts = if rng.chance(1, 5) { rng.range(2, 4) as usize } else { 1 };
    enc.empty_idat = if rng.chance(1, 8) { rng.below(16) as u8 } else { 0 };
    let input = img.encode_png(rng, &enc);
    let opts = gen_opts(rng, profile, thorough);
    Case {
        img,
        class: info.class,
        enc,
        input,
        opts,
    }
}

pub enum Outcome {
    Ok(Vec<u8>),
    Err(String),
    Panic,
}

/// where the case being handed to the library is noted, so that an abort of the whole process (a panic inside a
/// rayon job cannot be caught) still leaves a concrete input behind for the check to report
pub static CURRENT_CASE_FILE: std::sync::OnceLock<String> = std::sync::OnceLock::new();

/// start of the library call in progress (milliseconds since the process began, 0 = none): a watchdog thread aborts the
/// process when one call takes longer than `CASE_LIMIT_S` - the check then reports the noted case as the input on which
/// the library does not return
pub static CASE_STARTED_MS: std::sync::atomic::AtomicU64 = std::sync::atomic::AtomicU64::new(0);
pub const CASE_LIMIT_S: u64 = 120;

/// note what is about to be handed to the library (any JSON object text), for the check to report when the process dies
pub fn note_current(json: &str) {
    if let Some(p) = CURRENT_CASE_FILE.get() {
        let _ = std::fs::write(p, json);
    }
}

pub fn run_case(input: &[u8], opts: &HOpts) -> Outcome {
    if let Some(p) = CURRENT_CASE_FILE.get() {
        let _ = std::fs::write(p, format!("{{\"input_png_hex\": {}, \"options\": {}}}", jstr(&hex(input)), jstr(&opts.show())));
    }
    let o = opts.to_oxi();
    CASE_STARTED_MS.store(crate::process_ms().max(1), std::sync::atomic::Ordering::Relaxed);
    let r = catch(|| oxipng::optimize_from_memory(input, &o));
    CASE_STARTED_MS.store(0, std::sync::atomic::Ordering::Relaxed);
    match r {
        Some(Ok(v)) => Outcome::Ok(v),
        Some(Err(e)) => Outcome::Err(e.to_string()),
        None => Outcome::Panic,
    }
}

fn px_eq(a: &[[u16; 4]], b: &[[u16; 4]]) -> Option<usize> {
    if a.len() != b.len() {
        return Some(usize::MAX);
    }
    a.iter().zip(b).position(|(x, y)| x != y)
}

fn px_alpha_eq(a: &[[u16; 4]], b: &[[u16; 4]]) -> Option<usize> {
    if a.len() != b.len() {
        return Some(usize::MAX);
    }
    a.iter()
        .zip(b)
        .position(|(x, y)| x[3] != y[3] || (x[3] != 0 && x != y))
}

fn round8(v: u16) -> u16 {
    ((v as u32 + 128) / 257) as u16
}

/// C15 relation between the input picture (16-bit image) and the output picture
fn scale_rel(inp: &Decoded, out: &Decoded, alpha_relaxed: bool) -> Result<(), String> {
    if out.img.depth > 8 {
        return Err("16-bit image was not reduced to 8 bits although scaling was requested".into());
    }
    let gi = inp.img.unpack().ok_or("input does not unpack")?;
    let pi = gi.pixels();
    let po = pixels_of(&out.img).ok_or("output does not unpack")?;
    if pi.len() != po.len() {
        return Err("pixel count differs".into());
    }
    // the key, rounded like a sample
    let key_r: Option<Vec<u16>> = gi.trns.as_ref().map(|k| k.iter().map(|&v| round8(v)).collect());
    let c = gi.ch();
    for (i, (a, b)) in pi.iter().zip(&po).enumerate() {
        let raw = &gi.samples[i * c..(i + 1) * c];
        let keyed_in = a[3] == 0 && gi.trns.is_some();
        let rounds_to_key = match (&key_r, gi.ct) {
            (Some(k), 0) => round8(raw[0]) == k[0],
            (Some(k), 2) => round8(raw[0]) == k[0] && round8(raw[1]) == k[1] && round8(raw[2]) == k[2],
            _ => false,
        };
        // expected colour
        let exp = [round8(a[0]) * 257, round8(a[1]) * 257, round8(a[2]) * 257];
        let exp_a = if matches!(gi.ct, 4 | 6) {
            round8(a[3]) * 257
        } else if keyed_in {
            0
        } else if rounds_to_key {
            // an opaque pixel may turn transparent only if all its samples round to the key's
            if b[3] == 0 { 0 } else { 65535 }
        } else {
            65535
        };
        if b[3] != exp_a {
            return Err(format!("pixel {}: alpha {} where {} expected (input {:?})", i, b[3], exp_a, a));
        }
        let colour_free = alpha_relaxed && b[3] == 0;
        if !colour_free && [b[0], b[1], b[2]] != exp {
            return Err(format!("pixel {}: colour {:?} where {:?} expected (input {:?})", i, &b[..3], exp, a));
        }
    }
    Ok(())
}

pub fn prop_profile(prop: &str) -> Profile {
    match prop {
        "C01" | "C04" | "C08" => Profile::Lossless,
        "C03" => Profile::Alpha,
        "C15" => Profile::Scale16,
        _ => Profile::Any,
    }
}

/// Evaluate the predicates of `prop` on one finished case; failures go to `st`.
pub fn judge(prop: &str, case: &Case, out: &Outcome, st: &mut Stats) {
    let replay = case.replay_json();
    let inp = match decode(&case.input) {
        Ok(d) if d.violations.is_empty() => d,
        Ok(d) => {
            st.count("generator_invalid_input");
            st.notes.push(format!("generator produced an invalid file: {:?}", d.violations));
            return;
        }
        Err(e) => {
            st.count("generator_invalid_input");
            st.notes.push(format!("generator produced an undecodable file: {}", e));
            return;
        }
    };
    let bytes = match out {
        Outcome::Panic => {
            st.fail("panic", format!("optimize_from_memory panicked on a valid file ({})", case.class), replay);
            return;
        }
        Outcome::Err(e) => {
            // a well-formed file without C2PA must be accepted
            st.fail("error-on-valid", format!("optimize_from_memory failed on a valid file: {}", e), replay);
            return;
        }
        Outcome::Ok(b) => b,
    };
    st.count("ok");
    if bytes == &case.input {
        st.count("returned_input");
    }
    let o = &case.opts;
    let dec = match decode(bytes) {
        Ok(d) => d,
        Err(e) => {
            st.fail("undecodable-output", format!("output is not decodable: {}", e), replay);
            return;
        }
    };
    st.count(&format!("out_ct{}d{}il{}", dec.img.ct, dec.img.depth, dec.img.il as u8));
    if dec.img.ct != inp.img.ct {
        st.count("colour_type_changed");
    }
    if dec.img.depth != inp.img.depth {
        st.count("depth_changed");
    }
    if dec.img.il != inp.img.il {
        st.count("interlace_changed");
    }
    if dec.img.ct == 3 && inp.img.ct == 3 && dec.img.palette != inp.img.palette {
        st.count("palette_changed");
    }
    let pi = pixels_of(&inp.img).unwrap();
    let po = pixels_of(&dec.img);
    match prop {
        "C01" => {
            if (dec.img.w, dec.img.h) != (inp.img.w, inp.img.h) {
                st.fail("dims", "dimensions changed".into(), replay);
            } else if let Some(i) = po.as_ref().map_or(Some(usize::MAX), |po| px_eq(&pi, po)) {
                let d = po.as_ref().and_then(|po| po.get(i)).copied();
                let tag = if inp.img.depth == 16 && inp.img.trns.is_some() { "lossless-key16" } else { "lossless" };
                st.fail(
                    tag,
                    format!(
                        "pixel {} decodes to {:?}, input has {:?} (in {}x{} ct{} d{} -> out ct{} d{}; {})",
                        i, d, pi.get(i), inp.img.w, inp.img.h, inp.img.ct, inp.img.depth, dec.img.ct, dec.img.depth, case.class
                    ),
                    replay,
                );
            }
        }
        "C03" => {
            if (dec.img.w, dec.img.h) != (inp.img.w, inp.img.h) {
                st.fail("dims", "dimensions changed".into(), replay);
            } else if let Some(i) = po.as_ref().map_or(Some(usize::MAX), |po| px_alpha_eq(&pi, po)) {
                let d = po.as_ref().and_then(|po| po.get(i)).copied();
                let tag = if inp.img.depth == 16 && inp.img.trns.is_some() { "alpha-key16" } else { "alpha" };
                st.fail(
                    tag,
                    format!(
                        "pixel {} decodes to {:?}, input has {:?}: alpha or visible colour changed (in ct{} d{} -> out ct{} d{}; {})",
                        i, d, pi.get(i), inp.img.ct, inp.img.depth, dec.img.ct, dec.img.depth, case.class
                    ),
                    replay,
                );
            } else if po.as_ref().map_or(false, |po| px_eq(&pi, po).is_some()) {
                st.count("invisible_colour_changed");
            }
        }
        "C02" => {
            if !dec.violations.is_empty() {
                st.fail("invalid-output", format!("output violates: {:?}", dec.violations), replay.clone());
            }
            if let Err(e) = png_crate_accepts(bytes) {
                st.fail("png-crate-rejects", e, replay.clone());
            }
            // cross-validation of the harness decoder itself
            if let (Ok(raw), Some(g)) = (png_crate_raw(bytes), dec.img.unpack()) {
                if raw != g.pack(false).data {
                    st.fail("decoder-cross-check", "harness decoder and png crate disagree on the output".into(), replay);
                }
            }
        }
        "C04" => {
            if !o.force && !(bytes.len() < case.input.len() || bytes == &case.input) {
                st.fail(
                    "larger",
                    format!("output has {} bytes, input {} and differs from it", bytes.len(), case.input.len()),
                    replay,
                );
            }
            if bytes.len() < case.input.len() {
                st.count("smaller");
            }
        }
        "C08" => {
            let changed = bytes != &case.input;
            if !changed {
                return;
            }
            let gray = |ct: u8| ct == 0 || ct == 4;
            if !o.bit_depth_reduction && dec.img.depth != inp.img.depth {
                st.fail("bit-depth-switch", format!("bit depth {} -> {} with bit-depth changes disabled", inp.img.depth, dec.img.depth), replay.clone());
            }
            if !o.color_type_reduction && dec.img.ct != inp.img.ct {
                st.fail("colour-type-switch", format!("colour type {} -> {} with colour-type changes disabled", inp.img.ct, dec.img.ct), replay.clone());
            }
            if !o.grayscale_reduction && gray(dec.img.ct) != gray(inp.img.ct) {
                st.fail("grayscale-switch", format!("colour type {} -> {} with grayscale changes disabled", inp.img.ct, dec.img.ct), replay.clone());
            }
            if !o.palette_reduction && inp.img.ct == 3 && dec.img.ct == 3 && dec.img.palette != inp.img.palette {
                st.fail("palette-switch", "palette changed with palette changes disabled".into(), replay.clone());
            }
            if o.interlace.is_none() && dec.img.il != inp.img.il {
                st.fail("interlace-keep", "interlace flag changed under 'keep'".into(), replay.clone());
            }
            if o.force {
                if let Some(m) = o.interlace {
                    if dec.img.il != (m == 1) {
                        st.fail("interlace-forced", format!("forced output has interlace {} where {} was requested", dec.img.il as u8, m), replay.clone());
                    }
                }
            }
            let no_reductions = !o.bit_depth_reduction && !o.color_type_reduction && !o.palette_reduction && !o.grayscale_reduction && o.interlace.is_none();
            if no_reductions && !o.idat_recoding {
                st.count("nx_nz");
                if dec.idat != inp.idat {
                    st.fail("nx-nz-idat", "IDAT stream differs although all transformations and recompression are disabled".into(), replay);
                }
            }
        }
        "C15" => {
            if inp.img.depth == 16 && o.bit_depth_reduction {
                st.count("sixteen_bit_inputs");
                if bytes == &case.input {
                    // the result was not smaller: nothing was written, nothing to judge
                    st.count("sixteen_bit_returned_input");
                    return;
                }
                if let Err(e) = scale_rel(&inp, &dec, o.optimize_alpha) {
                    let mut tag = if inp.img.trns.is_some() { "scale-key16" } else { "scale" };
                    // Was the 16-bit original re-serialised because the scaled image did not beat the
                    // size budget? Then a forced run of the same case scales correctly.
                    if !o.force && dec.img.depth == 16 && po.as_ref().map_or(false, |po| px_eq(&pi, po).is_none()) {
                        let mut o2 = case.opts.clone();
                        o2.force = true;
                        if let Outcome::Ok(b2) = run_case(&case.input, &o2) {
                            if let Ok(d2) = decode(&b2) {
                                if scale_rel(&inp, &d2, o.optimize_alpha).is_ok() {
                                    tag = "scale-fallback-unreduced";
                                }
                            }
                        }
                    }
                    st.fail(tag, format!("{} ({})", e, case.class), replay.clone());
                }
                // "a colour key is rounded the same way": where the output keeps the colour type at 8 bits the
                // key must be the rounded key, component by component - also when no pixel happens to match it
                if let Some(k16) = &inp.img.trns {
                    if dec.img.depth == 8 && dec.img.ct == inp.img.ct && (inp.img.ct == 0 || inp.img.ct == 2) {
                        let want: Vec<u16> = k16.iter().map(|&v| ((v as u32 + 128) / 257) as u16).collect();
                        st.count("keys_after_scaling_checked");
                        if dec.img.trns.as_ref() != Some(&want) {
                            st.fail("scale-key-value", format!("16-bit key {:04x?} became {:?}, rounding gives {:02x?} ({})", k16, dec.img.trns, want, case.class), replay);
                        }
                    }
                }
            } else {
                // non-16-bit, or bit-depth changes disabled (C08 is binding): identical to the run
                // without the switch
                // non-16-bit: identical to the run without the switch
                let mut o2 = case.opts.clone();
                o2.scale_16 = false;
                match run_case(&case.input, &o2) {
                    Outcome::Ok(b2) if &b2 == bytes => st.count("non16_identical"),
                    _ => st.fail("scale-non16", "an image that is not 16-bit (or bit-depth changes are disabled) is treated differently with the scaling switch on".into(), replay),
                }
            }
        }
        _ => {}
    }
}

pub fn oracle(ctx: &mut Ctx) {
    let prop = ctx.args.get(0).cloned().unwrap_or_else(|| "C01".into());
    let profile = prop_profile(&prop);
    let mut rng = Rng::new(ctx.seed ^ 0xE2E);
    let mut st = Stats::default();
    // corpus first
    for (name, opts, input) in load_corpus(&prop) {
        let img = match decode(&input) {
            Ok(d) => d.img,
            Err(_) => continue,
        };
        let case = Case {
            img,
            class: format!("corpus {}", name),
            enc: EncOpts::default(),
            input,
            opts,
        };
        st.count("corpus_cases");
        let out = run_case(&case.input, &case.opts);
        judge(&prop, &case, &out, &mut st);
    }
    let bin_dir: Option<std::path::PathBuf> = if crate::cli::binary_available() { Some(crate::cli::work_dir("e2e-bin")) } else { None };
    for i in 0..ctx.n {
        let mut case = gen_case(&mut rng, profile, ctx.tier_thorough, if ctx.tier_thorough { 33 } else { 17 });
        if prop == "C15" && rng.chance(2, 3) && case.img.depth != 16 {
            // concentrate on 16-bit inputs
            let ct = *rng.choose(&[0u8, 2, 4, 6]);
            let (w, h) = gen_dims(&mut rng, 12);
            let (g, info) = gen_grid(&mut rng, ct, 16, w, h);
            case.img = g.pack(rng.chance(1, 3));
            case.class = info.class;
            case.input = case.img.encode_png(&mut rng, &case.enc);
        }
        if prop == "C08" && rng.chance(1, 5) {
            // the corner where every reduction and recompression is switched off - under every interlace request and, half
            // of the time, with a forced output: whatever short cut is taken when "there is nothing to do", a requested
            // interlace mode is still the mode of a forced output (with 'keep' the IDAT stream has to stay as it is)
            case.opts.bit_depth_reduction = false;
            case.opts.color_type_reduction = false;
            case.opts.palette_reduction = false;
            case.opts.grayscale_reduction = false;
            case.opts.interlace = *rng.choose(&[None, None, Some(0), Some(1)]);
            case.opts.force = rng.bool();
            case.opts.idat_recoding = false;
            st.count(&format!("all_off_corner_il{}_req{}_force{}", case.img.il as u8, case.opts.interlace.map_or("keep".to_string(), |m| m.to_string()), case.opts.force as u8));
        }
        st.count("cases");
        st.count(&format!("in_ct{}d{}il{}", case.img.ct, case.img.depth, case.img.il as u8));
        st.distinct_case(&[case.input.as_slice(), case.opts.show().as_bytes()].concat());
        let out = run_case(&case.input, &case.opts);
        if i < 2 {
            st.sample(format!(
                "{}x{} ct{} d{} il{} [{}] opts: {}",
                case.img.w, case.img.h, case.img.ct, case.img.depth, case.img.il as u8, case.class, case.opts.show()
            ));
        }
        judge(&prop, &case, &out, &mut st);
        // one case in ten also through the executable (the same option values asked for on the command line, result on
        // standard output): the property is the user's, whichever door the file comes in by
        if bin_dir.is_some() && rng.chance(1, 10) {
            if let Some(out_cli) = crate::cli::run_case_via_binary(bin_dir.as_ref().unwrap(), &case.input, &case.opts, rng.next_u64()) {
                st.count("cases_through_the_executable");
                let c2 = Case { img: case.img.clone(), class: format!("{} [through the executable, --stdout]", case.class), enc: case.enc.clone(), input: case.input.clone(), opts: case.opts.clone() };
                judge(&prop, &c2, &out_cli, &mut st);
            } else { st.count("cases_not_expressible_on_the_command_line"); }
        }
        // chains: feed the output back in with fresh options
        if matches!(prop.as_str(), "C01" | "C04" | "C03") && rng.chance(1, 4) {
            if let Outcome::Ok(b1) = &out {
                let mut c2 = Case {
                    img: case.img.clone(),
                    class: format!("chain2 of [{}]", case.class),
                    enc: case.enc.clone(),
                    input: b1.clone(),
                    opts: gen_opts(&mut rng, profile, ctx.tier_thorough),
                };
                // C01/C03: the second run must preserve the pixels of its own input
                if let Ok(d) = decode(&c2.input) {
                    c2.img = d.img;
                }
                let out2 = run_case(&c2.input, &c2.opts);
                st.count("chain_steps");
                judge(&prop, &c2, &out2, &mut st);
            }
        }
    }
    // ---- images with a colour isolated within its Adam7 pass, written interlaced at the presets that try the co-occurrence
    // palette orders ----------------------------------------------------------------------------------------------------
    if matches!(prop.as_str(), "C01" | "C02") {
        for _ in 0..(ctx.n / 100).max(10) {
            let (g, info) = crate::gen::gen_pass_isolated(&mut rng);
            let img = g.pack(rng.bool());
            let enc = crate::img::EncOpts::default();
            let input = img.encode_png(&mut rng, &enc);
            let mut opts = HOpts::from_preset(*rng.choose(&[3u8, 4]));
            opts.interlace = Some(1);
            opts.force = rng.bool();
            if let Ok(_) = opts.deflate { opts.deflate = Ok(*rng.choose(&[8u8, 12])); }
            let case = Case { img, class: info.class, enc, input, opts };
            st.count("pass_isolated_cases");
            let out = run_case(&case.input, &case.opts);
            judge(&prop, &case, &out, &mut st);
        }
    }
    // ---- animated inputs: the property's predicate on the default image, C10's on the frames (they are filtered with
    // the same alpha switch and recompressed under the same rules as the main image) --------------------------------
    if matches!(prop.as_str(), "C01" | "C02" | "C03" | "C04" | "C08") {
        for _ in 0..(ctx.n / 12).max(8) {
            let (mut case, _) = crate::corr_eval::apng_case_with(&mut rng, false);
            let mut o = gen_opts(&mut rng, profile, ctx.tier_thorough);
            o.strip = if rng.chance(1, 4) { HStrip::Safe } else { HStrip::None };
            o.scale_16 = false;
            if prop == "C03" { o.optimize_alpha = true; }
            // an animation keeps its layout whatever is requested (all transformation classes are switched off for it):
            // C08's clause "a forced run honours the requested interlacing" does not apply, C10's "unchanged" does
            if prop == "C08" { o.interlace = None; }
            case.opts = o;
            st.count("animated_cases");
            let out = run_case(&case.input, &case.opts);
            judge(&prop, &case, &out, &mut st);
            if let (Outcome::Ok(b), Ok(inp)) = (&out, decode(&case.input)) {
                match decode(b) {
                    Ok(d) => crate::meta_oracle::judge_c10(&case, &inp, &d, &mut st),
                    Err(e) => st.fail("undecodable-output", format!("output of an animated input does not decode: {}", e), case.replay_json()),
                }
            }
        }
    }
    ctx.write_stats(&st);
}

//! C07 / C10 / C14 (and C02 on files with metadata and animation): end-to-end oracles on files
//! carrying ancillary chunks, ICC profiles, C2PA boxes and APNG frames.

use crate::corr_chunks::gen_profile;
use crate::e2e::*;
use crate::front::{c2pa_chunk, encode_apng_with, make_iccp};
use crate::gen::*;
use crate::img::*;
use crate::pngparse::*;
use crate::rng::Rng;
use crate::util::*;
use crate::Ctx;

/// ancillary chunks with specification-conformant payload sizes and positions
pub fn gen_meta(rng: &mut Rng, img: &HImg, with_icc: bool) -> EncOpts {
    let mut e = EncOpts { level: *rng.choose(&[1u8, 6, 9]), idat_parts: if rng.chance(1, 4) { 2 } else { 1 }, empty_idat: if rng.chance(1, 5) { rng.below(16) as u8 } else { 0 }, ..Default::default() };
    let ch = channels(img.ct);
    let anywhere = |rng: &mut Rng| -> ([u8; 4], Vec<u8>) {
        match rng.below(5) {
            0 => (*b"tEXt", b"Comment\0x".to_vec()),
            1 => (*b"zTXt", b"Key\0\0\x78\x9c\x03\x00\x00\x00\x00\x01".to_vec()),
            2 => (*b"prVt", if rng.chance(1, 3) { vec![] } else { rng.bytes(6) }),
            3 => (*b"iTXt", b"Key\0\0\0\0\0text".to_vec()),
            _ => (*b"vpAg", rng.bytes(9)),
        }
    };
    if rng.chance(1, 3) { e.pre_plte.push((*b"gAMA", vec![0, 0, 0xb1, 0x8f])); }
    if rng.chance(1, 5) { e.pre_plte.push((*b"cHRM", rng.bytes(32))); }
    if rng.chance(1, 4) {
        let n = if img.ct == 3 { 3 } else { ch };
        e.pre_plte.push((*b"sBIT", vec![if img.ct == 3 { 8 } else { img.depth.min(8) }; n]));
    }
    if with_icc {
        match rng.below(4) {
            0 => e.pre_plte.push((*b"sRGB", vec![rng.below(4) as u8])),
            1 => { let k = *rng.choose(&[0u64, 0, 1, 2, 6, 6]); e.pre_plte.push((*b"iCCP", make_iccp(&gen_profile(rng, k)))); }
            // degenerate colour-space chunks (a decoder still sees the chunk): a profile that does not inflate, and
            // the shortest possible chunks - nothing but the name
            2 => match rng.below(4) {
                0 => e.pre_plte.push((*b"iCCP", vec![])),
                1 => e.pre_plte.push((*b"sRGB", vec![])),
                _ => e.pre_plte.push((*b"iCCP", b"broken\0\0\x01\x02\x03".to_vec())),
            },
            _ => {
                // both (the specification advises against it and decoders see it all the same; oxipng has a rule of its
                // own for the pair: the profile goes when the policy lets go of iCCP and keeps sRGB)
                let k = *rng.choose(&[0u64, 1, 6]);
                e.pre_plte.push((*b"iCCP", make_iccp(&gen_profile(rng, k))));
                e.pre_plte.push((*b"sRGB", vec![rng.below(4) as u8]));
            }
        }
    }
    if rng.chance(1, 4) { e.pre_plte.push(anywhere(rng)); }
    if rng.chance(1, 3) {
        let d = match img.ct { 3 => vec![0], 0 | 4 => vec![0, 1], _ => vec![0, 1, 0, 2, 0, 3] };
        e.pre_idat.push((*b"bKGD", d));
    }
    if img.ct == 3 && rng.chance(1, 4) { e.pre_idat.push((*b"hIST", vec![0; 2 * img.palette.len()])); }
    if rng.chance(1, 3) { e.pre_idat.push((*b"pHYs", vec![0, 0, 0x0b, 0x13, 0, 0, 0x0b, 0x13, 1])); }
    if rng.chance(1, 4) { e.pre_idat.push(anywhere(rng)); }
    if rng.chance(1, 12) { e.pre_idat.push((*b"caBX", c2pa_chunk())); }
    if rng.chance(1, 3) { e.post_idat.push(anywhere(rng)); }
    if rng.chance(1, 5) { e.post_idat.push(anywhere(rng)); }
    // mix the order within each region (all orders are legal there)
    for v in [&mut e.pre_plte, &mut e.pre_idat, &mut e.post_idat] {
        for i in (1..v.len()).rev() {
            let j = rng.below(i as u64 + 1) as usize;
            v.swap(i, j);
        }
    }
    e
}

pub fn gen_strip(rng: &mut Rng, enc: &EncOpts) -> HStrip {
    let present: Vec<[u8; 4]> = enc.pre_plte.iter().chain(&enc.pre_idat).chain(&enc.post_idat).map(|c| c.0).collect();
    let pick = |rng: &mut Rng| -> Vec<[u8; 4]> {
        let mut v: Vec<[u8; 4]> = present.iter().filter(|_| rng.bool()).copied().collect();
        if rng.chance(1, 3) { v.push(*b"sRGB"); }
        v.sort(); v.dedup(); v
    };
    match rng.below(7) {
        0 => HStrip::Safe,
        1 => HStrip::All,
        2 => HStrip::Strip(pick(rng)),
        3 => {
            // a third of the keep lists also name everything the manual's word "display" stands for
            let mut v = pick(rng);
            if rng.chance(1, 3) {
                v.extend([*b"cICP", *b"iCCP", *b"sRGB", *b"pHYs", *b"acTL", *b"fcTL", *b"fdAT"]);
                v.sort(); v.dedup();
            }
            HStrip::Keep(v)
        }
        _ => HStrip::None,
    }
}

const AFTER_PLTE_GROUP: [&[u8; 4]; 4] = [b"bKGD", b"hIST", b"tRNS", b"fcTL"];
const CRITICAL: [&[u8; 4]; 7] = [b"IHDR", b"PLTE", b"tRNS", b"IDAT", b"IEND", b"fcTL", b"fdAT"];

/// C07 predicate on (input chunks, policy, output chunks)
fn judge_c07(case: &Case, inp: &Decoded, out: &Decoded, st: &mut Stats) {
    let replay = case.replay_json();
    let keeps = |n: &[u8; 4]| spec_keeps(&case.opts.strip, n);
    let is_aux = |c: &RChunk| !CRITICAL.contains(&&c.name) && &c.name != b"acTL";
    let in_first_idat = inp.chunks.iter().position(|c| &c.name == b"IDAT").unwrap();
    let out_first_idat = out.chunks.iter().position(|c| &c.name == b"IDAT").unwrap();
    let header_changed = inp.img.ct != out.img.ct || inp.img.depth != out.img.depth || inp.img.palette != out.img.palette;
    let gray_changed = (inp.img.ct == 0 || inp.img.ct == 4) != (out.img.ct == 0 || out.img.ct == 4);
    // expected list of kept chunks, in input order, with their side of IDAT
    let mut expected: Vec<(&RChunk, bool)> = vec![];
    for (i, c) in inp.chunks.iter().enumerate() {
        if !is_aux(c) { continue; }
        if !keeps(&c.name) { continue; }
        if &c.name == b"caBX" && spec_is_c2pa(&c.data) { continue; }
        if header_changed && matches!(&c.name, b"bKGD" | b"sBIT" | b"hIST") { continue; }
        if gray_changed && matches!(&c.name, b"sRGB" | b"iCCP") { continue; }
        expected.push((c, i < in_first_idat));
    }
    let actual: Vec<(&RChunk, bool)> = out.chunks.iter().enumerate().filter(|(_, c)| is_aux(c)).map(|(i, c)| (c, i < out_first_idat)).collect();
    // match up, allowing the documented ICC replacement / recompression
    let may_replace_icc = case.opts.strip != HStrip::None && keeps(b"sRGB");
    let same = |e: &RChunk, a: &RChunk| -> bool {
        if e.name == a.name && e.data == a.data { return true; }
        if &e.name == b"iCCP" && &a.name == b"iCCP" {
            let prof = |c: &RChunk| c.data.iter().position(|b| *b == 0).and_then(|k| c.data.get(k + 2..)).and_then(|z| inflate(z).ok());
            return prof(e).is_some() && prof(e) == prof(a);
        }
        // "replaced as in C14": only when stripping is enabled and sRGB chunks are kept (the intent byte is C14's)
        // (a file that already has an sRGB chunk gets no second one: there the profile is dropped, not replaced)
        if &e.name == b"iCCP" && &a.name == b"sRGB" { return may_replace_icc && !inp.chunks.iter().any(|c| &c.name == b"sRGB"); }
        false
    };
    // multiset comparison (each expected exactly once, nothing else)
    let mut used = vec![false; actual.len()];
    let mut matched: Vec<*const RChunk> = vec![];
    for (e, side) in &expected {
        let hit = actual.iter().enumerate().position(|(k, (a, aside))| !used[k] && same(e, a) && aside == side);
        match hit {
            Some(k) => { used[k] = true; matched.push(*e as *const RChunk); }
            None => {
                // an iCCP may be dropped in favour of an existing sRGB (C14)
                if &e.name == b"iCCP" && may_replace_icc && inp.chunks.iter().any(|c| &c.name == b"sRGB") { continue; }
                let wrong_side = actual.iter().any(|(a, _)| same(e, a));
                st.fail(if wrong_side { "chunk-wrong-side" } else { "chunk-lost" },
                    format!("kept chunk {} ({} bytes) {} in the output", name_str(&e.name), e.data.len(), if wrong_side { "is on the other side of IDAT" } else { "is missing" }), replay.clone());
                return;
            }
        }
    }
    for (k, (a, _)) in actual.iter().enumerate() {
        if !used[k] {
            let stripped = !keeps(&a.name) && inp.chunks.iter().any(|c| c.name == a.name);
            st.fail(if stripped { "chunk-not-stripped" } else { "chunk-invented" },
                format!("output has chunk {} ({} bytes) that the policy {}", name_str(&a.name), a.data.len(), if stripped { "strips" } else { "does not account for" }), replay.clone());
            return;
        }
    }
    // relative order of the kept chunks
    // (only the chunks that were matched up: an iCCP that legitimately went in favour of an sRGB the file already had is
    // not part of the order)
    let is_matched = |e: &RChunk| matched.iter().any(|m| std::ptr::eq(*m, e as *const RChunk));
    let names_e: Vec<&RChunk> = expected.iter().map(|x| x.0).filter(|e| is_matched(e)).collect();
    let names_a: Vec<&RChunk> = actual.iter().map(|x| x.0).collect();
    let order_ok = names_e.len() == names_a.len() && names_e.iter().zip(&names_a).all(|(e, a)| same(e, a));
    if !order_ok {
        // is the reordering explained by the after-PLTE group being emitted last before IDAT?
        let key = |c: &RChunk| AFTER_PLTE_GROUP.contains(&&c.name);
        let mut regroup: Vec<&RChunk> = vec![];
        let pre: Vec<&RChunk> = expected.iter().filter(|x| x.1).map(|x| x.0).collect();
        regroup.extend(pre.iter().filter(|c| !key(c)));
        regroup.extend(pre.iter().filter(|c| key(c)));
        regroup.extend(expected.iter().filter(|x| !x.1).map(|x| x.0));
        let regroup: Vec<&RChunk> = regroup.into_iter().filter(|e| is_matched(e)).collect();
        let explained = regroup.len() == names_a.len() && regroup.iter().zip(&names_a).all(|(e, a)| same(e, a));
        st.fail(if explained { "order-after-plte-group" } else { "order" },
            format!("relative order of kept chunks changed: {:?} -> {:?}", names_e.iter().map(|c| name_str(&c.name)).collect::<Vec<_>>(), names_a.iter().map(|c| name_str(&c.name)).collect::<Vec<_>>()),
            replay);
    } else {
        st.count("order_preserved");
    }
}

/// C14 predicate
fn judge_c14(case: &Case, inp: &Decoded, out: &Decoded, st: &mut Stats) {
    let replay = case.replay_json();
    let keeps = |n: &[u8; 4]| spec_keeps(&case.opts.strip, n);
    let stripping = case.opts.strip != HStrip::None;
    let has = |d: &Decoded, n: &[u8; 4]| d.chunks.iter().any(|c| &c.name == n);
    let gray = |ct: u8| ct == 0 || ct == 4;
    let gray_changed = gray(inp.img.ct) != gray(out.img.ct);
    let profile = |d: &Decoded| d.chunks.iter().find(|c| &c.name == b"iCCP").and_then(|c| c.data.iter().position(|b| *b == 0).and_then(|k| c.data.get(k + 2..)).and_then(|z| inflate(z).ok()));
    if gray_changed {
        st.count("gray_changed");
        if has(out, b"sRGB") || has(out, b"iCCP") {
            st.fail("colourspace-after-gray-change", "image moved between grayscale and colour but an sRGB/iCCP chunk is left".into(), replay.clone());
        }
        if has(inp, b"iCCP") && keeps(b"iCCP") {
            // conversion with an embedded profile: allowed only if the profile was replaced/dropped as documented
            let recognised = profile(inp).and_then(|p| spec_srgb_intent(&p)).is_some();
            let may_replace = stripping && keeps(b"sRGB");
            if !(may_replace && (recognised || has(inp, b"sRGB"))) {
                st.fail("icc-gray-conversion", "image with a kept ICC profile was converted between grayscale and colour".into(), replay.clone());
            }
        }
        if has(inp, b"sRGB") && !has(inp, b"iCCP") && !stripping {
            st.fail("srgb-gray-conversion", "sRGB-tagged image converted although stripping is disabled".into(), replay.clone());
        }
    }
    if has(inp, b"iCCP") && keeps(b"iCCP") && !gray_changed {
        if has(out, b"iCCP") {
            st.count("icc_kept");
            if profile(inp).is_some() && profile(inp) != profile(out) {
                st.fail("icc-bytes-changed", "kept ICC profile does not inflate to the identical bytes".into(), replay.clone());
            }
        } else {
            st.count("icc_replaced_or_dropped");
            let may_replace = stripping && keeps(b"sRGB");
            let intent = profile(inp).and_then(|p| spec_srgb_intent(&p));
            if !may_replace {
                st.fail("icc-dropped", "ICC profile replaced or dropped although stripping is off or sRGB is not kept".into(), replay.clone());
            } else if !has(inp, b"sRGB") {
                match (intent, out.chunks.iter().find(|c| &c.name == b"sRGB")) {
                    (Some(i), Some(c)) if c.data == vec![i] => st.count("icc_to_srgb"),
                    (None, _) => st.fail("icc-dropped", "an unrecognised ICC profile was removed".into(), replay.clone()),
                    _ => st.fail("icc-intent", "sRGB chunk does not carry the profile's rendering intent".into(), replay.clone()),
                }
            }
        }
    }
}

/// C10 predicate
pub fn judge_c10(case: &Case, inp: &Decoded, out: &Decoded, st: &mut Stats) {
    let replay = case.replay_json();
    let keeps = |n: &[u8; 4]| spec_keeps(&case.opts.strip, n);
    if !(keeps(b"acTL") && keeps(b"fcTL") && keeps(b"fdAT")) {
        if !keeps(b"acTL") && !keeps(b"fcTL") && !keeps(b"fdAT") {
            st.count("animation_stripped");
            if out.actl.is_some() || !out.frames.is_empty() {
                st.fail("apng-strip", "animation chunks left although the policy strips them".into(), replay.clone());
            }
            let (pi, po) = (pixels_of(&inp.img), pixels_of(&out.img));
            let ok = if case.opts.optimize_alpha { pi.as_ref().zip(po.as_ref()).map_or(false, |(a, b)| a.len() == b.len() && a.iter().zip(b).all(|(x, y)| x[3] == y[3] && (x[3] == 0 || x == y))) } else { pi == po };
            if !ok && !case.opts.scale_16 {
                st.fail("apng-default-image", "stripped animation: result is not the default image".into(), replay);
            }
        }
        return;
    }
    st.count("animation_kept");
    if out.actl != inp.actl {
        st.fail("apng-actl", format!("acTL changed: {:?} -> {:?}", inp.actl, out.actl), replay.clone());
    }
    if out.frames.len() != inp.frames.len() {
        st.fail("apng-frame-count", format!("{} frames -> {}", inp.frames.len(), out.frames.len()), replay.clone());
        return;
    }
    if (out.img.ct, out.img.depth, out.img.il) != (inp.img.ct, inp.img.depth, inp.img.il) || out.img.palette != inp.img.palette {
        st.fail("apng-header", "colour type, bit depth, palette or interlacing of an animation changed".into(), replay.clone());
    }
    for (k, (a, b)) in inp.frames.iter().zip(&out.frames).enumerate() {
        let fields = |f: &RFrame| (f.w, f.h, f.x, f.y, f.delay_num, f.delay_den, f.dispose, f.blend, f.is_default_image);
        if fields(a) != fields(b) {
            st.fail("apng-fctl", format!("frame {} control fields changed", k), replay.clone());
        }
        if !a.is_default_image {
            let (fa, fb) = (decode_frame(inp, a), decode_frame(out, b));
            match (fa, fb) {
                (Ok(x), Ok(y)) => {
                    let (px, py) = (pixels_of(&x), pixels_of(&y));
                    let ok = if case.opts.optimize_alpha {
                        px.as_ref().zip(py.as_ref()).map_or(false, |(p, q)| p.len() == q.len() && p.iter().zip(q).all(|(u, v)| u[3] == v[3] && (u[3] == 0 || u == v)))
                    } else { px == py };
                    if !ok {
                        st.fail("apng-frame-pixels", format!("frame {} decodes to different pixels", k), replay.clone());
                    }
                    if b.data.len() > a.data.len() {
                        st.fail("apng-frame-larger", format!("frame {} data grew", k), replay.clone());
                    }
                }
                (Ok(_), Err(e)) => st.fail("apng-frame-undecodable", format!("frame {}: {}", k, e), replay.clone()),
                _ => {}
            }
        }
    }
    if out.violations.iter().any(|v| v.contains("sequence") || v.contains("acTL") || v.contains("fdAT") || v.contains("fcTL")) {
        st.fail("apng-numbering", format!("{:?}", out.violations), replay);
    }
}

pub fn oracle(ctx: &mut Ctx) {
    let prop = ctx.args.get(0).cloned().unwrap_or_else(|| "C07".into());
    let mut rng = Rng::new(ctx.seed ^ 0x3E7A);
    let mut st = Stats::default();
    let bin_dir: Option<std::path::PathBuf> = if crate::cli::binary_available() { Some(crate::cli::work_dir("meta-bin")) } else { None };
    for i in 0..ctx.n {
        let (mut img, info) = gen_himg(&mut rng, 10);
        if (prop == "C14" || prop == "C08") && rng.chance(1, 2) {
            // gray-valued colour images, so that a grayscale conversion is on the table
            let ct = *rng.choose(&[2u8, 6]);
            let (w, h) = gen_dims(&mut rng, 8);
            let (mut g, _) = gen_grid(&mut rng, ct, 8, w, h);
            let c = channels(ct);
            for p in g.samples.chunks_mut(c) { p[1] = p[0]; p[2] = p[0]; }
            if let Some(k) = g.trns.as_mut() { k[1] = k[0]; k[2] = k[0]; }
            img = g.pack(false);
        } else if prop == "C14" && rng.chance(1, 3) {
            // grayscale images with few distinct (gray, alpha) values, so that a palette is on the table
            let ct = *rng.choose(&[0u8, 4, 4]);
            let (w, h) = (rng.range(6, 40) as u32, rng.range(6, 40) as u32);
            let (mut g, _) = gen_grid(&mut rng, ct, 8, w, h);
            let c = channels(ct);
            let k = rng.range(2, 9) as usize;
            let vals: Vec<Vec<u16>> = (0..k).map(|_| (0..c).map(|_| rng.below(256) as u16).collect()).collect();
            let runs = rng.bool();
            let mut cur = 0usize;
            for p in g.samples.chunks_mut(c) {
                if !runs || rng.chance(1, 5) { cur = rng.below(k as u64) as usize; }
                p.copy_from_slice(&vals[cur]);
            }
            g.trns = None;
            img = g.pack(rng.chance(1, 4));
        }
        let animated = prop == "C10" || (prop == "C02" && rng.chance(1, 4));
        let mut enc = if animated { EncOpts::default() } else { gen_meta(&mut rng, &img, prop != "C10") };
        let input = if animated {
            let nf = rng.below(4) as usize;
            let default_in = rng.bool() || nf == 0;
            let parts = rng.range(1, 3) as usize;
            // animated files carry metadata too (placed where the specification allows it)
            let mut pre: Vec<([u8; 4], Vec<u8>)> = vec![];
            if rng.chance(1, 3) {
                pre.push((*b"bKGD", match img.ct { 3 => vec![0], 0 | 4 => vec![0, 1], _ => vec![0, 1, 0, 2, 0, 3] }));
            }
            if img.ct == 3 && rng.chance(1, 3) {
                pre.push((*b"hIST", vec![0; 2 * img.palette.len()]));
            }
            if rng.chance(1, 3) {
                pre.push((*b"pHYs", vec![0, 0, 0x0b, 0x13, 0, 0, 0x0b, 0x13, 1]));
            }
            if rng.chance(1, 4) {
                pre.push((*b"tEXt", b"Software\0x".to_vec()));
            }
            // colour-space metadata on an animation: the pre-pass that handles it runs before the one that
            // switches every transformation off for animations
            if prop == "C10" && rng.chance(1, 3) {
                match rng.below(5) {
                    0 => pre.push((*b"iCCP", make_iccp(&gen_profile(&mut rng, 0)))),
                    1 => { pre.push((*b"iCCP", make_iccp(&gen_profile(&mut rng, 1)))); pre.push((*b"sRGB", vec![1])); }
                    2 => pre.push((*b"sRGB", vec![0])),
                    // profiles the pre-pass cannot read: a stream that does not inflate, an unknown compression method, and a
                    // well-formed profile so compressible that it inflates to far more than a reader guessing the size
                    // from the compressed length allows for
                    3 => pre.push((*b"iCCP", match rng.below(3) {
                        0 => b"broken\0\0\x01\x02\x03".to_vec(),
                        1 => { let mut d = make_iccp(&gen_profile(&mut rng, 1)); d[4] = 1; d }
                        _ => make_iccp(&vec![0u8; 6000 + rng.below(3000) as usize]),
                    })),
                    _ => pre.push((*b"iCCP", make_iccp(&gen_profile(&mut rng, 1)))),
                }
                st.count("animated_with_colour_space_chunks");
            }
            encode_apng_with(&mut rng, &img, nf, default_in, parts, &pre)
        } else {
            img.encode_png(&mut rng, &enc)
        };
        let mut opts = gen_opts(&mut rng, Profile::Any, ctx.tier_thorough);
        opts.strip = if animated {
            match rng.below(7) { 0 | 1 => HStrip::Safe, 2 => HStrip::All, 3 => HStrip::Strip(vec![*b"acTL", *b"fcTL", *b"fdAT"]), _ => HStrip::None }
        } else { gen_strip(&mut rng, &enc) };
        if prop == "C14" || prop == "C08" { opts.scale_16 = false; }
        enc.fixed_filter = None;
        let case = Case { img: img.clone(), class: format!("{}{}", info.class, if animated { " apng" } else { "" }), enc, input, opts };
        st.count("cases");
        st.distinct_case(&[case.input.as_slice(), case.opts.show().as_bytes()].concat());
        let inp = match decode(&case.input) {
            Ok(d) if d.violations.is_empty() => d,
            Ok(d) => { st.count("generator_invalid_input"); st.notes.push(format!("{:?}", d.violations)); continue; }
            Err(e) => { st.count("generator_invalid_input"); st.notes.push(e); continue; }
        };
        let has_c2pa = inp.chunks.iter().any(|c| &c.name == b"caBX");
        // one case in eight through the executable instead (the same option values asked for on the command line, the
        // result taken from --stdout): the policy is the user's whichever door the file comes in by
        let mut case = case;
        let via_cli = if bin_dir.is_some() && rng.chance(1, 8) { crate::cli::run_case_via_binary(bin_dir.as_ref().unwrap(), &case.input, &case.opts, rng.next_u64()) } else { None };
        let out = match via_cli {
            Some(o) => { st.count("cases_through_the_executable"); case.class.push_str(" [through the executable, --stdout]"); o }
            None => run_case(&case.input, &case.opts),
        };
        if i < 2 { st.sample(format!("{} chunks={:?} opts: {}", case.class, inp.chunks.iter().map(|c| name_str(&c.name)).collect::<Vec<_>>(), case.opts.show())); }
        let bytes = match &out {
            Outcome::Panic => { st.fail("panic", "optimize_from_memory panicked".into(), case.replay_json()); continue; }
            Outcome::Err(e) => {
                if has_c2pa && case.opts.strip != HStrip::None && spec_keeps(&case.opts.strip, b"caBX") {
                    st.count("c2pa_refused");
                } else if has_c2pa {
                    st.fail("c2pa-rule", format!("call failed ({}) although the manifest is stripped or the policy is the default", e), case.replay_json());
                } else {
                    st.fail("error-on-valid", format!("failed on a valid file: {}", e), case.replay_json());
                }
                continue;
            }
            Outcome::Ok(b) => b,
        };
        if has_c2pa {
            if case.opts.strip != HStrip::None && spec_keeps(&case.opts.strip, b"caBX") {
                st.fail("c2pa-rule", "a policy that keeps the C2PA manifest did not make the call fail".into(), case.replay_json());
                continue;
            }
        }
        // (an unchanged file is still judged for C07: a chunk the policy strips must be gone whether or not the
        // image data could be improved)
        if bytes == &case.input { st.count("returned_input"); if prop != "C07" { continue; } }
        let dec = match decode(bytes) {
            Ok(d) => d,
            Err(e) => { st.fail("undecodable-output", e, case.replay_json()); continue; }
        };
        st.count("ok");
        if prop == "C07" && !animated && rng.chance(1, 3) {
            // second stage: the (now hardly improvable) output under another strip policy
            let mut o2 = case.opts.clone();
            o2.strip = gen_strip(&mut rng, &case.enc);
            o2.force = false;
            let case2 = Case { img: case.img.clone(), class: format!("{} stage2", case.class), enc: case.enc.clone(), input: bytes.clone(), opts: o2 };
            let keeps_c2pa = case2.opts.strip != HStrip::None && spec_keeps(&case2.opts.strip, b"caBX");
            if !(dec.chunks.iter().any(|c| &c.name == b"caBX") && keeps_c2pa) {
                match run_case(&case2.input, &case2.opts) {
                    Outcome::Ok(b2) => match decode(&b2) {
                        Ok(d2) => { st.count("stage2"); if b2 == case2.input { st.count("stage2_returned_input"); } judge_c07(&case2, &dec, &d2, &mut st); }
                        Err(e) => st.fail("undecodable-output", e, case2.replay_json()),
                    },
                    Outcome::Err(e) => st.fail("error-on-valid", format!("second stage failed: {}", e), case2.replay_json()),
                    Outcome::Panic => st.fail("panic", "second stage panicked".into(), case2.replay_json()),
                }
            }
        }
        match prop.as_str() {
            "C07" => judge_c07(&case, &inp, &dec, &mut st),
            "C14" => judge_c14(&case, &inp, &dec, &mut st),
            "C10" => judge_c10(&case, &inp, &dec, &mut st),
            // the switch predicates of C08 on files that carry colour-space metadata (the pre-pass derives
            // its own permissions from them: it may only take permissions away)
            "C08" => crate::e2e::judge("C08", &case, &Outcome::Ok(bytes.clone()), &mut st),
            "C02" => {
                if !dec.violations.is_empty() {
                    st.fail("invalid-output", format!("{:?}", dec.violations), case.replay_json());
                }
                if let Err(e) = png_crate_accepts(bytes) {
                    st.fail("png-crate-rejects", e, case.replay_json());
                }
            }
            _ => {}
        }
    }
    ctx.write_stats(&st);
}

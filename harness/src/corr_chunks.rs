//! C02 / C07 / C10 / C14: `output()`, `preprocess_chunks`, `postprocess_chunks`,
//! `srgb_rendering_intent`, C2PA detection, `key_chunks_size` — exact correspondence streams.

use crate::e2e::*;
use crate::front::{c2pa_chunk, make_iccp};
use crate::gen::*;
use crate::img::*;
use crate::rng::Rng;
use crate::util::*;
use crate::Ctx;
use oxipng::internal_tests as it;
use oxipng::verif::{self, Chunk, Frame};
use std::sync::Arc;

pub const KNOWN_SRGB_ID: [u8; 16] = [0x29, 0xf8, 0x3d, 0xde, 0xaf, 0xf2, 0x55, 0xae, 0x78, 0x42, 0xfa, 0xe4, 0xca, 0x83, 0x39, 0x0d];

/// ICC-like profile: `kind` 0 = recognised sRGB id, 1 = other id, 2 = zero id (not a known-bad CRC), 3 = short
/// the four profile IDs `srgb_rendering_intent` recognises (libpng's `png_sRGB_checks`)
pub const KNOWN_SRGB_IDS: [[u8; 16]; 4] = [
    KNOWN_SRGB_ID,
    [0xc9, 0x5b, 0xd6, 0x37, 0xe9, 0x5d, 0x8a, 0x3b, 0x0d, 0xf3, 0x8f, 0x99, 0xc1, 0x32, 0x03, 0x89],
    [0xfc, 0x66, 0x33, 0x78, 0x37, 0xe2, 0x88, 0x6b, 0xfd, 0x72, 0xe9, 0x83, 0x82, 0x28, 0xf1, 0xb8],
    [0x34, 0x56, 0x2a, 0xbf, 0x99, 0x4c, 0xcd, 0x06, 0x6d, 0x2c, 0x57, 0x21, 0xd0, 0xd6, 0x8c, 0x5d],
];
/// (CRC-32, length) of the three profiles without an ID that are recognised all the same
pub const KNOWN_BAD_PROFILES: [(u32, usize); 3] = [(0x5d51_29ce, 3024), (0x182e_a552, 3144), (0xf29e_526d, 3144)];

/// Make the last four bytes of `p` such that its CRC-32 is `target` (CRC-32 is linear: run the register backwards
/// from the target over four unknown bytes, then forwards from the prefix's register).
pub fn forge_crc32(p: &mut [u8], target: u32) {
    let table: Vec<u32> = (0..256u32)
        .map(|n| (0..8).fold(n, |c, _| if c & 1 != 0 { 0xEDB8_8320 ^ (c >> 1) } else { c >> 1 }))
        .collect();
    let n = p.len();
    let mut reg = 0xFFFF_FFFFu32;
    for b in &p[..n - 4] {
        reg = table[((reg ^ *b as u32) & 0xFF) as usize] ^ (reg >> 8);
    }
    let mut t = target ^ 0xFFFF_FFFF;
    let mut idx = [0usize; 4];
    for i in (0..4).rev() {
        let k = (0..256).find(|k| table[*k] >> 24 == t >> 24).unwrap();
        idx[i] = k;
        t = (t ^ table[k]) << 8;
    }
    for i in 0..4 {
        p[n - 4 + i] = (reg as u8) ^ idx[i] as u8;
        reg = (reg >> 8) ^ table[idx[i]];
    }
}

/// kinds: 0 = one of the four recognised IDs, 1 = random, 2 = no ID and an unknown CRC, 3 = too short for the
/// header, 6 = one of the three ID-less profiles recognised by (CRC, length) - same length and CRC, forged
pub fn gen_profile(rng: &mut Rng, kind: u64) -> Vec<u8> {
    if kind == 6 {
        let (crc, len) = KNOWN_BAD_PROFILES[rng.below(3) as usize];
        let mut p = rng.bytes(len);
        p[67] = rng.below(4) as u8;
        p[84..100].copy_from_slice(&[0; 16]);
        forge_crc32(&mut p, crc);
        if rng.chance(1, 6) {
            // the same but for one bit somewhere: not recognised
            let k = rng.below(len as u64) as usize;
            if !(84..100).contains(&k) { p[k] ^= 1; }
        }
        return p;
    }
    let plen = if kind == 3 { 60 } else if kind == 2 && rng.chance(1, 3) { *rng.choose(&[3024usize, 3144]) } else { 128 + rng.below(100) as usize };
    let mut p = rng.bytes(plen);
    if p.len() >= 100 {
        p[67] = rng.below(4) as u8;
        match kind {
            0 => p[84..100].copy_from_slice(&KNOWN_SRGB_IDS[rng.below(4) as usize]),
            2 => p[84..100].copy_from_slice(&[0; 16]),
            _ => {}
        }
    }
    p
}

pub fn gen_aux(rng: &mut Rng) -> Vec<([u8; 4], Vec<u8>)> {
    let mut v: Vec<([u8; 4], Vec<u8>)> = vec![];
    let pool: [(&[u8; 4], usize); 12] = [
        (b"gAMA", 4), (b"cHRM", 32), (b"sBIT", 3), (b"bKGD", 2), (b"hIST", 4), (b"pHYs", 9), (b"tEXt", 12),
        (b"tIME", 7), (b"prVt", 5), (b"zTXt", 10), (b"eXIf", 8), (b"sTER", 1),
    ];
    for (n, l) in pool.iter() {
        if rng.chance(1, 4) {
            v.push((**n, rng.bytes(*l)));
        }
    }
    if rng.chance(1, 3) {
        v.push((*b"sRGB", vec![rng.below(4) as u8]));
    }
    if rng.chance(1, 2) {
        let kind = rng.below(7);
        let d = match kind {
            4 => b"name\0\x01zz".to_vec(),            // unknown compression method
            5 => b"nonterminated".to_vec(),          // no terminator
            k => make_iccp(&gen_profile(rng, k)),
        };
        v.push((*b"iCCP", d));
    }
    if rng.chance(1, 8) {
        v.push((*b"acTL", vec![0, 0, 0, 1, 0, 0, 0, 0]));
    }
    // shuffle
    for i in (1..v.len()).rev() {
        let j = rng.below(i as u64 + 1) as usize;
        v.swap(i, j);
    }
    v
}

fn show_chunks(cs: &[Chunk]) -> String {
    if cs.is_empty() {
        return "-".into();
    }
    cs.iter().map(|c| format!("{}:{}", hex(&c.name), hex(&c.data))).collect::<Vec<_>>().join(",")
}

fn strip_str(s: &HStrip) -> String {
    let names = |v: &Vec<[u8; 4]>| v.iter().map(|n| String::from_utf8_lossy(n).to_string()).collect::<Vec<_>>().join(",");
    match s {
        HStrip::None => "none".into(),
        HStrip::Safe => "safe".into(),
        HStrip::All => "all".into(),
        HStrip::Strip(v) => format!("strip:{}", names(v)),
        HStrip::Keep(v) => format!("keep:{}", names(v)),
    }
}

pub fn gen_strip_meta(rng: &mut Rng) -> HStrip {
    match rng.below(8) {
        0 => HStrip::Safe,
        1 => HStrip::All,
        2 => HStrip::Strip(vec![*b"tEXt", *b"gAMA"]),
        3 => HStrip::Strip(vec![*b"sRGB"]),
        4 => HStrip::Keep(vec![*b"sRGB", *b"iCCP", *b"bKGD"]),
        5 => HStrip::Keep(vec![*b"iCCP"]),
        _ => HStrip::None,
    }
}

pub fn corr(ctx: &mut Ctx) {
    let mut rng = Rng::new(ctx.seed ^ 0xC4A5);
    let mut st = Stats::default();
    for i in 0..ctx.n {
        // ---- preprocess_chunks -----------------------------------------------------------
        let aux = gen_aux(&mut rng);
        let mut chunks: Vec<Chunk> = aux.iter().map(|(n, d)| Chunk { name: *n, data: d.clone() }).collect();
        let mut o = gen_opts(&mut rng, Profile::Any, false);
        o.strip = gen_strip_meta(&mut rng);
        if let Err(_) = o.deflate {
            o.deflate = Ok(8);
        }
        let mut ox = o.to_oxi();
        // parameters of the model: what the first iCCP inflates to, and what recompression yields
        let first_iccp = chunks.iter().find(|c| &c.name == b"iCCP").cloned();
        let icc: Option<Vec<u8>> = first_iccp.as_ref().and_then(|c| {
            let z = c.data.iter().position(|b| *b == 0).and_then(|k| c.data.get(k + 1..));
            match z {
                Some(rest) if !rest.is_empty() && rest[0] == 0 => {
                    let comp = &rest[1..];
                    miniz_oxide::inflate::decompress_to_vec_zlib_with_limit(comp, comp.len() * 2 + 1000).ok()
                }
                _ => None,
            }
        });
        let recomp: Option<Vec<u8>> = match (&icc, &first_iccp, o.deflate) {
            (Some(p), Some(c), Ok(level)) if c.data.len() >= 1 => it::deflate(p, level, Some(c.data.len() - 1)).ok(),
            _ => None,
        };
        let before = show_chunks(&chunks);
        let r = catch(|| {
            verif::preprocess_chunks(&mut chunks, &mut ox);
        });
        let ans = match r {
            None => "panic".to_string(),
            Some(()) => format!(
                "ok gray={} il={} bd={} ct={} pal={} {}",
                ox.grayscale_reduction as u8,
                match ox.interlace { None => "k".to_string(), Some(x) => (x as u8).to_string() },
                ox.bit_depth_reduction as u8,
                ox.color_type_reduction as u8,
                ox.palette_reduction as u8,
                show_chunks(&chunks)
            ),
        };
        let opt_hex = |v: &Option<Vec<u8>>| v.as_ref().map_or("x".to_string(), |b| hex(b));
        let req = format!(
            "preprocess {} {} {} {} {} {} {} {} {} {}",
            strip_str(&o.strip), o.idat_recoding as u8, o.grayscale_reduction as u8,
            match o.interlace { None => "k".to_string(), Some(x) => x.to_string() },
            o.bit_depth_reduction as u8, o.color_type_reduction as u8, o.palette_reduction as u8,
            opt_hex(&icc), opt_hex(&recomp), before
        );
        st.distinct_case(req.as_bytes());
        st.count("preprocess");
        if first_iccp.is_some() {
            st.count(match (&icc, chunks.iter().any(|c| &c.name == b"iCCP")) {
                (None, _) => "iccp_undecodable",
                (Some(_), true) => "iccp_kept",
                (Some(_), false) => "iccp_replaced_or_removed",
            });
        }
        if i < 2 {
            st.sample(format!("{} => {}", &req[..req.len().min(200)], &ans[..ans.len().min(100)]));
        }
        ctx.line(&req, &ans);

        // ---- postprocess_chunks ----------------------------------------------------------
        let (a, _) = gen_himg(&mut rng, 3);
        let (b, _) = if rng.chance(1, 3) { (a.clone(), GenInfo { class: String::new() }) } else { gen_himg(&mut rng, 3) };
        let mut cs: Vec<Chunk> = gen_aux(&mut rng).iter().map(|(n, d)| Chunk { name: *n, data: d.clone() }).collect();
        let before = show_chunks(&cs);
        let (ia, ib) = (a.to_oxi().ihdr, b.to_oxi().ihdr);
        let r = catch(|| verif::postprocess_chunks(&mut cs, &ia, &ib));
        ctx.line(
            &format!("postprocess {} {} {}", before, HImg { data: vec![], ..a.clone() }.to_line(), HImg { data: vec![], ..b.clone() }.to_line()),
            &r.map_or("panic".to_string(), |_| format!("ok {}", show_chunks(&cs))),
        );
        st.count("postprocess");

        // ---- output() --------------------------------------------------------------------
        let (img, _) = gen_himg(&mut rng, 4);
        let mut auxv: Vec<Chunk> = vec![];
        let pre = gen_aux(&mut rng);
        for (n, d) in pre.iter().take(4) {
            auxv.push(Chunk { name: *n, data: d.clone() });
        }
        let n_pre_fctl = if rng.chance(1, 4) { 1 } else { 0 };
        for _ in 0..n_pre_fctl {
            auxv.push(Chunk { name: *b"fcTL", data: rng.bytes(26) });
        }
        auxv.push(Chunk { name: *b"IDAT", data: vec![] });
        for (n, d) in gen_aux(&mut rng).iter().take(2) {
            auxv.push(Chunk { name: *n, data: d.clone() });
        }
        let frames: Vec<Frame> = (0..rng.below(3))
            .map(|_| Frame {
                width: rng.range(1, 9) as u32,
                height: rng.range(1, 9) as u32,
                x_offset: rng.below(5) as u32,
                y_offset: rng.below(5) as u32,
                delay_num: rng.below(1000) as u16,
                delay_den: rng.below(1000) as u16,
                dispose_op: rng.below(3) as u8,
                blend_op: rng.below(2) as u8,
                data: { let k = rng.below(12) as usize; rng.bytes(k) },
            })
            .collect();
        let idat = { let k = rng.range(1, 20) as usize; rng.bytes(k) };
        let pd = it::PngData { raw: Arc::new(img.to_oxi()), idat_data: idat.clone(), aux_chunks: auxv.clone(), frames: frames.clone() };
        let r = catch(|| pd.output());
        let fr = if frames.is_empty() { "-".to_string() } else {
            frames.iter().map(|f| format!("{}:{}:{}:{}:{}:{}:{}:{}:{}", f.width, f.height, f.x_offset, f.y_offset, f.delay_num, f.delay_den, f.dispose_op, f.blend_op, hex(&f.data))).collect::<Vec<_>>().join(",")
        };
        let req = format!("output {} {} {} {}", hex(&idat), show_chunks(&auxv), fr, HImg { data: vec![], ..img.clone() }.to_line());
        st.distinct_case(req.as_bytes());
        ctx.line(&req, &r.as_ref().map_or("panic".to_string(), |b| format!("ok {}", hex(b))));
        st.count("output");
        // key_chunks_size
        let pal: Vec<u8> = img.palette.iter().flatten().copied().collect();
        let trns: Vec<u8> = img.trns.as_ref().map(|t| t.iter().flat_map(|v| v.to_be_bytes()).collect()).unwrap_or_default();
        ctx.line(
            &format!("key_chunks_size {} {} {}", img.ct, hex(&pal), hex(&trns)),
            &format!("ok {}", img.to_oxi().key_chunks_size()),
        );

        // ---- srgb_rendering_intent / is_c2pa ---------------------------------------------
        let pk = *rng.choose(&[0u64, 1, 2, 3, 6, 0]);
        let p = gen_profile(&mut rng, pk);
        ctx.line(
            &format!("srgb_intent {}", hex(&p)),
            &match verif::srgb_rendering_intent(&p) { Some(i) => format!("ok {}", i), None => "ok none".into() },
        );
        let cab = match rng.below(5) {
            0 => c2pa_chunk(),
            1 => { let mut c = c2pa_chunk(); let k = rng.below(c.len() as u64) as usize; c[k] ^= 0x20; c }
            2 => { let mut c = c2pa_chunk(); c.truncate(rng.below(c.len() as u64) as usize); c }
            _ => rng.bytes(24),
        };
        let nmx = if rng.chance(3, 4) { *b"caBX" } else { *b"cabx" };
        ctx.line(
            &format!("is_c2pa {} {}", hex(&nmx), hex(&cab)),
            &format!("ok {}", verif::is_c2pa(nmx, &cab) as u8),
        );
        st.count("c2pa_probe");
    }
    ctx.write_stats(&st);
}

//! C16: termination under any pool shape. Runs the library under many pool shapes and call sites
//! with a watchdog, replays the spawn / start / end / collect events of every evaluator against the
//! Lean protocol model, and checks that the pool stays usable.

use crate::corr_eval::{install_tap, remove_tap};
use crate::e2e::*;
use crate::rng::Rng;
use crate::util::*;
use crate::Ctx;
use oxipng::verif::Event;
use rayon::prelude::*;
use std::collections::BTreeMap;
use std::sync::atomic::{AtomicBool, AtomicU64, Ordering::SeqCst};
use std::sync::Arc;

#[derive(Default)]
struct EvLog {
    tokens: Vec<String>,
    collector: Option<std::thread::ThreadId>,
    collecting: bool,
}

/// per-evaluator `sched_log` request lines from one event log
pub fn sched_lines(log: &[(std::thread::ThreadId, Event)], in_pool: bool) -> Vec<(String, String)> {
    let mut evals: BTreeMap<u64, EvLog> = BTreeMap::new();
    for (tid, e) in log {
        match e {
            Event::Submit { eval, .. } => evals.entry(*eval).or_default().tokens.push("S".into()),
            Event::CollectStart { eval, submitted } => {
                let l = evals.entry(*eval).or_default();
                l.tokens.push(format!("C:{}", submitted));
                l.collector = Some(*tid);
                l.collecting = true;
            }
            Event::JobStart { eval, nth } => {
                let l = evals.entry(*eval).or_default();
                let same = l.collecting && l.collector == Some(*tid);
                l.tokens.push(format!("B:{}:{}", nth, same as u8));
            }
            Event::JobEnd { eval, nth } => evals.entry(*eval).or_default().tokens.push(format!("E:{}", nth)),
            Event::CollectEnd { eval } => {
                let l = evals.entry(*eval).or_default();
                l.tokens.push("R".into());
                l.collecting = false;
            }
            _ => {}
        }
    }
    evals
        .into_iter()
        .filter(|(_, l)| !l.tokens.is_empty())
        .map(|(_, l)| {
            let n = l.tokens.iter().filter(|t| *t == "S").count();
            (format!("sched_log {} {}", in_pool as u8, l.tokens.join(";")), format!("ok returned jobs={}", n))
        })
        .collect()
}


/// One `nest_log` request for a whole event log: every evaluator (collector), evaluation job (forker)
/// and trial (pure) of every image, with the threads they ran on, as spawn / start / finish steps of the
/// nested fork-join model. Returns the request and the number of jobs.
pub fn nest_line(log: &[(std::thread::ThreadId, Event)]) -> Option<(String, usize)> {
    let mut threads: std::collections::HashMap<std::thread::ThreadId, usize> = Default::default();
    let mut ids: std::collections::HashMap<String, usize> = Default::default();
    let mut toks: Vec<String> = vec![];
    let mut tid_of = |t: &std::thread::ThreadId| -> usize {
        let n = threads.len();
        *threads.entry(*t).or_insert(n)
    };
    let mut id_of = |k: String| -> (usize, bool) {
        let n = ids.len();
        match ids.get(&k) {
            Some(v) => (*v, false),
            None => { ids.insert(k, n); (n, true) }
        }
    };
    for (tid, e) in log {
        let w = tid_of(tid);
        match e {
            Event::Submit { eval, nth, .. } => {
                let (c, fresh) = id_of(format!("c{}", eval));
                if fresh {
                    // the evaluator's owner starts its spawn-and-collect section here
                    toks.push(format!("Q:{}:-:c:{}", c, w));
                    toks.push(format!("S:{}:{}", c, w));
                }
                let (j, _) = id_of(format!("j{}:{}", eval, nth));
                toks.push(format!("Q:{}:{}:f:{}", j, c, w));
            }
            Event::JobStart { eval, nth } => {
                let (j, _) = id_of(format!("j{}:{}", eval, nth));
                toks.push(format!("S:{}:{}", j, w));
            }
            Event::TrialStart { eval, nth, filter } => {
                let (j, _) = id_of(format!("j{}:{}", eval, nth));
                let (t, _) = id_of(format!("t{}:{}:{}", eval, nth, *filter as u8));
                toks.push(format!("Q:{}:{}:p:{}", t, j, w));
                toks.push(format!("S:{}:{}", t, w));
            }
            Event::Finish { eval, nth, filter, .. } | Event::Skipped { eval, nth, filter } => {
                let (t, _) = id_of(format!("t{}:{}:{}", eval, nth, *filter as u8));
                toks.push(format!("F:{}:{}", t, w));
            }
            Event::JobEnd { eval, nth } => {
                let (j, _) = id_of(format!("j{}:{}", eval, nth));
                toks.push(format!("F:{}:{}", j, w));
            }
            Event::CollectEnd { eval } => {
                let (c, fresh) = id_of(format!("c{}", eval));
                if !fresh {
                    toks.push(format!("F:{}:{}", c, w));
                }
            }
            _ => {}
        }
    }
    if toks.is_empty() {
        return None;
    }
    let n = toks.iter().filter(|t| t.starts_with("Q:")).count();
    Some((format!("nest_log {}", toks.join(";")), n))
}

pub fn corr(ctx: &mut Ctx) {
    let mut rng = Rng::new(ctx.seed ^ 0x5C4ED);
    let mut st = Stats::default();
    // watchdog: a case that does not return within the limit is a hang
    let beat = Arc::new(AtomicU64::new(0));
    let done = Arc::new(AtomicBool::new(false));
    let current = Arc::new(std::sync::Mutex::new(String::new()));
    {
        let (beat, done, current) = (beat.clone(), done.clone(), current.clone());
        let stats_path = ctx.stats_path.clone();
        std::thread::spawn(move || {
            let mut last = 0u64;
            let mut stale = 0u32;
            while !done.load(SeqCst) {
                std::thread::sleep(std::time::Duration::from_secs(1));
                let b = beat.load(SeqCst);
                if b == last { stale += 1 } else { stale = 0; last = b; }
                if stale >= 90 {
                    let mut s = Stats::default();
                    let cur = current.lock().unwrap().clone();
                    s.fail("hang", format!("no progress for 90 s (a call did not return) in case: {}", cur), format!("{{\"stream\": \"corr-sched\", \"case\": \"{}\"}}", cur));
                    if let Some(p) = &stats_path {
                        std::fs::write(p, s.to_json()).unwrap();
                    }
                    std::process::exit(0);
                }
            }
        });
    }
    for i in 0..ctx.n {
        let pool_size = *rng.choose(&[1usize, 1, 2, 3, 4, 8, 16]);
        let n_images = *rng.choose(&[1usize, 2, 3, 5, 8, 17, 64]);
        let shape = rng.below(4); // 0: inside a pool worker; 1: nested par_iter in the pool; 2: plain threads on the global pool; 3: plain thread
        let delay = *rng.choose(&[0u64, 0, 100, 800]);
        let cases: Vec<Case> = (0..n_images)
            .map(|_| {
                // some of the images are animated: their frames are recompressed in parallel inside the call
                if rng.chance(1, 5) {
                    let (mut c, _) = crate::corr_eval::apng_case_with(&mut rng, false);
                    c.opts.force = true;
                    if let Err(_) = c.opts.deflate { c.opts.deflate = Ok(6); }
                    return c;
                }
                // some are small files of many colours: a truecolour ramp that compresses to a few hundred bytes although
                // its palette alone (up to 780 bytes of PLTE) is bigger than the whole file - a candidate that cannot win
                if rng.chance(1, 6) {
                    use crate::img::*;
                    let ct = *rng.choose(&[2u8, 6]);
                    let ncol = rng.range(200, 256) as u32;
                    let (w, h) = (ncol, rng.range(1, 6) as u32);
                    let c = channels(ct);
                    let mut samples = Vec::with_capacity((w * h) as usize * c);
                    for _y in 0..h {
                        for x in 0..w {
                            samples.extend([x as u16 % 256, (x / 2) as u16, 255 - (x as u16 % 256)]);
                            if ct == 6 { samples.push(255); }
                        }
                    }
                    let img = Grid { w, h, ct, depth: 8, palette: vec![], trns: None, samples }.pack(false);
                    let enc = EncOpts { level: 9, idat_parts: 1, fixed_filter: Some(1), ..Default::default() };
                    let input = img.encode_png(&mut rng, &enc);
                    let mut opts = gen_opts(&mut rng, Profile::Lossless, false);
                    opts.fast_evaluation = rng.chance(1, 4);
                    opts.force = false;
                    opts.color_type_reduction = true;
                    opts.palette_reduction = true;
                    opts.bit_depth_reduction = true;
                    if let Err(_) = opts.deflate { opts.deflate = Ok(8); }
                    return Case { img, class: "small-file-many-colours".into(), enc, input, opts };
                }
                let mut c = gen_case(&mut rng, Profile::Any, false, 8);
                if rng.chance(1, 3) { c.opts.fast_evaluation = false; }
                if let Err(_) = c.opts.deflate { c.opts.deflate = Ok(6); }
                c
            })
            .collect();
        // a third of the cases run against a deadline that is first seen expired at the k-th consultation
        let expire_at: Option<u64> = if rng.chance(1, 3) { Some(*rng.choose(&[0u64, 0, 1, 2, 3, 5, 8, 13, 30])) } else { None };
        *current.lock().unwrap() = format!("seed {} index {} shape {} pool {} images {} delay {} expire_at {:?}", ctx.seed, i, shape, pool_size, n_images, delay, expire_at);
        if expire_at.is_some() { st.count("cases_with_expiring_deadline"); }
        st.count(&format!("shape{}", shape));
        st.count(&format!("pool{}", pool_size));
        st.count("cases");
        st.add("images", n_images as u64);
        let log = install_tap(rng.next_u64(), delay);
        let pool = rayon::ThreadPoolBuilder::new().num_threads(pool_size).build().unwrap();
        if expire_at.is_some() { oxipng::verif::arm_deadline(expire_at); }
        let outs: Vec<bool> = match shape {
            0 => cases.iter().map(|c| pool.install(|| matches!(run_case(&c.input, &c.opts), Outcome::Ok(_)))).collect(),
            1 => pool.install(|| cases.par_iter().map(|c| matches!(run_case(&c.input, &c.opts), Outcome::Ok(_))).collect()),
            2 => {
                let handles: Vec<_> = cases.iter().map(|c| {
                    let (inp, o) = (c.input.clone(), c.opts.clone());
                    std::thread::spawn(move || matches!(run_case(&inp, &o), Outcome::Ok(_)))
                }).collect();
                handles.into_iter().map(|h| h.join().unwrap_or(false)).collect()
            }
            _ => cases.iter().map(|c| matches!(run_case(&c.input, &c.opts), Outcome::Ok(_))).collect(),
        };
        if expire_at.is_some() { st.add("deadline_consultations", oxipng::verif::disarm_deadline()); }
        beat.fetch_add(1, SeqCst);
        let main_events = log.lock().unwrap().len();
        // the pool remains usable for further calls
        let again = pool.install(|| matches!(run_case(&cases[0].input, &cases[0].opts), Outcome::Ok(_)));
        remove_tap();
        beat.fetch_add(1, SeqCst);
        if !again || outs.iter().any(|o| !o) {
            st.fail("not-ok", format!("a call failed or the pool was unusable afterwards ({})", current.lock().unwrap()), "{}".into());
        }
        let events = log.lock().unwrap().clone();
        st.add("events", events.len() as u64);
        let in_pool = shape <= 1;
        let mut lines = sched_lines(&events[..main_events], in_pool);
        lines.extend(sched_lines(&events[main_events..], true));
        // the whole log of the main phase as one execution of the nested fork-join model (collectors, evaluation
        // jobs and trials on the threads' stacks): every event must be an enabled step and nothing is left open
        if let Some((req, n)) = nest_line(&events[..main_events]) {
            st.count("nest_logs");
            st.add("nest_jobs", n as u64);
            if req.len() < 400_000 {
                ctx.line(&req, &format!("ok jobs={} unfinished=0", n));
            } else {
                st.count("nest_log_too_long_skipped");
            }
        }
        for (req, ans) in lines {
            // whether the collector is a pool worker differs per evaluator in shape 2/3 (external
            // callers never start jobs themselves: the model rejects a local start there)
            st.distinct_case(req.as_bytes());
            if i < 20 && st.samples.len() < 3 && req.len() > 40 {
                st.sample(format!("{} => {}", &req[..req.len().min(160)], ans));
            }
            st.count("evaluators");
            ctx.line(&req, &ans);
        }
    }
    // ---- load: many batches of tiny images through a nested parallel loop on eight workers, without taps or delays - the
    // shared size bound of an evaluator is then updated by several trials within nanoseconds of each other; every batch has
    // to come back (the watchdog above reports the one that does not) ---------------------------------------------------
    {
        use rayon::prelude::*;
        let pool = rayon::ThreadPoolBuilder::new().num_threads(8).build().unwrap();
        let imgs: Vec<Case> = (0..64).map(|_| {
            let mut c = gen_case(&mut rng, Profile::Lossless, false, 6);
            c.opts = HOpts::from_preset(2);
            c.opts.filter = (0..10u8).collect();
            c.opts.fast_evaluation = false;
            if let Ok(_) = c.opts.deflate { c.opts.deflate = Ok(6); }
            c
        }).collect();
        let batches = if ctx.tier_thorough { 6000 } else { 700 };
        let t0 = std::time::Instant::now();
        for b in 0..batches {
            *current.lock().unwrap() = format!("load batch {} of 64 small images, all ten filters, slow evaluation, nested parallel loop on a pool of 8 (seed {})", b, ctx.seed);
            beat.fetch_add(1, SeqCst);
            pool.install(|| imgs.par_iter().for_each(|c| { let _ = oxipng::optimize_from_memory(&c.input, &c.opts.to_oxi()); }));
            st.count("load_batches");
            if t0.elapsed().as_secs() > if ctx.tier_thorough { 240 } else { 25 } { break; }
        }
    }
    done.store(true, SeqCst);
    ctx.write_stats(&st);
}

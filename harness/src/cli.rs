//! C09: the real `oxipng` executable. Flag translation (dump hook vs the Lean model), output bytes
//! vs the library called with the dumped options, routing, stdout purity, exit status, recursion.

use crate::e2e::*;
use crate::front::c2pa_chunk;
use crate::img::*;
use crate::rng::Rng;
use crate::util::*;
use crate::Ctx;
use std::path::{Path, PathBuf};
use std::process::Command;

pub fn bin_path() -> PathBuf {
    Path::new(env!("CARGO_MANIFEST_DIR")).join("target-bin/release/oxipng")
}

/// the executable may be used by an oracle only when the check that started this process built it from /repo's
/// current tree (otherwise a stale one from an earlier run could be lying around)
pub fn binary_available() -> bool {
    std::env::var("OXIVERIF_BINARY_BUILT").map_or(false, |v| v == "1") && bin_path().exists()
}

/// the command line that asks for exactly these option values (none: not expressible - an empty filter or keep list)
pub fn opts_to_flags(o: &HOpts, variant: u64) -> Option<Vec<String>> {
    if o.filter.is_empty() { return None; }
    let mut a: Vec<String> = vec!["-o".into(), if o.fast_evaluation { "2".into() } else { "3".into() }];
    a.push("-f".into());
    a.push(o.filter.iter().map(|f| f.to_string()).collect::<Vec<_>>().join(","));
    match o.deflate {
        Ok(z) => { a.push("--zc".into()); a.push(z.to_string()); }
        Err(i) => { a.push("-Z".into()); a.push("--zi".into()); a.push(i.max(1).to_string()); }
    }
    a.push("-i".into());
    a.push(match o.interlace { None => "keep".into(), Some(m) => m.to_string() });
    // "everything off, keep the interlacing" has a spelling of its own (`--nx`), which goes with the single switches in
    // either order
    let all_off = !o.bit_depth_reduction && !o.color_type_reduction && !o.palette_reduction && !o.grayscale_reduction;
    let nx = all_off && o.interlace.is_none() && variant % 2 == 0;
    if nx {
        a.truncate(a.len() - 2); // no -i: --nx implies keep
        a.push("--nx".into());
        match (variant / 2) % 5 { 0 => {} 1 => a.push("--nb".into()), 2 => a.push("--nc".into()), 3 => a.push("--np".into()), _ => a.push("--ng".into()) }
    }
    for (on, flag) in [(o.optimize_alpha, "-a"), (o.scale_16, "--scale16"), (o.force, "--force"), (o.fix_errors, "--fix"),
        (!o.bit_depth_reduction && !nx, "--nb"), (!o.color_type_reduction && !nx, "--nc"), (!o.palette_reduction && !nx, "--np"),
        (!o.grayscale_reduction && !nx, "--ng"), (!o.idat_recoding, "--nz")] {
        if on { a.push(flag.into()); }
    }
    let names = |v: &Vec<[u8; 4]>| v.iter().map(|n| String::from_utf8_lossy(n).to_string()).collect::<Vec<_>>().join(",");
    match &o.strip {
        HStrip::None => {}
        HStrip::Safe => a.push("-s".into()),
        HStrip::All => { a.push("--strip".into()); a.push("all".into()); }
        HStrip::Strip(v) => { if v.is_empty() { return None; } a.push("--strip".into()); a.push(names(v)); }
        HStrip::Keep(v) => {
            if v.is_empty() { return None; }
            // a list that holds the whole display set is spelled with the manual's word for it - in front of, between or
            // behind the other names
            let display: [[u8; 4]; 7] = [*b"cICP", *b"iCCP", *b"sRGB", *b"pHYs", *b"acTL", *b"fcTL", *b"fdAT"];
            let list = if display.iter().all(|d| v.contains(d)) && variant % 3 != 0 {
                let mut parts: Vec<String> = v.iter().filter(|n| !display.contains(n)).map(|n| String::from_utf8_lossy(n).to_string()).collect();
                let at = ((variant / 3) as usize) % (parts.len() + 1);
                parts.insert(at, "display".into());
                parts.join(",")
            } else { names(v) };
            a.push("--keep".into());
            a.push(list);
        }
    }
    Some(a)
}

/// The same case through the executable (`--stdout`): `None` when these options cannot be asked for on the command line -
/// otherwise what it delivered.
pub static CLI_READS_DIFFERENTLY: std::sync::atomic::AtomicUsize = std::sync::atomic::AtomicUsize::new(0);

pub fn run_case_via_binary(dir: &Path, input: &[u8], o: &HOpts, variant: u64) -> Option<Outcome> {
    let mut args = opts_to_flags(o, variant)?;
    args.extend(["-q".into(), "--stdout".into(), "in.png".into()]);
    let _ = std::fs::create_dir_all(dir);
    std::fs::write(dir.join("in.png"), input).ok()?;
    let r = run_bin(dir, &args);
    let (_, parsed) = canon_dump(&r.dump)?;
    if parsed.show() != o.show() {
        if std::env::var("OXIVERIF_DEBUG_CLI").is_ok() { eprintln!("asked: {}\n  read: {}\n  args: {}", o.show(), parsed.show(), args.join(" ")); }
        // (not skipped: the user asked for these values in documented words - if the executable reads them as something
        // else and the property fails for what was asked, that is a failure of the property's promise to that user)
        CLI_READS_DIFFERENTLY.fetch_add(1, std::sync::atomic::Ordering::Relaxed);
    }
    Some(match r.status {
        Some(0) => Outcome::Ok(r.stdout),
        Some(_) => Outcome::Err("the executable reports failure".into()),
        None => Outcome::Panic,
    })
}

pub fn work_dir(tag: &str) -> PathBuf {
    let d = Path::new(env!("CARGO_MANIFEST_DIR")).join("../.work").join(format!("{}-{}", tag, std::process::id()));
    let _ = std::fs::remove_dir_all(&d);
    std::fs::create_dir_all(&d).unwrap();
    d
}

/// one generated flag vector: (model tokens, command-line arguments)
pub struct FlagVec {
    pub tokens: Vec<String>,
    pub args: Vec<String>,
}

pub fn gen_flags(rng: &mut Rng) -> FlagVec {
    let mut tokens: Vec<String> = vec![];
    let mut groups: Vec<Vec<String>> = vec![];
    let mut add = |tok: String, args: Vec<&str>| {
        tokens.push(tok);
        groups.push(args.iter().map(|s| s.to_string()).collect());
    };
    if rng.chance(2, 3) {
        let l = *rng.choose(&["0", "1", "2", "3", "4", "5", "6", "max"]);
        add(format!("o={}", l), vec!["-o", l]);
    }
    if rng.chance(1, 3) {
        let (tok, arg): (String, String) = match rng.below(4) {
            0 => { let a = rng.below(10); (format!("f={}", a), a.to_string()) }
            1 => { let a = rng.below(8); let b = a + 1 + rng.below(9 - a); ((a..=b).map(|x| x.to_string()).collect::<Vec<_>>().join(","), format!("{}-{}", a, b)) }
            2 => ("0,5,9".into(), "0,5,9".into()),
            _ => ("4,2".into(), "4,2".into()),
        };
        let tok = if tok.starts_with("f=") { tok } else { format!("f={}", tok) };
        tokens.push(tok);
        groups.push(vec!["-f".into(), arg]);
        return finish(rng, tokens, groups);
    }
    finish(rng, tokens, groups)
}

fn finish(rng: &mut Rng, mut tokens: Vec<String>, mut groups: Vec<Vec<String>>) -> FlagVec {
    let mut add = |tok: &str, args: Vec<String>| {
        tokens.push(tok.to_string());
        groups.push(args);
    };
    let flag = |rng: &mut Rng, p: u64| rng.chance(1, p);
    if flag(rng, 4) { add("a", vec!["-a".into()]); }
    if flag(rng, 8) { add("scale16", vec!["--scale16".into()]); }
    if flag(rng, 4) { add("fast", vec!["--fast".into()]); }
    if flag(rng, 4) { add("force", vec!["--force".into()]); }
    if flag(rng, 6) { add("fix", vec!["--fix".into()]); }
    if flag(rng, 5) { add("nb", vec!["--nb".into()]); }
    if flag(rng, 5) { add("nc", vec!["--nc".into()]); }
    if flag(rng, 5) { add("np", vec!["--np".into()]); }
    if flag(rng, 5) { add("ng", vec!["--ng".into()]); }
    if flag(rng, 5) { add("nx", vec!["--nx".into()]); }
    if flag(rng, 5) { add("nz", vec!["--nz".into()]); }
    if flag(rng, 3) {
        let v = *rng.choose(&["0", "1", "keep"]);
        add(&format!("i={}", v), vec!["-i".into(), v.into()]);
    }
    match rng.below(8) {
        0 => add("s", vec!["-s".into()]),
        1 => add("strip=safe", vec!["--strip".into(), "safe".into()]),
        2 => add("strip=all", vec!["--strip".into(), "all".into()]),
        3 => add("strip=tEXt,bKGD", vec!["--strip".into(), "tEXt,bKGD".into()]),
        4 => add("keep=eXIf,display", vec!["--keep".into(), "eXIf,display".into()]),
        5 => add("keep=bKGD,tEXt", vec!["--keep".into(), "bKGD,tEXt".into()]),
        _ => {}
    }
    if flag(rng, 12) {
        let zi = rng.range(1, 3);
        add("Z", vec!["-Z".into()]);
        add(&format!("zi={}", zi), vec!["--zi".into(), zi.to_string()]);
    } else if flag(rng, 3) {
        let z = rng.below(13);
        add(&format!("zc={}", z), vec!["--zc".into(), z.to_string()]);
    }
    // order of the arguments is irrelevant: shuffle the groups
    for i in (1..groups.len()).rev() {
        let j = rng.below(i as u64 + 1) as usize;
        groups.swap(i, j);
    }
    FlagVec { tokens, args: groups.into_iter().flatten().collect() }
}

/// canonical rendering of the `{opts:?}` dump, same format as the Lean driver's
pub fn canon_dump(dump: &str) -> Option<(String, HOpts)> {
    let line = dump.lines().find(|l| l.starts_with("Options {"))?;
    let field = |name: &str| -> Option<&str> {
        let k = format!("{}: ", name);
        let at = line.find(&k)? + k.len();
        Some(&line[at..])
    };
    let b = |name: &str| -> Option<bool> { Some(field(name)?.starts_with("true")) };
    let filt = field("filter")?;
    let filt = &filt[1..filt.find('}')?];
    let fnum = |s: &str| -> Option<u8> {
        Some(match s.trim() {
            "None" => 0, "Sub" => 1, "Up" => 2, "Average" => 3, "Paeth" => 4, "MinSum" => 5, "Entropy" => 6,
            "Bigrams" => 7, "BigEnt" => 8, "Brute" => 9, _ => return None,
        })
    };
    let mut filters: Vec<u8> = filt.split(',').filter(|s| !s.trim().is_empty()).map(fnum).collect::<Option<Vec<_>>>()?;
    let il = field("interlace")?;
    let interlace = if il.starts_with("None") { None } else if il.starts_with("Some(None)") { Some(0) } else { Some(1) };
    let st = field("strip")?;
    let names = |s: &str| -> Vec<[u8; 4]> {
        // `{[98, 75, 71, 68], [99, ...]}`
        let inner = &s[s.find('{').unwrap() + 1..s.find('}').unwrap()];
        let mut out = vec![];
        for part in inner.split(']') {
            let nums: Vec<u8> = part.chars().filter(|c| c.is_ascii_digit() || *c == ',').collect::<String>().split(',').filter(|x| !x.is_empty()).filter_map(|x| x.parse().ok()).collect();
            if nums.len() == 4 {
                out.push([nums[0], nums[1], nums[2], nums[3]]);
            }
        }
        out
    };
    let strip = if st.starts_with("None") { HStrip::None } else if st.starts_with("Safe") { HStrip::Safe } else if st.starts_with("All") { HStrip::All }
        else if st.starts_with("Strip") { HStrip::Strip(names(st)) } else { HStrip::Keep(names(st)) };
    let df = field("deflate")?;
    let num_after = |s: &str, key: &str| -> Option<u8> {
        let at = s.find(key)? + key.len();
        s[at..].chars().take_while(|c| c.is_ascii_digit()).collect::<String>().parse().ok()
    };
    let deflate = if df.starts_with("Libdeflater") { Ok(num_after(df, "compression: ")?) } else { Err(num_after(df, "iterations: ")?) };
    let to = field("timeout")?;
    let timeout = if to.starts_with("None") { "-".to_string() } else { to["Some(".len()..].chars().take_while(|c| c.is_ascii_digit()).collect() };
    let o = HOpts {
        fix_errors: b("fix_errors")?, force: b("force")?, filter: filters.clone(), interlace,
        optimize_alpha: b("optimize_alpha")?, bit_depth_reduction: b("bit_depth_reduction")?,
        color_type_reduction: b("color_type_reduction")?, palette_reduction: b("palette_reduction")?,
        grayscale_reduction: b("grayscale_reduction")?, idat_recoding: b("idat_recoding")?, scale_16: b("scale_16")?,
        strip: strip.clone(), deflate, fast_evaluation: b("fast_evaluation")?,
    };
    filters.sort();
    let sorted_names = |v: &Vec<[u8; 4]>| { let mut s: Vec<String> = v.iter().map(|n| String::from_utf8_lossy(n).to_string()).collect(); s.sort(); s.join(",") };
    let s = format!(
        "fix={} force={} filter=[{}] il={} alpha={} bd={} ct={} pal={} gray={} recode={} scale16={} strip={} deflate={} fast={} timeout={}",
        o.fix_errors as u8, o.force as u8, filters.iter().map(|x| x.to_string()).collect::<Vec<_>>().join(","),
        match interlace { None => "keep".to_string(), Some(i) => i.to_string() },
        o.optimize_alpha as u8, o.bit_depth_reduction as u8, o.color_type_reduction as u8, o.palette_reduction as u8,
        o.grayscale_reduction as u8, o.idat_recoding as u8, o.scale_16 as u8,
        match &strip { HStrip::None => "none".to_string(), HStrip::Safe => "safe".to_string(), HStrip::All => "all".to_string(),
            HStrip::Strip(v) => format!("strip:{}", sorted_names(v)), HStrip::Keep(v) => format!("keep:{}", sorted_names(v)) },
        match deflate { Ok(c) => format!("zc{}", c), Err(i) => format!("zopfli{}", i) },
        o.fast_evaluation as u8, timeout
    );
    Some((s, o))
}

pub struct RunOut {
    pub status: Option<i32>,
    pub stdout: Vec<u8>,
    pub dump: String,
}

/// how long the executable gets for one run before it is killed (its exit status is then `None`, like a death by signal):
/// a run that never ends must end the check with a report, not hang it
pub const BIN_TIMEOUT_S: u64 = 60;
pub static BIN_TIMEOUTS: std::sync::atomic::AtomicUsize = std::sync::atomic::AtomicUsize::new(0);

fn wait_bounded(mut child: std::process::Child, input: Option<&[u8]>) -> (Option<i32>, Vec<u8>) {
    use std::io::{Read, Write};
    if let (Some(data), Some(mut si)) = (input, child.stdin.take()) {
        let data = data.to_vec();
        std::thread::spawn(move || { let _ = si.write_all(&data); });
    }
    let mut so = child.stdout.take();
    let reader = std::thread::spawn(move || { let mut v = vec![]; if let Some(s) = so.as_mut() { let _ = s.read_to_end(&mut v); } v });
    let t0 = std::time::Instant::now();
    let status = loop {
        match child.try_wait() {
            Ok(Some(st)) => break st.code(),
            Ok(None) => {
                if t0.elapsed().as_secs() >= BIN_TIMEOUT_S {
                    let _ = child.kill();
                    let _ = child.wait();
                    BIN_TIMEOUTS.fetch_add(1, std::sync::atomic::Ordering::Relaxed);
                    break None;
                }
                std::thread::sleep(std::time::Duration::from_millis(2));
            }
            Err(_) => break None,
        }
    };
    (status, reader.join().unwrap_or_default())
}

pub fn run_bin(dir: &Path, args: &[String]) -> RunOut {
    let dump = dir.join("dump.txt");
    let _ = std::fs::remove_file(&dump);
    let child = Command::new(bin_path())
        .args(args)
        .current_dir(dir)
        .env("OXIPNG_VERIF_DUMP", &dump)
        .env("RUST_LOG", "off")
        .stdin(std::process::Stdio::null())
        .stdout(std::process::Stdio::piped())
        .stderr(std::process::Stdio::null())
        .spawn()
        .expect("cannot run the oxipng binary (was it built by ./check?)");
    let (status, stdout) = wait_bounded(child, None);
    RunOut { status, stdout, dump: std::fs::read_to_string(&dump).unwrap_or_default() }
}

pub fn run_bin_stdin(dir: &Path, args: &[String], input: &[u8]) -> RunOut {
    let dump = dir.join("dump.txt");
    let _ = std::fs::remove_file(&dump);
    let child = Command::new(bin_path())
        .args(args)
        .current_dir(dir)
        .env("OXIPNG_VERIF_DUMP", &dump)
        .env("RUST_LOG", "off")
        .stdin(std::process::Stdio::piped())
        .stdout(std::process::Stdio::piped())
        .stderr(std::process::Stdio::null())
        .spawn()
        .expect("cannot run the oxipng binary");
    let (status, stdout) = wait_bounded(child, Some(input));
    RunOut { status, stdout, dump: std::fs::read_to_string(&dump).unwrap_or_default() }
}

pub fn corr(ctx: &mut Ctx) {
    let mut rng = Rng::new(ctx.seed ^ 0xC11);
    let mut st = Stats::default();
    let dir = work_dir("cli");
    let probe = gen_case(&mut rng, Profile::Any, false, 5);
    std::fs::write(dir.join("p.png"), &probe.input).unwrap();
    for i in 0..ctx.n {
        let fv = gen_flags(&mut rng);
        let mut args = fv.args.clone();
        args.push("-P".into());
        args.push("-q".into());
        args.push("p.png".into());
        let r = run_bin(&dir, &args);
        let ans = match canon_dump(&r.dump) {
            Some((s, _)) => format!("ok {}", s),
            None => "err".to_string(),
        };
        let req = format!("cli {}", fv.tokens.join(" "));
        st.distinct_case(req.as_bytes());
        st.count(if ans == "err" { "rejected" } else { "accepted" });
        if i < 3 {
            st.sample(format!("oxipng {} => {}", fv.args.join(" "), ans));
        }
        ctx.line(req.trim_end(), &ans);
    }
    // destination routing: `out_file` and the per-file step of collect_files, from the dump of the collected pairs
    for _ in 0..(ctx.n / 4).max(20) {
        let w = dir.join("route");
        let _ = std::fs::remove_dir_all(&w);
        std::fs::create_dir_all(&w).unwrap();
        std::fs::write(w.join("p.png"), &probe.input).unwrap();
        let pretend = rng.chance(1, 3);
        let preserve = rng.chance(1, 3);
        let (mut stdout, mut out, mut odir) = (false, "-".to_string(), "-".to_string());
        match rng.below(4) { 0 => {} 1 => out = "o.png".into(), 2 => odir = "outdir".into(), _ => stdout = true }
        let mut parts: Vec<Vec<String>> = vec![];
        if pretend { parts.push(vec![if rng.bool() { "--pretend".into() } else { "-P".into() }]); }
        if preserve { parts.push(vec![if rng.bool() { "--preserve".into() } else { "-p".into() }]); }
        if stdout { parts.push(vec!["--stdout".into()]); }
        if out != "-" { parts.push(vec!["--out".into(), out.clone()]); }
        if odir != "-" { parts.push(vec!["--dir".into(), odir.clone()]); }
        for a in (1..parts.len()).rev() { let b = rng.below(a as u64 + 1) as usize; parts.swap(a, b); }
        let mut args: Vec<String> = parts.into_iter().flatten().collect();
        args.push("-q".into());
        args.push("p.png".into());
        let r = run_bin(&w, &args);
        let ans = match r.dump.lines().find(|l| l.starts_with("files ")) {
            None => "err".to_string(),
            Some(l) => {
                // `files [(Path("p.png"), <OutFile debug>)]`
                let o = l.splitn(2, "), ").nth(1).unwrap_or("").trim_end_matches(")]");
                if o.starts_with("None") { "ok none".into() }
                else if o.starts_with("StdOut") { "ok stdout".into() }
                else if o.starts_with("Path") {
                    let path = if o.contains("path: None") { "-".to_string() } else { o.split('"').nth(1).unwrap_or("?").to_string() };
                    format!("ok path {} {}", path, o.contains("preserve_attrs: true") as u8)
                } else { format!("unparsed {}", o) }
            }
        };
        st.count("route_cases");
        ctx.line(&format!("cli_route {} {} {} {} {} p.png", pretend as u8, stdout as u8, out, odir, preserve as u8), &ans);
    }
    // forbidden / malformed strip and keep lists must be rejected
    for (tok, arg) in [("strip=IDAT", "IDAT"), ("strip=bKGD,PLTE", "bKGD,PLTE"), ("strip=safe,bKGD", "safe,bKGD"), ("strip=toolong", "toolong"), ("strip=tRNS", "tRNS")] {
        let r = run_bin(&dir, &["--strip".into(), arg.into(), "-P".into(), "-q".into(), "p.png".into()]);
        ctx.line(&format!("cli {}", tok), &match canon_dump(&r.dump) { Some((s, _)) => format!("ok {}", s), None => "err".into() });
        st.count("strip_rejections");
    }
    // exit-status folding and extension rule, as pure functions of the model
    for _ in 0..200 {
        let n = rng.below(5) as usize;
        let rs: Vec<&str> = (0..n).map(|_| *rng.choose(&["ok", "failed", "skipped"])).collect();
        let expect = if rs.contains(&"ok") { 0 } else if rs.contains(&"failed") { 1 } else { 3 };
        ctx.line(&format!("exit_status {}", if rs.is_empty() { "-".to_string() } else { rs.join(" ") }), &format!("ok {}", expect));
    }
    for name in ["a.png", "b.PNG", "c.apng", "d.ApNg", "e.jpg", "f", ".png", "g.png.txt", "h.txt.png", "i.", "..png"] {
        let p = Path::new(name);
        let ext = p.extension().map(|e| e.to_ascii_lowercase());
        let yes = ext == Some("png".into()) || ext == Some("apng".into());
        ctx.line(&format!("has_png_ext {}", name), &format!("ok {}", yes as u8));
    }
    let _ = std::fs::remove_dir_all(&dir);
    ctx.write_stats(&st);
}

fn lib_expected(input: &[u8], o: &HOpts) -> Option<Vec<u8>> {
    match run_case(input, o) {
        Outcome::Ok(b) => Some(b),
        _ => None,
    }
}

pub fn oracle(ctx: &mut Ctx) {
    let mut rng = Rng::new(ctx.seed ^ 0x0C09);
    let mut st = Stats::default();
    let dir = work_dir("clio");
    for i in 0..ctx.n {
        let _ = std::fs::remove_dir_all(dir.join("w"));
        let w = dir.join("w");
        std::fs::create_dir_all(&w).unwrap();
        let mut case = gen_case(&mut rng, Profile::Any, false, 9);
        let mut fv = gen_flags(&mut rng);
        // One case in eight sits in the corner the manual describes as "fully disable all optimization" (`--nx --nz`,
        // nothing else that changes a file), on an input whose mere re-serialisation is smaller (several IDAT chunks):
        // the executable still delivers what the library delivers for those option values.
        if rng.chance(1, 8) {
            let mut groups: Vec<Vec<String>> = vec![vec!["--nx".into()], vec!["--nz".into()]];
            let mut tokens: Vec<String> = vec!["nx".into(), "nz".into()];
            if rng.bool() { let l = *rng.choose(&["0", "2", "4"]); tokens.push(format!("o={}", l)); groups.push(vec!["-o".into(), l.into()]); }
            if rng.chance(1, 3) { tokens.push("a".into()); groups.push(vec!["-a".into()]); }
            for i in (1..groups.len()).rev() { let j = rng.below(i as u64 + 1) as usize; groups.swap(i, j); }
            fv = FlagVec { tokens, args: groups.into_iter().flatten().collect() };
            case.enc.idat_parts = rng.range(2, 5) as usize;
            case.input = case.img.encode_png(&mut rng, &case.enc);
            st.count("all_off_corner");
        }
        // One case in twelve is cut short (no decoder accepts it): the only file of the run fails, so the exit status is
        // 1 and nothing is delivered anywhere.
        let truncated = rng.chance(1, 12) && case.input.len() > 40;
        if truncated {
            let at = rng.range(34, case.input.len() as u64 - 2) as usize;
            case.input.truncate(at);
            st.count("truncated_inputs");
        }
        std::fs::write(w.join("in.png"), &case.input).unwrap();
        let route = rng.below(7);
        let stdin_dest = rng.below(3);
        let nested_dir = rng.bool();
        let dir_file = if nested_dir { "outdir/a/b/in.png" } else { "outdir/in.png" };
        let mut args = fv.args.clone();
        // a timeout that is never reached changes nothing (a day; the largest value the option takes)
        if rng.chance(1, 8) {
            args.push("--timeout".into());
            args.push((*rng.choose(&["86400", "18446744073709551615"])).into());
            st.count("never_expiring_timeout_flag");
        }
        // the pool size never changes the bytes; neither does talking more (the log goes to standard error: with
        // --stdout the stream still carries the file and nothing else)
        if rng.chance(1, 6) {
            args.push("--threads".into());
            args.push((*rng.choose(&["1", "2", "4"])).into());
            st.count("threads_flag");
        }
        if rng.chance(1, 8) { args.push("-v".into()); st.count("verbose_flag"); } else { args.push("-q".into()); }
        match route {
            6 => match stdin_dest {
                1 => { args.push("--out".into()); args.push("out.png".into()); }
                2 => args.push("--stdout".into()),
                _ => {}
            },
            0 => {}
            1 => { args.push("--out".into()); args.push("out.png".into()); }
            2 => { args.push("--dir".into()); args.push(if nested_dir { "outdir/a/b".into() } else { "outdir".into() }); }
            3 => args.push("--stdout".into()),
            4 => args.push("--pretend".into()),
            _ => {
                // --pretend wins over every destination option, in either order
                let dest: Vec<String> = match rng.below(3) {
                    0 => vec!["--dir".into(), "outdir".into()],
                    1 => vec!["--out".into(), "out.png".into()],
                    _ => vec!["--stdout".into()],
                };
                let p = if rng.bool() { "--pretend" } else { "-P" };
                if rng.bool() { args.push(p.into()); args.extend(dest); } else { args.extend(dest); args.push(p.into()); }
                if rng.chance(1, 3) { args.push("--preserve".into()); }
            }
        }
        args.push(if route == 6 { "-".into() } else { "in.png".into() });
        st.count(&format!("route{}", route));
        st.count("cases");
        st.distinct_case(&[case.input.as_slice(), args.join(" ").as_bytes()].concat());
        let r = if route == 6 { run_bin_stdin(&w, &args, &case.input) } else { run_bin(&w, &args) };
        let replay = format!("{{\"args\": {}, \"input_png_hex\": {}}}", jstr(&args.join(" ")), jstr(&hex(&case.input)));
        let Some((_, o)) = canon_dump(&r.dump) else {
            st.fail("no-dump", format!("binary rejected a documented flag vector: {}", args.join(" ")), replay);
            continue;
        };
        // the manual's preset table, read off MANUAL.txt ("-o <level>"), wherever no explicit option overrides it
        if let Some(level) = fv.tokens.iter().find_map(|t| t.strip_prefix("o=")) {
            let overridden = |p: &str| fv.tokens.iter().any(|t| t.starts_with(p));
            let table: &[(&str, u8, &[u8], bool)] = &[
                ("0", 5, &[], true), ("1", 10, &[], true), ("2", 11, &[0, 1, 6, 7], true), ("3", 11, &[0, 7, 8, 9], false),
                ("4", 12, &[0, 7, 8, 9], false), ("5", 12, &[0, 1, 2, 5, 6, 7, 8, 9], false),
                ("6", 12, &[0, 1, 2, 3, 4, 5, 6, 7, 8, 9], false), ("max", 12, &[0, 1, 2, 3, 4, 5, 6, 7, 8, 9], false),
            ];
            if let Some((_, zc, filters, fast)) = table.iter().find(|r| r.0 == level) {
                let mut wrong: Vec<String> = vec![];
                if !overridden("zc=") && !overridden("Z") && o.deflate != Ok(*zc) { wrong.push(format!("compression {:?}, the manual says --zc {}", o.deflate, zc)); }
                if !overridden("f=") && !filters.is_empty() {
                    let mut got = o.filter.clone(); got.sort();
                    if got != *filters { wrong.push(format!("filters {:?}, the manual says {:?}", got, filters)); }
                }
                if !overridden("fast") && o.fast_evaluation != *fast { wrong.push(format!("fast evaluation {}, the manual says {}", o.fast_evaluation, fast)); }
                if wrong.is_empty() { st.count("preset_table_ok"); } else {
                    st.fail("preset-table", format!("-o {} gives {} ({})", level, wrong.join("; "), args.join(" ")), replay.clone());
                }
            }
        }
        // the manual's meaning of the plain switches and of the strip / keep lists (MANUAL.txt), flag by flag
        {
            let has = |t: &str| fv.tokens.iter().any(|x| x == t);
            let nx = has("nx");
            let mut wrong: Vec<String> = vec![];
            let mut expect = |name: &str, got: bool, want: bool| { if got != want { wrong.push(format!("{} is {}, the manual says {}", name, got, want)); } };
            expect("force", o.force, has("force"));
            expect("fix_errors", o.fix_errors, has("fix"));
            expect("optimize_alpha", o.optimize_alpha, has("a"));
            expect("scale_16", o.scale_16, has("scale16"));
            expect("idat_recoding", o.idat_recoding, !has("nz"));
            expect("bit_depth_reduction", o.bit_depth_reduction, !(has("nb") || nx));
            expect("color_type_reduction", o.color_type_reduction, !(has("nc") || nx));
            expect("palette_reduction", o.palette_reduction, !(has("np") || nx));
            expect("grayscale_reduction", o.grayscale_reduction, !(has("ng") || nx));
            // -i, --zc / -Z --zi, -f, --fast: explicit values win over any preset
            let tok = |p: &str| fv.tokens.iter().find_map(|t| t.strip_prefix(p).map(|v| v.to_string()));
            let want_il = match tok("i=").as_deref() { Some("0") => Some(0u8), Some("1") => Some(1), Some("keep") => None, _ => if nx { None } else { Some(0) } };
            if o.interlace != want_il { wrong.push(format!("interlace is {:?}, the manual says {:?}", o.interlace, want_il)); }
            if has("Z") {
                let zi: u8 = tok("zi=").and_then(|v| v.parse().ok()).unwrap_or(15);
                if o.deflate != Err(zi) { wrong.push(format!("compressor is {:?}, the manual says Zopfli with {} iterations", o.deflate, zi)); }
            } else if let Some(z) = tok("zc=").and_then(|v| v.parse::<u8>().ok()) {
                if o.deflate != Ok(z) { wrong.push(format!("compressor is {:?}, the manual says libdeflate level {}", o.deflate, z)); }
            }
            if let Some(list) = tok("f=") {
                let mut want: Vec<u8> = list.split(',').filter_map(|x| x.parse().ok()).collect();
                want.sort(); want.dedup();
                let mut got = o.filter.clone(); got.sort();
                if got != want { wrong.push(format!("filters are {:?}, the manual says {:?}", got, want)); }
            }
            if has("fast") && !o.fast_evaluation { wrong.push("fast evaluation is off although --fast was given".into()); }
            let display: [&[u8; 4]; 7] = [b"cICP", b"iCCP", b"sRGB", b"pHYs", b"acTL", b"fcTL", b"fdAT"];
            let set = |v: &Vec<[u8; 4]>| { let mut s: Vec<[u8; 4]> = v.clone(); s.sort(); s.dedup(); s };
            let want_strip: Option<HStrip> = fv.tokens.iter().find_map(|t| {
                if t == "s" || t == "strip=safe" { Some(HStrip::Safe) }
                else if t == "strip=all" { Some(HStrip::All) }
                else if let Some(l) = t.strip_prefix("strip=") { Some(HStrip::Strip(l.split(',').map(|n| n.as_bytes().try_into().unwrap()).collect())) }
                else if let Some(l) = t.strip_prefix("keep=") {
                    let mut v: Vec<[u8; 4]> = vec![];
                    for n in l.split(',') { if n == "display" { v.extend(display.iter().map(|d| **d)); } else { v.push(n.as_bytes().try_into().unwrap()); } }
                    Some(HStrip::Keep(v))
                } else { None }
            });
            let same = match (&o.strip, want_strip.as_ref().unwrap_or(&HStrip::None)) {
                (HStrip::None, HStrip::None) | (HStrip::Safe, HStrip::Safe) | (HStrip::All, HStrip::All) => true,
                (HStrip::Strip(a), HStrip::Strip(b)) | (HStrip::Keep(a), HStrip::Keep(b)) => set(a) == set(b),
                _ => false,
            };
            if !same { wrong.push(format!("strip policy is {:?}, the manual says {:?}", o.strip, want_strip.unwrap_or(HStrip::None))); }
            if wrong.is_empty() { st.count("switches_as_manual"); } else {
                st.fail("flag-meaning", format!("{} ({})", wrong.join("; "), args.join(" ")), replay.clone());
            }
        }
        let Some(lib) = lib_expected(&case.input, &o) else {
            st.count("library_error");
            if truncated {
                let untouched = std::fs::read(w.join("in.png")).ok().as_ref() == Some(&case.input);
                if r.status != Some(1) {
                    st.fail("exit-status", format!("exit status {:?} although the only file of the run cannot be decoded: the manual says 1 ({})", r.status, args.join(" ")), replay);
                } else if !untouched || !r.stdout.is_empty() || w.join("out.png").exists() || w.join(dir_file).exists() {
                    st.fail("routing", format!("a file that cannot be decoded was delivered or modified ({})", args.join(" ")), replay);
                } else { st.count("failed_file_exit_1"); }
            }
            continue;
        };
        // what the library would deliver: strictly smaller or the input itself (unless forced)
        let after_in = std::fs::read(w.join("in.png")).unwrap_or_default();
        let improved = lib != case.input;
        if r.status != Some(0) {
            st.fail("exit-status", format!("exit status {:?} for a file that was processed successfully ({})", r.status, args.join(" ")), replay);
            continue;
        }
        let mut bad: Option<String> = None;
        match route {
            0 => {
                if after_in != lib { bad = Some("in-place result differs from the library's bytes for the same options".into()); }
            }
            1 => {
                if after_in != case.input { bad = Some("input modified although --out was given".into()); }
                else if std::fs::read(w.join("out.png")).ok().as_ref() != Some(&lib) { bad = Some("--out file differs from the library's bytes".into()); }
            }
            2 => {
                if after_in != case.input { bad = Some("input modified although --dir was given".into()); }
                else if std::fs::read(w.join(dir_file)).ok().as_ref() != Some(&lib) { bad = Some("--dir/<same name> differs from the library's bytes (or the directory was not created)".into()); }
            }
            3 => {
                if after_in != case.input { bad = Some("input modified although --stdout was given".into()); }
                else if r.stdout != lib { bad = Some(format!("standard output ({} bytes) is not exactly the library's bytes ({})", r.stdout.len(), lib.len())); }
            }
            6 => {
                // input on standard input: to --out when given, otherwise to standard output
                if stdin_dest == 1 {
                    if std::fs::read(w.join("out.png")).ok().as_ref() != Some(&lib) { bad = Some("stdin -> --out: the file differs from the library's bytes".into()); }
                    else if !r.stdout.is_empty() { bad = Some("stdin -> --out: something was written to standard output".into()); }
                } else if r.stdout != lib {
                    bad = Some(format!("stdin -> standard output: {} bytes arrived, the library's result has {}", r.stdout.len(), lib.len()));
                }
            }
            _ => {
                if after_in != case.input || !r.stdout.is_empty() { bad = Some("--pretend wrote something".into()); }
            }
        }
        if route != 3 && route != 6 && !r.stdout.is_empty() {
            bad = Some("something was written to standard output without --stdout".into());
        }
        // no file appears anywhere but at the destination
        let mut files: Vec<String> = vec![];
        let mut stack = vec![w.clone()];
        while let Some(d) = stack.pop() {
            for e in std::fs::read_dir(&d).into_iter().flatten().flatten() {
                let p = e.path();
                if p.is_dir() { stack.push(p); } else { files.push(p.strip_prefix(&w).unwrap().to_string_lossy().into_owned()); }
            }
        }
        files.retain(|f| f != "dump.txt"); // the option dump requested by this harness
        files.sort();
        let want: Vec<&str> = match route { 1 => vec!["in.png", "out.png"], 2 => vec!["in.png", dir_file], 6 if stdin_dest == 1 => vec!["in.png", "out.png"], _ => vec!["in.png"] };
        if bad.is_none() && files != want {
            bad = Some(format!("files after the run are {:?}, expected {:?}", files, want));
        }
        match bad {
            Some(m) => st.fail("routing", format!("{} ({})", m, args.join(" ")), replay),
            None => { st.count("routing_ok"); if improved { st.count("improved"); } }
        }
        if i < 2 { st.sample(format!("oxipng {}", args.join(" "))); }
    }
    // ---- standard input: `oxipng -` delivers on standard output (or where an option says), improvable or not ----
    for _ in 0..(ctx.n / 6).max(12) {
        let w = dir.join("w");
        let _ = std::fs::remove_dir_all(&w);
        std::fs::create_dir_all(&w).unwrap();
        let case = gen_case(&mut rng, Profile::Any, false, 9);
        let fv = gen_flags(&mut rng);
        // the options this flag vector means (dump of a pretend run)
        let mut probe = fv.args.clone();
        probe.extend(["-q".to_string(), "-P".to_string(), "-".to_string()]);
        let pr = run_bin_stdin(&w, &probe, &case.input);
        let Some((_, o)) = canon_dump(&pr.dump) else { st.count("stdin_flags_rejected"); continue; };
        let Some(lib0) = lib_expected(&case.input, &o) else { st.count("library_error"); continue; };
        // half of the time feed a file that these options cannot improve any more
        let input = if rng.bool() && !o.force { lib0.clone() } else { case.input.clone() };
        let Some(lib) = lib_expected(&input, &o) else { st.count("library_error"); continue; };
        if lib == input { st.count("stdin_not_improvable"); } else { st.count("stdin_improvable"); }
        let explicit = rng.below(3); // 0: nothing (implicit stdout), 1: --stdout, 2: --out file
        let mut args = fv.args.clone();
        args.push("-q".into());
        match explicit { 1 => args.push("--stdout".into()), 2 => { args.push("--out".into()); args.push("o.png".into()); } _ => {} }
        args.push("-".into());
        let r = run_bin_stdin(&w, &args, &input);
        let replay = format!("{{\"args\": {}, \"stdin_png_hex\": {}}}", jstr(&args.join(" ")), jstr(&hex(&input)));
        st.count("stdin_cases");
        if r.status != Some(0) {
            st.fail("exit-status", format!("exit status {:?} for standard input that was processed successfully ({})", r.status, args.join(" ")), replay);
            continue;
        }
        let delivered = if explicit == 2 { std::fs::read(w.join("o.png")).unwrap_or_default() } else { r.stdout.clone() };
        if delivered != lib {
            st.fail("routing", format!("standard input: {} bytes delivered, the library's result has {} ({})", delivered.len(), lib.len(), args.join(" ")), replay);
        } else if explicit == 2 && !r.stdout.is_empty() {
            st.fail("routing", format!("bytes on standard output although --out was given ({})", args.join(" ")), replay);
        } else {
            st.count("stdin_ok");
        }
    }
    // ---- exit status over file sets, and directory recursion ---------------------------------
    for round in 0..(ctx.n / 10).max(6) {
        let w = dir.join("w");
        let _ = std::fs::remove_dir_all(&w);
        std::fs::create_dir_all(w.join("tree/sub")).unwrap();
        let good = gen_case(&mut rng, Profile::Lossless, false, 6).input;
        let mut c2pa = EncOpts::default();
        c2pa.pre_idat.push((*b"caBX", c2pa_chunk()));
        let (img, _) = crate::gen::gen_himg(&mut rng, 4);
        let c2 = img.encode_png(&mut rng, &c2pa);
        let kinds = ["ok", "failed", "skipped"];
        let n = rng.below(7) as usize;
        let mut files = vec![];
        let mut results = vec![];
        for k in 0..n {
            let kind = *rng.choose(&kinds);
            let name = format!("f{}.png", k);
            let data = match kind { "ok" => good.clone(), "failed" => b"not a png at all".to_vec(), _ => c2.clone() };
            std::fs::write(w.join(&name), data).unwrap();
            files.push(name);
            results.push(kind);
        }
        // a C2PA file is skipped only under a policy that keeps the manifest
        // half of the rounds only pretend; the others deliver into a directory (two levels of which do not exist yet: "if
        // the directory does not exist, it will be created"), on a pool of one, two or four threads: every file of the run
        // is handled on its own - what one file's outcome is never decides whether another one is processed
        let deliver = round % 2 == 1;
        let mut args: Vec<String> = vec!["-q".into(), "--keep".into(), "caBX".into()];
        if deliver {
            args.extend(["--force".into(), "--dir".into(), "o/deep/er".into(), "--threads".into(), (*rng.choose(&["1", "2", "4"])).into()]);
        } else { args.push("--pretend".into()); }
        let expect;
        if files.is_empty() {
            // a directory without --recursive: nothing to do
            args.push("tree".into());
            expect = 3;
        } else {
            args.extend(files.iter().cloned());
            expect = if results.contains(&"ok") { 0 } else if results.contains(&"failed") { 1 } else { 3 };
        }
        let r = run_bin(&w, &args);
        st.count("exit_status_cases");
        if r.status != Some(expect) {
            st.fail("exit-status", format!("exit status {:?}, expected {} for results {:?}", r.status, expect, results),
                format!("{{\"args\": {}, \"results\": {}}}", jstr(&args.join(" ")), jstr(&format!("{:?}", results))));
        }
        if deliver && !files.is_empty() {
            st.count("multi_file_delivery_cases");
            let lib = canon_dump(&r.dump).and_then(|(_, o)| lib_expected(&good, &o));
            for (name, kind) in files.iter().zip(&results) {
                let got = std::fs::read(w.join("o/deep/er").join(name)).ok();
                let bad = match (*kind, &got, &lib) {
                    ("ok", None, _) => Some("a file that optimises fine was not delivered".to_string()),
                    ("ok", Some(g), Some(l)) if g != l => Some(format!("delivered {} bytes, the library's result has {}", g.len(), l.len())),
                    ("failed", Some(_), _) | ("skipped", Some(_), _) => Some(format!("a {} file was delivered", kind)),
                    _ => None,
                };
                if let Some(m) = bad {
                    st.fail("routing", format!("{}: {} (results {:?}; {})", name, m, results, args.join(" ")),
                        format!("{{\"args\": {}, \"results\": {}, \"good_png_hex\": {}, \"c2pa_png_hex\": {}}}", jstr(&args.join(" ")), jstr(&format!("{:?}", results)), jstr(&hex(&good)), jstr(&hex(&c2))));
                    break;
                }
            }
        }
        // recursion: which files are taken
        if round % 2 == 0 {
            for (p, d) in [("tree/a.png", &good), ("tree/b.PNG", &good), ("tree/c.apng", &good), ("tree/d.txt", &good), ("tree/sub/e.png", &good), ("tree/sub/f.jpeg", &good)] {
                std::fs::write(w.join(p), d).unwrap();
            }
            for recursive in [false, true] {
                let _ = std::fs::remove_dir_all(w.join("o"));
                let mut a: Vec<String> = vec!["-q".into(), "--force".into(), "--dir".into(), "o".into()];
                if recursive { a.push("-r".into()); }
                a.push("tree".into());
                let r = run_bin(&w, &a);
                let mut got: Vec<String> = std::fs::read_dir(w.join("o")).map(|d| d.filter_map(|e| e.ok()).map(|e| e.file_name().to_string_lossy().to_string()).collect()).unwrap_or_default();
                got.sort();
                let want: Vec<String> = if recursive { vec!["a.png".into(), "b.PNG".into(), "c.apng".into(), "e.png".into()] } else { vec![] };
                st.count("recursion_cases");
                if got != want || r.status != Some(if recursive { 0 } else { 3 }) {
                    st.fail("recursion", format!("recursive={}: files written {:?} (expected {:?}), exit {:?}", recursive, got, want, r.status),
                        format!("{{\"args\": {}}}", jstr(&a.join(" "))));
                }
            }
        }
    }
    let _ = std::fs::remove_dir_all(&dir);
    ctx.write_stats(&st);
}

//! C13: expiry first observed at the k-th deadline check, for every k up to the number of checks
//! an untimed run performs. Each run must stay in the lineage of the input (Lean closure) and
//! satisfy the fidelity / well-formedness / never-larger oracles.

use crate::corr_lineage::*;
use crate::e2e::*;
use crate::pngparse::decode;
use crate::rng::Rng;
use crate::util::*;
use crate::Ctx;
use oxipng::verif;

pub fn corr(ctx: &mut Ctx) {
    let mut rng = Rng::new(ctx.seed ^ 0xDEAD);
    let mut st = Stats::default();
    let pool = rayon::ThreadPoolBuilder::new().num_threads(1).build().unwrap();
    for i in 0..ctx.n {
        let mut case = gen_case(&mut rng, Profile::Any, false, 10);
        case.opts.scale_16 = false;
        if i % 3 == 1 {
            // with metadata whose layout depends on the colour type (kept: no stripping), so that a result
            // returned at any expiry position must have gone through the same chunk clean-up
            // (no sRGB / iCCP here: they switch grayscale conversion off inside the call, which the lineage
            // request's switches would have to mirror; colour-space chunks are C14's subject)
            let mut enc = crate::meta_oracle::gen_meta(&mut rng, &case.img, false);
            enc.fixed_filter = None;
            enc.pre_idat.retain(|c| &c.0 != b"caBX");
            case.input = case.img.encode_png(&mut rng, &enc);
            case.enc = enc;
            case.opts.strip = if rng.chance(2, 3) { HStrip::None } else { HStrip::Safe };
            st.count("cases_with_metadata");
        }
        if i % 4 == 0 {
            // all reductions on, several filters: many checks
            case.opts.bit_depth_reduction = true;
            case.opts.color_type_reduction = true;
            case.opts.palette_reduction = true;
            case.opts.grayscale_reduction = true;
        }
        let Ok(start) = decode(&case.input) else { continue };
        // count the checks of an untimed run (single worker thread: deterministic order)
        verif::arm_deadline(None);
        let _ = pool.install(|| run_case(&case.input, &case.opts));
        let total = verif::disarm_deadline();
        st.add("deadline_checks_untimed", total);
        st.count("cases");
        let ks: Vec<u64> = if total <= 24 || ctx.tier_thorough {
            (0..=total).collect()
        } else {
            let mut v: Vec<u64> = vec![0, 1, 2, total - 1, total];
            for _ in 0..12 {
                v.push(rng.below(total + 1));
            }
            v.sort();
            v.dedup();
            v
        };
        for k in ks {
            verif::arm_deadline(Some(k));
            let (out, mut observed) = pool.install(|| run_tapped(&case, 0, 0));
            let seen = verif::disarm_deadline();
            st.count("runs");
            if seen < k.min(total) {
                st.count("fewer_checks_than_k");
            }
            let c2 = Case {
                img: case.img.clone(),
                class: format!("{} expire_at={}", case.class, k),
                enc: case.enc.clone(),
                input: case.input.clone(),
                opts: case.opts.clone(),
            };
            // oracles: fidelity, well-formedness, never larger
            judge(if case.opts.optimize_alpha { "C03" } else { "C01" }, &c2, &out, &mut st);
            judge("C02", &c2, &out, &mut st);
            judge("C04", &c2, &out, &mut st);
            if let Outcome::Ok(bytes) = &out {
                if let Ok(d) = decode(bytes) {
                    if !observed.contains(&d.img) {
                        observed.push(d.img);
                    }
                }
                if k == 0 && bytes != &case.input && !case.opts.force {
                    // expiry before any work can only re-serialise the input
                    st.count("k0_changed_output");
                }
            }
            let req = lineage_request(&case, &start.img, &observed);
            st.distinct_case(format!("{} k={}", req, k).as_bytes());
            let want: String = std::iter::repeat('1').take(observed.len()).collect();
            ctx.line(&req, &format!("ok {}", want));
            if st.samples.len() < 3 && k == total / 2 && total > 4 {
                st.sample(format!("{} deadline checks untimed; expiry at k={}: {} images observed ({})", total, k, observed.len(), case.opts.show()));
            }
        }
    }
    // ---- animated inputs: "between any two ... frames" - the frames are recompressed after the main image, each
    // behind its own look at the clock; whatever k is, the output is an animation with the same frames ---------------
    for _ in 0..(ctx.n / 6).max(6) {
        let (mut case, _) = crate::corr_eval::apng_case_with(&mut rng, false);
        case.opts.scale_16 = false;
        if let Err(_) = case.opts.deflate { case.opts.deflate = Ok(8); }
        let Ok(start) = decode(&case.input) else { continue };
        verif::arm_deadline(None);
        let _ = pool.install(|| run_case(&case.input, &case.opts));
        let total = verif::disarm_deadline();
        st.count("animated_cases");
        st.add("deadline_checks_untimed", total);
        // every k on the one-thread pool (the frames look at the clock in index order: a prefix of them is recompressed)
        // and on a pool of two or four threads (they look at it in whatever order the workers get to them: any subset)
        for (k, threads) in (0..=total.min(40)).flat_map(|k| [(k, 1usize), (k, if k % 2 == 0 { 2 } else { 4 })]) {
            verif::arm_deadline(Some(k));
            let out = if threads == 1 { pool.install(|| run_case(&case.input, &case.opts)) } else {
                let p = rayon::ThreadPoolBuilder::new().num_threads(threads).build().unwrap();
                p.install(|| run_case(&case.input, &case.opts))
            };
            verif::disarm_deadline();
            st.count("animated_runs");
            if threads > 1 { st.count("animated_runs_on_several_threads"); }
            let c2 = Case { img: case.img.clone(), class: format!("{} expire_at={}", case.class, k), enc: case.enc.clone(), input: case.input.clone(), opts: case.opts.clone() };
            judge("C02", &c2, &out, &mut st);
            judge("C04", &c2, &out, &mut st);
            match &out {
                Outcome::Ok(bytes) => match decode(bytes) {
                    Ok(d) => crate::meta_oracle::judge_c10(&c2, &start, &d, &mut st),
                    Err(e) => st.fail("undecodable-output", format!("output of an animated input is not decodable at expiry position {}: {}", k, e), c2.replay_json()),
                },
                Outcome::Err(_) => st.count("animated_err"),
                Outcome::Panic => st.fail("panic", format!("panic at expiry position {}", k), c2.replay_json()),
            }
        }
    }
    // ---- the timeout option itself at the ends of its range: zero, a nanosecond, an hour, and values so large that
    // the deadline is never reached ("or never": the call behaves like an untimed one) -------------------------------
    for _ in 0..(ctx.n / 8).max(6) {
        let case = gen_case(&mut rng, Profile::Lossless, false, 8);
        let untimed = run_case(&case.input, &case.opts);
        for (label, d) in [
            ("0", std::time::Duration::ZERO),
            ("1ns", std::time::Duration::from_nanos(1)),
            ("1h", std::time::Duration::from_secs(3600)),
            ("i64::MAX s", std::time::Duration::from_secs(i64::MAX as u64)),
            ("u64::MAX s", std::time::Duration::from_secs(u64::MAX)),
            ("Duration::MAX", std::time::Duration::MAX),
        ] {
            let mut o = case.opts.to_oxi();
            o.timeout = Some(d);
            st.count("timeout_values");
            let out = match crate::util::catch(|| oxipng::optimize_from_memory(&case.input, &o)) {
                Some(Ok(v)) => Outcome::Ok(v),
                Some(Err(e)) => Outcome::Err(e.to_string()),
                None => Outcome::Panic,
            };
            let c2 = Case { img: case.img.clone(), class: format!("{} timeout={}", case.class, label), enc: case.enc.clone(), input: case.input.clone(), opts: case.opts.clone() };
            if let Outcome::Panic = out {
                st.fail("panic", format!("the call panics with timeout = {}", label), c2.replay_json());
                continue;
            }
            judge("C01", &c2, &out, &mut st);
            judge("C02", &c2, &out, &mut st);
            judge("C04", &c2, &out, &mut st);
            // a deadline that is never reached changes nothing
            if d >= std::time::Duration::from_secs(3600) {
                let same = match (&out, &untimed) { (Outcome::Ok(a), Outcome::Ok(b)) => a == b, (Outcome::Err(_), Outcome::Err(_)) => true, _ => false };
                if !same {
                    st.fail("never-expiring-timeout", format!("with timeout = {} the result differs from the untimed run", label), c2.replay_json());
                }
            }
        }
    }
    // ---- every expiry position through the FILE entry point (`oxipng::optimize`, which sets up its own deadline and has
    // its own early returns): a separate destination always receives a file, an in-place run leaves the input or something
    // smaller; whatever is there afterwards is judged like any other result ------------------------------------------
    {
        use oxipng::{InFile, OutFile};
        let fdir = crate::cli::work_dir("deadline-files");
        for _ in 0..(ctx.n / 8).max(6) {
            let case = gen_case(&mut rng, Profile::Lossless, false, 8);
            let inp = fdir.join("in.png");
            let outp = fdir.join("out.png");
            let o = case.opts.to_oxi();
            std::fs::write(&inp, &case.input).unwrap();
            let _ = std::fs::remove_file(&outp);
            verif::arm_deadline(None);
            let _ = pool.install(|| crate::util::catch(|| oxipng::optimize(&InFile::Path(inp.clone()), &OutFile::Path { path: Some(outp.clone()), preserve_attrs: false }, &o)));
            let total = verif::disarm_deadline();
            for k in 0..=total.min(30) {
                let in_place = k % 3 == 2;
                std::fs::write(&inp, &case.input).unwrap();
                let _ = std::fs::remove_file(&outp);
                let dest = if in_place { OutFile::Path { path: None, preserve_attrs: false } } else { OutFile::Path { path: Some(outp.clone()), preserve_attrs: false } };
                note_current(&case.replay_json());
                verif::arm_deadline(Some(k));
                let r = pool.install(|| crate::util::catch(|| oxipng::optimize(&InFile::Path(inp.clone()), &dest, &o)));
                verif::disarm_deadline();
                st.count("file_entry_point_runs");
                let c2 = Case { img: case.img.clone(), class: format!("{} file entry point, {} expire_at={}", case.class, if in_place { "in place" } else { "separate destination" }, k), enc: case.enc.clone(), input: case.input.clone(), opts: case.opts.clone() };
                match r {
                    None => { st.fail("panic", format!("optimize() panics at expiry position {}", k), c2.replay_json()); continue; }
                    Some(Err(e)) => { st.fail("expired-file-run", format!("optimize() fails on a valid file at expiry position {}: {}", k, e), c2.replay_json()); continue; }
                    Some(Ok(())) => {}
                }
                let delivered = std::fs::read(if in_place { &inp } else { &outp }).unwrap_or_default();
                if delivered.is_empty() {
                    st.fail("expired-file-run", format!("optimize() reports success and left no file at the destination (expiry position {})", k), c2.replay_json());
                    continue;
                }
                if !in_place && std::fs::read(&inp).ok().as_ref() != Some(&case.input) {
                    st.fail("expired-file-run", format!("the input file was modified although a separate destination was named (expiry position {})", k), c2.replay_json());
                }
                let out = Outcome::Ok(delivered);
                judge("C01", &c2, &out, &mut st);
                judge("C02", &c2, &out, &mut st);
                if !case.opts.force { judge("C04", &c2, &out, &mut st); }
            }
        }
        let _ = std::fs::remove_dir_all(&fdir);
    }
    // ---- "before any work" through the file entry point and the executable: `--timeout 0` on every route, standard
    // input included. Whatever the run decides not to do, what it delivers - in place, to --out, to standard output - is
    // a well-formed file with the input's pixels that is not larger, and it IS delivered. ------------------------------
    let dir = crate::cli::work_dir("deadline");
    for _ in 0..(ctx.n / 6).max(8) {
        let case = gen_case(&mut rng, Profile::Lossless, false, 8);
        let w = dir.join("w");
        let _ = std::fs::remove_dir_all(&w);
        std::fs::create_dir_all(&w).unwrap();
        std::fs::write(w.join("in.png"), &case.input).unwrap();
        let route = rng.below(5);
        let mut args: Vec<String> = vec!["--timeout".into(), "0".into(), "-q".into()];
        if case.opts.force { args.push("--force".into()); }
        if let Some(l) = [Some("0"), Some("2"), Some("4"), None][rng.below(4) as usize] { args.push("-o".into()); args.push(l.into()); }
        match route {
            0 => args.push("in.png".into()),
            1 => { args.extend(["--out".into(), "out.png".into(), "in.png".into()]); }
            2 => { args.extend(["--stdout".into(), "in.png".into()]); }
            3 => args.push("-".into()),
            _ => { args.extend(["--out".into(), "out.png".into(), "-".into()]); }
        }
        st.count(&format!("expired_at_start_route{}", route));
        let r = if route >= 3 { crate::cli::run_bin_stdin(&w, &args, &case.input) } else { crate::cli::run_bin(&w, &args) };
        let c2 = Case { img: case.img.clone(), class: format!("{} binary {}", case.class, args.join(" ")), enc: case.enc.clone(), input: case.input.clone(), opts: case.opts.clone() };
        if r.status != Some(0) {
            st.fail("expired-at-start", format!("exit status {:?} for a valid file ({})", r.status, args.join(" ")), c2.replay_json());
            continue;
        }
        let delivered: Vec<u8> = match route {
            0 => std::fs::read(w.join("in.png")).unwrap_or_default(),
            1 | 4 => std::fs::read(w.join("out.png")).unwrap_or_default(),
            _ => r.stdout.clone(),
        };
        if delivered.is_empty() {
            st.fail("expired-at-start", format!("the run reports success and delivered nothing ({})", args.join(" ")), c2.replay_json());
            continue;
        }
        let out = Outcome::Ok(delivered);
        let mut c3 = c2;
        // the executable's own defaults apply (metadata is kept: no strip flag is given)
        c3.opts = { let mut o = gen_opts(&mut Rng::new(1), Profile::Lossless, false); o.force = case.opts.force; o.strip = HStrip::None; o };
        judge("C01", &c3, &out, &mut st);
        judge("C02", &c3, &out, &mut st);
        if !case.opts.force { judge("C04", &c3, &out, &mut st); }
    }
    ctx.write_stats(&st);
}

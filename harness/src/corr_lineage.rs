//! C08 / C01 / C13: lineage reconstruction. Every image handed to an evaluator and the image that
//! is finally serialised must be reachable from the parsed input by operations the switches allow
//! (closure computed by the Lean model); the closure size is compared as an exact answer too.

use crate::corr_eval::{install_tap, remove_tap};
use crate::e2e::*;
use crate::img::*;
use crate::pngparse::decode;
use crate::rng::Rng;
use crate::util::*;
use crate::Ctx;
use oxipng::verif::Event;

pub fn switches(o: &HOpts) -> String {
    format!(
        "{}{}{}{}{}{}{}",
        o.bit_depth_reduction as u8,
        o.color_type_reduction as u8,
        o.palette_reduction as u8,
        o.grayscale_reduction as u8,
        o.optimize_alpha as u8,
        o.scale_16 as u8,
        match o.interlace {
            None => "k".to_string(),
            Some(i) => i.to_string(),
        }
    )
}

/// run one case with the tap on; returns (outcome, images submitted to evaluators)
pub fn run_tapped(case: &Case, delay: u64, seed: u64) -> (Outcome, Vec<HImg>) {
    let log = install_tap(seed, delay);
    let out = run_case(&case.input, &case.opts);
    remove_tap();
    let events = log.lock().unwrap().clone();
    let mut imgs: Vec<HImg> = vec![];
    for (_, e) in events {
        if let Event::Submit { image, .. } = e {
            let h = HImg::from_oxi(&image);
            if !imgs.contains(&h) {
                imgs.push(h);
            }
        }
    }
    (out, imgs)
}

/// request line + "all observed images are in the lineage" expectation
pub fn lineage_request(case: &Case, start: &HImg, observed: &[HImg]) -> String {
    let mut req = format!("lineage {} 12 {}", switches(&case.opts), start.to_line());
    for o in observed {
        req.push(' ');
        req.push_str(&o.to_line());
    }
    req
}

pub fn corr(ctx: &mut Ctx) {
    let prop = ctx.args.get(0).cloned().unwrap_or_else(|| "C08".into());
    let profile = if prop == "C08" { Profile::Any } else { prop_profile(&prop) };
    let mut rng = Rng::new(ctx.seed ^ 0x11EA);
    let mut st = Stats::default();
    for i in 0..ctx.n {
        let mut case = gen_case(&mut rng, profile, false, 10);
        // exercise every subset of the four reduction switches evenly
        let bits = (i % 16) as u8;
        case.opts.bit_depth_reduction = bits & 1 != 0;
        case.opts.color_type_reduction = bits & 2 != 0;
        case.opts.palette_reduction = bits & 4 != 0;
        case.opts.grayscale_reduction = bits & 8 != 0;
        let Ok(start) = decode(&case.input) else { continue };
        let (out, mut observed) = run_tapped(&case, 0, 0);
        let Outcome::Ok(bytes) = out else {
            st.count("not_ok");
            continue;
        };
        if let Ok(d) = decode(&bytes) {
            if !observed.contains(&d.img) {
                observed.push(d.img);
            }
        }
        st.count("cases");
        st.add("observed_images", observed.len() as u64);
        st.count(&format!("switches_{:04b}", bits));
        let req = lineage_request(&case, &start.img, &observed);
        st.distinct_case(req.as_bytes());
        // the implementation's "answer": every observed image is legitimate
        let want: String = std::iter::repeat('1').take(observed.len()).collect();
        if i < 3 {
            st.sample(format!("{} observed images under switches {} ({})", observed.len(), switches(&case.opts), case.class));
        }
        // only the membership bits are compared (the closure size is informational)
        ctx.line(&req, &format!("ok {}", want));
    }
    ctx.write_stats(&st);
}

//! The harness's own image representation, written from the PNG specification and sharing no code
//! with oxipng: pass geometry, sample packing, pixel semantics, and a small PNG encoder.

use crate::rng::Rng;
use oxipng::internal_tests::PngImage;
use oxipng::verif::IhdrData;
use oxipng::{BitDepth, ColorType, Interlacing, RGB16, RGBA8};

pub const ADAM7: [(u32, u32, u32, u32); 7] = [
    (0, 0, 8, 8),
    (4, 0, 8, 8),
    (0, 4, 4, 8),
    (2, 0, 4, 4),
    (0, 2, 2, 4),
    (1, 0, 2, 2),
    (0, 1, 1, 2),
];

pub fn channels(ct: u8) -> usize {
    match ct {
        0 | 3 => 1,
        4 => 2,
        2 => 3,
        6 => 4,
        _ => panic!("bad colour type"),
    }
}

pub fn depth_legal(ct: u8, depth: u8) -> bool {
    match ct {
        0 => matches!(depth, 1 | 2 | 4 | 8 | 16),
        3 => matches!(depth, 1 | 2 | 4 | 8),
        2 | 4 | 6 => matches!(depth, 8 | 16),
        _ => false,
    }
}

pub const LEGAL_PAIRS: [(u8, u8); 15] = [
    (0, 1),
    (0, 2),
    (0, 4),
    (0, 8),
    (0, 16),
    (2, 8),
    (2, 16),
    (3, 1),
    (3, 2),
    (3, 4),
    (3, 8),
    (4, 8),
    (4, 16),
    (6, 8),
    (6, 16),
];

/// (pass width, pass height) of every pass, in order, including empty ones
pub fn pass_dims(w: u32, h: u32) -> Vec<(u32, u32)> {
    ADAM7
        .iter()
        .map(|&(xs, ys, dx, dy)| {
            let pw = if w > xs { (w - xs + dx - 1) / dx } else { 0 };
            let ph = if h > ys { (h - ys + dy - 1) / dy } else { 0 };
            (pw, ph)
        })
        .collect()
}

/// An image as a grid of raw samples (row-major, `channels` samples per pixel), plus colour info.
#[derive(Clone, Debug, PartialEq)]
pub struct Grid {
    pub w: u32,
    pub h: u32,
    pub ct: u8,
    pub depth: u8,
    /// RGBA palette (indexed only)
    pub palette: Vec<[u8; 4]>,
    /// colour key: 1 component for gray, 3 for RGB
    pub trns: Option<Vec<u16>>,
    pub samples: Vec<u16>,
}

/// An image in oxipng's layout: unfiltered packed scan lines, interlaced or not.
#[derive(Clone, Debug, PartialEq)]
pub struct HImg {
    pub w: u32,
    pub h: u32,
    pub ct: u8,
    pub depth: u8,
    pub il: bool,
    pub palette: Vec<[u8; 4]>,
    pub trns: Option<Vec<u16>>,
    pub data: Vec<u8>,
}

fn pack_row(samples: &[u16], depth: u8, out: &mut Vec<u8>) {
    match depth {
        16 => {
            for &s in samples {
                out.extend_from_slice(&s.to_be_bytes());
            }
        }
        8 => out.extend(samples.iter().map(|&s| s as u8)),
        d => {
            let per = 8 / d as usize;
            for chunk in samples.chunks(per) {
                let mut b = 0u8;
                for (k, &s) in chunk.iter().enumerate() {
                    b |= (s as u8 & ((1 << d) - 1)) << (8 - d as usize * (k + 1));
                }
                out.push(b);
            }
        }
    }
}

fn unpack_row(bytes: &[u8], depth: u8, n_samples: usize) -> Vec<u16> {
    match depth {
        16 => bytes
            .chunks_exact(2)
            .take(n_samples)
            .map(|p| u16::from_be_bytes([p[0], p[1]]))
            .collect(),
        8 => bytes.iter().take(n_samples).map(|&b| b as u16).collect(),
        d => {
            let per = 8 / d as usize;
            (0..n_samples)
                .map(|i| {
                    let b = bytes[i / per];
                    let k = i % per;
                    ((b >> (8 - d as usize * (k + 1))) & ((1 << d) - 1)) as u16
                })
                .collect()
        }
    }
}

pub fn row_bytes(wpix: u32, ct: u8, depth: u8) -> usize {
    (wpix as usize * channels(ct) * depth as usize + 7) / 8
}

impl Grid {
    pub fn ch(&self) -> usize {
        channels(self.ct)
    }
    pub fn px(&self, x: u32, y: u32) -> &[u16] {
        let c = self.ch();
        let i = (y as usize * self.w as usize + x as usize) * c;
        &self.samples[i..i + c]
    }

    /// Lay the grid out as unfiltered scan lines (Adam7 passes when `il`)
    pub fn pack(&self, il: bool) -> HImg {
        let c = self.ch();
        let mut data = Vec::new();
        if !il {
            for y in 0..self.h {
                let i = y as usize * self.w as usize * c;
                pack_row(&self.samples[i..i + self.w as usize * c], self.depth, &mut data);
            }
        } else {
            for &(xs, ys, dx, dy) in ADAM7.iter() {
                let mut y = ys;
                while y < self.h {
                    let mut row = Vec::new();
                    let mut x = xs;
                    while x < self.w {
                        row.extend_from_slice(self.px(x, y));
                        x += dx;
                    }
                    if !row.is_empty() {
                        pack_row(&row, self.depth, &mut data);
                    }
                    y += dy;
                }
            }
        }
        HImg {
            w: self.w,
            h: self.h,
            ct: self.ct,
            depth: self.depth,
            il,
            palette: self.palette.clone(),
            trns: self.trns.clone(),
            data,
        }
    }

    /// 16-bit RGBA meaning of every pixel, per the specification
    pub fn pixels(&self) -> Vec<[u16; 4]> {
        let c = self.ch();
        let scale = |v: u16| -> u16 {
            let max = (1u32 << self.depth) - 1;
            (v as u32 * 65535 / max) as u16
        };
        let kmask: u32 = (1u32 << self.depth) - 1;
        self.samples
            .chunks_exact(c)
            .map(|p| match self.ct {
                0 => {
                    // decoders use only the low `depth` bits of the key (PNG spec, tRNS)
                    let keyed = self.trns.as_ref().map_or(false, |t| (t[0] as u32 & kmask) as u16 == p[0]);
                    let g = scale(p[0]);
                    [g, g, g, if keyed { 0 } else { 65535 }]
                }
                2 => {
                    let keyed = self.trns.as_ref().map_or(false, |t| {
                        (0..3).all(|k| (t[k] as u32 & kmask) as u16 == p[k])
                    });
                    [
                        scale(p[0]),
                        scale(p[1]),
                        scale(p[2]),
                        if keyed { 0 } else { 65535 },
                    ]
                }
                3 => {
                    // out-of-range index: undefined by the spec; marked with a sentinel
                    match self.palette.get(p[0] as usize) {
                        Some(e) => [
                            e[0] as u16 * 257,
                            e[1] as u16 * 257,
                            e[2] as u16 * 257,
                            e[3] as u16 * 257,
                        ],
                        None => [1, 2, 3, 4],
                    }
                }
                4 => {
                    let g = scale(p[0]);
                    [g, g, g, scale(p[1])]
                }
                6 => [scale(p[0]), scale(p[1]), scale(p[2]), scale(p[3])],
                _ => unreachable!(),
            })
            .collect()
    }
}

impl HImg {
    pub fn ch(&self) -> usize {
        channels(self.ct)
    }

    /// expected length of `data`
    pub fn expected_len(&self) -> usize {
        if !self.il {
            row_bytes(self.w, self.ct, self.depth) * self.h as usize
        } else {
            pass_dims(self.w, self.h)
                .iter()
                .map(|&(pw, ph)| {
                    if pw == 0 || ph == 0 {
                        0
                    } else {
                        row_bytes(pw, self.ct, self.depth) * ph as usize
                    }
                })
                .sum()
        }
    }

    /// Scan lines (pass index or None, width in pixels, bytes)
    pub fn lines(&self) -> Vec<(Option<u8>, u32, &[u8])> {
        let mut out = Vec::new();
        let mut off = 0;
        if !self.il {
            let rb = row_bytes(self.w, self.ct, self.depth);
            for _ in 0..self.h {
                out.push((None, self.w, &self.data[off..off + rb]));
                off += rb;
            }
        } else {
            for (p, &(pw, ph)) in pass_dims(self.w, self.h).iter().enumerate() {
                if pw == 0 || ph == 0 {
                    continue;
                }
                let rb = row_bytes(pw, self.ct, self.depth);
                for _ in 0..ph {
                    out.push((Some(p as u8 + 1), pw, &self.data[off..off + rb]));
                    off += rb;
                }
            }
        }
        out
    }

    /// Undo the layout (own Adam7 gather, written from the specification)
    pub fn unpack(&self) -> Option<Grid> {
        if self.data.len() != self.expected_len() {
            return None;
        }
        let c = self.ch();
        let mut samples = vec![0u16; self.w as usize * self.h as usize * c];
        if !self.il {
            let rb = row_bytes(self.w, self.ct, self.depth);
            for y in 0..self.h as usize {
                let row = unpack_row(
                    &self.data[y * rb..(y + 1) * rb],
                    self.depth,
                    self.w as usize * c,
                );
                samples[y * self.w as usize * c..(y + 1) * self.w as usize * c]
                    .copy_from_slice(&row);
            }
        } else {
            let mut off = 0;
            for (p, &(pw, ph)) in pass_dims(self.w, self.h).iter().enumerate() {
                if pw == 0 || ph == 0 {
                    continue;
                }
                let (xs, ys, dx, dy) = ADAM7[p];
                let rb = row_bytes(pw, self.ct, self.depth);
                for r in 0..ph {
                    let row = unpack_row(&self.data[off..off + rb], self.depth, pw as usize * c);
                    off += rb;
                    let y = ys + r * dy;
                    for k in 0..pw {
                        let x = xs + k * dx;
                        let i = (y as usize * self.w as usize + x as usize) * c;
                        samples[i..i + c]
                            .copy_from_slice(&row[k as usize * c..(k as usize + 1) * c]);
                    }
                }
            }
        }
        Some(Grid {
            w: self.w,
            h: self.h,
            ct: self.ct,
            depth: self.depth,
            palette: self.palette.clone(),
            trns: self.trns.clone(),
            samples,
        })
    }

    pub fn color_type(&self) -> ColorType {
        match self.ct {
            0 => ColorType::Grayscale {
                transparent_shade: self.trns.as_ref().map(|t| t[0]),
            },
            2 => ColorType::RGB {
                transparent_color: self.trns.as_ref().map(|t| RGB16::new(t[0], t[1], t[2])),
            },
            3 => ColorType::Indexed {
                palette: self
                    .palette
                    .iter()
                    .map(|e| RGBA8::new(e[0], e[1], e[2], e[3]))
                    .collect(),
            },
            4 => ColorType::GrayscaleAlpha,
            6 => ColorType::RGBA,
            _ => unreachable!(),
        }
    }

    pub fn bit_depth(&self) -> BitDepth {
        match self.depth {
            1 => BitDepth::One,
            2 => BitDepth::Two,
            4 => BitDepth::Four,
            8 => BitDepth::Eight,
            16 => BitDepth::Sixteen,
            _ => unreachable!(),
        }
    }

    pub fn to_oxi(&self) -> PngImage {
        PngImage {
            ihdr: IhdrData {
                width: self.w,
                height: self.h,
                color_type: self.color_type(),
                bit_depth: self.bit_depth(),
                interlaced: if self.il {
                    Interlacing::Adam7
                } else {
                    Interlacing::None
                },
            },
            data: self.data.clone(),
        }
    }

    pub fn from_oxi(p: &PngImage) -> HImg {
        let (ct, palette, trns) = match &p.ihdr.color_type {
            ColorType::Grayscale { transparent_shade } => {
                (0, vec![], transparent_shade.map(|t| vec![t]))
            }
            ColorType::RGB { transparent_color } => (
                2,
                vec![],
                transparent_color.map(|t| vec![t.r, t.g, t.b]),
            ),
            ColorType::Indexed { palette } => (
                3,
                palette.iter().map(|c| [c.r, c.g, c.b, c.a]).collect(),
                None,
            ),
            ColorType::GrayscaleAlpha => (4, vec![], None),
            ColorType::RGBA => (6, vec![], None),
        };
        HImg {
            w: p.ihdr.width,
            h: p.ihdr.height,
            ct,
            depth: p.ihdr.bit_depth as u8,
            il: p.ihdr.interlaced == Interlacing::Adam7,
            palette,
            trns,
            data: p.data.clone(),
        }
    }

    /// `<w> <h> <ct> <depth> <il> <palette rgba hex> <trns be16 hex> <data hex>`
    pub fn to_line(&self) -> String {
        let pal: Vec<u8> = self.palette.iter().flatten().copied().collect();
        let trns: Vec<u8> = self
            .trns
            .as_ref()
            .map(|t| t.iter().flat_map(|v| v.to_be_bytes()).collect())
            .unwrap_or_default();
        format!(
            "{} {} {} {} {} {} {} {}",
            self.w,
            self.h,
            self.ct,
            self.depth,
            self.il as u8,
            hex(&pal),
            hex(&trns),
            hex(&self.data)
        )
    }
}

pub fn hex(b: &[u8]) -> String {
    if b.is_empty() {
        return "-".into();
    }
    let mut s = String::with_capacity(b.len() * 2);
    for x in b {
        s.push_str(&format!("{:02x}", x));
    }
    s
}

pub fn unhex(s: &str) -> Vec<u8> {
    if s == "-" {
        return vec![];
    }
    (0..s.len() / 2)
        .map(|i| u8::from_str_radix(&s[2 * i..2 * i + 2], 16).unwrap())
        .collect()
}

// ---------------------------------------------------------------------------------------------
// A small PNG encoder (own filters, miniz deflate, crc32fast), used to build input files.

pub fn paeth_ref(a: u8, b: u8, c: u8) -> u8 {
    let (ia, ib, ic) = (a as i32, b as i32, c as i32);
    let p = ia + ib - ic;
    let (pa, pb, pc) = ((p - ia).abs(), (p - ib).abs(), (p - ic).abs());
    if pa <= pb && pa <= pc {
        a
    } else if pb <= pc {
        b
    } else {
        c
    }
}

/// Filter one row per the specification
pub fn filter_row_ref(ft: u8, bpp: usize, cur: &[u8], prior: &[u8]) -> Vec<u8> {
    (0..cur.len())
        .map(|i| {
            let a = if i >= bpp { cur[i - bpp] } else { 0 };
            let b = prior[i];
            let c = if i >= bpp { prior[i - bpp] } else { 0 };
            let pred = match ft {
                0 => 0,
                1 => a,
                2 => b,
                3 => ((a as u16 + b as u16) / 2) as u8,
                4 => paeth_ref(a, b, c),
                _ => panic!(),
            };
            cur[i].wrapping_sub(pred)
        })
        .collect()
}

/// Reconstruct one row per the specification
pub fn recon_row_ref(ft: u8, bpp: usize, filt: &[u8], prior: &[u8]) -> Vec<u8> {
    let mut out: Vec<u8> = Vec::with_capacity(filt.len());
    for i in 0..filt.len() {
        let a = if i >= bpp { out[i - bpp] } else { 0 };
        let b = prior[i];
        let c = if i >= bpp { prior[i - bpp] } else { 0 };
        let pred = match ft {
            0 => 0,
            1 => a,
            2 => b,
            3 => ((a as u16 + b as u16) / 2) as u8,
            4 => paeth_ref(a, b, c),
            _ => panic!(),
        };
        out.push(filt[i].wrapping_add(pred));
    }
    out
}

pub fn write_chunk(out: &mut Vec<u8>, name: &[u8; 4], data: &[u8]) {
    out.extend_from_slice(&(data.len() as u32).to_be_bytes());
    let mut h = crc32fast::Hasher::new();
    h.update(name);
    h.update(data);
    out.extend_from_slice(name);
    out.extend_from_slice(data);
    out.extend_from_slice(&h.finalize().to_be_bytes());
}

pub const SIG: [u8; 8] = [0x89, 0x50, 0x4E, 0x47, 0x0D, 0x0A, 0x1A, 0x0A];

#[derive(Clone, Debug, Default)]
pub struct EncOpts {
    /// chunks between IHDR and PLTE
    pub pre_plte: Vec<([u8; 4], Vec<u8>)>,
    /// chunks between PLTE/tRNS and IDAT
    pub pre_idat: Vec<([u8; 4], Vec<u8>)>,
    /// chunks after IDAT
    pub post_idat: Vec<([u8; 4], Vec<u8>)>,
    /// split the IDAT stream into this many chunks (>=1)
    pub idat_parts: usize,
    /// zlib level for miniz (0..=10)
    pub level: u8,
    /// fixed filter type for every row (None: random per row)
    pub fixed_filter: Option<u8>,
    /// zero-length IDAT chunks (legal): bit 0 = one in front, bit 1 = one between the parts, bit 2 = one at the end,
    /// bit 3 = a second one in front
    pub empty_idat: u8,
}

impl HImg {
    pub fn bpp_bytes(&self) -> usize {
        std::cmp::max(1, self.ch() * self.depth as usize / 8)
    }

    /// Filtered stream with the given per-row filter types chosen by `pick`
    pub fn filtered(&self, mut pick: impl FnMut(usize) -> u8) -> Vec<u8> {
        let bpp = self.bpp_bytes();
        let mut out = Vec::new();
        let mut prior: Vec<u8> = vec![];
        let mut last_pass = None;
        for (n, (pass, _, line)) in self.lines().into_iter().enumerate() {
            if n == 0 || pass != last_pass || prior.len() != line.len() {
                prior = vec![0; line.len()];
                last_pass = pass;
            }
            let ft = pick(n);
            out.push(ft);
            if ft > 4 {
                // illegal type (malformed stream): the body is left unfiltered
                out.extend_from_slice(line);
            } else {
                out.extend(filter_row_ref(ft, bpp, line, &prior));
            }
            prior = line.to_vec();
        }
        out
    }

    pub fn ihdr_bytes(&self) -> Vec<u8> {
        let mut v = Vec::new();
        v.extend_from_slice(&self.w.to_be_bytes());
        v.extend_from_slice(&self.h.to_be_bytes());
        v.extend_from_slice(&[self.depth, self.ct, 0, 0, self.il as u8]);
        v
    }

    pub fn plte_bytes(&self) -> Vec<u8> {
        self.palette.iter().flat_map(|e| [e[0], e[1], e[2]]).collect()
    }

    pub fn trns_bytes(&self) -> Option<Vec<u8>> {
        if self.ct == 3 {
            let last = self.palette.iter().rposition(|e| e[3] != 255)?;
            Some(self.palette[..=last].iter().map(|e| e[3]).collect())
        } else {
            self.trns
                .as_ref()
                .map(|t| t.iter().flat_map(|v| v.to_be_bytes()).collect())
        }
    }

    /// Encode as a PNG file (random legal filter types per row unless fixed)
    pub fn encode_png(&self, rng: &mut Rng, eo: &EncOpts) -> Vec<u8> {
        let mut r2 = rng.fork();
        let filtered = self.filtered(|_| match eo.fixed_filter {
            Some(f) => f,
            None => r2.below(5) as u8,
        });
        let z = miniz_oxide::deflate::compress_to_vec_zlib(&filtered, eo.level.min(10));
        let mut out = SIG.to_vec();
        write_chunk(&mut out, b"IHDR", &self.ihdr_bytes());
        for (n, d) in &eo.pre_plte {
            write_chunk(&mut out, n, d);
        }
        if self.ct == 3 {
            write_chunk(&mut out, b"PLTE", &self.plte_bytes());
        }
        if let Some(t) = self.trns_bytes() {
            write_chunk(&mut out, b"tRNS", &t);
        }
        for (n, d) in &eo.pre_idat {
            write_chunk(&mut out, n, d);
        }
        let parts = eo.idat_parts.max(1).min(z.len().max(1));
        let per = (z.len() + parts - 1) / parts;
        if z.is_empty() {
            write_chunk(&mut out, b"IDAT", &[]);
        } else {
            if eo.empty_idat & 1 != 0 { write_chunk(&mut out, b"IDAT", &[]); }
            if eo.empty_idat & 8 != 0 { write_chunk(&mut out, b"IDAT", &[]); }
            for (k, part) in z.chunks(per.max(1)).enumerate() {
                if k == 1 && eo.empty_idat & 2 != 0 { write_chunk(&mut out, b"IDAT", &[]); }
                write_chunk(&mut out, b"IDAT", part);
            }
            if eo.empty_idat & 4 != 0 { write_chunk(&mut out, b"IDAT", &[]); }
        }
        for (n, d) in &eo.post_idat {
            write_chunk(&mut out, n, d);
        }
        write_chunk(&mut out, b"IEND", &[]);
        out
    }
}

//! C18: scan-line iterator, raw_data_size and (de)interlacing correspondence.

use crate::img::*;
use crate::rng::Rng;
use crate::util::*;
use crate::Ctx;
use oxipng::internal_tests::PngImage;
use oxipng::verif::IhdrData;
use oxipng::Interlacing;

fn mk(w: u32, h: u32, ct: u8, depth: u8, il: bool, data: Vec<u8>) -> PngImage {
    let palette = if ct == 3 { vec![[0, 0, 0, 255]] } else { vec![] };
    let hi = HImg {
        w,
        h,
        ct,
        depth,
        il,
        palette,
        trns: None,
        data: vec![],
    };
    PngImage {
        ihdr: IhdrData {
            width: w,
            height: h,
            color_type: hi.color_type(),
            bit_depth: hi.bit_depth(),
            interlaced: if il {
                Interlacing::Adam7
            } else {
                Interlacing::None
            },
        },
        data,
    }
}

fn show_lines(ls: &[(usize, Option<u8>, usize)]) -> String {
    if ls.is_empty() {
        return "-".into();
    }
    ls.iter()
        .map(|(l, p, n)| {
            format!(
                "{}:{}:{}",
                l,
                p.map_or("-".to_string(), |p| p.to_string()),
                n
            )
        })
        .collect::<Vec<_>>()
        .join(",")
}

/// the specification's line list, from this crate's own pass geometry
fn spec_lines(w: u32, h: u32, ct: u8, depth: u8, il: bool, hf: bool) -> Vec<(usize, Option<u8>, usize)> {
    let f = hf as usize;
    if !il {
        return (0..h)
            .map(|_| (row_bytes(w, ct, depth) + f, None, w as usize))
            .collect();
    }
    let mut out = vec![];
    for (p, &(pw, ph)) in pass_dims(w, h).iter().enumerate() {
        if pw == 0 {
            continue;
        }
        for _ in 0..ph {
            out.push((row_bytes(pw, ct, depth) + f, Some(p as u8 + 1), pw as usize));
        }
    }
    out
}

pub fn corr(ctx: &mut Ctx) {
    let mut rng = Rng::new(ctx.seed);
    let mut st = Stats::default();
    let maxd: u32 = if ctx.tier_thorough { 72 } else { 24 };
    let mut dims: Vec<(u32, u32)> = vec![];
    for w in 1..=maxd {
        for h in 1..=maxd {
            dims.push((w, h));
        }
    }
    // sparse large sizes
    for _ in 0..ctx.n {
        let w = rng.range(1, 5000) as u32;
        let h = rng.range(1, if w > 500 { 40 } else { 600 }) as u32;
        dims.push((w, h));
    }
    for (w, h) in dims {
        let all_pairs = ctx.tier_thorough || (w <= 9 && h <= 9);
        let pairs: Vec<(u8, u8)> = if all_pairs {
            LEGAL_PAIRS.to_vec()
        } else {
            vec![
                LEGAL_PAIRS[((w * 31 + h) % 15) as usize],
                LEGAL_PAIRS[((w * 7 + h * 3 + 5) % 15) as usize],
            ]
        };
        for (ct, depth) in pairs {
            for il in [false, true] {
                // raw_data_size
                let img = mk(w, h, ct, depth, il, vec![]);
                let r = catch(|| img.ihdr.raw_data_size());
                ctx.line(
                    &format!("raw_data_size {} {} {} {} {}", w, h, ct, depth, il as u8),
                    &r.map_or("panic".into(), |v| format!("ok {}", v)),
                );
                st.count("raw_data_size");
                for hf in [false, true] {
                    let spec = spec_lines(w, h, ct, depth, il, hf);
                    let expected: usize = spec.iter().map(|l| l.0).sum();
                    // Lean's specification function against this crate's
                    if w <= 40 && h <= 40 {
                        ctx.line(
                            &format!("spec_lines {} {} {} {} {} {}", w, h, ct, depth, il as u8, hf as u8),
                            &format!("ok {}", show_lines(&spec)),
                        );
                    }
                    let mut lens = vec![expected];
                    if rng.chance(1, 20) {
                        // malformed data lengths
                        lens.push(expected.saturating_sub(1));
                        lens.push(expected + 1 + rng.below(40) as usize);
                        lens.push(rng.below(expected as u64 + 1) as usize);
                        st.count("malformed_len");
                    }
                    for len in lens {
                        let img = mk(w, h, ct, depth, il, vec![0; len]);
                        let r = catch(|| {
                            img.scan_lines(hf)
                                .map(|l| (l.data.len() + hf as usize, l.pass, l.num_pixels))
                                .collect::<Vec<_>>()
                        });
                        let ans = r
                            .as_ref()
                            .map_or("panic".into(), |v| format!("ok {}", show_lines(v)));
                        let req = format!(
                            "scan_lines {} {} {} {} {} {} {}",
                            w, h, ct, depth, il as u8, hf as u8, len
                        );
                        if st.samples.len() < 2 && il && w > 2 {
                            st.sample(format!("{} => {}", req, ans));
                        }
                        ctx.line(&req, &ans);
                        st.count(if r.is_some() { "scan_ok" } else { "scan_panic" });
                        st.distinct_case(req.as_bytes());
                        // oracle (independent of the model): with the right length the iterator
                        // yields the specification's lines
                        if len == expected && r.as_ref() != Some(&spec) {
                            st.fail(
                                "scanlines-vs-spec",
                                format!("scan_lines differs from the specification for {}", req),
                                format!("{{\"request\": {}}}", jstr(&req)),
                            );
                        }
                    }
                }
            }
        }
    }
    // ---- interlace / deinterlace on position-labelled images --------------------------------
    let maxi: u32 = if ctx.tier_thorough { 40 } else { 12 };
    let mut cases: Vec<(u32, u32, u8, u8)> = vec![];
    for w in 1..=maxi {
        for h in 1..=maxi {
            let k = if ctx.tier_thorough || (w <= 9 && h <= 9) { 3 } else { 1 };
            for j in 0..k {
                let (ct, depth) = LEGAL_PAIRS[((w * 31 + h * 17 + j * 5) % 15) as usize];
                cases.push((w, h, ct, depth));
            }
        }
    }
    for _ in 0..ctx.n {
        let (ct, depth) = *rng.choose(&LEGAL_PAIRS);
        cases.push((rng.range(1, 72) as u32, rng.range(1, 72) as u32, ct, depth));
    }
    for (w, h, ct, depth) in cases {
        // label every pixel with its position (as far as the sample width allows) mixed with noise
        let c = channels(ct);
        let max = (1u32 << depth) - 1;
        let mut samples = Vec::with_capacity((w * h) as usize * c);
        for y in 0..h {
            for x in 0..w {
                for ch in 0..c as u32 {
                    let label = (y * 131 + x * 7 + ch * 3) ^ (rng.below(4) as u32) << 5;
                    samples.push((label & max) as u16);
                }
            }
        }
        let grid = Grid {
            w,
            h,
            ct,
            depth,
            palette: if ct == 3 { (0..(1u32 << depth)).map(|i| [i as u8, 0, 0, 255]).collect() } else { vec![] },
            trns: None,
            samples,
        };
        let prog = grid.pack(false);
        let inter = grid.pack(true);
        // interlace
        let oxi = prog.to_oxi();
        let r = catch(|| oxi.change_interlacing(Interlacing::Adam7));
        let ans = match &r {
            Some(Some(o)) => format!("ok {}", hex(&o.data)),
            Some(None) => "unchanged".into(),
            None => "panic".into(),
        };
        ctx.line(&format!("interlace {}", prog.to_line()), &ans);
        st.count("interlace");
        st.distinct_case(prog.to_line().as_bytes());
        if r.as_ref().and_then(|o| o.as_ref()).map(|o| &o.data) != Some(&inter.data) {
            st.fail(
                "interlace-vs-spec",
                format!("interlace_image misplaces pixels for {}x{} ct{} d{}", w, h, ct, depth),
                format!("{{\"img\": {}}}", jstr(&prog.to_line())),
            );
        }
        // deinterlace
        let oxi = inter.to_oxi();
        let r = catch(|| oxi.change_interlacing(Interlacing::None));
        let ans = match &r {
            Some(Some(o)) => format!("ok {}", hex(&o.data)),
            Some(None) => "unchanged".into(),
            None => "panic".into(),
        };
        ctx.line(&format!("deinterlace {}", inter.to_line()), &ans);
        st.count("deinterlace");
        if r.as_ref().and_then(|o| o.as_ref()).map(|o| &o.data) != Some(&prog.data) {
            st.fail(
                "deinterlace-vs-spec",
                format!("deinterlace_image misplaces pixels for {}x{} ct{} d{}", w, h, ct, depth),
                format!("{{\"img\": {}}}", jstr(&inter.to_line())),
            );
        }
        if st.samples.len() < 4 && w > 4 && h > 2 && w < 9 {
            st.sample(format!("deinterlace {} => {}", inter.to_line(), ans));
        }
    }
    ctx.write_stats(&st);
}

/// The layout change as the optimiser makes it (the interlace option, through the reductions' driver) - not only the
/// two conversion functions called on their own: for every small size and every legal pixel size, a position-labelled
/// image is sent through `optimize_from_memory` with everything but the layout change switched off and the output forced,
/// in both directions; the output must be a well-formed file of the requested layout with every pixel where it was.
pub fn oracle_e2e(ctx: &mut Ctx) {
    use crate::e2e::*;
    use crate::pngparse::{decode, pixels_of};
    let mut rng = Rng::new(ctx.seed ^ 0x6E0);
    let mut st = Stats::default();
    let max = if ctx.tier_thorough { 20u32 } else { 9 };
    let pairs: &[(u8, u8)] = &[(0, 1), (0, 2), (0, 4), (3, 1), (3, 2), (3, 4), (0, 8), (3, 8), (4, 8), (2, 8), (6, 8), (0, 16), (2, 16), (6, 16)];
    for w in 1..=max {
        for h in 1..=max {
            for &(ct, depth) in pairs {
                // thin out: every size for the sub-byte pixels and 8-bit gray, a third of the sizes for the others
                if depth >= 8 && !(ct == 0 && depth == 8) && (w + 2 * h + ct as u32) % 3 != 0 { continue; }
                for to_il in [true, false] {
                    let (mut g, _) = crate::gen::gen_grid(&mut rng, ct, depth, w, h);
                    // position labels: every pixel a value of its own as far as the depth allows
                    let c = crate::img::channels(ct);
                    let maxv: u32 = if ct == 3 { (g.palette.len().max(1) as u32) - 1 } else { (1u32 << depth) - 1 };
                    for (i, px) in g.samples.chunks_mut(c).enumerate() {
                        for (k, s) in px.iter_mut().enumerate() {
                            *s = (((i as u32 + 1) * (k as u32 * 7 + 3)) % (maxv + 1)) as u16;
                        }
                    }
                    g.trns = None;
                    let img = g.pack(!to_il);
                    let enc = crate::img::EncOpts::default();
                    let input = img.encode_png(&mut rng, &enc);
                    let mut opts = HOpts::from_preset(0);
                    opts.interlace = Some(to_il as u8);
                    opts.force = true;
                    opts.bit_depth_reduction = false;
                    opts.color_type_reduction = false;
                    opts.palette_reduction = false;
                    opts.grayscale_reduction = false;
                    opts.idat_recoding = rng.chance(3, 4);
                    let case = Case { img: img.clone(), class: format!("layout change {}x{} ct{} d{} to_interlaced={}", w, h, ct, depth, to_il), enc, input, opts };
                    st.count("cases");
                    st.count(if to_il { "to_adam7" } else { "to_progressive" });
                    let out = run_case(&case.input, &case.opts);
                    let bytes = match &out {
                        Outcome::Ok(b) => b.clone(),
                        Outcome::Err(e) => { st.fail("layout-change-e2e", format!("the call fails on a valid file ({}): {}", case.class, e), case.replay_json()); continue; }
                        Outcome::Panic => { st.fail("layout-change-e2e", format!("the call panics ({})", case.class), case.replay_json()); continue; }
                    };
                    let (inp, dec) = match (decode(&case.input), decode(&bytes)) {
                        (Ok(a), Ok(b)) => (a, b),
                        (_, Err(e)) => { st.fail("layout-change-e2e", format!("output not decodable ({}): {}", case.class, e), case.replay_json()); continue; }
                        _ => { st.count("generator_invalid_input"); continue; }
                    };
                    if !dec.violations.is_empty() {
                        st.fail("layout-change-e2e", format!("output violates {:?} ({})", dec.violations, case.class), case.replay_json());
                        continue;
                    }
                    if dec.img.il != to_il {
                        st.fail("layout-change-e2e", format!("forced output has interlace {} ({})", dec.img.il as u8, case.class), case.replay_json());
                        continue;
                    }
                    if pixels_of(&inp.img) != pixels_of(&dec.img) || (dec.img.w, dec.img.h) != (w, h) {
                        st.fail("layout-change-e2e", format!("pixels moved or changed ({})", case.class), case.replay_json());
                    }
                }
            }
        }
    }
    ctx.write_stats(&st);
}

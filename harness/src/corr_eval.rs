//! C06 / C17: evaluator histories from the taps, replayed against the Lean transition system, and
//! byte equality of outputs across pool sizes and schedule perturbations.

use crate::e2e::*;
use crate::rng::Rng;
use crate::util::*;
use crate::Ctx;
use oxipng::internal_tests as it;
use oxipng::verif::{self, Event, Key};
use oxipng::Deflaters;
use std::collections::BTreeMap;
use std::sync::{Arc, Mutex};

pub type Log = Arc<Mutex<Vec<(std::thread::ThreadId, Event)>>>;

/// Install a tap that records every event and perturbs the schedule at the schedule points.
pub fn install_tap(seed: u64, max_delay_us: u64) -> Log {
    let log: Log = Arc::new(Mutex::new(Vec::new()));
    let l2 = log.clone();
    let ctr = std::sync::atomic::AtomicU64::new(seed);
    verif::set_tap(Some(Arc::new(move |e: &Event| {
        // record first (ReadBound/SetMin arrive while the operation lock is held)
        l2.lock().unwrap().push((std::thread::current().id(), e.clone()));
        if max_delay_us > 0 {
            if let Event::TrialStart { .. } | Event::JobStart { .. } | Event::Yield { .. } = e {
                let x = ctr.fetch_add(0x9E37_79B9_7F4A_7C15, std::sync::atomic::Ordering::Relaxed);
                let mut z = x;
                z = (z ^ (z >> 30)).wrapping_mul(0xBF58_476D_1CE4_E5B9);
                z = (z ^ (z >> 27)).wrapping_mul(0x94D0_49BB_1331_11EB);
                let d = (z ^ (z >> 31)) % (max_delay_us + 1);
                if d > 0 {
                    std::thread::sleep(std::time::Duration::from_micros(d));
                }
            }
        }
    })));
    log
}

pub fn remove_tap() {
    verif::set_tap(None);
}

fn deflate_unbounded(d: Deflaters, data: &[u8]) -> Option<usize> {
    match d {
        Deflaters::Libdeflater { compression } => it::deflate(data, compression, None).ok().map(|v| v.len()),
        Deflaters::Zopfli { iterations } => it::zopfli_deflate(data, iterations).ok().map(|v| v.len()),
    }
}

fn show_bound(b: Option<usize>) -> String {
    b.map_or("-".to_string(), |v| v.to_string())
}

/// PLTE (12 + 3 per entry) and tRNS (12 + one byte per entry up to the last one that is not opaque; 2 bytes for a gray
/// key, 6 for an RGB key) as the PNG specification lays them out
fn spec_key_chunks_size(img: &crate::img::HImg) -> usize {
    match img.ct {
        3 => {
            let plte = 12 + 3 * img.palette.len();
            match img.palette.iter().rposition(|p| p[3] != 255) {
                Some(k) => plte + 12 + k + 1,
                None => plte,
            }
        }
        0 => if img.trns.is_some() { 12 + 2 } else { 0 },
        2 => if img.trns.is_some() { 12 + 6 } else { 0 },
        _ => 0,
    }
}

#[derive(Default)]
struct EvalHist {
    key_size_by_spec: BTreeMap<usize, usize>,
    last_read: BTreeMap<(usize, u8), Option<usize>>,
    deflater: Option<Deflaters>,
    tokens: Vec<String>,
    /// (nth, filter) -> (idat true size, key, raw, fitted)
    finished: BTreeMap<(usize, u8), (usize, usize, usize, bool)>,
    received: usize,
    winner: Option<Option<Key>>,
    first_bound: Option<Option<usize>>,
    any_setbest: bool,
    /// fast path's second evaluator: (result in hand before it ran, result after the hand-off)
    handoff: Option<(Option<Key>, Option<Key>)>,
}

fn serde_json_string(s: &str) -> String {
    format!("{{\"history\": \"{}\"}}", s.replace('\\', "\\\\").replace('"', "\\\""))
}

/// Turn one run's event log into `eval_history` request lines with the implementation's answers.
pub fn histories(log: &[(std::thread::ThreadId, Event)], st: &mut Stats) -> Vec<(String, String)> {
    let mut evals: BTreeMap<u64, EvalHist> = BTreeMap::new();
    let mut pending_eval: std::collections::HashMap<std::thread::ThreadId, u64> = std::collections::HashMap::new();
    let mut last_collected: std::collections::HashMap<std::thread::ThreadId, Option<Key>> = std::collections::HashMap::new();
    for (tid, e) in log {
        match e {
            Event::Submit { eval, deflater, nth, image, .. } => {
                let h = evals.entry(*eval).or_default();
                h.deflater = Some(*deflater);
                // the size of the chunks a candidate needs besides IDAT, computed here from its header (what the file
                // will really contain): the ranking adds it to every trial's IDAT length
                h.key_size_by_spec.insert(*nth, spec_key_chunks_size(&crate::img::HImg::from_oxi(image)));
            }
            Event::ReadBound { eval, nth, filter, bound } if *nth != usize::MAX => {
                let h = evals.entry(*eval).or_default();
                h.tokens.push(format!("R:{}:{}:{}", nth, *filter as u8, show_bound(*bound)));
                h.last_read.insert((*nth, *filter as u8), *bound);
                st.count("ev_read");
            }
            Event::SetMin { eval, nth, filter, value } => {
                let h = evals.entry(*eval).or_default();
                if *nth == usize::MAX {
                    h.tokens.push(format!("S:{}", value));
                    h.any_setbest = true;
                    st.count("ev_setbest");
                } else if let Some(&(idat, key, raw, _)) = h.finished.get(&(*nth, *filter as u8)) {
                    h.tokens.push(format!("F:{}:{}:{}:{}:{}:1", nth, *filter as u8, idat, key, raw));
                    st.count("ev_publish");
                }
            }
            Event::Finish { eval, nth, filter, idat_len, key_size, raw_len, filtered } => {
                let h = evals.entry(*eval).or_default();
                // contract D2/D3: the unbounded result has the same size as the bounded one
                let truth = h.deflater.and_then(|d| deflate_unbounded(d, filtered));
                // generator quality for the slow compressor: how often a faster compressor's size and the trial's
                // own size fall on different sides of the bound the trial read (only there can a pruning decision
                // taken on a prediction differ from one taken on the final size)
                if let (Some(Deflaters::Zopfli { .. }), Some(t), Some(Some(b))) = (h.deflater, truth, h.last_read.get(&(*nth, *filter as u8)).copied()) {
                    st.count("zopfli_trials_with_bound");
                    if let Some(l) = it::deflate(filtered, 12, None).ok().map(|v| v.len()) {
                        if t <= b && l > b { st.count("zopfli_fits_libdeflate12_does_not"); }
                        if t <= b && l > b + b / 32 { st.count("zopfli_fits_libdeflate12_over_by_3pct"); }
                    }
                }
                let idat = match (idat_len, truth) {
                    (Some(n), Some(t)) => {
                        if *n != t {
                            st.fail(
                                "deflater-contract",
                                format!("bounded compression returned {} bytes, unbounded {} bytes", n, t),
                                "{}".into(),
                            );
                        }
                        *n
                    }
                    (Some(n), None) => *n,
                    (None, Some(t)) => t,
                    (None, None) => usize::MAX / 4,
                };
                if let Some(want) = h.key_size_by_spec.get(nth) {
                    if want != key_size {
                        st.fail(
                            "key-chunk-size",
                            format!("trial {}:{} is ranked with {} bytes of PLTE / tRNS, the chunks this image needs take {}", nth, *filter as u8, key_size, want),
                            "{}".into(),
                        );
                    } else {
                        st.count("key_chunk_size_ok");
                    }
                }
                h.finished.insert((*nth, *filter as u8), (idat, *key_size, *raw_len, idat_len.is_some()));
                if idat_len.is_none() {
                    h.tokens.push(format!("F:{}:{}:{}:{}:{}:0", nth, *filter as u8, idat, key_size, raw_len));
                    st.count("ev_pruned");
                }
            }
            Event::Received { eval, .. } => {
                evals.entry(*eval).or_default().received += 1;
            }
            Event::CollectEnd { eval } => {
                pending_eval.insert(*tid, *eval);
            }
            Event::Collected { winner } => {
                if let Some(ev) = pending_eval.remove(tid) {
                    evals.entry(ev).or_default().winner = Some(*winner);
                }
                last_collected.insert(*tid, *winner);
            }
            Event::CollectedFast { winner } => {
                if let Some(ev) = pending_eval.remove(tid) {
                    let h = evals.entry(ev).or_default();
                    // the event reports `eval_result` after the hand-off: the result already in hand, or
                    // this evaluator's winner where that one is better
                    h.handoff = Some((last_collected.get(tid).copied().flatten(), *winner));
                }
            }
            Event::Final { key, .. } => {
                if let Some(ev) = pending_eval.remove(tid) {
                    evals.entry(ev).or_default().winner = Some(Some(*key));
                }
            }
            _ => {}
        }
    }
    let mut out = vec![];
    for (_, h) in evals {
        if h.tokens.is_empty() && h.received == 0 {
            continue;
        }
        let toks = if h.tokens.is_empty() { "-".to_string() } else { h.tokens.join(";") };
        if let Some((prev, result)) = h.handoff {
            // second evaluator of the fast path: the model replays the history and applies the hand-off
            let req = format!(
                "eval_handoff - {} {}",
                toks,
                prev.map_or("-".to_string(), |k| format!("P:{}:{}:{}:{}", k.0, k.1 as u8, k.2, k.3))
            );
            let ans = format!(
                "ok result={} pub={}",
                result.map_or("none".to_string(), |k| format!("{}:{}:{}", k.0, k.1 as u8, k.2)),
                h.received
            );
            st.count("histories_with_handoff");
            // C17 stated directly: nothing completed here, and not the result in hand, beats what goes on
            if let Some(r) = result {
                let rk = (r.2, r.3, r.1 as u8, std::cmp::Reverse(r.0));
                let better = h.finished.iter().filter(|(_, v)| v.3).find(|((n, f), v)| (v.0 + v.1, v.2, *f, std::cmp::Reverse(*n)) < rk);
                if let Some(((n, f), v)) = better {
                    st.fail(
                        "handoff-lost-completed-trial",
                        format!("result {}:{} of size {} goes on although trial {}:{} completed with {}", r.0, r.1 as u8, r.2, n, f, v.0 + v.1),
                        serde_json_string(&req),
                    );
                }
                if let Some(p) = prev {
                    // generator quality: how often the hand-over has to settle an exact size tie in favour of a
                    // trial of the second evaluator (same size, lower filter number than the result in hand)
                    if h.finished.iter().any(|((_, f), v)| v.3 && v.0 + v.1 == p.2 && v.2 == p.3 && *f < p.1 as u8) {
                        st.count("handoff_tie_lower_filter_completed");
                    }
                    if (p.2, p.3, p.1 as u8) < (r.2, r.3, r.1 as u8) {
                        st.count("handoff_result_worse_than_previous");
                        st.fail(
                            "handoff-lost-previous-result",
                            format!("result {}:{} of estimated size {} replaces the result {}:{} of size {} already in hand", r.0, r.1 as u8, r.2, p.0, p.1 as u8, p.2),
                            serde_json_string(&req),
                        );
                    } else if (p.0, p.1 as u8, p.2) == (r.0, r.1 as u8, r.2) && h.finished.values().any(|v| v.3) {
                        st.count("handoff_kept_previous_over_completed_trials");
                    }
                }
            }
            out.push((req, ans));
            continue;
        }
        // an evaluator whose collection was never followed by a winner report returned None
        let w = h.winner.unwrap_or(None);
        let req = format!("eval_history - {}", toks);
        let ans = format!(
            "ok winner={} pub={}",
            w.map_or("none".to_string(), |k| format!("{}:{}", k.0, k.1 as u8)),
            h.received
        );
        if h.finished.len() >= 2 {
            st.count("histories_multi_trial");
        }
        // C17 stated directly on the observed history: the reported winner is a completed trial and no
        // completed trial of this evaluator is better under (size, raw bytes, filter number, later submission)
        if let Some(k) = w {
            let rule = |nth: usize, f: u8, v: &(usize, usize, usize, bool)| (v.0 + v.1, v.2, f, std::cmp::Reverse(nth));
            let fitted: Vec<_> = h.finished.iter().filter(|(_, v)| v.3).collect();
            match h.finished.get(&(k.0, k.1 as u8)).filter(|v| v.3) {
                None if !fitted.is_empty() => st.fail(
                    "winner-not-completed",
                    format!("selected candidate {}:{} is not a completed trial of this evaluator", k.0, k.1 as u8),
                    serde_json_string(&req),
                ),
                Some(wv) => {
                    let wk = rule(k.0, k.1 as u8, wv);
                    if let Some(((n, f), v)) = fitted.iter().map(|(a, b)| (**a, **b)).find(|((n, f), v)| rule(*n, *f, v) < wk) {
                        st.count("tie_rule_broken");
                        st.fail(
                            "winner-not-rule-minimum",
                            format!(
                                "selected {}:{} (size {}, raw {}) although completed trial {}:{} (size {}, raw {}) precedes it under the rule",
                                k.0, k.1 as u8, wv.0 + wv.1, wv.2, n, f, v.0 + v.1, v.2
                            ),
                            serde_json_string(&req),
                        );
                    }
                    if fitted.iter().filter(|(_, v)| v.0 + v.1 == wv.0 + wv.1).count() >= 2 {
                        st.count("histories_with_size_tie_at_minimum");
                    }
                }
                None => {}
            }
        }
        out.push((req, ans));
    }
    out
}


/// C17 across the evaluators of one call: when evaluation runs with the main deflater (the code's own
/// `final_round` flag), every trial an evaluator completes is a finished final-round encoding; the
/// candidate handed to the acceptance test must not be larger than any of them.
pub fn final_round_oracle(log: &[(std::thread::ThreadId, Event)], main: Deflaters, replay: String, st: &mut Stats) {
    let mut defl: BTreeMap<u64, Deflaters> = BTreeMap::new();
    let mut completed: Vec<(u64, usize, u8, usize, usize)> = vec![];
    let mut fin: Option<((usize, oxipng::RowFilter, usize, usize), bool)> = None;
    for (_, e) in log {
        match e {
            Event::Submit { eval, deflater, .. } => { defl.insert(*eval, *deflater); }
            Event::Finish { eval, nth, filter, idat_len: Some(n), key_size, raw_len, .. } => {
                completed.push((*eval, *nth, *filter as u8, n + key_size, *raw_len));
            }
            Event::Final { key, data_is_compressed, .. } => fin = Some((*key, *data_is_compressed)),
            _ => {}
        }
    }
    let Some((key, true)) = fin else { return };
    // only where results are handed from one evaluator to the next (the fast path); in the full-trials
    // path the reductions evaluator's encodings are estimates used to pick the image, and the final
    // round is the last evaluator alone (checked per evaluator)
    if !log.iter().any(|(_, e)| matches!(e, Event::CollectedFast { .. })) {
        return;
    }
    let finals: Vec<_> = completed.iter().filter(|c| defl.get(&c.0) == Some(&main)).collect();
    if finals.is_empty() {
        return;
    }
    st.count("calls_with_final_round_evaluators");
    if finals.iter().map(|c| c.0).collect::<std::collections::BTreeSet<_>>().len() >= 2 {
        st.count("calls_with_two_final_round_evaluators");
    }
    if let Some(best) = finals.iter().min_by_key(|c| c.3) {
        if key.2 > best.3 {
            st.fail(
                "emitted-lost-to-completed-trial",
                format!(
                    "candidate {}:{} of estimated size {} goes to the acceptance test although trial {}:{} of evaluator {} completed with {} in the final round",
                    key.0, key.1 as u8, key.2, best.1, best.2, best.0, best.3
                ),
                replay,
            );
        }
    }
}

/// Cases built to make several trials tie on size (every tie-break level decides some case)
fn tie_case(rng: &mut Rng) -> Case {
    use crate::img::*;
    let ct = *rng.choose(&[0u8, 2, 3, 6]);
    let depth = 8;
    let (w, h) = (rng.range(1, 3) as u32, rng.range(1, 3) as u32);
    let c = channels(ct);
    let v = if rng.bool() { 0u16 } else { rng.byte() as u16 };
    let g = Grid {
        w,
        h,
        ct,
        depth,
        palette: if ct == 3 { vec![[1, 2, 3, 255], [9, 9, 9, 255]] } else { vec![] },
        trns: None,
        samples: vec![if ct == 3 { v % 2 } else { v }; (w * h) as usize * c],
    };
    let img = g.pack(false);
    let enc = EncOpts { level: 0, idat_parts: 1, ..Default::default() };
    let input = img.encode_png(rng, &enc);
    let mut opts = gen_opts(rng, Profile::Lossless, false);
    opts.filter = (0..10u8).filter(|_| rng.chance(2, 3)).collect();
    opts.fast_evaluation = false;
    opts.force = rng.bool();
    // a third of them through the fast path as the final round (main deflater = the evaluation deflater): ties then
    // have to be settled across the hand-over between the two evaluators as well
    if rng.chance(1, 3) {
        opts.fast_evaluation = true;
        opts.deflate = Ok(*rng.choose(&[1u8, 3, 5, 6, 7]));
        return Case { img, class: "tie-image-fast".into(), enc, input, opts };
    }
    Case { img, class: "tie-image".into(), enc, input, opts }
}

/// Small images whose rows are arithmetic progressions: the delta filters and the heuristic strategies then often
/// produce byte-identical rows, i.e. exact size ties between a fixed filter and Bigrams - the situation in which the
/// hand-over between the fast path's two evaluators has to apply the tie rule
fn gradient_tie_case(rng: &mut Rng) -> Case {
    use crate::img::*;
    let ct = *rng.choose(&[0u8, 0, 2, 4]);
    let depth = 8;
    let (w, h) = (rng.range(6, 18) as u32, rng.range(2, 7) as u32);
    let c = channels(ct);
    let mut samples = Vec::with_capacity((w * h) as usize * c);
    let step: Vec<u16> = (0..c).map(|_| rng.range(1, 9) as u16).collect();
    let same_rows = rng.bool();
    let base0: Vec<u16> = (0..c).map(|_| rng.byte() as u16).collect();
    for y in 0..h {
        let base: Vec<u16> = if same_rows { base0.clone() } else { (0..c).map(|k| (base0[k] + (y as u16) * rng.range(0, 40) as u16) % 256).collect() };
        for x in 0..w {
            for k in 0..c {
                samples.push((base[k] + step[k] * x as u16) % 256);
            }
        }
    }
    let g = Grid { w, h, ct, depth, palette: vec![], trns: None, samples };
    let img = g.pack(false);
    let enc = EncOpts { level: 0, idat_parts: 1, ..Default::default() };
    let input = img.encode_png(rng, &enc);
    let mut opts = gen_opts(rng, Profile::Lossless, false);
    opts.filter = (0..10u8).filter(|_| rng.chance(4, 5)).collect();
    opts.fast_evaluation = true;
    opts.deflate = Ok(*rng.choose(&[1u8, 3, 5, 6, 7]));
    opts.interlace = Some(0);
    Case { img, class: "gradient-tie-fast".into(), enc, input, opts }
}

/// Cases for the hand-over between the two evaluators of the fast path on images that need a big PLTE (so that the size
/// of the chunks besides IDAT is hundreds of bytes): an unsorted palette of 120-250 colours (the sorted variant is
/// evaluated, so a result is in hand), content in which a filter of the second evaluator beats None / Bigrams by anything
/// from a few bytes to more than the palette's size - a bound or comparison that mixes IDAT-only and whole-file sizes
/// loses exactly the trials that win by less than that.
fn indexed_handoff_case(rng: &mut Rng) -> Case {
    use crate::img::*;
    let n = rng.range(120, 250) as usize;
    let palette: Vec<[u8; 4]> = (0..n).map(|_| [rng.byte(), rng.byte(), rng.byte(), if rng.chance(1, 6) { rng.byte() } else { 255 }]).collect();
    let (w, h) = (rng.range(24, 64) as u32, rng.range(24, 64) as u32);
    let noise = *rng.choose(&[0u64, 5, 15, 30, 50, 70, 90]);
    let (dx, dy) = (rng.range(1, 5) as usize, rng.range(0, 7) as usize);
    let mut samples = Vec::with_capacity((w * h) as usize);
    for y in 0..h as usize {
        for x in 0..w as usize {
            let v = if rng.below(100) < noise { rng.below(n as u64) as usize } else { (x * dx + y * dy) % n };
            samples.push(v as u16);
        }
    }
    let g = Grid { w, h, ct: 3, depth: 8, palette, trns: None, samples };
    let img = g.pack(false);
    let enc = EncOpts { level: 1, idat_parts: 1, ..Default::default() };
    let input = img.encode_png(rng, &enc);
    let mut opts = gen_opts(rng, Profile::Lossless, false);
    opts.filter = (0..10u8).filter(|f| *f == 0 || rng.chance(3, 4)).collect();
    opts.fast_evaluation = true;
    opts.deflate = Ok(*rng.choose(&[3u8, 5, 6, 7]));
    opts.interlace = Some(0);
    opts.palette_reduction = true;
    opts.idat_recoding = true;
    opts.strip = HStrip::None;
    Case { img, class: format!("indexed-handoff noise{}", noise), enc, input, opts }
}

/// Cases for the slow compressor: few colours kept at a high colour depth (reductions off), where Zopfli and
/// libdeflate differ by several percent and the best filter is not the first one tried, so that a pruning decision
/// taken on anything but the trial's own final size shows up as a prune the model does not allow
fn zopfli_case(rng: &mut Rng) -> Case {
    use crate::img::*;
    let ct = *rng.choose(&[6u8, 6, 2]);
    let depth = *rng.choose(&[8u8, 8, 16]);
    let (w, h) = (rng.range(12, 40) as u32, rng.range(12, 40) as u32);
    let c = channels(ct);
    let ncol = rng.range(2, 5) as usize;
    let max = if depth == 16 { 65535u32 } else { 255 };
    let cols: Vec<Vec<u16>> = (0..ncol).map(|_| (0..c).map(|_| (rng.next_u64() as u32 % (max + 1)) as u16).collect()).collect();
    let (bx, by) = (rng.range(1, 6) as u32, rng.range(1, 6) as u32);
    let k = rng.range(1, 3) as u32;
    let noise = rng.range(0, 40) as u64;
    let mut samples = Vec::with_capacity((w * h) as usize * c);
    for y in 0..h {
        for x in 0..w {
            let mut i = ((x / bx) + (y / by) * k) as usize % ncol;
            if rng.below(1000) < noise {
                i = rng.below(ncol as u64) as usize;
            }
            samples.extend_from_slice(&cols[i]);
        }
    }
    let g = Grid { w, h, ct, depth, palette: vec![], trns: None, samples };
    let img = g.pack(false);
    let enc = EncOpts { level: 1, idat_parts: 1, ..Default::default() };
    let input = img.encode_png(rng, &enc);
    let mut opts = gen_opts(rng, Profile::Lossless, false);
    opts.deflate = Err(rng.range(1, 3) as u8);
    opts.filter = (0..10u8).filter(|_| rng.chance(3, 4)).collect();
    opts.fast_evaluation = false;
    opts.bit_depth_reduction = false;
    opts.color_type_reduction = false;
    opts.palette_reduction = false;
    opts.grayscale_reduction = false;
    opts.interlace = None;
    Case { img, class: "zopfli-image".into(), enc, input, opts }
}

pub fn corr(ctx: &mut Ctx) {
    let mut rng = Rng::new(ctx.seed ^ 0xE7A1);
    let mut st = Stats::default();
    for i in 0..ctx.n {
        let case = if rng.chance(1, 4) {
            tie_case(&mut rng)
        } else if rng.chance(1, 6) {
            st.count("zopfli_cases");
            zopfli_case(&mut rng)
        } else if rng.chance(1, 5) {
            st.count("gradient_tie_cases");
            gradient_tie_case(&mut rng)
        } else if rng.chance(1, 6) {
            st.count("indexed_handoff_cases");
            indexed_handoff_case(&mut rng)
        } else {
            gen_case(&mut rng, Profile::Any, ctx.tier_thorough, 17)
        };
        let threads = *rng.choose(&[1usize, 2, 3, 4, 8, 16]);
        let delay = *rng.choose(&[0u64, 50, 300, 1500]);
        st.count(&format!("threads{}", threads));
        st.count("cases");
        let log = install_tap(rng.next_u64(), delay);
        let pool = rayon::ThreadPoolBuilder::new().num_threads(threads).build().unwrap();
        let out = pool.install(|| run_case(&case.input, &case.opts));
        remove_tap();
        drop(pool);
        let events = log.lock().unwrap().clone();
        if let Outcome::Panic = out {
            st.fail("panic", "optimize_from_memory panicked".into(), case.replay_json());
            continue;
        }
        st.add("events", events.len() as u64);
        final_round_oracle(&events, case.opts.to_oxi().deflate, case.replay_json(), &mut st);
        for (req, ans) in histories(&events, &mut st) {
            st.distinct_case(req.as_bytes());
            if i < 40 && st.samples.len() < 3 && req.len() > 60 {
                st.sample(format!("{} => {}", req, ans));
            }
            ctx.line(&req, &ans);
            st.count("histories");
        }
    }
    deflater_contract(&mut rng, ctx.n / 2 + 20, &mut st);
    ctx.write_stats(&st);
}

/// Contract D3, called directly on `Deflaters::deflate` (the function every trial goes through): with a size limit
/// `m` the call succeeds iff the compressor's unbounded result has at most `m` bytes, and then returns exactly that
/// result - the decision depends on nothing but the trial's own final size. Limits are placed on and around that
/// size, which is where the evaluator's racing bound sits when a trial is only slightly better or worse than the best.
fn deflater_contract(rng: &mut Rng, n: usize, st: &mut Stats) {
    for k in 0..n {
        // one input in eleven: noise that no compressor shrinks, of a length at and beyond the limits of one and of two
        // stored blocks (65 535 bytes each) - the output then needs a header per block, and a limit just above the
        // result's size still has to admit it
        let big_noise = k % 11 == 7;
        let data: Vec<u8> = if big_noise {
            let len = *rng.choose(&[65_535usize, 65_536, 131_070, 131_071, 140_000, 200_000]);
            rng.bytes(len)
        } else if k % 3 == 0 {
            // runs and repeats
            let mut v = vec![];
            let len = rng.range(40, 6000) as usize;
            let alphabet = rng.range(2, 40) as u64;
            while v.len() < len {
                let b = rng.below(alphabet) as u8;
                let run = if rng.chance(1, 3) { rng.range(1, 60) as usize } else { 1 };
                v.extend(std::iter::repeat(b).take(run));
            }
            v
        } else {
            zopfli_case(rng).img.data
        };
        let d = match rng.below(4) {
            0 => Deflaters::Zopfli { iterations: std::num::NonZeroU8::new(rng.range(1, 3) as u8).unwrap() },
            1 => Deflaters::Libdeflater { compression: 12 },
            _ => Deflaters::Libdeflater { compression: *rng.choose(&[0u8, 1, 2, 5, 6, 8, 9, 10, 11, 12]) },
        };
        let d = if big_noise { st.count("contract_noise_beyond_one_stored_block"); Deflaters::Libdeflater { compression: *rng.choose(&[1u8, 5, 9, 12]) } } else { d };
        let zop = matches!(d, Deflaters::Zopfli { .. });
        let Ok(full) = verif::deflate_with_bound(d, &data, None) else {
            st.fail("deflater-contract", "unbounded compression failed".into(), "{}".into());
            continue;
        };
        let t = full.len();
        st.count(if zop { "contract_zopfli_inputs" } else { "contract_libdeflate_inputs" });
        let mut limits = vec![t, t + 1, t.saturating_sub(1), t + t / 40, t - t / 40, t + 9, t.saturating_sub(9), 0, t * 2];
        limits.push(rng.range(0, 2 * t as u64) as usize);
        for m in limits {
            st.count("contract_calls");
            let got = verif::deflate_with_bound(d, &data, Some(m));
            let ok = match &got {
                Ok(v) => t <= m && (*v == full || (!zop && v.len() == t)),
                Err(Some(_)) => t > m,
                Err(None) => false,
            };
            if t <= m { st.count("contract_limit_admits"); } else { st.count("contract_limit_excludes"); }
            if !ok {
                st.fail(
                    "deflater-contract",
                    format!(
                        "{:?} on {} bytes: unbounded result has {} bytes, with limit {} the call returned {}",
                        d, data.len(), t, m,
                        match &got { Ok(v) => format!("{} bytes", v.len()), Err(e) => format!("too long ({:?})", e) }
                    ),
                    format!("{{\"deflater\": {}, \"limit\": {}, \"data_hex\": {}}}", jstr(&format!("{:?}", d)), m, jstr(&crate::img::hex(&data))),
                );
                break;
            }
        }
    }
}

/// Determinism oracle: the same (input, options) under different pool sizes and timings gives
/// byte-identical results. Any two runs that differ are the failing history.
/// Animated cases for the determinism oracle: several frames that recompression shrinks (they are recompressed in
/// parallel), and in half of the cases one frame - not the last - whose data does not decode: the call has to fail the
/// same way under every pool, never hand out whatever happened to be finished.
fn apng_case(rng: &mut Rng, st: &mut Stats) -> Case {
    let damage = rng.bool();
    let (case, damaged) = apng_case_with(rng, damage);
    if damaged { st.count("apng_cases_with_damaged_frame"); }
    st.count("apng_cases");
    case
}

/// an animated case; with `damage` one frame that is not the last gets undecodable data (second component: done)
pub fn apng_case_with(rng: &mut Rng, damage: bool) -> (Case, bool) {
    use crate::img::*;
    let (ct, depth) = *rng.choose(&[(2u8, 8u8), (6, 8), (0, 8), (3, 8)]);
    let (w, h) = (rng.range(24, 64) as u32, rng.range(24, 64) as u32);
    let (g, info) = crate::gen::gen_grid(rng, ct, depth, w, h);
    let img = g.pack(false);
    let nf = rng.range(3, 8) as usize;
    let default_in = rng.bool();
    let mut input = crate::front::encode_apng_with(rng, &img, nf, default_in, 1, &[]);
    let mut class = format!("{} apng{}", info.class, nf);
    let mut damaged = false;
    if damage {
        if let Ok(chunks) = crate::pngparse::parse_chunks(&input) {
            let fdats: Vec<usize> = chunks.iter().enumerate().filter(|(_, c)| &c.name == b"fdAT").map(|(i, _)| i).collect();
            if fdats.len() >= 2 {
                let victim = fdats[rng.below(fdats.len() as u64 - 1) as usize];
                let mut cs: Vec<([u8; 4], Vec<u8>)> = chunks.iter().map(|c| (c.name, c.data.clone())).collect();
                let d = &mut cs[victim].1;
                if d.len() > 8 {
                    let k = rng.range(6, d.len() as u64 - 1) as usize;
                    d[k] ^= 0x5A;
                }
                input = crate::front::rebuild(&cs);
                class.push_str(" frame-damaged");
                damaged = true;
            }
        }
    }
    let mut opts = gen_opts(rng, Profile::Lossless, false);
    opts.idat_recoding = true;
    opts.strip = HStrip::None;
    opts.force = rng.bool();
    (Case { img, class, enc: EncOpts::default(), input, opts }, damaged)
}

pub fn oracle(ctx: &mut Ctx) {
    let mut rng = Rng::new(ctx.seed ^ 0xDE7);
    let mut st = Stats::default();
    for _ in 0..ctx.n {
        let case = if rng.chance(1, 4) {
            tie_case(&mut rng)
        } else if rng.chance(1, 6) {
            apng_case(&mut rng, &mut st)
        } else {
            gen_case(&mut rng, Profile::Any, ctx.tier_thorough, 17)
        };
        st.count("cases");
        st.distinct_case(&[case.input.as_slice(), case.opts.show().as_bytes()].concat());
        let mut results: Vec<(usize, u64, Option<Vec<u8>>)> = vec![];
        let configs: Vec<(usize, u64)> = vec![
            (1, 0),
            (*rng.choose(&[2usize, 3, 4]), *rng.choose(&[0u64, 200, 1000])),
            (*rng.choose(&[8usize, 16]), *rng.choose(&[0u64, 200, 1000])),
        ];
        for (threads, delay) in configs {
            let _log = install_tap(rng.next_u64(), delay);
            let pool = rayon::ThreadPoolBuilder::new().num_threads(threads).build().unwrap();
            // nested: the call is made from inside another parallel scope of the caller's pool
            let nested = rng.bool();
            let out = pool.install(|| {
                if nested {
                    let (a, _b) = rayon::join(|| run_case(&case.input, &case.opts), || 0u8);
                    a
                } else {
                    run_case(&case.input, &case.opts)
                }
            });
            remove_tap();
            st.count("runs");
            results.push((
                threads,
                delay,
                match out {
                    Outcome::Ok(b) => Some(b),
                    _ => None,
                },
            ));
        }
        // also once outside any pool / tap
        let plain = match run_case(&case.input, &case.opts) {
            Outcome::Ok(b) => Some(b),
            _ => None,
        };
        st.count("runs");
        for (threads, delay, r) in &results {
            if r != &plain {
                st.fail(
                    "nondeterministic",
                    format!(
                        "output with {} threads / {}us perturbation differs from the unperturbed run ({} vs {} bytes)",
                        threads,
                        delay,
                        r.as_ref().map_or(0, |b| b.len()),
                        plain.as_ref().map_or(0, |b| b.len())
                    ),
                    case.replay_json(),
                );
                break;
            }
        }
        if st.samples.len() < 2 {
            st.sample(format!("{} under pools {:?}", case.opts.show(), results.iter().map(|r| (r.0, r.1)).collect::<Vec<_>>()));
        }
    }
    // ---- the executable over a set of files (the pool is also what runs the files side by side): whatever --threads
    // says, the same files are written with the same bytes - also when one file of the set is skipped (a C2PA manifest
    // the policy keeps) or cannot be decoded ---------------------------------------------------------------------------
    if crate::cli::binary_available() {
        let dir = crate::cli::work_dir("determinism");
        for _ in 0..(ctx.n / 40).max(4) {
            let w = dir.join("w");
            let _ = std::fs::remove_dir_all(&w);
            std::fs::create_dir_all(&w).unwrap();
            let mut c2pa = crate::img::EncOpts::default();
            c2pa.pre_idat.push((*b"caBX", crate::front::c2pa_chunk()));
            let n = rng.range(3, 7) as usize;
            let mut names: Vec<String> = vec![];
            for k in 0..n {
                let name = format!("f{}.png", k);
                let data = match rng.below(5) {
                    0 => { let (img, _) = crate::gen::gen_himg(&mut rng, 5); img.encode_png(&mut rng, &c2pa) }
                    1 => b"not a png at all".to_vec(),
                    _ => gen_case(&mut rng, Profile::Lossless, false, 8).input,
                };
                std::fs::write(w.join(&name), data).unwrap();
                names.push(name);
            }
            let mut snapshot: Option<(String, Vec<(String, Vec<u8>)>, Option<i32>)> = None;
            for threads in ["1", "2", "4", "16"] {
                let out = format!("o{}", threads);
                let mut args: Vec<String> = vec!["-q".into(), "--keep".into(), "caBX".into(), "--force".into(), "--dir".into(), out.clone(), "--threads".into(), threads.into()];
                args.extend(names.iter().cloned());
                let r = crate::cli::run_bin(&w, &args);
                let mut files: Vec<(String, Vec<u8>)> = std::fs::read_dir(w.join(&out)).map(|d| d.filter_map(|e| e.ok()).map(|e| (e.file_name().to_string_lossy().to_string(), std::fs::read(e.path()).unwrap_or_default())).collect()).unwrap_or_default();
                files.sort();
                st.count("binary_file_set_runs");
                match &snapshot {
                    None => snapshot = Some((threads.to_string(), files, r.status)),
                    Some((t0, f0, s0)) => {
                        if *f0 != files || *s0 != r.status {
                            let list = |f: &Vec<(String, Vec<u8>)>| f.iter().map(|(n, b)| format!("{}:{}", n, b.len())).collect::<Vec<_>>().join(" ");
                            let inputs: Vec<String> = names.iter().map(|nm| format!("{}: {}", jstr(nm), jstr(&crate::img::hex(&std::fs::read(w.join(nm)).unwrap_or_default())))).collect();
                            st.fail("nondeterministic", format!("the executable over {} files: --threads {} writes [{}] (exit {:?}), --threads {} writes [{}] (exit {:?})", n, t0, list(f0), s0, threads, list(&files), r.status),
                                format!("{{\"args\": {}, \"files_hex\": {{{}}}}}", jstr(&args.join(" ")), inputs.join(", ")));
                            break;
                        }
                    }
                }
            }
        }
        let _ = std::fs::remove_dir_all(&dir);
    }
    ctx.write_stats(&st);
}

/// Print one line per generated case with a digest of the output: run by both the parallel and the
/// sequential build of the library, the two listings must be identical.
pub fn outputs(ctx: &mut Ctx) {
    let mut rng = Rng::new(ctx.seed ^ 0x0417);
    let mut st = Stats::default();
    for i in 0..ctx.n {
        let case = if rng.chance(1, 4) {
            tie_case(&mut rng)
        } else {
            gen_case(&mut rng, Profile::Any, false, 17)
        };
        let d = match run_case(&case.input, &case.opts) {
            Outcome::Ok(b) => format!("ok {} {}", b.len(), fnv64(FNV_INIT, &b)),
            Outcome::Err(_) => "err".into(),
            Outcome::Panic => "panic".into(),
        };
        use std::io::Write;
        writeln!(ctx.out, "{} {} | {} | {}", i, d, case.opts.show(), crate::img::hex(&case.input)).unwrap();
        st.count("cases");
    }
    ctx.write_stats(&st);
}

//! C05: arbitrary bytes. A structured corpus, byte/chunk/field-level mutations, and a worker process
//! (counting allocator + address-space limit) in which every library entry point is run so that
//! aborts and runaway allocations are observed as outcomes instead of killing the check.

use crate::e2e::*;
use crate::gen::*;
use crate::img::*;
use crate::pngparse::parse_chunks;
use crate::rng::Rng;
use crate::util::*;
use crate::Ctx;
use std::io::{BufRead, BufReader, Write};
use std::process::{Child, ChildStdin, ChildStdout, Command, Stdio};
use std::sync::atomic::{AtomicUsize, Ordering::Relaxed};

// ---------------------------------------------------------------------------------------------
// counting allocator (installed for the whole harness; only the worker looks at it)

pub struct Counting;
pub static CUR: AtomicUsize = AtomicUsize::new(0);
pub static PEAK: AtomicUsize = AtomicUsize::new(0);
pub static MAX_SINGLE: AtomicUsize = AtomicUsize::new(0);

unsafe impl std::alloc::GlobalAlloc for Counting {
    unsafe fn alloc(&self, l: std::alloc::Layout) -> *mut u8 {
        let p = std::alloc::System.alloc(l);
        if !p.is_null() {
            let c = CUR.fetch_add(l.size(), Relaxed) + l.size();
            PEAK.fetch_max(c, Relaxed);
            MAX_SINGLE.fetch_max(l.size(), Relaxed);
        }
        p
    }
    unsafe fn dealloc(&self, p: *mut u8, l: std::alloc::Layout) {
        CUR.fetch_sub(l.size(), Relaxed);
        std::alloc::System.dealloc(p, l)
    }
    unsafe fn alloc_zeroed(&self, l: std::alloc::Layout) -> *mut u8 {
        let p = std::alloc::System.alloc_zeroed(l);
        if !p.is_null() {
            let c = CUR.fetch_add(l.size(), Relaxed) + l.size();
            PEAK.fetch_max(c, Relaxed);
            MAX_SINGLE.fetch_max(l.size(), Relaxed);
        }
        p
    }
    unsafe fn realloc(&self, p: *mut u8, l: std::alloc::Layout, n: usize) -> *mut u8 {
        let q = std::alloc::System.realloc(p, l, n);
        if !q.is_null() {
            if n >= l.size() {
                let c = CUR.fetch_add(n - l.size(), Relaxed) + (n - l.size());
                PEAK.fetch_max(c, Relaxed);
            } else {
                CUR.fetch_sub(l.size() - n, Relaxed);
            }
            MAX_SINGLE.fetch_max(n, Relaxed);
        }
        q
    }
}

// ---------------------------------------------------------------------------------------------
// worker: one request per line `<entry> <options> | <hex>`; one answer per line

pub fn worker_main() {
    unsafe {
        // 3 GiB of address space: a few hundred bytes of input can never need that
        let lim = libc::rlimit { rlim_cur: 3 << 30, rlim_max: 3 << 30 };
        libc::setrlimit(libc::RLIMIT_AS, &lim);
    }
    let stdin = std::io::stdin();
    let mut out = std::io::stdout();
    for line in stdin.lock().lines() {
        let Ok(line) = line else { break };
        let Some((head, hexs)) = line.split_once(" | ") else { continue };
        let (entry, optstr) = head.split_once(' ').unwrap_or((head, ""));
        let input = unhex(hexs.trim());
        let opts = HOpts::parse(optstr).unwrap_or_else(|| HOpts::from_preset(2));
        PEAK.store(CUR.load(Relaxed), Relaxed);
        MAX_SINGLE.store(0, Relaxed);
        let base = CUR.load(Relaxed);
        let t0 = std::time::Instant::now();
        let res = match entry {
            "mem" => match run_case(&input, &opts) {
                Outcome::Ok(b) => format!("ok {}", b.len()),
                Outcome::Err(_) => "err".to_string(),
                Outcome::Panic => "panic".to_string(),
            },
            "parse" => {
                let o = opts.to_oxi();
                match catch(|| oxipng::internal_tests::PngData::from_slice(&input, &o)) {
                    Some(Ok(_)) => "ok 0".to_string(),
                    Some(Err(_)) => "err".to_string(),
                    None => "panic".to_string(),
                }
            }
            _ => "bad-entry".to_string(),
        };
        let peak = PEAK.load(Relaxed).saturating_sub(base);
        writeln!(out, "{} peak={} single={} ms={}", res, peak, MAX_SINGLE.load(Relaxed), t0.elapsed().as_millis()).unwrap();
        out.flush().unwrap();
    }
}

pub struct Worker {
    child: Child,
    stdin: ChildStdin,
    stdout: BufReader<ChildStdout>,
}

impl Worker {
    pub fn spawn() -> Worker {
        let exe = std::env::current_exe().unwrap();
        let mut child = Command::new(exe)
            .arg("c05-worker")
            .stdin(Stdio::piped())
            .stdout(Stdio::piped())
            .stderr(Stdio::null())
            .spawn()
            .unwrap();
        let stdin = child.stdin.take().unwrap();
        let stdout = BufReader::new(child.stdout.take().unwrap());
        Worker { child, stdin, stdout }
    }
    /// `None`: the worker died on this request (abort, signal, memory limit)
    pub fn ask(&mut self, entry: &str, opts: &HOpts, input: &[u8]) -> Option<String> {
        let line = format!("{} {} | {}\n", entry, opts.show(), hex(input));
        if self.stdin.write_all(line.as_bytes()).is_err() || self.stdin.flush().is_err() {
            return None;
        }
        let mut ans = String::new();
        match self.stdout.read_line(&mut ans) {
            Ok(n) if n > 0 => Some(ans.trim().to_string()),
            _ => None,
        }
    }
    pub fn kill(mut self) -> String {
        let _ = self.child.kill();
        match self.child.wait() {
            Ok(s) => format!("{:?}", s),
            Err(_) => "?".into(),
        }
    }
}

// ---------------------------------------------------------------------------------------------
// corpus and mutations

fn jumbf_box(name: &[u8; 4], payload: &[u8]) -> Vec<u8> {
    let mut v = ((payload.len() + 8) as u32).to_be_bytes().to_vec();
    v.extend_from_slice(name);
    v.extend_from_slice(payload);
    v
}

pub fn c2pa_chunk() -> Vec<u8> {
    let inner = jumbf_box(b"jumd", b"c2pa\0\0\0\0manifest");
    jumbf_box(b"jumb", &inner)
}

pub fn make_iccp(profile: &[u8]) -> Vec<u8> {
    let mut d = b"icc\0\0".to_vec();
    d.extend(miniz_oxide::deflate::compress_to_vec_zlib(profile, 6));
    d
}

/// a structured corpus: every legal type/depth pair, interlaced or not, with metadata and animation
pub fn corpus(rng: &mut Rng) -> Vec<(String, Vec<u8>)> {
    let mut out = vec![];
    for (k, &(ct, depth)) in LEGAL_PAIRS.iter().enumerate() {
        for il in [false, true] {
            // sizes around the Adam7 special cases (passes that are empty for widths / heights 1..4)
            let dims = [(5u32, 3u32), (2, 3), (3, 4), (1, 1), (4, 5), (2, 9), (8, 8), (1, 6), (3, 2), (9, 2)];
            let (w, h) = dims[(k * 2 + il as usize) % dims.len()];
            let (g, _) = gen_grid(rng, ct, depth, w, h);
            let img = g.pack(il);
            let mut enc = EncOpts { level: 6, idat_parts: 1 + k % 2, empty_idat: [0u8, 1, 0, 9, 0, 6, 0, 3][k % 8], ..Default::default() };
            if k % 3 == 0 {
                enc.pre_plte.push((*b"gAMA", vec![0, 0, 0xb1, 0x8f]));
                enc.pre_idat.push((*b"bKGD", if ct == 3 { vec![0] } else if ct == 0 || ct == 4 { vec![0, 1] } else { vec![0, 1, 0, 2, 0, 3] }));
                enc.post_idat.push((*b"tEXt", b"Comment\0hello".to_vec()));
            }
            if k % 4 == 1 {
                enc.pre_plte.push((*b"iCCP", make_iccp(&vec![7u8; 200])));
            }
            if k % 5 == 2 {
                enc.pre_plte.push((*b"caBX", c2pa_chunk()));
            }
            out.push((format!("ct{}d{}il{}", ct, depth, il as u8), img.encode_png(rng, &enc)));
        }
    }
    // animated
    for n_frames in [1usize, 3] {
        let (g, _) = gen_grid(rng, 6, 8, 4, 4);
        let img = g.pack(false);
        out.push((format!("apng{}", n_frames), encode_apng(rng, &img, n_frames, true, 2)));
    }
    out
}

/// Valid files at the limits of the palette machinery: exactly 255 / 256 / 257 / 258 distinct colours in images that are
/// not indexed yet (256 is the most a palette can hold), and an indexed image that uses all 256 entries of its palette
pub fn boundary_files(rng: &mut Rng) -> Vec<(String, Vec<u8>)> {
    let mut out = vec![];
    for ct in [2u8, 6, 4] {
        for n in [255u32, 256, 257, 258] {
            let c = channels(ct);
            let mut order: Vec<u32> = (0..n).collect();
            for i in (1..order.len()).rev() {
                let j = rng.below(i as u64 + 1) as usize;
                order.swap(i, j);
            }
            let mut samples: Vec<u16> = Vec::with_capacity(n as usize * c);
            for k in order {
                match ct {
                    2 => samples.extend([(k & 255) as u16, (k >> 8) as u16 * 40 + 3, 7]),
                    6 => samples.extend([(k & 255) as u16, (k >> 8) as u16 * 40 + 3, 7, 255]),
                    _ => samples.extend([(k & 255) as u16, 255 - (k >> 8) as u16]),
                }
            }
            let (w, h) = if rng.bool() { (n, 1) } else { (1, n) };
            let img = Grid { w, h, ct, depth: 8, palette: vec![], trns: None, samples }.pack(false);
            out.push((format!("colours{}ct{}", n, ct), img.encode_png(rng, &EncOpts { level: 6, idat_parts: 1, ..Default::default() })));
        }
    }
    // files oxipng accepts although one pixel's index is exactly one past the palette (it stands for opaque black): every
    // entry of a small palette in use, the stray index early or late in the data, the palette in rising or falling
    // brightness (so that one of the two is already in the order the palette sort would give it)
    for rising in [false, true] {
        for late in [false, true] {
            for n in [3usize, 5] {
                let mut palette: Vec<[u8; 4]> = (0..n).map(|k| { let v = (k * 255 / (n - 1)) as u8; [v, v, v, 255] }).collect();
                if !rising { palette.reverse(); }
                let mut idx: Vec<u16> = (0..40).map(|k| (k % n) as u16).collect();
                idx[if late { 37 } else { 1 }] = n as u16;
                let img = Grid { w: 8, h: 5, ct: 3, depth: 8, palette, trns: None, samples: idx }.pack(false);
                out.push((format!("stray-index pal{} rising{} late{}", n, rising as u8, late as u8), img.encode_png(rng, &EncOpts { level: 6, idat_parts: 1, ..Default::default() })));
            }
        }
    }
    let palette: Vec<[u8; 4]> = (0..256u32).map(|k| [(k * 7 % 256) as u8, (255 - k) as u8, (k * 13 % 256) as u8, if k % 5 == 0 { 128 } else { 255 }]).collect();
    let mut idx: Vec<u16> = (0..256).collect();
    for i in (1..idx.len()).rev() {
        let j = rng.below(i as u64 + 1) as usize;
        idx.swap(i, j);
    }
    let img = Grid { w: 16, h: 16, ct: 3, depth: 8, palette, trns: None, samples: idx }.pack(false);
    out.push(("palette256".to_string(), img.encode_png(rng, &EncOpts { level: 6, idat_parts: 1, ..Default::default() })));
    out
}

/// APNG encoder: `default_in_anim`: the default image is the first frame
pub fn encode_apng(rng: &mut Rng, img: &HImg, extra_frames: usize, default_in_anim: bool, fdat_parts: usize) -> Vec<u8> {
    encode_apng_with(rng, img, extra_frames, default_in_anim, fdat_parts, &[])
}

/// `pre_idat`: ancillary chunks written between PLTE/tRNS and the default image's fcTL / IDAT
/// how often `encode_apng_with` wrote two frames of different size over one stream / a true repeat (for the evidence)
pub static SHARED_STREAM_PAIRS: AtomicUsize = AtomicUsize::new(0);
pub static REPEATED_FRAMES: AtomicUsize = AtomicUsize::new(0);
pub static ADLER_TWINS: AtomicUsize = AtomicUsize::new(0);

pub fn encode_apng_with(rng: &mut Rng, img: &HImg, extra_frames: usize, default_in_anim: bool, fdat_parts: usize, pre_idat: &[([u8; 4], Vec<u8>)]) -> Vec<u8> {
    let mut out = SIG.to_vec();
    write_chunk(&mut out, b"IHDR", &img.ihdr_bytes());
    let total = extra_frames + default_in_anim as usize;
    let mut actl = (total as u32).to_be_bytes().to_vec();
    actl.extend_from_slice(&(rng.below(3) as u32).to_be_bytes());
    write_chunk(&mut out, b"acTL", &actl);
    // colour-space chunks belong in front of PLTE
    let early = |n: &[u8; 4]| matches!(n, b"iCCP" | b"sRGB" | b"gAMA" | b"cHRM" | b"sBIT");
    for (n, d) in pre_idat.iter().filter(|c| early(&c.0)) {
        write_chunk(&mut out, n, d);
    }
    if img.ct == 3 {
        write_chunk(&mut out, b"PLTE", &img.plte_bytes());
    }
    if let Some(t) = img.trns_bytes() {
        write_chunk(&mut out, b"tRNS", &t);
    }
    // ancillary chunks may also sit between the default image's fcTL and its IDAT (legal, unusual)
    let late: Vec<bool> = pre_idat.iter().map(|c| !early(&c.0) && default_in_anim && rng.chance(1, 3)).collect();
    for ((n, d), l) in pre_idat.iter().zip(&late) {
        if !*l && !early(n) { write_chunk(&mut out, n, d); }
    }
    let mut seq = 0u32;
    let fctl = |seq: u32, w: u32, h: u32, x: u32, y: u32, rng: &mut Rng| -> Vec<u8> {
        let mut v = seq.to_be_bytes().to_vec();
        for d in [w, h, x, y] {
            v.extend_from_slice(&d.to_be_bytes());
        }
        v.extend_from_slice(&(rng.below(100) as u16).to_be_bytes());
        v.extend_from_slice(&(rng.below(100) as u16).to_be_bytes());
        v.push(rng.below(3) as u8);
        v.push(rng.below(2) as u8);
        v
    };
    if default_in_anim {
        write_chunk(&mut out, b"fcTL", &fctl(seq, img.w, img.h, 0, 0, rng));
        seq += 1;
        for ((n, d), l) in pre_idat.iter().zip(&late) {
            if *l { write_chunk(&mut out, n, d); }
        }
    }
    let filtered = img.filtered(|_| 0);
    // zero-length IDAT chunks are legal anywhere in the run (a leading one makes `from_slice` note the position twice)
    let empties = if rng.chance(1, 4) { rng.range(1, 3) } else { 0 };
    if empties & 1 != 0 {
        write_chunk(&mut out, b"IDAT", &[]);
    }
    write_chunk(&mut out, b"IDAT", &miniz_oxide::deflate::compress_to_vec_zlib(&filtered, 6));
    if empties & 2 != 0 {
        write_chunk(&mut out, b"IDAT", &[]);
    }
    let emit_fdat = |out: &mut Vec<u8>, seq: &mut u32, z: &[u8]| {
        let parts = fdat_parts.max(1).min(z.len().max(1));
        let per = (z.len() + parts - 1) / parts;
        for part in z.chunks(per.max(1)) {
            let mut d = seq.to_be_bytes().to_vec();
            d.extend_from_slice(part);
            write_chunk(out, b"fdAT", &d);
            *seq += 1;
        }
    };
    let mut left = extra_frames;
    while left > 0 {
        // a sub-rectangle frame with fresh content
        let fw = rng.range(1, img.w as u64) as u32;
        let fh = rng.range(1, img.h as u64) as u32;
        let fx = rng.below((img.w - fw + 1) as u64) as u32;
        let fy = rng.below((img.h - fh + 1) as u64) as u32;
        // One time in four two consecutive frames share one compressed stream: a true repeat (same size), or - where
        // the layouts allow it - two frames of different size whose rows cut the very same filtered stream differently
        // (equal stream length, a legal filter type wherever either layout starts a row), so that they show different
        // pixels. Frame data says nothing about a frame's geometry; whatever is remembered per payload must not be
        // reused across frames.
        if left >= 2 && rng.chance(1, 3) && !img.il && img.ct != 3 && img.depth >= 8 {
            let bpp = (channels(img.ct) * img.depth as usize) / 8;
            // all frame sizes of this canvas, grouped by the length of their filtered stream
            let mut by_len: std::collections::BTreeMap<usize, Vec<(u32, u32)>> = Default::default();
            for w1 in 1..=img.w.min(64) {
                for h1 in 1..=img.h.min(64) {
                    by_len.entry(h1 as usize * (1 + w1 as usize * bpp)).or_default().push((w1, h1));
                }
            }
            let groups: Vec<&Vec<(u32, u32)>> = by_len.values().filter(|v| v.len() >= 2).collect();
            if !groups.is_empty() {
                let grp = *rng.choose(&groups);
                let i1 = rng.below(grp.len() as u64) as usize;
                let mut i2 = rng.below(grp.len() as u64 - 1) as usize;
                if i2 >= i1 { i2 += 1; }
                let ((fw, fh), (w2, h2)) = (grp[i1], grp[i2]);
                let len = fh as usize * (1 + fw as usize * bpp);
                let fx = rng.below((img.w - fw + 1) as u64) as u32;
                let fy = rng.below((img.h - fh + 1) as u64) as u32;
                // few distinct byte values, so that recompression pays and the frames really are rewritten
                let vals: Vec<u8> = (0..rng.range(2, 6)).map(|_| rng.byte()).collect();
                let mut stream: Vec<u8> = (0..len).map(|_| *rng.choose(&vals)).collect();
                for k in 0..fh as usize { stream[k * (1 + fw as usize * bpp)] = rng.below(5) as u8; }
                for k in 0..h2 as usize { stream[k * (1 + w2 as usize * bpp)] = rng.below(5) as u8; }
                let z = miniz_oxide::deflate::compress_to_vec_zlib(&stream, 1);
                write_chunk(&mut out, b"fcTL", &fctl(seq, fw, fh, fx, fy, rng));
                seq += 1;
                emit_fdat(&mut out, &mut seq, &z);
                let x2 = rng.below((img.w - w2 + 1) as u64) as u32;
                let y2 = rng.below((img.h - h2 + 1) as u64) as u32;
                write_chunk(&mut out, b"fcTL", &fctl(seq, w2, h2, x2, y2, rng));
                seq += 1;
                emit_fdat(&mut out, &mut seq, &z);
                SHARED_STREAM_PAIRS.fetch_add(1, Relaxed);
                left -= 2;
                continue;
            }
        }
        // Two different frames of one size whose streams have the same length AND the same Adler-32 (rows `0 a 0 a` and
        // `0 0 2a 0`, stored uncompressed): nothing short of the data itself tells one frame from another.
        if left >= 2 && img.ct == 0 && img.depth == 8 && !img.il && img.w >= 3 && rng.chance(1, 2) {
            let a = rng.range(1, 127) as u8;
            let rows = rng.range(1, (img.h.min(4)) as u64) as u32;
            let mk = |row: [u8; 3]| -> Vec<u8> {
                let mut raw = vec![];
                for _ in 0..rows { raw.push(0); raw.extend_from_slice(&row); }
                miniz_oxide::deflate::compress_to_vec_zlib(&raw, 0)
            };
            let (z1, z2) = (mk([a, 0, a]), mk([0, 2 * a, 0]));
            if z1.len() == z2.len() && z1[z1.len() - 4..] == z2[z2.len() - 4..] {
                for z in [z1, z2] {
                    let x = rng.below((img.w - 3 + 1) as u64) as u32;
                    let y = rng.below((img.h - rows + 1) as u64) as u32;
                    write_chunk(&mut out, b"fcTL", &fctl(seq, 3, rows, x, y, rng));
                    seq += 1;
                    emit_fdat(&mut out, &mut seq, &z);
                }
                ADLER_TWINS.fetch_add(1, Relaxed);
                left -= 2;
                continue;
            }
        }
        let (mut g, _) = gen_grid(rng, img.ct, img.depth, fw, fh);
        g.palette = img.palette.clone();
        g.trns = img.trns.clone();
        if img.ct == 3 {
            let n = img.palette.len().max(1) as u16;
            for s in g.samples.iter_mut() {
                *s %= n;
            }
        }
        let fimg = g.pack(img.il);
        write_chunk(&mut out, b"fcTL", &fctl(seq, fw, fh, fx, fy, rng));
        seq += 1;
        let mut r2 = rng.fork();
        let z = miniz_oxide::deflate::compress_to_vec_zlib(&fimg.filtered(|_| r2.below(5) as u8), 1);
        emit_fdat(&mut out, &mut seq, &z);
        left -= 1;
        if left >= 1 && rng.chance(1, 8) {
            // a true repeat of the frame just written
            write_chunk(&mut out, b"fcTL", &fctl(seq, fw, fh, fx, fy, rng));
            seq += 1;
            emit_fdat(&mut out, &mut seq, &z);
            REPEATED_FRAMES.fetch_add(1, Relaxed);
            left -= 1;
        }
    }
    write_chunk(&mut out, b"IEND", &[]);
    out
}

pub fn rebuild(chunks: &[([u8; 4], Vec<u8>)]) -> Vec<u8> {
    let mut out = SIG.to_vec();
    for (n, d) in chunks {
        write_chunk(&mut out, n, d);
    }
    out
}

/// all mutations of one file; `stride` thins out the byte-level ones
pub fn mutations(rng: &mut Rng, file: &[u8], stride: usize) -> Vec<(String, Vec<u8>)> {
    let mut out: Vec<(String, Vec<u8>)> = vec![];
    // single-byte corruptions and truncations
    let mut i = rng.below(stride as u64) as usize;
    while i < file.len() {
        let mut m = file.to_vec();
        m[i] ^= 1 << rng.below(8);
        out.push((format!("flip@{}", i), m));
        let mut m = file.to_vec();
        m[i] = *rng.choose(&[0u8, 0xff, 0x80, 1]);
        out.push((format!("set@{}", i), m));
        out.push((format!("trunc@{}", i), file[..i].to_vec()));
        i += stride;
    }
    // chunk level
    if let Ok(chs) = parse_chunks(file) {
        let list: Vec<([u8; 4], Vec<u8>)> = chs.iter().map(|c| (c.name, c.data.clone())).collect();
        for k in 0..list.len() {
            let mut l = list.clone();
            l.remove(k);
            out.push((format!("del#{}", k), rebuild(&l)));
            let mut l = list.clone();
            l.insert(k, list[k].clone());
            out.push((format!("dup#{}", k), rebuild(&l)));
            if k + 1 < list.len() {
                let mut l = list.clone();
                l.swap(k, k + 1);
                out.push((format!("swap#{}", k), rebuild(&l)));
            }
            // payload bytes changed under a recomputed CRC (reaches the code behind the CRC check without --fix)
            if !list[k].1.is_empty() {
                for v in 0..3 {
                    let mut l = list.clone();
                    let n = l[k].1.len();
                    for _ in 0..=v {
                        let at = rng.below(n as u64) as usize;
                        l[k].1[at] = match rng.below(4) { 0 => 0, 1 => 0xff, 2 => l[k].1[at].wrapping_add(1), _ => rng.below(256) as u8 };
                    }
                    out.push((format!("payload#{}v{}", k, v), rebuild(&l)));
                }
            }
            // payload length edits (CRC recomputed, so the walker gets past it)
            for newlen in [0usize, 1, 3, 4, 5, 12, 25, 27] {
                let mut l = list.clone();
                l[k].1.resize(newlen, 0);
                out.push((format!("len#{}={}", k, newlen), rebuild(&l)));
            }
        }
        // filter-type bytes rewritten inside a VALID zlib stream with valid CRCs (what byte flips of the
        // compressed data never reach): legal types, the enum's heuristic numbers 5..9, and beyond
        if let Ok(d) = crate::pngparse::decode(file) {
            let mut filtered: Vec<u8> = Vec::new();
            let mut offs: Vec<usize> = vec![];
            {
                let lines = d.img.lines();
                let body = d.img.filtered(|_| 0);
                let mut off = 0;
                for (_, _, l) in lines {
                    offs.push(off);
                    off += 1 + l.len();
                }
                filtered.extend_from_slice(&body);
            }
            for &row in [0usize, offs.len() / 2, offs.len().saturating_sub(1)].iter() {
                if row >= offs.len() { continue; }
                for ft in [1u8, 4, 5, 6, 7, 8, 9, 10, 128, 255] {
                    let mut f2 = filtered.clone();
                    f2[offs[row]] = ft;
                    let z = miniz_oxide::deflate::compress_to_vec_zlib(&f2, 6);
                    let mut l: Vec<([u8; 4], Vec<u8>)> = list.iter().filter(|c| &c.0 != b"IDAT").cloned().collect();
                    let at = l.iter().position(|c| &c.0 == b"IEND").unwrap_or(l.len());
                    // keep IDAT where the first IDAT was (before any post-IDAT chunks)
                    let first_idat = list.iter().position(|c| &c.0 == b"IDAT").unwrap_or(at);
                    let before: usize = list[..first_idat].iter().filter(|c| &c.0 != b"IDAT").count();
                    l.insert(before.min(l.len()), (*b"IDAT", z));
                    out.push((format!("refilter#{}={}", row, ft), rebuild(&l)));
                }
            }
        }
        // header field edits
        let ih = list[0].1.clone();
        if ih.len() == 13 {
            let mut edits: Vec<(String, Vec<u8>)> = vec![];
            let set32 = |v: &mut Vec<u8>, at: usize, x: u32| v[at..at + 4].copy_from_slice(&x.to_be_bytes());
            for (wv, hv) in [(0u32, 1u32), (1, 0), (0, 0), (0xffff_ffff, 0xffff_ffff), (0x7fff_ffff, 1), (1, 0x7fff_ffff), (100_000, 100_000), (65536, 65536), (1 << 20, 1 << 12)] {
                let mut v = ih.clone();
                set32(&mut v, 0, wv);
                set32(&mut v, 4, hv);
                edits.push((format!("dims={}x{}", wv, hv), v));
            }
            for d in [0u8, 1, 2, 3, 4, 8, 16, 32, 255] {
                let mut v = ih.clone();
                v[8] = d;
                edits.push((format!("depth={}", d), v));
            }
            for c in [0u8, 1, 2, 3, 4, 5, 6, 7, 255] {
                let mut v = ih.clone();
                v[9] = c;
                edits.push((format!("ctype={}", c), v));
            }
            for il in [0u8, 1, 2, 255] {
                let mut v = ih.clone();
                v[12] = il;
                edits.push((format!("il={}", il), v));
            }
            for (name, v) in edits {
                let mut l = list.clone();
                l[0].1 = v;
                out.push((format!("ihdr:{}", name), rebuild(&l)));
            }
        }
        // animation / metadata field edits
        for (k, (n, d)) in list.iter().enumerate() {
            if n == b"fcTL" && d.len() == 26 {
                for (at, val) in [(4usize, 0u32), (8, 0), (4, 0xffff_ffff), (8, 0xffff_ffff), (12, 0xffff_ffff), (0, 7)] {
                    let mut l = list.clone();
                    l[k].1[at..at + 4].copy_from_slice(&val.to_be_bytes());
                    out.push((format!("fctl#{}@{}={}", k, at, val), rebuild(&l)));
                }
            }
            // a frame of zero width (or height) whose data is consistent with that size: `height` rows holding
            // nothing but their filter byte - only such a frame gets past the size checks of the frame decoder
            if n == b"fcTL" && d.len() == 26 {
                if let Some(fd) = (k + 1..list.len()).take_while(|j| &list[*j].0 != b"fcTL").find(|j| &list[*j].0 == b"fdAT") {
                    let h = u32::from_be_bytes(d[8..12].try_into().unwrap()) as usize;
                    for (what, at, rows) in [("w", 4usize, h.min(4096)), ("h", 8usize, 0usize)] {
                        let mut l = list.clone();
                        l[k].1[at..at + 4].copy_from_slice(&0u32.to_be_bytes());
                        let mut payload = l[fd].1[..4.min(l[fd].1.len())].to_vec();
                        payload.extend(miniz_oxide::deflate::compress_to_vec_zlib(&vec![0u8; rows], 6));
                        l[fd].1 = payload;
                        // drop further fdAT parts of the same frame
                        let extra: Vec<usize> = (fd + 1..l.len()).take_while(|j| &l[*j].0 == b"fdAT").collect();
                        for j in extra.into_iter().rev() { l.remove(j); }
                        out.push((format!("fctl#{}zero-{}-consistent", k, what), rebuild(&l)));
                    }
                }
            }
            if n == b"acTL" {
                let mut l = list.clone();
                l[k].1 = vec![0xff; 8];
                out.push((format!("actl#{}", k), rebuild(&l)));
            }
            if n == b"iCCP" {
                for junk in [vec![], b"x".to_vec(), b"name\0".to_vec(), b"name\0\x01abc".to_vec(), b"name\0\0\xff\xff\xff".to_vec(), rng.bytes(40)] {
                    let mut l = list.clone();
                    l[k].1 = junk;
                    out.push((format!("iccp#{}", k), rebuild(&l)));
                }
            }
            if n == b"caBX" {
                for junk in [vec![], vec![0, 0, 0, 8], vec![0, 0, 0, 7, b'j', b'u', b'm', b'b'], vec![0xff; 16], jumbf_box(b"jumb", &[0, 0, 0, 9, b'j', b'u', b'm', b'd', b'c'])] {
                    let mut l = list.clone();
                    l[k].1 = junk;
                    out.push((format!("cabx#{}", k), rebuild(&l)));
                }
            }
            if n == b"PLTE" || n == b"tRNS" {
                for newlen in [2usize, 7, 768, 771, 1000] {
                    let mut l = list.clone();
                    l[k].1.resize(newlen, 0x55);
                    out.push((format!("{}#len={}", String::from_utf8_lossy(n), newlen), rebuild(&l)));
                }
            }
        }
    }
    out
}


/// All mutations of all corpus files, then a selection of at most `n` that gives every mutation kind
/// its share (round-robin over the kinds, random order within a kind), so that the rare kinds -
/// animation fields, profile and manifest payloads - are run at every tier.
pub fn selected_mutations(rng: &mut Rng, files: &[(String, Vec<u8>)], stride: usize, n: usize, with_identity: bool, max_len: usize) -> (Vec<(String, String, Vec<u8>)>, usize) {
    let mut all: Vec<(String, String, Vec<u8>)> = vec![];
    for (fname, file) in files {
        if with_identity {
            all.push((fname.clone(), "identity".into(), file.clone()));
        }
        for (mname, m) in mutations(rng, file, stride) {
            if m.len() <= max_len {
                all.push((fname.clone(), mname, m));
            }
        }
    }
    let kind_of = |mname: &str| mname.split(|c| c == '@' || c == '#' || c == ':' || c == '=').next().unwrap_or("?").to_string();
    let mut by_kind: std::collections::BTreeMap<String, Vec<usize>> = Default::default();
    for (k, (_, mname, _)) in all.iter().enumerate() {
        by_kind.entry(kind_of(mname)).or_default().push(k);
    }
    for v in by_kind.values_mut() {
        for a in (1..v.len()).rev() {
            let b = rng.below(a as u64 + 1) as usize;
            v.swap(a, b);
        }
    }
    let mut order: Vec<usize> = vec![];
    let mut round = 0usize;
    while order.len() < n.min(all.len()) {
        for v in by_kind.values() {
            if let Some(&k) = v.get(round) {
                order.push(k);
            }
        }
        round += 1;
    }
    order.truncate(n);
    let total = all.len();
    let mut slots: Vec<Option<(String, String, Vec<u8>)>> = all.into_iter().map(Some).collect();
    (order.into_iter().filter_map(|k| slots[k].take()).collect(), total)
}

/// bound on the heap a run may request: a fixed multiple of what the bytes present could decode to
/// (deflate expands by at most 1032) plus a fixed allowance for the optimiser's own tables
pub fn alloc_bound(input_len: usize) -> usize {
    64 * 1032 * input_len + (64 << 20)
}

pub fn oracle(ctx: &mut Ctx) {
    let mut rng = Rng::new(ctx.seed ^ 0xC05);
    let mut st = Stats::default();
    let files = corpus(&mut rng);
    st.add("corpus_files", files.len() as u64);
    let stride = if ctx.tier_thorough { 1 } else { 7 };
    let mut w = Worker::spawn();
    let bin_dir: Option<std::path::PathBuf> = if crate::cli::binary_available() { Some(crate::cli::work_dir("c05-bin")) } else { None };
    let (selected, total) = selected_mutations(&mut rng, &files, stride, ctx.n, false, usize::MAX);
    st.add("mutations_available", total as u64);
    {
        for (fname, mname, m) in selected {
            let fname = &fname;
            let mut opts = gen_opts(&mut rng, Profile::Any, false);
            opts.fix_errors = rng.bool();
            if let Err(_) = opts.deflate {
                opts.deflate = Ok(5);
            }
            let entry = if rng.chance(1, 5) { "parse" } else { "mem" };
            st.count("cases");
            st.count(mname.split(|c| c == '@' || c == '#' || c == ':' || c == '=').next().unwrap_or("?"));
            st.distinct_case(&m);
            let replay = format!(
                "{{\"entry\": {}, \"file\": {}, \"mutation\": {}, \"options\": {}, \"input_hex\": {}}}",
                jstr(entry), jstr(fname), jstr(&mname), jstr(&opts.show()), jstr(&hex(&m))
            );
            // one case in twelve also through the file / standard-input entry point, by way of the executable: it ends with
            // one of its three exit statuses, never by a signal (a panic is an abort in release builds)
            if let Some(dir) = &bin_dir {
                if rng.chance(1, 12) {
                    let _ = std::fs::create_dir_all(dir);
                    let _ = std::fs::remove_file(dir.join("out.png"));
                    std::fs::write(dir.join("in.png"), &m).unwrap();
                    let mut args: Vec<String> = crate::cli::opts_to_flags(&opts, rng.next_u64()).unwrap_or_default();
                    args.push("-q".into());
                    let stdin = rng.bool();
                    args.extend(["--out".into(), "out.png".into(), if stdin { "-".into() } else { "in.png".into() }]);
                    let t_exe = std::time::Instant::now();
                    let r = if stdin { crate::cli::run_bin_stdin(dir, &args, &m) } else { crate::cli::run_bin(dir, &args) };
                    st.count("cases_through_the_executable");
                    match r.status {
                        Some(0) | Some(1) | Some(3) => st.count(&format!("executable_exit_{}", r.status.unwrap())),
                        None if t_exe.elapsed().as_secs() >= crate::cli::BIN_TIMEOUT_S => st.fail("hang", format!("the executable had not ended after {} s on {} of {} ({})", crate::cli::BIN_TIMEOUT_S, mname, fname, args.join(" ")), replay.clone()),
                        other => st.fail("abort", format!("the executable ended with {:?} (killed by a signal, or an exit status of its own invention) on {} of {} ({})", other, mname, fname, args.join(" ")), replay.clone()),
                    }
                }
            }
            match w.ask(entry, &opts, &m) {
                None => {
                    let status = w.kill();
                    st.fail("abort", format!("process died ({}) on {} of {}", status, mname, fname), replay);
                    w = Worker::spawn();
                }
                Some(ans) => {
                    let mut it = ans.split_whitespace();
                    let kind = it.next().unwrap_or("?").to_string();
                    st.count(&format!("outcome_{}", kind));
                    let mut peak = 0usize;
                    let mut ms = 0u64;
                    for tok in ans.split_whitespace() {
                        if let Some(v) = tok.strip_prefix("peak=") {
                            peak = v.parse().unwrap_or(0);
                        }
                        if let Some(v) = tok.strip_prefix("ms=") {
                            ms = v.parse().unwrap_or(0);
                        }
                    }
                    if kind == "panic" {
                        let tag = if mname.starts_with("ihdr:dims=0") || mname.contains("dims=1x0") { "panic-zero-dim" }
                                  else if mname.starts_with("ihdr:depth") || mname.starts_with("ihdr:ctype") { "panic-depth" }
                                  else { "panic" };
                        st.fail(tag, format!("panic on {} of {} ({})", mname, fname, entry), replay);
                    } else if peak > alloc_bound(m.len()) {
                        st.fail("memory", format!("{} bytes of heap requested for a {}-byte input ({} of {})", peak, m.len(), mname, fname), replay);
                    } else if ms > 20_000 {
                        st.fail("slow", format!("{} ms on {} of {}", ms, mname, fname), replay);
                    }
                    if st.samples.len() < 4 && kind == "err" {
                        st.sample(format!("{} of {} -> {}", mname, fname, ans));
                    }
                }
            }
        }
    }
    // valid files at the limits of the palette machinery, unmutated, under several option sets
    for (fname, file) in boundary_files(&mut rng) {
        for k in 0..4 {
            let mut opts = gen_opts(&mut rng, Profile::Any, false);
            if k == 0 { opts = HOpts::from_preset(2); }
            if k == 1 { opts = HOpts::from_preset(4); }
            if let Err(_) = opts.deflate { opts.deflate = Ok(5); }
            st.count("boundary_cases");
            let replay = format!("{{\"entry\": \"mem\", \"file\": {}, \"options\": {}, \"input_hex\": {}}}", jstr(&fname), jstr(&opts.show()), jstr(&hex(&file)));
            match w.ask("mem", &opts, &file) {
                None => {
                    let status = w.kill();
                    st.fail("abort", format!("process died ({}) on the valid file {}", status, fname), replay);
                    w = Worker::spawn();
                }
                Some(ans) => {
                    let kind = ans.split_whitespace().next().unwrap_or("?").to_string();
                    st.count(&format!("boundary_{}", kind));
                    if kind == "panic" {
                        st.fail("panic", format!("panic on the valid file {} ({})", fname, opts.show()), replay);
                    } else if kind == "err" {
                        st.fail("error-on-valid", format!("the valid file {} is rejected ({})", fname, ans), replay);
                    }
                }
            }
        }
    }
    let _ = w.kill();
    ctx.write_stats(&st);
}

// ---------------------------------------------------------------------------------------------
// correspondence: `PngData::from_slice` vs the Lean front-end model

fn digest(b: &[u8]) -> String {
    fnv64(FNV_INIT, b).to_string()
}

fn err_kind(e: &oxipng::PngError) -> &'static str {
    use oxipng::PngError::*;
    match e {
        TruncatedData => "truncated",
        NotPNG => "notPng",
        APNGOutOfOrder => "apngOutOfOrder",
        InvalidData => "invalidData",
        ChunkMissing(_) => "chunkMissing",
        C2PAMetadataPreventsChanges => "c2pa",
        InvalidDepthForType(..) => "badHeader",
        Other(s) if s.starts_with("CRC Mismatch") => "crcMismatch",
        Other(s) if s.starts_with("inflated data too long") => "invalidData",
        Other(_) => "badHeader",
        _ => "other",
    }
}

fn gen_strip(rng: &mut Rng) -> HStrip {
    match rng.below(8) {
        0 => HStrip::Safe,
        1 => HStrip::All,
        2 => HStrip::Strip(vec![*b"tEXt", *b"gAMA"]),
        3 => HStrip::Keep(vec![*b"acTL", *b"fcTL", *b"fdAT", *b"bKGD"]),
        4 => HStrip::Keep(vec![*b"caBX", *b"iCCP"]),
        5 => HStrip::Strip(vec![*b"fdAT"]),
        _ => HStrip::None,
    }
}

pub fn corr(ctx: &mut Ctx) {
    let mut rng = Rng::new(ctx.seed ^ 0xF0C5);
    let mut st = Stats::default();
    let files = corpus(&mut rng);
    let stride = if ctx.tier_thorough { 3 } else { 23 };
    // (requests are kept of moderate size for the driver)
    let (selected, total) = selected_mutations(&mut rng, &files, stride, ctx.n, true, 1500);
    st.add("mutations_available", total as u64);
    {
        for (fname, mname, m) in selected {
            let fname = &fname;
            let strip = gen_strip(&mut rng);
            let fix = rng.bool();
            let mut o = HOpts::from_preset(2);
            o.strip = strip;
            o.fix_errors = fix;
            let ox = o.to_oxi();
            let r = catch(|| oxipng::internal_tests::PngData::from_slice(&m, &ox));
            // what the IDAT stream inflates to, by an independent inflater
            let idat: Vec<u8> = match parse_chunks_lenient(&m) {
                Some(cs) => cs.iter().filter(|c| &c.0 == b"IDAT").flat_map(|c| c.1.iter().copied()).collect(),
                None => vec![],
            };
            // The inflater is a parameter of the model (contract D1): it is given what the library the code links
            // (libdeflate) makes of the stream. libdeflate accepts some corrupt streams that zlib / miniz reject
            // (e.g. an invalid distance code after a bit flip with --fix): those are counted, not judged.
            let inflated = {
                let mut dec = libdeflater::Decompressor::new();
                let mut buf = vec![0u8; 1 << 22];
                match dec.zlib_decompress(&idat, &mut buf) {
                    Ok(n) => { buf.truncate(n); Some(buf) }
                    Err(_) => None,
                }
            };
            if inflated.is_some() != miniz_oxide::inflate::decompress_to_vec_zlib_with_limit(&idat, 1 << 22).is_ok() {
                st.count("inflaters_disagree_on_validity");
            }
            // when the stream is rejected the exact error class of the code is not predicted
            let ans = match &r {
                None => "panic".to_string(),
                Some(Err(e)) => format!("err {}", err_kind(e)),
                Some(Ok(p)) => {
                    let h = HImg::from_oxi(&p.raw);
                    let pal: Vec<u8> = h.palette.iter().flatten().copied().collect();
                    let trns: Vec<u8> = h.trns.as_ref().map(|t| t.iter().flat_map(|v| v.to_be_bytes()).collect()).unwrap_or_default();
                    let aux = p.aux_chunks.iter().map(|c| format!("{}:{}", hex(&c.name), digest(&c.data))).collect::<Vec<_>>().join(",");
                    let frames = p.frames.iter().map(|f| format!("{}:{}:{}:{}:{}:{}:{}:{}:{}", f.width, f.height, f.x_offset, f.y_offset, f.delay_num, f.delay_den, f.dispose_op, f.blend_op, digest(&f.data))).collect::<Vec<_>>().join(",");
                    format!(
                        "ok {} {} {} {} {} pal={} trns={} data={} idat={} aux=[{}] frames=[{}]",
                        h.w, h.h, h.ct, h.depth, h.il as u8, hex(&pal), hex(&trns), digest(&h.data), digest(&p.idat_data), aux, frames
                    )
                }
            };
            st.count(&format!("outcome_{}", ans.split_whitespace().take(2).collect::<Vec<_>>().join("_").replace(|c: char| c.is_ascii_digit(), "")));
            st.distinct_case(&m);
            let infl_arg = match &inflated {
                Some(v) => hex(v),
                None => "x".to_string(),
            };
            let req = format!("from_slice {} {} {} {}", match &o.strip {
                HStrip::None => "none".to_string(),
                HStrip::Safe => "safe".to_string(),
                HStrip::All => "all".to_string(),
                HStrip::Strip(v) => format!("strip:{}", v.iter().map(|n| String::from_utf8_lossy(n).to_string()).collect::<Vec<_>>().join(",")),
                HStrip::Keep(v) => format!("keep:{}", v.iter().map(|n| String::from_utf8_lossy(n).to_string()).collect::<Vec<_>>().join(",")),
            }, fix as u8, hex(&m), infl_arg);
            if inflated.is_none() && matches!(&r, Some(Err(_))) && idat.len() > 0 {
                // corrupt zlib stream: error class not predicted; only "an error, not a panic"
                st.count("unpredicted_zlib_error");
                continue;
            }
            if st.samples.len() < 3 && mname != "identity" {
                st.sample(format!("{} of {}: {}", mname, fname, &ans[..ans.len().min(120)]));
            }
            ctx.line(&req, &ans);
        }
    }
    // contract D4: libdeflate's CRC-32 is the specification's
    for _ in 0..200 {
        let n = rng.below(64) as usize;
        let d = rng.bytes(n);
        ctx.line(&format!("crc32 {}", hex(&d)), &format!("ok {}", oxipng::internal_tests::crc32(&d)));
    }
    ctx.write_stats(&st);
}

/// chunk list without CRC / name checks (for locating IDAT in mutated files); `None` if the framing is broken
fn parse_chunks_lenient(b: &[u8]) -> Option<Vec<([u8; 4], Vec<u8>)>> {
    if b.len() < 8 {
        return None;
    }
    let mut off = 8;
    let mut out = vec![];
    while off + 12 <= b.len() {
        let len = u32::from_be_bytes(b[off..off + 4].try_into().unwrap()) as usize;
        if off + 12 + len > b.len() {
            return Some(out);
        }
        let name: [u8; 4] = b[off + 4..off + 8].try_into().unwrap();
        if &name == b"IEND" {
            return Some(out);
        }
        out.push((name, b[off + 8..off + 8 + len].to_vec()));
        off += 12 + len;
    }
    Some(out)
}

//! C19: `filter_line` / `unfilter_line` / Paeth correspondence, and the image-level oracle.

use crate::gen::gen_himg;
use crate::img::*;
use crate::rng::Rng;
use crate::util::*;
use crate::Ctx;
use oxipng::verif;
use oxipng::RowFilter;

fn rf(n: u8) -> RowFilter {
    RowFilter::try_from(n).unwrap()
}

fn gen_row(rng: &mut Rng, len: usize) -> Vec<u8> {
    match rng.below(6) {
        0 => vec![0; len],
        1 => vec![255; len],
        2 => {
            // smooth ramp
            let start = rng.byte();
            let step = rng.below(5) as u8;
            (0..len).map(|i| start.wrapping_add(step.wrapping_mul(i as u8))).collect()
        }
        3 => {
            // few values
            let vals = [rng.byte(), rng.byte(), 0, 255];
            (0..len).map(|_| *rng.choose(&vals)).collect()
        }
        _ => rng.bytes(len),
    }
}

pub fn corr(ctx: &mut Ctx) {
    let mut rng = Rng::new(ctx.seed);
    let mut st = Stats::default();
    // exhaustive Paeth table, as a digest (all 2^24 triples)
    let mut h = FNV_INIT;
    for a in 0..=255u8 {
        for b in 0..=255u8 {
            for c in 0..=255u8 {
                h = fnv64(h, &[verif::paeth_predictor(a, b, c)]);
            }
        }
    }
    ctx.line("paeth_digest 0 256", &format!("ok {}", h));
    st.add("paeth_triples", 1 << 24);
    for _ in 0..64 {
        let (a, b, c) = (rng.byte(), rng.byte(), rng.byte());
        ctx.line(
            &format!("paeth {} {} {}", a, b, c),
            &format!("ok {}", verif::paeth_predictor(a, b, c)),
        );
    }
    for case in 0..ctx.n {
        let bpp = *rng.choose(&[1usize, 2, 3, 4, 6, 8]);
        let k = rng.range(1, 12) as usize;
        let mut len = bpp * k;
        let mut plen = len;
        // malformed stream: violate the asserts now and then
        let malformed = rng.chance(1, 25);
        if malformed {
            if rng.bool() {
                len = rng.below(bpp as u64) as usize;
                plen = len;
            } else {
                plen = len + 1;
            }
        }
        let data = gen_row(&mut rng, len);
        let prev = if rng.chance(1, 5) { vec![0; plen] } else { gen_row(&mut rng, plen) };
        let ft = rng.below(5) as u8;
        st.distinct_case(&[&[ft, bpp as u8][..], &data, &prev].concat());
        // filter
        let mut d2 = data.clone();
        let r = catch(|| verif::filter_line(rf(ft), bpp, &mut d2, &prev, 0));
        let ans = match &r {
            Some(o) => format!("ok {}", hex(o)),
            None => "panic".into(),
        };
        let req = format!("filter_line {} {} {} {}", ft, bpp, hex(&data), hex(&prev));
        if case < 3 {
            st.sample(format!("{} => {}", req, ans));
        }
        ctx.line(&req, &ans);
        st.count(&format!("filter_ft{}", ft));
        st.count(if r.is_some() { "filter_ok" } else { "filter_panic" });
        // unfilter (treat `data` as a filtered row); filter types up to 9 exist in the enum
        let uft = if rng.chance(1, 8) { rng.range(5, 9) as u8 } else { ft };
        let r = catch(|| verif::unfilter_line(rf(uft), bpp, &data, &prev));
        let ans = match &r {
            Some(Ok(o)) => format!("ok {}", hex(o)),
            Some(Err(_)) => "err".into(),
            None => "panic".into(),
        };
        ctx.line(
            &format!("unfilter_line {} {} {} {}", uft, bpp, hex(&data), hex(&prev)),
            &ans,
        );
        st.count(&format!("unfilter_ft{}", uft));
        st.count(match &r {
            Some(Ok(_)) => "unfilter_ok",
            Some(Err(_)) => "unfilter_err",
            None => "unfilter_panic",
        });
        // alpha optimisation: rows of whole pixels with transparent runs
        if !malformed && bpp >= 2 {
            let ab = if bpp == 4 || bpp == 2 { 1 } else if bpp == 8 { 2 } else if bpp == 6 { 0 } else { 0 };
            if ab != 0 {
                let mut d3 = data.clone();
                let tclass = rng.below(5);
                for px in d3.chunks_exact_mut(bpp) {
                    let t = match tclass {
                        0 => true,
                        1 => false,
                        _ => rng.chance(1, 2),
                    };
                    if t {
                        for b in &mut px[bpp - ab..] {
                            *b = 0;
                        }
                    } else if px[bpp - ab..].iter().all(|b| *b == 0) {
                        px[bpp - 1] = 1 + rng.below(255) as u8;
                    }
                }
                let orig = d3.clone();
                let r = catch(|| {
                    let out = verif::filter_line(rf(ft), bpp, &mut d3, &prev, ab);
                    (d3.clone(), out)
                });
                let ans = match &r {
                    Some((d, o)) => format!("ok {} {}", hex(d), hex(o)),
                    None => "panic".into(),
                };
                ctx.line(
                    &format!("filter_line_alpha {} {} {} {} {}", ft, bpp, hex(&orig), hex(&prev), ab),
                    &ans,
                );
                st.count(&format!("alpha_ft{}", ft));
                // oracle: only colour bytes of fully transparent pixels may change, and the
                // filtered line reconstructs to the rewritten data
                if let Some((d, o)) = &r {
                    let mut bad = d.len() != orig.len();
                    for (po, pn) in orig.chunks_exact(bpp).zip(d.chunks_exact(bpp)) {
                        let transparent = po[bpp - ab..].iter().all(|b| *b == 0);
                        if po[bpp - ab..] != pn[bpp - ab..] || (!transparent && po != pn) {
                            bad = true;
                        }
                    }
                    if !bad && (o.is_empty() || recon_row_ref(o[0], bpp, &o[1..], &prev) != *d) {
                        bad = true;
                    }
                    if bad {
                        st.fail(
                            "alpha-line",
                            format!("filter_line with alpha optimisation changed visible data (filter {ft}, bpp {bpp})"),
                            format!("{{\"data\": {}, \"prev\": {}}}", jstr(&hex(&orig)), jstr(&hex(&prev))),
                        );
                    }
                }
            }
        }
        // the specification function of the Lean side against the harness's reference
        if !malformed {
            ctx.line(
                &format!("spec_recon {} {} {} {}", ft, bpp, hex(&data), hex(&prev)),
                &format!("ok {}", hex(&recon_row_ref(ft, bpp, &data, &prev))),
            );
        }
    }
    ctx.write_stats(&st);
}

/// `filter_image(strategy, true)` on an image with an alpha channel: reconstruct by the specification and compare with
/// the original pixel by pixel - alpha identical everywhere, colour identical wherever alpha is not zero.
fn alpha_kept_check(img: &HImg, strat: u8, class: &str, st: &mut Stats) {
    let oxi = img.to_oxi();
    let Some(fa) = catch(|| oxi.filter_image(rf(strat), true)) else {
        st.fail("panic", format!("filter_image({strat}, alpha) panicked"), format!("{{\"img\": {}}}", jstr(&img.to_line())));
        return;
    };
    let bpp = img.bpp_bytes();
    let ch = crate::img::channels(img.ct);
    let bps = bpp / ch;
    let (mut off, mut prior, mut last_pass, mut first) = (0usize, Vec::<u8>::new(), None, true);
    st.count("alpha_strategy_checks");
    for (row, (pass, _, line)) in img.lines().into_iter().enumerate() {
        let len = line.len();
        if off + 1 + len > fa.len() || fa[off] > 4 {
            st.fail("alpha-line", format!("filter_image({strat}, alpha): row {row} is cut short or has an illegal filter byte"), format!("{{\"img\": {}}}", jstr(&img.to_line())));
            return;
        }
        if first || pass != last_pass {
            prior = vec![0; len];
            last_pass = pass;
            first = false;
        }
        let rec = recon_row_ref(fa[off], bpp, &fa[off + 1..off + 1 + len], &prior);
        for (k, (a, b)) in line.chunks(bpp).zip(rec.chunks(bpp)).enumerate() {
            let (aa, ab) = (&a[bpp - bps..], &b[bpp - bps..]);
            let transparent = aa.iter().all(|x| *x == 0);
            if aa != ab || (!transparent && a != b) {
                st.fail(
                    "alpha-image",
                    format!("filter_image(strategy {strat}, alpha) changes {} of pixel {k} in row {row} ({class}): {:?} -> {:?}", if aa != ab { "the alpha" } else { "the visible colour" }, a, b),
                    format!("{{\"op\": \"filter_image_alpha\", \"strategy\": {}, \"img\": {}}}", strat, jstr(&img.to_line())),
                );
                return;
            }
        }
        prior = rec;
        off += 1 + len;
    }
}

/// Pictures on which vertical prediction pays (a random colour per column, a fixed step per row) with runs of fully
/// transparent pixels above and beside visible ones: there a heuristic strategy picks Sub / None on one row and
/// Up / Average / Paeth on the next, so the row it predicts from must be the rewritten one
fn vertical_alpha_image(rng: &mut Rng) -> HImg {
    use crate::img::*;
    let ct = *rng.choose(&[6u8, 6, 4]);
    let depth = *rng.choose(&[8u8, 8, 16]);
    let (w, h) = (rng.range(8, 64) as u32, rng.range(3, 16) as u32);
    let c = channels(ct);
    let max = if depth == 16 { 65535u32 } else { 255 };
    let col: Vec<Vec<u32>> = (0..w).map(|_| (0..c - 1).map(|_| rng.next_u64() as u32 % (max + 1)).collect()).collect();
    let step: Vec<u32> = (0..c - 1).map(|_| rng.range(0, 9) as u32).collect();
    let mut samples = Vec::with_capacity((w * h) as usize * c);
    let density = rng.range(5, 40);
    for y in 0..h {
        let mut run = 0u32;
        for x in 0..w {
            if run == 0 && rng.below(100) < density { run = rng.range(1, 6) as u32; }
            let transparent = run > 0;
            if run > 0 { run -= 1; }
            for k in 0..c - 1 {
                let v = if transparent { rng.next_u64() as u32 % (max + 1) } else { (col[x as usize][k] + step[k] * y) % (max + 1) };
                samples.push(v as u16);
            }
            samples.push(if transparent { 0 } else { max as u16 });
        }
    }
    Grid { w, h, ct, depth, palette: vec![], trns: None, samples }.pack(rng.chance(1, 5))
}

/// Image-level oracle: for each of the ten strategies the stream written by `filter_image`
/// uses only filter types 0-4, has the header-implied size and reconstructs (reference decoder in
/// this crate, written from the specification) to exactly the image data.
pub fn oracle(ctx: &mut Ctx) {
    let mut rng = Rng::new(ctx.seed);
    let mut st = Stats::default();
    for _case in 0..ctx.n {
        let (img, info) = gen_himg(&mut rng, 20);
        let oxi = img.to_oxi();
        let strat = rng.below(10) as u8;
        st.count(&format!("strategy{}", strat));
        st.count(&format!("ct{}d{}il{}", img.ct, img.depth, img.il as u8));
        st.distinct_case(&[&[strat, img.ct, img.depth][..], &img.data].concat());
        let r = catch(|| oxi.filter_image(rf(strat), false));
        let replay = format!(
            "{{\"op\": \"filter_image\", \"strategy\": {}, \"img\": {}, \"class\": {}}}",
            strat,
            jstr(&img.to_line()),
            jstr(&info.class)
        );
        let Some(filtered) = r else {
            st.fail("panic", format!("filter_image({strat}) panicked"), replay);
            continue;
        };
        // decode by the specification
        let bpp = img.bpp_bytes();
        let mut off = 0;
        let mut prior: Vec<u8> = vec![];
        let mut last_pass = None;
        let mut ok = true;
        let mut first = true;
        let mut recon_all = Vec::new();
        for (pass, _, line) in img.lines() {
            let len = line.len();
            if off + 1 + len > filtered.len() {
                ok = false;
                break;
            }
            let ft = filtered[off];
            if ft > 4 {
                ok = false;
                st.count("illegal_filter_byte");
                break;
            }
            st.count(&format!("out_ft{}", ft));
            if first || pass != last_pass {
                prior = vec![0; len];
                last_pass = pass;
                first = false;
            }
            let rec = recon_row_ref(ft, bpp, &filtered[off + 1..off + 1 + len], &prior);
            recon_all.extend_from_slice(&rec);
            prior = rec;
            off += 1 + len;
        }
        if ok && (off != filtered.len() || recon_all != img.data) {
            ok = false;
        }
        // foreign-encoder stream: the same image filtered with random legal filter types per row
        // (Up / Average / Paeth on first rows of passes included) through `PngImage::new`
        {
            let mut r2 = rng.fork();
            let bad_at = if r2.chance(1, 12) { Some(r2.below(img.lines().len().max(1) as u64) as usize) } else { None };
            let foreign = img.filtered(|n| if Some(n) == bad_at { 5 + r2.below(5) as u8 } else { r2.below(5) as u8 });
            let z = miniz_oxide::deflate::compress_to_vec_zlib(&foreign, 1);
            let ihdr = oxi.ihdr.clone();
            let r = catch(|| oxipng::internal_tests::PngImage::new(ihdr, &z));
            let ans = match &r {
                None => "panic".to_string(),
                Some(Ok(p)) => format!("ok {}", hex(&p.data)),
                Some(Err(_)) => "err".to_string(),
            };
            let mut fimg = img.clone();
            fimg.data = foreign;
            ctx.line(&format!("unfilter_image {}", fimg.to_line()), &ans);
            st.count("unfilter_image");
            // oracle: a legal foreign stream reconstructs to the image data
            if bad_at.is_none() {
                match &r {
                    Some(Ok(p)) if p.data == img.data => {}
                    _ => st.fail(
                        "unfilter-foreign",
                        format!("reconstruction of a foreign file differs from the specification ({}x{} ct{} d{} il{})", img.w, img.h, img.ct, img.depth, img.il as u8),
                        format!("{{\"filtered_image\": {}}}", jstr(&fimg.to_line())),
                    ),
                }
            } else if matches!(&r, Some(Ok(_))) {
                st.fail("illegal-filter-accepted", "a filter type above 4 was accepted".into(), format!("{{\"filtered_image\": {}}}", jstr(&fimg.to_line())));
            }
        }
        // correspondence with the image-level model: exact for the standard strategies; for the
        // heuristic ones the per-row choice is read back from the output and must be one the model allows
        if ok {
            if strat <= 4 {
                ctx.line(&format!("filter_image {} {}", strat, img.to_line()), &format!("ok {}", hex(&filtered)));
            } else {
                let mut choices = vec![];
                let mut off = 0;
                for (_, _, line) in img.lines() {
                    choices.push(filtered[off].to_string());
                    off += 1 + line.len();
                }
                if !choices.is_empty() {
                    ctx.line(&format!("filter_image c:{} {}", choices.join(","), img.to_line()), &format!("ok {}", hex(&filtered)));
                }
            }
        }
        // the same call with alpha optimisation on images that have an alpha channel: the standard strategies are
        // compared with the model byte for byte (rows rewritten against the previous rewritten row)
        if (img.ct == 4 || img.ct == 6) && strat <= 4 {
            if let Some(fa) = catch(|| oxi.filter_image(rf(strat), true)) {
                ctx.line(&format!("filter_image_alpha {} {}", strat, img.to_line()), &format!("ok {}", hex(&fa)));
                st.count("filter_image_alpha");
            } else {
                st.fail("panic", format!("filter_image({strat}, alpha) panicked"), replay.clone());
            }
        }
        // C03 / C19 for every strategy with the alpha rewrite on: what `filter_image(strategy, true)` writes must
        // reconstruct (reference decoder) to the image up to the colour under fully transparent pixels
        if img.ct == 4 || img.ct == 6 {
            alpha_kept_check(&img, strat, "generated", &mut st);
        }
        if !ok {
            st.fail(
                "roundtrip",
                format!("filter_image({strat}) does not reconstruct to the image data"),
                replay,
            );
        } else {
            st.count("ok");
            if st.samples.len() < 3 {
                st.sample(format!("strategy {} on {}", strat, img.to_line()));
            }
        }
    }
    for _ in 0..(ctx.n / 3).max(20) {
        let img = vertical_alpha_image(&mut rng);
        for strat in [5u8, 6, 7, 8, 9, rng.below(5) as u8] {
            st.count(&format!("alpha_strategy{}", strat));
            alpha_kept_check(&img, strat, "column colours with transparent runs", &mut st);
        }
    }
    ctx.write_stats(&st);
}

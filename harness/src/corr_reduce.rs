//! Exact correspondence streams for every reduction (C01, C03, C08, C15).

use crate::gen::*;
use crate::img::*;
use crate::rng::Rng;
use crate::util::*;
use crate::Ctx;
use oxipng::internal_tests as it;
use oxipng::internal_tests::PngImage;

fn show(r: &Option<Option<PngImage>>) -> String {
    match r {
        None => "panic".into(),
        Some(None) => "none".into(),
        Some(Some(p)) => format!("some {}", HImg::from_oxi(p).to_line()),
    }
}

/// an image biased towards what the given reduction looks at
fn gen_for(rng: &mut Rng, op: &str, max_dim: u32) -> (HImg, String) {
    if matches!(op, "dropalpha" | "cleanalpha" | "toindexed" | "rgb2gray") && rng.chance(1, 10) {
        let (rct, rd) = (*rng.choose(&[4u8, 6]), *rng.choose(&[8u8, 8, 16]));
        let (g, info) = gen_ramp(rng, rct, rd);
        return (g.pack(rng.chance(1, 4)), info.class);
    }
    let (w, h) = gen_dims(rng, max_dim);
    let pick = |rng: &mut Rng, pairs: &[(u8, u8)]| *rng.choose(pairs);
    let (ct, depth) = match op {
        "r16to8" => pick(rng, &[(0, 16), (2, 16), (4, 16), (6, 16), (0, 8)]),
        "r8orless" => pick(rng, &[(0, 8), (3, 8), (0, 8), (3, 8), (2, 8), (3, 4)]),
        "expand8" => pick(rng, &[(0, 1), (0, 2), (0, 4), (3, 1), (3, 2), (3, 4), (0, 8)]),
        "rgb2gray" => pick(rng, &[(2, 8), (2, 16), (6, 8), (6, 16), (0, 8)]),
        "toindexed" => pick(rng, &[(0, 8), (2, 8), (4, 8), (6, 8), (2, 16), (3, 8)]),
        "idx2ch" | "condense" | "sortluma" => pick(rng, &[(3, 8), (3, 8), (3, 8), (3, 4), (0, 8)]),
        "cleanalpha" | "dropalpha" => pick(rng, &[(4, 8), (4, 16), (6, 8), (6, 16), (2, 8)]),
        _ => *rng.choose(&LEGAL_PAIRS),
    };
    let (g, info) = gen_grid(rng, ct, depth, w, h);
    (g.pack(rng.chance(1, 3)), info.class)
}

pub fn corr(ctx: &mut Ctx) {
    let mut rng = Rng::new(ctx.seed ^ 0x4ED);
    let mut st = Stats::default();
    // C15: all 65 536 sample values through the real float code, as a digest
    {
        let mut data = Vec::with_capacity(131072);
        for v in 0..=65535u16 {
            data.extend_from_slice(&v.to_be_bytes());
        }
        let img = HImg { w: 256, h: 256, ct: 0, depth: 16, il: false, palette: vec![], trns: None, data };
        let r = it::bit_depth::scaled_bit_depth_16_to_8(&img.to_oxi()).unwrap();
        ctx.line("scale_digest", &format!("ok {}", fnv64(FNV_INIT, &r.data)));
        st.add("scale_values", 65536);
    }
    let ops = ["r16to8", "r8orless", "expand8", "rgb2gray", "toindexed", "idx2ch", "cleanalpha", "dropalpha", "condense", "sortluma"];
    for case in 0..ctx.n {
        let op = ops[case % ops.len()];
        let (img, class) = gen_for(&mut rng, op, if ctx.tier_thorough { 24 } else { 12 });
        let oxi = img.to_oxi();
        let (flags, r): (String, Option<Option<PngImage>>) = match op {
            "r16to8" => {
                let s = rng.chance(1, 3);
                (format!("{} ", s as u8), catch(|| it::bit_depth::reduced_bit_depth_16_to_8(&oxi, s)))
            }
            "r8orless" => ("".into(), catch(|| it::bit_depth::reduced_bit_depth_8_or_less(&oxi))),
            "expand8" => ("".into(), catch(|| it::bit_depth::expanded_bit_depth_to_8(&oxi))),
            "rgb2gray" => ("".into(), catch(|| it::color::reduced_rgb_to_grayscale(&oxi))),
            "toindexed" => {
                let g = rng.bool();
                (format!("{} ", g as u8), catch(|| it::color::reduced_to_indexed(&oxi, g)))
            }
            "idx2ch" => {
                let (g, a) = (rng.bool(), rng.bool());
                (format!("{} {} ", g as u8, a as u8), catch(|| it::color::indexed_to_channels(&oxi, g, a)))
            }
            "cleanalpha" => ("".into(), catch(|| it::alpha::cleaned_alpha_channel(&oxi))),
            "dropalpha" => {
                let a = rng.bool();
                (format!("{} ", a as u8), catch(|| it::alpha::reduced_alpha_channel(&oxi, a)))
            }
            "condense" => {
                let a = rng.bool();
                (format!("{} ", a as u8), catch(|| it::palette::reduced_palette(&oxi, a)))
            }
            "sortluma" => ("".into(), catch(|| it::palette::sorted_palette(&oxi))),
            _ => unreachable!(),
        };
        let req = format!("reduce {} {}{}", op, flags, img.to_line());
        let ans = show(&r);
        st.count(&format!(
            "{}_{}",
            op,
            match &r {
                None => "panic",
                Some(None) => "none",
                Some(Some(_)) => "some",
            }
        ));
        st.distinct_case(req.as_bytes());
        if case < ops.len() * 2 && matches!(r, Some(Some(_))) && st.samples.len() < 4 {
            st.sample(format!("{} => {} [{}]", req, ans, class));
        }
        ctx.line(&req, &ans);
    }
    // the two steps shared by the co-occurrence sorters, on their own: any remapping (permutations, and lists that
    // are not: duplicates, entries beyond the palette / beyond the 256-entry table) - panics are outcomes
    for case in 0..ctx.n / 4 {
        let (w, h) = gen_dims(&mut rng, 12);
        let (g, _) = gen_grid(&mut rng, 3, 8, w, h);
        let img = g.pack(false);
        let n = img.palette.len();
        let mut remap: Vec<usize> = (0..n).collect();
        for i in (1..n).rev() {
            let j = rng.below(i as u64 + 1) as usize;
            remap.swap(i, j);
        }
        match rng.below(8) {
            0 if n > 0 => { let k = rng.below(n as u64) as usize; remap[k] = rng.below(n as u64 + 2) as usize; }
            1 => remap.push(rng.below(300) as usize),
            2 if n > 1 => { remap.pop(); }
            3 => remap = (0..n).collect(),
            _ => {}
        }
        let oxi = img.to_oxi();
        let flags: String = remap.iter().map(|v| format!("{} ", v)).collect();
        if case % 2 == 0 {
            let r = catch(|| it::palette::verif_apply_palette_reorder(&oxi, &remap));
            st.count(&format!("reorder_{}", match &r { None => "panic", Some(None) => "none", Some(Some(_)) => "some" }));
            let req = format!("reduce reorder {}{}", flags, img.to_line());
            st.distinct_case(req.as_bytes());
            ctx.line(&req, &show(&r));
        } else {
            let mut rm = remap.clone();
            let r = catch(|| { it::palette::verif_apply_most_popular_color(&oxi, &mut rm); rm.clone() });
            st.count(&format!("popular_{}", match &r { None => "panic", Some(v) if *v == remap => "unchanged", Some(_) => "rotated" }));
            let req = format!("reduce popular {}{}", flags, img.to_line());
            st.distinct_case(req.as_bytes());
            ctx.line(&req, &match r { None => "panic".to_string(), Some(v) => format!("ok {}", v.iter().map(|x| x.to_string()).collect::<Vec<_>>().join(" ")) });
        }
    }
    ctx.write_stats(&st);
}

//! C04: `is_fully_optimized` correspondence and the file-level never-larger oracle through the real
//! `optimize()` (in place, other destination, pretend).

use crate::e2e::*;
use crate::rng::Rng;
use crate::util::*;
use crate::Ctx;
use oxipng::verif;
use oxipng::{InFile, OutFile};
use std::path::PathBuf;

pub fn corr(ctx: &mut Ctx) {
    let mut rng = Rng::new(ctx.seed ^ 0xDEC1);
    let mut st = Stats::default();
    for _ in 0..ctx.n {
        let a = match rng.below(3) {
            0 => rng.below(20),
            1 => rng.below(100_000),
            _ => rng.next_u64() >> rng.below(40),
        } as usize;
        let b = match rng.below(4) {
            0 => a,
            1 => a.saturating_sub(1),
            2 => a + 1,
            _ => rng.below(100_000) as usize,
        };
        for force in [false, true] {
            let mut o = oxipng::Options::default();
            o.force = force;
            let r = verif::is_fully_optimized(a, b, &o);
            ctx.line(
                &format!("is_fully_optimized {} {} {}", a, b, force as u8),
                &format!("ok {}", r as u8),
            );
            st.distinct_case(format!("{a} {b} {force}").as_bytes());
            st.count("is_fully_optimized");
        }
    }
    st.sample("is_fully_optimized 10 10 0 => ok 1".into());
    ctx.write_stats(&st);
}

fn work_dir() -> PathBuf {
    let d = std::path::Path::new(env!("CARGO_MANIFEST_DIR")).join("../.work/files");
    std::fs::create_dir_all(&d).unwrap();
    d.join(format!("p{}", std::process::id()))
}

pub fn oracle_files(ctx: &mut Ctx) {
    let mut rng = Rng::new(ctx.seed ^ 0xF11E);
    let mut st = Stats::default();
    let dir = work_dir();
    let _ = std::fs::remove_dir_all(&dir);
    std::fs::create_dir_all(&dir).unwrap();
    for i in 0..ctx.n {
        let mut case = gen_case(&mut rng, Profile::Any, false, 12);
        case.opts.force = false;
        // every third case: feed oxipng's own output back in (already-optimal files)
        if i % 3 == 0 {
            case.opts.strip = HStrip::None;
            if let Outcome::Ok(b) = run_case(&case.input, &case.opts) {
                case.input = b;
                // half of them in a container oxipng would write differently at the same size: two kept chunks
                // in front of IDAT in the order `bKGD pHYs` (oxipng emits bKGD after the others) - still not
                // improvable, but its re-serialisation is not byte-identical
                if rng.chance(1, 3) {
                    // a third of them with an ICC profile under a one-letter name whose stream this run's own compressor
                    // made: the profile cannot be recompressed smaller, and the chunk the optimiser would write ("icc" for
                    // a name) is two bytes LONGER - the attempt is strictly larger than the input, not just no smaller
                    if let Ok(chs) = crate::pngparse::parse_chunks(&case.input) {
                        let profile: Vec<u8> = (0..600).map(|k| ((k * 7) % 23) as u8).collect();
                        if let Ok(z) = verif::deflate_with_bound(case.opts.to_oxi().deflate, &profile, None) {
                            let mut list: Vec<([u8; 4], Vec<u8>)> = chs.iter().map(|c| (c.name, c.data.clone())).collect();
                            let mut d = b"a\0\0".to_vec();
                            d.extend_from_slice(&z);
                            list.insert(1, (*b"iCCP", d));
                            case.input = crate::front::rebuild(&list);
                            st.count("inputs_whose_rewrite_is_strictly_larger");
                        }
                    }
                } else if rng.bool() {
                    if let (Ok(chs), Ok(d)) = (crate::pngparse::parse_chunks(&case.input), crate::pngparse::decode(&case.input)) {
                        let mut list: Vec<([u8; 4], Vec<u8>)> = chs.iter().map(|c| (c.name, c.data.clone())).collect();
                        if let Some(at) = list.iter().position(|c| &c.0 == b"IDAT") {
                            let bk = match d.img.ct { 3 => vec![0], 0 | 4 => vec![0, 1], _ => vec![0, 1, 0, 2, 0, 3] };
                            list.insert(at, (*b"pHYs", vec![0, 0, 0x0b, 0x13, 0, 0, 0x0b, 0x13, 1]));
                            list.insert(at, (*b"bKGD", bk));
                            case.input = crate::front::rebuild(&list);
                            st.count("optimal_but_not_canonical_inputs");
                        }
                    }
                }
            }
        }
        let inp = dir.join("in.png");
        let outp = dir.join("out.png");
        let _ = std::fs::remove_file(&outp);
        std::fs::write(&inp, &case.input).unwrap();
        // make the mtime old so that any rewrite is visible
        let old = std::time::SystemTime::UNIX_EPOCH + std::time::Duration::from_secs(1_000_000_000);
        let f = std::fs::File::options().write(true).open(&inp).unwrap();
        f.set_modified(old).unwrap();
        drop(f);
        // 3: a destination that is the input file under another name - `sub/../in.png`, a symbolic link, a hard link -
        // which no comparison of path spellings recognises as "in place"
        let dest = rng.below(4);
        let alias: PathBuf = if dest == 3 {
            let kind = rng.below(3);
            st.count(&format!("aliased_destination_kind{}", kind));
            let _ = std::fs::remove_file(dir.join("link.png"));
            match kind {
                0 => { std::fs::create_dir_all(dir.join("sub")).unwrap(); dir.join("sub").join("..").join("in.png") }
                1 => { std::os::unix::fs::symlink(&inp, dir.join("link.png")).unwrap(); dir.join("link.png") }
                _ => { std::fs::hard_link(&inp, dir.join("link.png")).unwrap(); dir.join("link.png") }
            }
        } else { PathBuf::new() };
        let o = case.opts.to_oxi();
        let preserve = rng.chance(1, 3);
        if preserve { st.count("preserve_attrs"); }
        // a destination left over from an earlier run (longer than anything this run writes) must be replaced, not patched
        if dest == 1 && rng.bool() {
            let mut junk = case.input.clone();
            junk.extend(std::iter::repeat(0xA5u8).take(64 + case.input.len()));
            std::fs::write(&outp, &junk).unwrap();
            st.count("stale_destination");
        }
        let outfile = match dest {
            0 => OutFile::Path { path: None, preserve_attrs: preserve },
            1 => OutFile::Path { path: Some(outp.clone()), preserve_attrs: preserve },
            3 => OutFile::Path { path: Some(alias.clone()), preserve_attrs: preserve },
            _ => OutFile::None,
        };
        st.count(&format!("dest{}", dest));
        st.count("cases");
        st.distinct_case(&[case.input.as_slice(), &[dest as u8]].concat());
        let replay = format!("{{\"dest\": {}, \"case\": {}}}", dest, case.replay_json());
        note_current(&replay);
        let r = catch(|| oxipng::optimize(&InFile::Path(inp.clone()), &outfile, &o));
        match r {
            None => {
                st.fail("panic", "optimize() panicked".into(), replay);
                continue;
            }
            Some(Err(e)) => {
                st.fail("error-on-valid", format!("optimize() failed: {e}"), replay);
                continue;
            }
            Some(Ok(())) => {}
        }
        let after = std::fs::read(&inp).unwrap();
        let mtime = std::fs::metadata(&inp).unwrap().modified().unwrap();
        match dest {
            0 => {
                if after == case.input {
                    if mtime != old {
                        st.fail("inplace-rewritten", "in-place run rewrote a file it could not improve".into(), replay);
                    } else {
                        st.count("inplace_untouched");
                    }
                } else if after.len() >= case.input.len() {
                    st.fail("larger", format!("in-place result has {} bytes, input {}", after.len(), case.input.len()), replay);
                } else {
                    st.count("inplace_smaller");
                    if let Outcome::Ok(l) = run_case(&case.input, &case.opts) {
                        if l != after {
                            st.fail("file-differs-from-library", "in-place result is not what optimize_from_memory returns for the same options".into(), replay.clone());
                        }
                    }
                }
            }
            1 => {
                if after != case.input || mtime != old {
                    st.fail("input-modified", "input file modified although a different destination was named".into(), replay.clone());
                }
                match std::fs::read(&outp) {
                    Err(_) => st.fail("no-output", "no destination file was written".into(), replay),
                    Ok(b) => {
                        let lib = match run_case(&case.input, &case.opts) { Outcome::Ok(l) => Some(l), _ => None };
                        if lib.as_ref().map_or(false, |l| l != &b) {
                            st.fail("file-differs-from-library", format!("destination holds {} bytes that are not what optimize_from_memory returns for the same options ({} bytes)", b.len(), lib.as_ref().unwrap().len()), replay.clone());
                        }
                        if b == case.input {
                            st.count("copy_of_original");
                        } else if b.len() < case.input.len() {
                            st.count("dest_smaller");
                        } else {
                            st.fail("larger", format!("destination has {} bytes, input {}", b.len(), case.input.len()), replay);
                        }
                    }
                }
            }
            3 => {
                // whatever the destination is called, the file ends up as the library's result: strictly smaller, or the
                // very bytes it had
                let lib = match run_case(&case.input, &case.opts) { Outcome::Ok(l) => Some(l), _ => None };
                let via_alias = std::fs::read(&alias).unwrap_or_default();
                if via_alias != after {
                    st.fail("alias-diverged", "the destination no longer names the input file's content".into(), replay.clone());
                }
                match lib {
                    Some(l) if after == l => st.count(if l == case.input { "alias_kept_original" } else { "alias_smaller" }),
                    Some(l) => st.fail("aliased-destination", format!("destination is the input under another name: the file holds {} bytes, the library's result has {} (input {})", after.len(), l.len(), case.input.len()), replay),
                    None => {}
                }
            }
            _ => {
                if after != case.input || mtime != old || outp.exists() {
                    st.fail("pretend-wrote", "--pretend modified or created a file".into(), replay);
                } else {
                    st.count("pretend_untouched");
                }
            }
        }
    }
    // ---- standard output as the destination (the real executable): a file these very options cannot improve any
    // more, also in a container oxipng would write differently, must come out byte for byte --------------------------
    {
        use crate::cli::{canon_dump, gen_flags, run_bin};
        let w = crate::cli::work_dir("c04stdout");
        for _ in 0..(ctx.n / 4).max(10) {
            let case = gen_case(&mut rng, Profile::Any, false, 9);
            // two thirds of the flag vectors without a strip / keep policy, so that the re-wrapped file of stage 2 keeps
            // both inserted chunks and really is "not improvable, but written differently"
            let mut fv = gen_flags(&mut rng);
            if rng.chance(2, 3) {
                for _ in 0..20 {
                    if !fv.tokens.iter().any(|t| t == "s" || t.starts_with("strip=") || t.starts_with("keep=")) { break; }
                    fv = gen_flags(&mut rng);
                }
            }
            std::fs::write(w.join("in.png"), &case.input).unwrap();
            let _ = std::fs::remove_file(w.join("s1.png"));
            let mut a1 = fv.args.clone();
            a1.extend(["-q".to_string(), "--out".to_string(), "s1.png".to_string(), "in.png".to_string()]);
            let r1 = run_bin(&w, &a1);
            let Some((_, o)) = canon_dump(&r1.dump) else { st.count("stdout_flags_rejected"); continue; };
            // "unless output is forced" = unless the user passed --force (not: whatever the binary made of the flags)
            let _ = &o;
            if fv.tokens.iter().any(|t| t == "force") || r1.status != Some(0) { st.count("stdout_skipped"); continue; }
            let mut stage2 = std::fs::read(w.join("s1.png")).unwrap_or(case.input.clone());
            let mut shape = "own-output";
            if rng.bool() {
                if let (Ok(chs), Ok(d)) = (crate::pngparse::parse_chunks(&stage2), crate::pngparse::decode(&stage2)) {
                    let mut list: Vec<([u8; 4], Vec<u8>)> = chs.iter().map(|c| (c.name, c.data.clone())).collect();
                    if let Some(at) = list.iter().position(|c| &c.0 == b"IDAT") {
                        let bk = match d.img.ct { 3 => vec![0], 0 | 4 => vec![0, 1], _ => vec![0, 1, 0, 2, 0, 3] };
                        list.insert(at, (*b"pHYs", vec![0, 0, 0x0b, 0x13, 0, 0, 0x0b, 0x13, 1]));
                        list.insert(at, (*b"bKGD", bk));
                        stage2 = crate::front::rebuild(&list);
                        shape = "not-canonical";
                    }
                }
            }
            std::fs::write(w.join("in2.png"), &stage2).unwrap();
            // ... from a file, or - a third of the time - from standard input (which implies standard output)
            let via_stdin = rng.chance(1, 2);
            let mut a2 = fv.args.clone();
            let r2 = if via_stdin {
                a2.extend(["-q".to_string(), "-".to_string()]);
                st.count("stdout_via_stdin");
                crate::cli::run_bin_stdin(&w, &a2, &stage2)
            } else {
                a2.extend(["-q".to_string(), "--stdout".to_string(), "in2.png".to_string()]);
                run_bin(&w, &a2)
            };
            st.count("stdout_cases");
            st.count(&format!("stdout_{}", shape));
            let replay = format!("{{\"args\": {}, \"input_png_hex\": {}}}", jstr(&a2.join(" ")), jstr(&crate::img::hex(&stage2)));
            if r2.status != Some(0) {
                st.fail("error-on-valid", format!("exit status {:?} ({})", r2.status, a2.join(" ")), replay);
            } else if r2.stdout == stage2 {
                st.count("stdout_original_bytes");
            } else if r2.stdout.len() < stage2.len() {
                st.count("stdout_smaller");
            } else {
                st.fail("larger", format!("standard output carries {} bytes that are neither smaller than nor identical to the {}-byte input ({})", r2.stdout.len(), stage2.len(), a2.join(" ")), replay);
            }
        }
        let _ = std::fs::remove_dir_all(&w);
    }
    let _ = std::fs::remove_dir_all(&dir);
    st.sample("in-place / --out / pretend runs of optimize() on generated files incl. oxipng's own outputs".into());
    ctx.write_stats(&st);
}

//! One splitmix64 PRNG drives every random choice so that a disagreement replays exactly.

#[derive(Clone, Debug)]
pub struct Rng(pub u64);

impl Rng {
    pub fn new(seed: u64) -> Self {
        Rng(seed ^ 0x9E37_79B9_7F4A_7C15)
    }
    pub fn next_u64(&mut self) -> u64 {
        self.0 = self.0.wrapping_add(0x9E37_79B9_7F4A_7C15);
        let mut z = self.0;
        z = (z ^ (z >> 30)).wrapping_mul(0xBF58_476D_1CE4_E5B9);
        z = (z ^ (z >> 27)).wrapping_mul(0x94D0_49BB_1331_11EB);
        z ^ (z >> 31)
    }
    /// uniform in 0..n (n > 0)
    pub fn below(&mut self, n: u64) -> u64 {
        self.next_u64() % n
    }
    pub fn range(&mut self, lo: u64, hi_incl: u64) -> u64 {
        lo + self.below(hi_incl - lo + 1)
    }
    pub fn bool(&mut self) -> bool {
        self.next_u64() & 1 == 1
    }
    /// true with probability num/den
    pub fn chance(&mut self, num: u64, den: u64) -> bool {
        self.below(den) < num
    }
    pub fn byte(&mut self) -> u8 {
        self.next_u64() as u8
    }
    pub fn bytes(&mut self, n: usize) -> Vec<u8> {
        (0..n).map(|_| self.byte()).collect()
    }
    pub fn choose<'a, T>(&mut self, xs: &'a [T]) -> &'a T {
        &xs[self.below(xs.len() as u64) as usize]
    }
    /// derive an independent stream
    pub fn fork(&mut self) -> Rng {
        Rng(self.next_u64())
    }
}

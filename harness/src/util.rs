//! Statistics / JSON helpers (no serde: keep the dependency set to what is cached offline).

use std::collections::BTreeMap;

#[derive(Default, Debug, Clone)]
pub struct Stats {
    pub counters: BTreeMap<String, u64>,
    pub samples: Vec<String>,
    pub failures: Vec<Failure>,
    pub distinct: std::collections::BTreeSet<u64>,
    pub notes: Vec<String>,
}

#[derive(Debug, Clone)]
pub struct Failure {
    pub what: String,
    /// free-form replay payload (JSON object text)
    pub replay: String,
    /// class tag used to match known findings
    pub tag: String,
}

pub fn jstr(s: &str) -> String {
    let mut o = String::from("\"");
    for c in s.chars() {
        match c {
            '"' => o.push_str("\\\""),
            '\\' => o.push_str("\\\\"),
            '\n' => o.push_str("\\n"),
            '\t' => o.push_str("\\t"),
            c if (c as u32) < 0x20 => o.push_str(&format!("\\u{:04x}", c as u32)),
            c => o.push(c),
        }
    }
    o.push('"');
    o
}

pub fn fnv64(h: u64, bytes: &[u8]) -> u64 {
    let mut h = h;
    for &b in bytes {
        h = (h ^ b as u64).wrapping_mul(1099511628211);
    }
    h
}
pub const FNV_INIT: u64 = 14695981039346656037;

impl Stats {
    pub fn count(&mut self, k: &str) {
        *self.counters.entry(k.to_string()).or_insert(0) += 1;
    }
    pub fn add(&mut self, k: &str, v: u64) {
        *self.counters.entry(k.to_string()).or_insert(0) += v;
    }
    pub fn sample(&mut self, s: String) {
        if self.samples.len() < 5 {
            let s = if s.len() > 300 {
                format!("{}...", &s[..300])
            } else {
                s
            };
            self.samples.push(s);
        }
    }
    pub fn distinct_case(&mut self, bytes: &[u8]) {
        self.distinct.insert(fnv64(FNV_INIT, bytes));
    }
    pub fn fail(&mut self, tag: &str, what: String, replay: String) {
        if self.failures.len() < 50 {
            self.failures.push(Failure {
                what,
                replay,
                tag: tag.to_string(),
            });
        }
        self.count("failures_total");
    }
    pub fn to_json(&self) -> String {
        let mut s = String::from("{\n \"counters\": {");
        s.push_str(
            &self
                .counters
                .iter()
                .map(|(k, v)| format!("{}: {}", jstr(k), v))
                .collect::<Vec<_>>()
                .join(", "),
        );
        s.push_str("},\n \"distinct\": ");
        s.push_str(&self.distinct.len().to_string());
        s.push_str(",\n \"samples\": [");
        s.push_str(
            &self
                .samples
                .iter()
                .map(|x| jstr(x))
                .collect::<Vec<_>>()
                .join(", "),
        );
        s.push_str("],\n \"notes\": [");
        s.push_str(
            &self
                .notes
                .iter()
                .map(|x| jstr(x))
                .collect::<Vec<_>>()
                .join(", "),
        );
        s.push_str("],\n \"failures\": [");
        s.push_str(
            &self
                .failures
                .iter()
                .map(|f| {
                    format!(
                        "{{\"tag\": {}, \"what\": {}, \"replay\": {}}}",
                        jstr(&f.tag),
                        jstr(&f.what),
                        f.replay
                    )
                })
                .collect::<Vec<_>>()
                .join(",\n  "),
        );
        s.push_str("]\n}\n");
        s
    }
}

/// Run `f`, mapping a panic to `None`
pub fn catch<T>(f: impl FnOnce() -> T) -> Option<T> {
    std::panic::catch_unwind(std::panic::AssertUnwindSafe(f)).ok()
}

//! Structured generators: dimension classes x the 15 legal colour-type/depth pairs x content
//! classes chosen so that every reduction has inputs on which it fires and near misses on which it
//! must not.

use crate::img::*;
use crate::rng::Rng;

pub fn gen_dims(rng: &mut Rng, max: u32) -> (u32, u32) {
    let pick = |rng: &mut Rng| -> u32 {
        match rng.below(10) {
            0..=5 => rng.range(1, 9.min(max as u64)) as u32,
            6..=7 => {
                let c = [15u32, 16, 17, 31, 32, 33];
                (*rng.choose(&c)).min(max)
            }
            _ => rng.range(1, max as u64) as u32,
        }
    };
    (pick(rng), pick(rng))
}

#[derive(Clone, Debug)]
pub struct GenInfo {
    pub class: String,
}

fn replicate_to_8(v: u16, bits: u32) -> u16 {
    let mut val = v;
    let mut b = bits;
    while b < 8 {
        val = (val << b) | val;
        b <<= 1;
    }
    val & 0xFF
}

/// Generate an image of the given colour type / depth; `info.class` names the content class.
pub fn gen_grid(rng: &mut Rng, ct: u8, depth: u8, w: u32, h: u32) -> (Grid, GenInfo) {
    let c = channels(ct);
    let n = w as usize * h as usize;
    let max: u32 = (1u32 << depth) - 1;
    let mut class = String::new();
    let mut palette: Vec<[u8; 4]> = vec![];
    let mut trns: Option<Vec<u16>> = None;
    let mut samples: Vec<u16> = Vec::with_capacity(n * c);

    // --- base pixel population -----------------------------------------------------------
    let n_distinct = match rng.below(8) {
        0 => 1,
        1 => 2,
        2 => rng.range(3, 4),
        3 => rng.range(5, 16),
        4 => rng.range(17, 64),
        5 => 256,
        6 => 257,
        _ => 0, // unconstrained
    } as usize;

    if ct == 3 {
        // palette
        let cap = (1usize << depth).min(256);
        let plen = match rng.below(6) {
            0 => cap,
            1 => 1,
            2 => rng.range(1, cap as u64) as usize,
            3 => (cap / 2).max(1),
            _ => rng.range(1, cap as u64) as usize,
        };
        let pal_class = rng.below(6);
        for i in 0..plen {
            let mut e = [rng.byte(), rng.byte(), rng.byte(), 255];
            match pal_class {
                0 => {} // opaque random
                1 => e[3] = *rng.choose(&[0u8, 255, 255, 128]),
                2 => {
                    // gray palette
                    e[1] = e[0];
                    e[2] = e[0];
                    if rng.chance(1, 4) {
                        e[3] = rng.byte();
                    }
                }
                3 => {
                    // duplicates
                    if i > 0 && rng.bool() {
                        e = palette[rng.below(i as u64) as usize];
                    }
                }
                4 => {
                    // several transparent entries with different colours
                    if rng.chance(1, 3) {
                        e[3] = 0;
                    }
                }
                _ => {
                    e[3] = rng.byte();
                }
            }
            palette.push(e);
        }
        class.push_str(&format!("pal{}:{} ", pal_class, plen));
        // which indices are used
        let use_class = rng.below(4);
        let used: Vec<u16> = match use_class {
            0 => (0..plen as u16).collect(),
            1 => (0..plen as u16).filter(|_| rng.bool()).collect(),
            2 => vec![rng.below(plen as u64) as u16],
            _ => (0..plen as u16).rev().collect(),
        };
        let used = if used.is_empty() { vec![0] } else { used };
        for _ in 0..n {
            samples.push(*rng.choose(&used));
        }
        class.push_str(&format!("use{} ", use_class));
    } else {
        // a set of pixels to draw from
        let content = rng.below(10);
        let mk_px = |rng: &mut Rng| -> Vec<u16> {
            (0..c).map(|_| (rng.next_u64() as u32 & max) as u16).collect()
        };
        let mut pool: Vec<Vec<u16>> = (0..n_distinct.max(1)).map(|_| mk_px(rng)).collect();
        let gray_valued = matches!(ct, 2 | 6) && matches!(content, 0 | 1 | 2);
        let hilo = depth == 16 && matches!(content, 0 | 3 | 4 | 5);
        let hilo_miss = depth == 16 && content == 5;
        let replic = depth == 8 && matches!(ct, 0 | 4) && matches!(content, 6 | 7 | 8);
        let replic_bits = *rng.choose(&[1u32, 2, 4]);
        for p in pool.iter_mut() {
            if gray_valued {
                p[1] = p[0];
                p[2] = p[0];
            }
            if hilo {
                for s in p.iter_mut() {
                    *s = (*s & 0xFF) * 257;
                }
            }
            if replic {
                p[0] = replicate_to_8(p[0] & ((1 << replic_bits) - 1), replic_bits);
            }
        }
        if gray_valued {
            class.push_str("grayvalued ");
        }
        if hilo {
            class.push_str("hilo ");
        }
        if replic {
            class.push_str(&format!("replic{} ", replic_bits));
        }
        // alpha classes
        if matches!(ct, 4 | 6) {
            // (5, 6: 16-bit only - all-or-nothing alpha with one value on a byte boundary, where a test that looks at
            // one of the two alpha bytes goes wrong: 0x0001, 0x00FF, 0x0100, 0xFF00, 0xFFFE, ...)
            let ac = rng.below(if depth == 16 { 7 } else { 5 });
            let amax = max as u16;
            for p in pool.iter_mut() {
                let a = match ac {
                    0 => amax,
                    1 | 5 | 6 => *rng.choose(&[0, amax]),
                    2 => 0,
                    3 => *rng.choose(&[0, amax, amax, amax / 2]),
                    _ => p[c - 1],
                };
                p[c - 1] = if hilo && ac == 4 { (a & 0xFF) * 257 } else { a };
            }
            if ac >= 5 && !pool.is_empty() {
                let k = rng.below(pool.len() as u64) as usize;
                let nn = rng.range(1, 254) as u16;
                pool[k][c - 1] = *rng.choose(&[0x0001u16, 0x00FF, 0x0100, 0xFF00, 0xFFFE, 0x8000, 0x00FE, nn, nn << 8, 0xFF00 | nn, (nn << 8) | 0xFF]);
            }
            class.push_str(&format!("alpha{} ", ac));
        }
        for _ in 0..n {
            let p = if n_distinct == 0 {
                let mut p = mk_px(rng);
                // keep the structural constraints of the class on fresh pixels too
                let t = rng.choose(&pool).clone();
                if gray_valued {
                    p[1] = p[0];
                    p[2] = p[0];
                }
                if hilo {
                    for s in p.iter_mut() {
                        *s = (*s & 0xFF) * 257;
                    }
                }
                if replic {
                    p[0] = replicate_to_8(p[0] & ((1 << replic_bits) - 1), replic_bits);
                }
                if matches!(ct, 4 | 6) {
                    p[c - 1] = t[c - 1];
                }
                p
            } else {
                rng.choose(&pool).clone()
            };
            samples.extend_from_slice(&p);
        }
        // near misses: break the constraint at one sample
        if (hilo_miss || (gray_valued && content == 2) || (replic && content == 8)) && n > 0 {
            let i = rng.below(samples.len() as u64) as usize;
            samples[i] ^= 1 + (rng.below(max as u64) as u16 & 0x7);
            samples[i] &= max as u16;
            class.push_str("nearmiss ");
        }
        // colour key
        if matches!(ct, 0 | 2) {
            let kc = rng.below(7);
            let key_len = if ct == 0 { 1 } else { 3 };
            trns = match kc {
                0 | 1 => None,
                2 => {
                    // a used pixel
                    let i = rng.below(n as u64) as usize;
                    Some(samples[i * c..i * c + key_len].to_vec())
                }
                3 => Some((0..key_len).map(|_| (rng.next_u64() as u32 & max) as u16).collect()),
                4 => {
                    // near miss of a used pixel
                    let i = rng.below(n as u64) as usize;
                    let mut k = samples[i * c..i * c + key_len].to_vec();
                    let j = rng.below(key_len as u64) as usize;
                    k[j] = (k[j] ^ 1) & max as u16;
                    Some(k)
                }
                5 => Some(vec![0; key_len]),
                _ => Some(vec![max as u16; key_len]),
            };
            class.push_str(&format!("key{} ", kc));
        }
    }
    class.push_str(&format!("d{} ", n_distinct));
    (
        Grid {
            w,
            h,
            ct,
            depth,
            palette,
            trns,
            samples,
        },
        GenInfo { class },
    )
}

/// "Nothing is spare": an image with an alpha channel whose opaque pixels use every one of the 256 gray shades (255 of
/// them in a third of the cases), with all-or-nothing alpha and at least one fully transparent pixel - so that a colour
/// key for the transparent pixels can be found only if a shade is left over. For 16-bit samples the shades are the
/// values with two equal bytes.
pub fn gen_ramp(rng: &mut Rng, ct: u8, depth: u8) -> (Grid, GenInfo) {
    assert!(matches!(ct, 4 | 6) && matches!(depth, 8 | 16));
    let (w, h) = *rng.choose(&[(17u32, 16u32), (20, 13), (33, 8), (8, 33), (260, 1)]);
    let n = (w * h) as usize;
    let c = channels(ct);
    let max: u16 = if depth == 16 { 0xFFFF } else { 0xFF };
    let missing: Option<u16> = if rng.chance(1, 3) { Some(rng.below(256) as u16) } else { None };
    let shade = |k: u16| if depth == 16 { k * 257 } else { k };
    let mut px: Vec<Vec<u16>> = vec![];
    for k in 0..256u16 {
        if Some(k) == missing { continue; }
        let mut p = vec![shade(k); c];
        p[c - 1] = max;
        px.push(p);
    }
    let coloured = ct == 6 && rng.chance(1, 3);
    if coloured {
        px.push(vec![shade(10), shade(200), shade(30), max]);
    }
    let transparent = rng.range(1, 3) as usize;
    for _ in 0..transparent {
        let mut p: Vec<u16> = (0..c).map(|_| rng.next_u64() as u16 & max).collect();
        p[c - 1] = 0;
        px.push(p);
    }
    while px.len() < n {
        let i = rng.below(px.len() as u64) as usize;
        let p = px[i].clone();
        px.push(p);
    }
    for i in (1..px.len()).rev() {
        let j = rng.below(i as u64 + 1) as usize;
        px.swap(i, j);
    }
    let samples: Vec<u16> = px.into_iter().flatten().collect();
    let class = format!("ramp{}{} ", if missing.is_some() { 255 } else { 256 }, if coloured { "+colour" } else { "" });
    (Grid { w, h, ct, depth, palette: vec![], trns: None, samples }, GenInfo { class })
}

/// An indexed image in which one colour is isolated within its Adam7 pass - used only on the pass-1 lattice (x, y
/// multiples of 8), or filling the odd rows (pass 7) and nothing else - so that, seen pass by pass, that colour has no
/// neighbour of another colour: whatever orders a palette by which colours sit next to each other must not lose it when
/// the image is laid out in passes.
pub fn gen_pass_isolated(rng: &mut Rng) -> (Grid, GenInfo) {
    let n = rng.range(3, 30) as usize;
    let palette: Vec<[u8; 4]> = (0..n).map(|_| [rng.byte(), rng.byte(), rng.byte(), 255]).collect();
    let (w, h) = (rng.range(9, 40) as u32, rng.range(9, 40) as u32);
    let kind = rng.below(2);
    let lonely = rng.below(n as u64) as u16;
    let others: Vec<u16> = (0..n as u16).filter(|c| *c != lonely).collect();
    let mut samples = Vec::with_capacity((w * h) as usize);
    for y in 0..h {
        for x in 0..w {
            let isolated = if kind == 0 { x % 8 == 0 && y % 8 == 0 } else { y % 2 == 1 };
            samples.push(if isolated { lonely } else { *rng.choose(&others) });
        }
    }
    (Grid { w, h, ct: 3, depth: 8, palette, trns: None, samples }, GenInfo { class: format!("pass-isolated{} pal{} ", kind, n) })
}

/// A random legal image in oxipng layout
pub fn gen_himg(rng: &mut Rng, max_dim: u32) -> (HImg, GenInfo) {
    if rng.chance(1, 50) {
        let (rct, rd) = (*rng.choose(&[4u8, 6]), *rng.choose(&[8u8, 8, 16]));
        let (g, info) = gen_ramp(rng, rct, rd);
        let il = rng.chance(1, 4);
        return (g.pack(il), info);
    }
    let &(ct, depth) = rng.choose(&LEGAL_PAIRS);
    let (w, h) = gen_dims(rng, max_dim);
    let (g, info) = gen_grid(rng, ct, depth, w, h);
    let il = rng.chance(1, 3);
    (g.pack(il), info)
}

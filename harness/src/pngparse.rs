//! A strict PNG/APNG reader written from the specifications (container, zlib via miniz_oxide,
//! reconstruction via `img::recon_row_ref`), independent of oxipng. It is the reference decoder of
//! the oracles and the validator for C02.

use crate::img::*;

#[derive(Clone, Debug, PartialEq)]
pub struct RChunk {
    pub name: [u8; 4],
    pub data: Vec<u8>,
    pub crc_ok: bool,
}

pub fn name_str(n: &[u8; 4]) -> String {
    String::from_utf8_lossy(n).to_string()
}

/// Container level: signature, chunk framing, CRCs. Fails on any structural error.
pub fn parse_chunks(b: &[u8]) -> Result<Vec<RChunk>, String> {
    if b.len() < 8 || b[..8] != SIG {
        return Err("bad signature".into());
    }
    let mut off = 8;
    let mut out = vec![];
    while off < b.len() {
        if off + 12 > b.len() {
            return Err(format!("truncated chunk header at {}", off));
        }
        let len = u32::from_be_bytes([b[off], b[off + 1], b[off + 2], b[off + 3]]) as usize;
        if len > 0x7fff_ffff {
            return Err("chunk length exceeds 2^31-1".into());
        }
        if off + 12 + len > b.len() {
            return Err(format!("chunk at {} overruns the file", off));
        }
        let name: [u8; 4] = b[off + 4..off + 8].try_into().unwrap();
        if !name.iter().all(|c| c.is_ascii_alphabetic()) {
            return Err(format!("illegal chunk name at {}", off));
        }
        let data = b[off + 8..off + 8 + len].to_vec();
        let crc = u32::from_be_bytes(b[off + 8 + len..off + 12 + len].try_into().unwrap());
        let mut h = crc32fast::Hasher::new();
        h.update(&name);
        h.update(&data);
        out.push(RChunk {
            name,
            data,
            crc_ok: h.finalize() == crc,
        });
        off += 12 + len;
    }
    Ok(out)
}

#[derive(Clone, Debug, PartialEq)]
pub struct RFrame {
    pub seq_fctl: u32,
    pub w: u32,
    pub h: u32,
    pub x: u32,
    pub y: u32,
    pub delay_num: u16,
    pub delay_den: u16,
    pub dispose: u8,
    pub blend: u8,
    /// concatenated fdAT payloads (without sequence numbers); empty for a frame that is the default image
    pub data: Vec<u8>,
    pub is_default_image: bool,
}

#[derive(Clone, Debug)]
pub struct Decoded {
    pub chunks: Vec<RChunk>,
    pub img: HImg,
    /// filter-type byte of every scan line
    pub filter_bytes: Vec<u8>,
    pub idat: Vec<u8>,
    pub inflated_len: usize,
    /// (num_frames, num_plays) of acTL
    pub actl: Option<(u32, u32)>,
    pub frames: Vec<RFrame>,
    /// structural violations found (empty = strictly valid)
    pub violations: Vec<String>,
}

pub fn inflate(z: &[u8]) -> Result<Vec<u8>, String> {
    miniz_oxide::inflate::decompress_to_vec_zlib_with_limit(z, 1 << 28).map_err(|e| format!("zlib: {:?}", e))
}

/// unfilter a filtered stream for the given header; returns (unfiltered data, filter bytes)
pub fn unfilter_stream(hdr: &HImg, filtered: &[u8]) -> Result<(Vec<u8>, Vec<u8>), String> {
    let mut probe = hdr.clone();
    probe.data = vec![0; probe.expected_len()];
    let bpp = probe.bpp_bytes();
    let mut off = 0;
    let mut out = Vec::new();
    let mut fbytes = vec![];
    let mut prior: Vec<u8> = vec![];
    let mut last_pass = None;
    let mut first = true;
    for (pass, _, line) in probe.lines() {
        let len = line.len();
        if off + 1 + len > filtered.len() {
            return Err("inflated data shorter than the header implies".into());
        }
        let ft = filtered[off];
        if ft > 4 {
            return Err(format!("illegal filter type {}", ft));
        }
        fbytes.push(ft);
        if first || pass != last_pass {
            prior = vec![0; len];
            last_pass = pass;
            first = false;
        }
        let rec = recon_row_ref(ft, bpp, &filtered[off + 1..off + 1 + len], &prior);
        out.extend_from_slice(&rec);
        prior = rec;
        off += 1 + len;
    }
    if off != filtered.len() {
        return Err(format!(
            "inflated data longer than the header implies ({} vs {})",
            filtered.len(),
            off
        ));
    }
    Ok((out, fbytes))
}

const BEFORE_PLTE: [&[u8; 4]; 6] = [b"cHRM", b"gAMA", b"iCCP", b"sBIT", b"sRGB", b"cICP"];
const AFTER_PLTE: [&[u8; 4]; 3] = [b"bKGD", b"hIST", b"tRNS"];
const BEFORE_IDAT: [&[u8; 4]; 7] = [b"pHYs", b"sPLT", b"eXIf", b"acTL", b"mDCV", b"cLLI", b"sTER"];
const SINGLETON: [&[u8; 4]; 16] = [
    b"IHDR", b"PLTE", b"IEND", b"cHRM", b"gAMA", b"iCCP", b"sBIT", b"sRGB", b"cICP", b"bKGD", b"hIST",
    b"tRNS", b"pHYs", b"tIME", b"acTL", b"eXIf",
];

/// Full strict decode. `Err` = not decodable at all; `Ok(d)` with `d.violations` non-empty =
/// decodable but breaking a structural rule.
pub fn decode(b: &[u8]) -> Result<Decoded, String> {
    let chunks = parse_chunks(b)?;
    let mut v: Vec<String> = vec![];
    for c in &chunks {
        if !c.crc_ok {
            v.push(format!("bad CRC in {}", name_str(&c.name)));
        }
    }
    if chunks.first().map(|c| &c.name) != Some(b"IHDR") {
        return Err("first chunk is not IHDR".into());
    }
    if chunks.last().map(|c| &c.name) != Some(b"IEND") {
        v.push("last chunk is not IEND".into());
    }
    if chunks.last().map_or(false, |c| !c.data.is_empty()) {
        v.push("IEND not empty".into());
    }
    let ih = &chunks[0].data;
    if ih.len() != 13 {
        return Err("IHDR length".into());
    }
    let w = u32::from_be_bytes(ih[0..4].try_into().unwrap());
    let h = u32::from_be_bytes(ih[4..8].try_into().unwrap());
    let (depth, ct, comp, filt, il) = (ih[8], ih[9], ih[10], ih[11], ih[12]);
    if w == 0 || h == 0 || w > 0x7fff_ffff || h > 0x7fff_ffff {
        return Err("illegal dimensions".into());
    }
    if !depth_legal(ct, depth) {
        return Err(format!("illegal colour type/depth {}/{}", ct, depth));
    }
    if comp != 0 || filt != 0 || il > 1 {
        return Err("illegal compression/filter/interlace method".into());
    }
    for s in SINGLETON {
        if chunks.iter().filter(|c| &c.name == s).count() > 1 {
            v.push(format!("more than one {}", name_str(s)));
        }
    }
    let pos = |n: &[u8; 4]| chunks.iter().position(|c| &c.name == n);
    let first_idat = pos(b"IDAT").ok_or("no IDAT")?;
    let last_idat = chunks.iter().rposition(|c| &c.name == b"IDAT").unwrap();
    if chunks[first_idat..=last_idat].iter().any(|c| &c.name != b"IDAT") {
        v.push("IDAT chunks are not consecutive".into());
    }
    let plte = pos(b"PLTE");
    if let Some(p) = plte {
        if p > first_idat {
            v.push("PLTE after IDAT".into());
        }
        if ct == 0 || ct == 4 {
            v.push("PLTE in a grayscale image".into());
        }
        let l = chunks[p].data.len();
        if l % 3 != 0 || l == 0 || l > 768 {
            v.push("PLTE length".into());
        }
        if ct == 3 && l / 3 > (1usize << depth) {
            v.push("PLTE has more entries than the bit depth can index".into());
        }
    } else if ct == 3 {
        return Err("indexed image without PLTE".into());
    }
    for (i, c) in chunks.iter().enumerate() {
        if BEFORE_PLTE.contains(&&c.name) {
            if i > first_idat {
                v.push(format!("{} after IDAT", name_str(&c.name)));
            }
            if plte.map_or(false, |p| i > p) {
                v.push(format!("{} after PLTE", name_str(&c.name)));
            }
        }
        if AFTER_PLTE.contains(&&c.name) {
            if i > first_idat {
                v.push(format!("{} after IDAT", name_str(&c.name)));
            }
            if plte.map_or(false, |p| i < p) {
                v.push(format!("{} before PLTE", name_str(&c.name)));
            }
        }
        if BEFORE_IDAT.contains(&&c.name) && i > first_idat {
            v.push(format!("{} after IDAT", name_str(&c.name)));
        }
    }
    // palette / transparency
    let mut palette: Vec<[u8; 4]> = vec![];
    let mut trns: Option<Vec<u16>> = None;
    if ct == 3 {
        let p = &chunks[plte.unwrap()].data;
        palette = p.chunks_exact(3).map(|c| [c[0], c[1], c[2], 255]).collect();
    }
    if let Some(t) = pos(b"tRNS") {
        let td = &chunks[t].data;
        match ct {
            3 => {
                if td.len() > palette.len() {
                    v.push("tRNS longer than the palette".into());
                }
                for (e, a) in palette.iter_mut().zip(td.iter()) {
                    e[3] = *a;
                }
            }
            0 => {
                if td.len() != 2 {
                    v.push("tRNS length for grayscale".into());
                } else {
                    let k = u16::from_be_bytes([td[0], td[1]]);
                    if depth < 16 && k >= (1 << depth) {
                        v.push("tRNS gray sample exceeds the bit depth".into());
                    }
                    trns = Some(vec![k]);
                }
            }
            2 => {
                if td.len() != 6 {
                    v.push("tRNS length for RGB".into());
                } else {
                    let k: Vec<u16> = td.chunks_exact(2).map(|p| u16::from_be_bytes([p[0], p[1]])).collect();
                    if depth < 16 && k.iter().any(|&x| x >= (1 << depth)) {
                        v.push("tRNS RGB sample exceeds the bit depth".into());
                    }
                    trns = Some(k);
                }
            }
            _ => v.push("tRNS in an image with alpha channel".into()),
        }
    }
    // ancillary chunks whose layout depends on the colour type, bit depth or palette
    if let Some(k) = pos(b"bKGD") {
        let d = &chunks[k].data;
        let want = match ct { 3 => 1, 0 | 4 => 2, _ => 6 };
        if d.len() != want {
            v.push(format!("bKGD of {} bytes in an image of colour type {} (must be {})", d.len(), ct, want));
        } else if ct == 3 && d[0] as usize >= palette.len() {
            v.push("bKGD palette index outside the palette".into());
        }
    }
    if let Some(k) = pos(b"sBIT") {
        let d = &chunks[k].data;
        let want = match ct { 0 => 1, 2 | 3 => 3, 4 => 2, _ => 4 };
        let max = if ct == 3 { 8 } else { depth };
        if d.len() != want {
            v.push(format!("sBIT of {} bytes in an image of colour type {} (must be {})", d.len(), ct, want));
        } else if d.iter().any(|&b| b == 0 || b > max) {
            v.push("sBIT value outside 1..=sample depth".into());
        }
    }
    if let Some(k) = pos(b"hIST") {
        if ct != 3 || plte.is_none() {
            v.push("hIST without a palette".into());
        } else if chunks[k].data.len() != 2 * palette.len() {
            v.push(format!("hIST has {} entries, the palette {}", chunks[k].data.len() / 2, palette.len()));
        }
    }
    let idat: Vec<u8> = chunks
        .iter()
        .filter(|c| &c.name == b"IDAT")
        .flat_map(|c| c.data.iter().copied())
        .collect();
    let inflated = inflate(&idat)?;
    let hdr = HImg {
        w,
        h,
        ct,
        depth,
        il: il == 1,
        palette,
        trns,
        data: vec![],
    };
    let (data, filter_bytes) = unfilter_stream(&hdr, &inflated)?;
    let mut img = hdr;
    img.data = data;
    if ct == 3 {
        if let Some(g) = img.unpack() {
            if g.samples.iter().any(|&s| s as usize >= img.palette.len()) {
                v.push("pixel index outside the palette".into());
            }
        }
    }
    // animation
    let actl = pos(b"acTL").and_then(|i| {
        let d = &chunks[i].data;
        if d.len() != 8 {
            v.push("acTL length".into());
            None
        } else {
            Some((
                u32::from_be_bytes(d[0..4].try_into().unwrap()),
                u32::from_be_bytes(d[4..8].try_into().unwrap()),
            ))
        }
    });
    let mut frames: Vec<RFrame> = vec![];
    let mut seq = 0u32;
    for (i, c) in chunks.iter().enumerate() {
        if &c.name == b"fcTL" {
            let d = &c.data;
            if d.len() != 26 {
                v.push("fcTL length".into());
                continue;
            }
            let s = u32::from_be_bytes(d[0..4].try_into().unwrap());
            if s != seq {
                v.push(format!("fcTL sequence number {} where {} expected", s, seq));
            }
            seq = seq.wrapping_add(1);
            let f = RFrame {
                seq_fctl: s,
                w: u32::from_be_bytes(d[4..8].try_into().unwrap()),
                h: u32::from_be_bytes(d[8..12].try_into().unwrap()),
                x: u32::from_be_bytes(d[12..16].try_into().unwrap()),
                y: u32::from_be_bytes(d[16..20].try_into().unwrap()),
                delay_num: u16::from_be_bytes(d[20..22].try_into().unwrap()),
                delay_den: u16::from_be_bytes(d[22..24].try_into().unwrap()),
                dispose: d[24],
                blend: d[25],
                data: vec![],
                is_default_image: i < first_idat,
            };
            if f.w == 0 || f.h == 0 || f.x as u64 + f.w as u64 > w as u64 || f.y as u64 + f.h as u64 > h as u64 {
                v.push("fcTL region outside the image".into());
            }
            if i < first_idat && (f.w != w || f.h != h || f.x != 0 || f.y != 0) {
                v.push("default-image fcTL does not cover the image".into());
            }
            frames.push(f);
        } else if &c.name == b"fdAT" {
            let d = &c.data;
            if d.len() < 4 {
                v.push("fdAT length".into());
                continue;
            }
            let s = u32::from_be_bytes(d[0..4].try_into().unwrap());
            if s != seq {
                v.push(format!("fdAT sequence number {} where {} expected", s, seq));
            }
            seq = seq.wrapping_add(1);
            if i < first_idat {
                v.push("fdAT before IDAT".into());
            }
            match frames.last_mut() {
                Some(f) if !f.is_default_image => f.data.extend_from_slice(&d[4..]),
                _ => v.push("fdAT without a preceding fcTL".into()),
            }
        }
    }
    if let Some((n, _)) = actl {
        if n as usize != frames.len() {
            v.push(format!("acTL announces {} frames, {} present", n, frames.len()));
        }
        if pos(b"acTL").unwrap() > first_idat {
            v.push("acTL after IDAT".into());
        }
    } else if !frames.is_empty() {
        v.push("fcTL/fdAT without acTL".into());
    }
    Ok(Decoded {
        chunks,
        inflated_len: inflated.len(),
        img,
        filter_bytes,
        idat,
        actl,
        frames,
        violations: v,
    })
}

/// decode the picture of one animation frame (same header, frame geometry)
pub fn decode_frame(d: &Decoded, f: &RFrame) -> Result<HImg, String> {
    let mut hdr = d.img.clone();
    hdr.w = f.w;
    hdr.h = f.h;
    hdr.data = vec![];
    let inflated = inflate(&f.data)?;
    let (data, _) = unfilter_stream(&hdr, &inflated)?;
    hdr.data = data;
    Ok(hdr)
}

/// 16-bit RGBA pixels of a decoded image
pub fn pixels_of(img: &HImg) -> Option<Vec<[u16; 4]>> {
    img.unpack().map(|g| g.pixels())
}

/// Does the independent `png` crate accept the file and decode all of it?
pub fn png_crate_accepts(b: &[u8]) -> Result<(), String> {
    let mut dec = png::Decoder::new(std::io::Cursor::new(b));
    dec.set_transformations(png::Transformations::IDENTITY);
    let mut reader = dec.read_info().map_err(|e| format!("png crate: {}", e))?;
    let mut buf = vec![0; reader.output_buffer_size()];
    reader
        .next_frame(&mut buf)
        .map_err(|e| format!("png crate: {}", e))?;
    Ok(())
}

/// Raw (de-interlaced, packed) image bytes as the `png` crate decodes them
pub fn png_crate_raw(b: &[u8]) -> Result<Vec<u8>, String> {
    let mut dec = png::Decoder::new(std::io::Cursor::new(b));
    dec.set_transformations(png::Transformations::IDENTITY);
    let mut reader = dec.read_info().map_err(|e| format!("png crate: {}", e))?;
    let mut buf = vec![0; reader.output_buffer_size()];
    let info = reader
        .next_frame(&mut buf)
        .map_err(|e| format!("png crate: {}", e))?;
    buf.truncate(info.buffer_size());
    Ok(buf)
}

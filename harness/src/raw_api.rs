//! C11: the raw-image API. Argument validation (correspondence with the Lean decision function)
//! and the oracle "the PNG created decodes to exactly the samples given".

use crate::e2e::*;
use crate::gen::*;
use crate::img::*;
use crate::pngparse::*;
use crate::rng::Rng;
use crate::util::*;
use crate::Ctx;
use oxipng::RawImage;

fn mk_raw(img: &HImg, w: u32, h: u32, data: Vec<u8>) -> Option<Result<RawImage, String>> {
    let ct = img.color_type();
    let bd = img.bit_depth();
    catch(move || RawImage::new(w, h, ct, bd, data).map_err(|e| e.to_string()))
}

pub fn corr(ctx: &mut Ctx) {
    let mut rng = Rng::new(ctx.seed ^ 0xC11);
    let mut st = Stats::default();
    for i in 0..ctx.n {
        // any colour type with any depth (legal or not)
        let ct = *rng.choose(&[0u8, 2, 3, 4, 6]);
        let depth = *rng.choose(&[1u8, 2, 4, 8, 16]);
        let (mut w, mut h) = gen_dims(&mut rng, 9);
        let pal_len = match rng.below(6) {
            0 => 0usize,
            1 => 1,
            2 => (1usize << depth.min(8)) + 1,
            3 => 300,
            _ => rng.range(1, (1u64 << depth.min(8)).min(256)) as usize,
        };
        match rng.below(12) {
            0 => w = 0,
            1 => h = 0,
            2 => {
                w = u32::MAX;
                h = u32::MAX;
            }
            _ => {}
        }
        let hdr = HImg {
            w,
            h,
            ct,
            depth,
            il: false,
            palette: if ct == 3 { (0..pal_len).map(|k| [k as u8, 1, 2, 255]).collect() } else { vec![] },
            trns: None,
            data: vec![],
        };
        let expected = (w as u128 * channels(ct) as u128 * depth as u128 + 7) / 8 * h as u128;
        let len = match rng.below(5) {
            0 => expected.saturating_sub(1),
            1 => expected + 1,
            2 => rng.below(40) as u128,
            _ => expected,
        }
        .min(4096) as usize;
        let r = mk_raw(&hdr, w, h, vec![0; len]);
        let ans = match &r {
            None => "panic",
            Some(Ok(_)) => "ok",
            Some(Err(_)) => "err",
        };
        let req = format!("raw_new {} {} {} {} {} {}", w, h, ct, depth, if ct == 3 { pal_len.to_string() } else { "-".into() }, len);
        st.count(&format!("raw_new_{}", ans));
        st.distinct_case(req.as_bytes());
        if i < 3 {
            st.sample(format!("{} => {}", req, ans));
        }
        ctx.line(&req, ans);
        // whatever is accepted must be encodable into a well-formed PNG without panicking
        if let Some(Ok(raw)) = &r {
            let mut o = oxipng::Options::from_preset(if rng.bool() { 0 } else { 2 });
            if rng.bool() {
                o.palette_reduction = false;
                o.bit_depth_reduction = rng.bool();
            }
            match catch(|| raw.create_optimized_png(&o)) {
                None => st.fail(
                    "raw-accepted-then-panic",
                    format!("RawImage::new accepted arguments on which create_optimized_png panics: {}", req),
                    format!("{{\"request\": {}}}", jstr(&req)),
                ),
                Some(Ok(b)) => match decode(&b) {
                    Ok(d) if d.violations.is_empty() => st.count("accepted_valid_png"),
                    Ok(d) => st.fail(
                        "raw-accepted-invalid-png",
                        format!("RawImage::new accepted arguments that yield an ill-formed PNG ({:?}): {}", d.violations, req),
                        format!("{{\"request\": {}}}", jstr(&req)),
                    ),
                    Err(e) => st.fail(
                        "raw-accepted-invalid-png",
                        format!("RawImage::new accepted arguments that yield an undecodable PNG ({}): {}", e, req),
                        format!("{{\"request\": {}}}", jstr(&req)),
                    ),
                },
                Some(Err(_)) => st.count("accepted_then_error"),
            }
        }
        if ans == "panic" {
            st.fail("raw-new-panic", format!("RawImage::new panicked: {}", req), format!("{{\"request\": {}}}", jstr(&req)));
        }
    }
    ctx.write_stats(&st);
}

pub fn oracle(ctx: &mut Ctx) {
    let mut rng = Rng::new(ctx.seed ^ 0x0C11);
    let mut st = Stats::default();
    for i in 0..ctx.n {
        let &(mut ct, mut depth) = rng.choose(&LEGAL_PAIRS);
        let (mut w, mut h) = gen_dims(&mut rng, if ctx.tier_thorough { 24 } else { 12 });
        let (mut g, mut info) = gen_grid(&mut rng, ct, depth, w, h);
        // one case in twenty: an indexed image with a colour isolated within its Adam7 pass, to be written interlaced at a
        // preset that tries the co-occurrence palette orders
        let pass_isolated = rng.chance(1, 20);
        if pass_isolated {
            let (g2, i2) = crate::gen::gen_pass_isolated(&mut rng);
            ct = 3; depth = 8; w = g2.w; h = g2.h;
            g = g2; info = i2;
        }
        if matches!(ct, 2 | 6) && rng.chance(1, 2) {
            let c = channels(ct);
            for p in g.samples.chunks_mut(c) {
                p[1] = p[0];
                p[2] = p[0];
            }
            if let Some(k) = g.trns.as_mut() {
                k[1] = k[0];
                k[2] = k[0];
            }
        }
        let img = g.pack(false);
        let mut opts = gen_opts(&mut rng, Profile::Any, ctx.tier_thorough);
        opts.idat_recoding = true;
        if pass_isolated {
            opts = HOpts::from_preset(*rng.choose(&[3u8, 4]));
            opts.interlace = Some(1);
            if let Ok(_) = opts.deflate { opts.deflate = Ok(*rng.choose(&[8u8, 12])); }
            st.count("pass_isolated_cases");
        }
        st.count("cases");
        st.count(&format!("in_ct{}d{}", ct, depth));
        st.distinct_case(&[img.to_line().as_bytes(), opts.show().as_bytes()].concat());
        let replay = format!(
            "{{\"image\": {}, \"options\": {}, \"class\": {}}}",
            jstr(&img.to_line()),
            jstr(&opts.show()),
            jstr(&info.class)
        );
        let raw = match mk_raw(&img, w, h, img.data.clone()) {
            Some(Ok(r)) => r,
            Some(Err(e)) => {
                st.fail("rejected-valid", format!("RawImage::new rejected consistent arguments: {}", e), replay);
                continue;
            }
            None => {
                st.fail("raw-new-panic", "RawImage::new panicked".into(), replay);
                continue;
            }
        };
        let mut raw = raw;
        // attached chunks
        let mut attached: Vec<([u8; 4], Vec<u8>)> = vec![];
        if rng.chance(1, 2) {
            attached.push((*b"tEXt", b"Title\0raw".to_vec()));
        }
        if rng.chance(1, 3) {
            attached.push((*b"pHYs", vec![0, 0, 0x0b, 0x13, 0, 0, 0x0b, 0x13, 1]));
        }
        if rng.chance(1, 4) {
            attached.push((*b"prVt", rng.bytes(5)));
        }
        // chunks whose layout depends on the image format (right for the image as given): they are dropped when colour type
        // or depth change and - for an indexed image - must not outlive a change of the palette they index into
        if rng.chance(1, 3) {
            let d = match ct { 3 => vec![rng.below(img.palette.len().max(1) as u64) as u8], 0 | 4 => vec![0, 1], _ => vec![0, 1, 0, 2, 0, 3] };
            attached.push((*b"bKGD", d));
        }
        if ct == 3 && rng.chance(1, 3) {
            attached.push((*b"hIST", (0..img.palette.len()).flat_map(|k| [0u8, k as u8]).collect()));
        }
        if rng.chance(1, 4) {
            let n = if ct == 3 { 3 } else { channels(ct) };
            attached.push((*b"sBIT", vec![if ct == 3 { 8 } else { depth.min(8) }; n]));
        }
        for (n, d) in &attached {
            raw.add_png_chunk(*n, d.clone());
        }
        // a third with an attached profile: random bytes, or (one in three of those) a large, highly compressible one
        // that the size guess of the profile extraction cannot inflate - still a profile the caller attached
        let icc: Option<Vec<u8>> = if rng.chance(1, 3) {
            if rng.chance(1, 3) {
                let mut p = vec![0u8; 4000 + rng.below(12000) as usize];
                for k in 0..40 { let at = rng.below(p.len() as u64) as usize; p[at] = k as u8; }
                Some(p)
            } else { Some(rng.bytes(150)) }
        } else { None };
        let srgb_attached = icc.is_none() && rng.chance(1, 4);
        let srgb_payload = vec![rng.below(4) as u8];
        if srgb_attached {
            raw.add_png_chunk(*b"sRGB", srgb_payload.clone());
        }
        if let Some(p) = &icc {
            raw.add_icc_profile(p);
        }
        let o = opts.to_oxi();
        note_current(&replay);
        let out = match catch(|| raw.create_optimized_png(&o)) {
            None => {
                st.fail("panic", "create_optimized_png panicked".into(), replay);
                continue;
            }
            Some(Err(e)) => {
                st.fail("error-on-valid", format!("create_optimized_png failed: {}", e), replay);
                continue;
            }
            Some(Ok(b)) => b,
        };
        let dec = match decode(&out) {
            Ok(d) => d,
            Err(e) => {
                st.fail("undecodable-output", e, replay);
                continue;
            }
        };
        st.count("ok");
        if !dec.violations.is_empty() {
            st.fail("invalid-output", format!("{:?}", dec.violations), replay.clone());
        }
        if let Err(e) = png_crate_accepts(&out) {
            st.fail("png-crate-rejects", e, replay.clone());
        }
        // pixels: C01, or C03 with alpha optimisation, or C15 with scaling of a 16-bit image
        let pi = g.pixels();
        let po = pixels_of(&dec.img).unwrap_or_default();
        let scaled = opts.scale_16 && depth == 16 && opts.bit_depth_reduction;
        if !scaled {
            let bad = if opts.optimize_alpha {
                pi.len() != po.len() || pi.iter().zip(&po).any(|(x, y)| x[3] != y[3] || (x[3] != 0 && x != y))
            } else {
                pi != po
            };
            if bad {
                st.fail("raw-pixels", format!("created PNG does not decode to the given samples ({})", info.class), replay.clone());
            }
        } else {
            st.count("scaled");
        }
        // attached chunks subject to the strip policy (no reductions touch tEXt/pHYs/prVt)
        // (bKGD / sBIT / hIST describe the image format they were written for: they go when colour type, depth or - for
        // an indexed image - the palette changes, as C07 says, and stay otherwise)
        let format_changed = dec.img.ct != ct || dec.img.depth != depth || dec.img.palette != img.palette;
        for (n, d) in &attached {
            let format_bound = matches!(n, b"bKGD" | b"sBIT" | b"hIST");
            if format_bound && format_changed {
                if dec.chunks.iter().any(|c| &c.name == n) && spec_keeps(&opts.strip, n) {
                    st.fail("raw-stale-chunk", format!("attached chunk {} outlived a change of the image format (ct {} d{} -> ct {} d{}, palette changed: {})", name_str(n), ct, depth, dec.img.ct, dec.img.depth, dec.img.palette != img.palette), replay.clone());
                }
                continue;
            }
            let keep = spec_keeps(&opts.strip, n);
            let count = dec.chunks.iter().filter(|c| &c.name == n && &c.data == d).count();
            if keep && count != 1 {
                st.fail("raw-chunk-lost", format!("attached chunk {} appears {} times", name_str(n), count), replay.clone());
            }
            if !keep && dec.chunks.iter().any(|c| &c.name == n) {
                st.fail("raw-chunk-kept", format!("stripped chunk {} present", name_str(n)), replay.clone());
            }
        }
        if let Some(p) = &icc {
            let keep = spec_keeps(&opts.strip, b"iCCP");
            let gray_changed = (ct == 0 || ct == 4) != (dec.img.ct == 0 || dec.img.ct == 4);
            let found = dec.chunks.iter().find(|c| &c.name == b"iCCP");
            match found {
                Some(c) => {
                    let z = c.data.iter().position(|b| *b == 0).map(|k| &c.data[k + 2..]);
                    let ok = z.and_then(|z| inflate(z).ok()).map_or(false, |x| &x == p);
                    if !ok {
                        st.fail("raw-icc-changed", "attached ICC profile does not inflate to the given bytes".into(), replay.clone());
                    }
                }
                None => {
                    // the attached profile is random bytes (not a recognised sRGB profile): it may never
                    // be replaced; with the profile kept the image must not move between gray and colour
                    let replaced_by_existing_srgb = false;
                    if keep && !replaced_by_existing_srgb {
                        st.fail(
                            "raw-icc-lost",
                            format!("attached ICC profile missing from the output (gray<->colour conversion: {})", gray_changed),
                            replay.clone(),
                        );
                    }
                }
            }
        }
        if srgb_attached {
            let gray_changed = (ct == 0 || ct == 4) != (dec.img.ct == 0 || dec.img.ct == 4);
            let keep = spec_keeps(&opts.strip, b"sRGB");
            let present = dec.chunks.iter().filter(|c| &c.name == b"sRGB" && c.data == srgb_payload).count();
            if keep && !gray_changed && present != 1 {
                st.fail("raw-chunk-lost", format!("attached sRGB chunk appears {} times", present), replay.clone());
            }
            if !keep && present != 0 {
                st.fail("raw-chunk-kept", "stripped sRGB chunk present".into(), replay.clone());
            }
            if gray_changed && opts.strip == HStrip::None {
                st.fail("raw-srgb-gray-conversion", "sRGB-tagged raw image converted between gray and colour with stripping disabled".into(), replay.clone());
            }
        }
        if i < 2 {
            st.sample(format!("{} [{}] opts {}", img.to_line(), info.class, opts.show()));
        }
    }
    ctx.write_stats(&st);
}

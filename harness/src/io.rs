//! C12: the real executable under `strace`: its system-call skeleton must be the model's program,
//! and for every call index k an injected error (EIO / ENOSPC / EACCES) or SIGKILL at that call must
//! lead to the exit status the model predicts and — before the first mutating call — leave every
//! file exactly as it was.

use crate::cli::{bin_path, work_dir};
use crate::e2e::*;
use crate::img::hex;
use crate::rng::Rng;
use crate::util::*;
use crate::Ctx;
use std::os::unix::fs::PermissionsExt;
use std::path::{Path, PathBuf};
use std::process::Command;

#[derive(Clone, Debug, PartialEq)]
pub struct Ev {
    pub pid: String,
    pub call: String,   // model call name
    pub sys: String,    // syscall name
    pub nth: usize,     // how many times this pid has invoked `sys` up to and including this line
}

const TRACE: &str = "trace=openat,read,write,close,fchmod,fchmodat,utimensat,mkdir,mkdirat,statx,newfstatat,fstat,unlink,unlinkat,rename,renameat,renameat2,ftruncate,truncate";

/// Parse an strace log into the model's call skeleton.
pub fn skeleton(log: &str, stdout_route: bool) -> (Vec<Ev>, Vec<String>) {
    let mut counts: std::collections::HashMap<(String, String), usize> = Default::default();
    let mut fd_in: Option<(String, String)> = None; // (pid, fd)
    let mut fd_out: Option<(String, String)> = None;
    let mut evs: Vec<Ev> = vec![];
    let mut anomalies: Vec<String> = vec![];
    let mut seen_dirstat = false;
    // strace -f splits a system call that overlaps with another thread's into `... <unfinished ...>` and
    // `<... name resumed>...`: join the two halves (a thread has one call in flight at most)
    let mut pending: std::collections::HashMap<String, String> = Default::default();
    let mut joined: Vec<String> = vec![];
    for line in log.lines() {
        let mut it = line.splitn(2, char::is_whitespace);
        let pid = it.next().unwrap_or("").to_string();
        let rest = it.next().unwrap_or("").trim_start();
        if let Some(head) = rest.strip_suffix("<unfinished ...>") {
            pending.insert(pid, head.to_string());
            continue;
        }
        if rest.starts_with("<...") {
            if let (Some(head), Some(at)) = (pending.remove(&pid), rest.find("resumed>")) {
                joined.push(format!("{} {}{}", pid, head, &rest[at + "resumed>".len()..]));
            }
            continue;
        }
        joined.push(line.to_string());
    }
    for line in joined.iter().map(|s| s.as_str()) {
        let mut it = line.splitn(2, char::is_whitespace);
        let pid = it.next().unwrap_or("").to_string();
        let rest = it.next().unwrap_or("").trim_start();
        if rest.starts_with("<...") || rest.starts_with("+++") || rest.starts_with("---") {
            continue;
        }
        let Some(paren) = rest.find('(') else { continue };
        let sys = rest[..paren].to_string();
        let n = counts.entry((pid.clone(), sys.clone())).or_insert(0);
        *n += 1;
        let nth = *n;
        let args = &rest[paren + 1..];
        let ret_ok = !rest.contains("= -1");
        let mut push = |call: &str| evs.push(Ev { pid: pid.clone(), call: call.to_string(), sys: sys.clone(), nth });
        let first_fd = || args.split(|c| c == ',' || c == ')').next().unwrap_or("").trim().to_string();
        match sys.as_str() {
            "statx" | "newfstatat" => {
                if args.contains("\"in.png\"") {
                    let seen = seen_dirstat;
                    seen_dirstat = true;
                    push(if seen { "statIn" } else { "dirStat" });
                } else if args.contains("\"outdir\"") {
                    push("outDirExists");
                }
            }
            "mkdir" | "mkdirat" => {
                if args.contains("\"outdir\"") {
                    push("mkdirOut");
                }
            }
            "openat" => {
                let writing = args.contains("O_WRONLY") || args.contains("O_RDWR");
                if args.contains("\"in.png\"") && !writing {
                    push("openIn");
                    if ret_ok {
                        fd_in = rest.rsplit("= ").next().map(|fd| (pid.clone(), fd.trim().to_string()));
                    }
                } else if args.contains("\"out.png\"") || args.contains("\"outdir/in.png\"") || (args.contains("\"in.png\"") && writing) {
                    if args.contains("\"in.png\"") && !args.contains("outdir") {
                        // input opened for writing: legitimate only for in-place runs (judged by the caller)
                        anomalies.push("input-opened-for-writing".into());
                    }
                    push("createDest");
                    if ret_ok {
                        fd_out = rest.rsplit("= ").next().map(|fd| (pid.clone(), fd.trim().to_string()));
                    }
                }
            }
            "read" => {
                if fd_in.as_ref().map_or(false, |(p, fd)| *p == pid && *fd == first_fd()) {
                    push("readIn");
                }
            }
            "write" => {
                let fd = first_fd();
                if fd_out.as_ref().map_or(false, |(p, f)| *p == pid && *f == fd) {
                    push("writeDest");
                } else if fd == "1" && stdout_route {
                    push("writeStdout");
                } else if fd == "1" {
                    anomalies.push("wrote-to-stdout".into());
                }
            }
            "fchmod" => {
                if fd_out.as_ref().map_or(false, |(p, f)| *p == pid && *f == first_fd()) {
                    push("chmodDest");
                }
            }
            "utimensat" => {
                if args.contains("out.png") || args.contains("in.png") {
                    push("utimeDest");
                }
            }
            "close" => {
                let fd = first_fd();
                if fd_in.as_ref().map_or(false, |(p, f)| *p == pid && *f == fd) {
                    push("closeIn");
                    fd_in = None;
                } else if fd_out.as_ref().map_or(false, |(p, f)| *p == pid && *f == fd) {
                    push("closeDest");
                    fd_out = None;
                }
            }
            "unlink" | "unlinkat" | "rename" | "renameat" | "renameat2" | "truncate" | "ftruncate" | "fchmodat" => {
                if args.contains("in.png") || args.contains("out.png") {
                    anomalies.push(format!("unexpected-{}", sys));
                }
            }
            _ => {}
        }
    }
    (evs, anomalies)
}

/// collapse repeated reads / writes: the model has one call for each
pub fn collapse(evs: &[Ev]) -> Vec<Ev> {
    let mut out: Vec<Ev> = vec![];
    for e in evs {
        if matches!(e.call.as_str(), "readIn" | "writeDest" | "writeStdout") && out.last().map_or(false, |l| l.call == e.call) {
            continue;
        }
        out.push(e.clone());
    }
    out
}

/// the runs of repeated reads / writes behind each collapsed call
pub fn collapse_runs(evs: &[Ev]) -> Vec<Vec<Ev>> {
    let mut out: Vec<Vec<Ev>> = vec![];
    for e in evs {
        if matches!(e.call.as_str(), "readIn" | "writeDest" | "writeStdout") && out.last().map_or(false, |l| l[0].call == e.call) {
            out.last_mut().unwrap().push(e.clone());
            continue;
        }
        out.push(vec![e.clone()]);
    }
    out
}

struct Setup {
    dir: PathBuf,
    input: Vec<u8>,
    args: Vec<String>,
    route: &'static str,
}

const OLD: u64 = 1_000_000_000;
const IN_MODE: u32 = 0o666;

fn prepare(s: &Setup) {
    let _ = std::fs::remove_dir_all(&s.dir);
    std::fs::create_dir_all(&s.dir).unwrap();
    let p = s.dir.join("in.png");
    std::fs::write(&p, &s.input).unwrap();
    // (group- and world-writable: bits a umask of 022 takes away from a file that is merely CREATED with this mode - the
    // destination has to be given them explicitly)
    std::fs::set_permissions(&p, std::fs::Permissions::from_mode(IN_MODE)).unwrap();
    let f = std::fs::File::options().write(true).open(&p).unwrap();
    f.set_modified(std::time::UNIX_EPOCH + std::time::Duration::from_secs(OLD)).unwrap();
}

#[derive(Debug, PartialEq)]
struct FsState {
    input: Option<(Vec<u8>, u64, u32)>,
    dest: Option<(Vec<u8>, u64, u32)>,
    /// every file below the working directory (except the trace itself)
    files: Vec<String>,
}

fn snapshot(s: &Setup) -> FsState {
    let stat = |p: &Path| -> Option<(Vec<u8>, u64, u32)> {
        let data = std::fs::read(p).ok()?;
        let m = std::fs::metadata(p).ok()?;
        let mt = m.modified().ok()?.duration_since(std::time::UNIX_EPOCH).ok()?.as_secs();
        Some((data, mt, m.permissions().mode() & 0o777))
    };
    let dest = match s.route {
        "out" => stat(&s.dir.join("out.png")),
        "dir" => stat(&s.dir.join("outdir/in.png")),
        _ => None,
    };
    let mut files: Vec<String> = vec![];
    let mut stack = vec![s.dir.clone()];
    while let Some(d) = stack.pop() {
        for e in std::fs::read_dir(&d).into_iter().flatten().flatten() {
            let p = e.path();
            if p.is_dir() {
                stack.push(p);
            } else {
                let rel = p.strip_prefix(&s.dir).unwrap().to_string_lossy().into_owned();
                if rel != "strace.log" && rel != "dump.txt" {
                    files.push(rel);
                }
            }
        }
    }
    files.sort();
    FsState { input: stat(&s.dir.join("in.png")), dest, files }
}

fn after_content(s: &Setup, rel: &str) -> Option<Vec<u8>> {
    std::fs::read(s.dir.join(rel)).ok()
}

fn strace(s: &Setup, inject: Option<&str>) -> (Option<i32>, String, Vec<u8>) {
    let log = s.dir.join("strace.log");
    let _ = std::fs::remove_file(&log);
    let mut c = Command::new("strace");
    c.arg("-f").arg("-o").arg(&log).arg("-e").arg(TRACE);
    if let Some(i) = inject {
        c.arg("-e").arg(i);
    }
    c.arg(bin_path()).args(&s.args).current_dir(&s.dir).env("RUST_LOG", "off");
    // the traced process runs under the usual umask, whatever this one was started with
    unsafe {
        use std::os::unix::process::CommandExt;
        c.pre_exec(|| { extern "C" { fn umask(mask: u32) -> u32; } umask(0o022); Ok(()) });
    }
    let out = c.output().expect("strace not runnable");
    (out.status.code(), std::fs::read_to_string(&log).unwrap_or_default(), out.stdout)
}

pub fn corr(ctx: &mut Ctx) {
    let mut rng = Rng::new(ctx.seed ^ 0x10);
    let mut st = Stats::default();
    let base = work_dir("io");
    // inputs: an improvable file, a not-improvable one (oxipng's own output), an invalid one
    let improvable = loop {
        let c = gen_case(&mut rng, Profile::Lossless, false, 12);
        let o = HOpts::from_preset(2);
        if let Outcome::Ok(b) = run_case(&c.input, &o) {
            if b.len() < c.input.len() {
                // "not improvable" = a fixed point of the default run (one run's output can sometimes be
                // improved by a second run, C04's chains; iterate until it cannot)
                let first = b.clone();
                let mut fix = b;
                for _ in 0..16 {
                    match run_case(&fix, &o) {
                        Outcome::Ok(b2) if b2.len() < fix.len() => fix = b2,
                        _ => break,
                    }
                }
                break (c.input, fix, first);
            }
        }
    };
    // a file that cannot be improved either, but that oxipng would write differently at the same size (bKGD in front of
    // pHYs): "no improvement" must not depend on the re-serialisation being byte-identical
    let rewrapped: Vec<u8> = {
        let mut out = improvable.1.clone();
        if let (Ok(chs), Ok(d)) = (crate::pngparse::parse_chunks(&improvable.1), crate::pngparse::decode(&improvable.1)) {
            let mut list: Vec<([u8; 4], Vec<u8>)> = chs.iter().map(|c| (c.name, c.data.clone())).collect();
            if let Some(at) = list.iter().position(|c| &c.0 == b"IDAT") {
                let bk = match d.img.ct { 3 => vec![0], 0 | 4 => vec![0, 1], _ => vec![0, 1, 0, 2, 0, 3] };
                list.insert(at, (*b"pHYs", vec![0, 0, 0x0b, 0x13, 0, 0, 0x0b, 0x13, 1]));
                list.insert(at, (*b"bKGD", bk));
                out = crate::front::rebuild(&list);
            }
        }
        // (only if the default run really finds nothing strictly smaller - judged by size, not by whether the call hands the
        // very bytes back: that is C04's clause, and a file stays 'not improvable' when it is broken)
        match run_case(&out, &HOpts::from_preset(2)) { Outcome::Ok(b) if b.len() >= out.len() => out, _ => improvable.1.clone() }
    };
    let inputs: [(&str, Vec<u8>); 4] = [
        ("improvable", improvable.0.clone()),
        ("notimprovable", improvable.1.clone()),
        ("invalid", b"\x89PNG\r\n\x1a\nnot really a png".to_vec()),
        ("notimprovable", rewrapped),
    ];
    let routes: [(&'static str, Vec<&str>); 7] = [
        ("inplace", vec![]),
        ("out", vec!["--out", "out.png"]),
        ("dir", vec!["--dir", "outdir"]),
        ("stdout", vec!["--stdout"]),
        ("pretend", vec!["--pretend"]),
        // --pretend wins over a destination option: same model route, nothing may appear anywhere
        ("pretenddir", vec!["--pretend", "--dir", "outdir"]),
        ("pretend", vec!["--out", "out.png", "-P"]),
    ];
    let errnos = ["EIO", "ENOSPC", "EACCES"];
    let mut configs = 0usize;
    'cfg: for (route, rargs) in routes.iter() {
        for (kind, data) in inputs.iter() {
            for preserve in [false, true] {
                if configs >= ctx.n {
                    break 'cfg;
                }
                configs += 1;
                let mut args: Vec<String> = vec!["-q".into()];
                if preserve {
                    args.push("-p".into());
                }
                args.extend(rargs.iter().map(|s| s.to_string()));
                args.push("in.png".into());
                let s = Setup { dir: base.join("w"), input: data.clone(), args, route };
                // ---- baseline -----------------------------------------------------------------
                prepare(&s);
                let before = snapshot(&s);
                let (status, log, stdout) = strace(&s, None);
                let (evs, anomalies) = skeleton(&log, *route == "stdout");
                let sk = collapse(&evs);
                let names: Vec<&str> = sk.iter().map(|e| e.call.as_str()).collect();
                let first_mut = sk.iter().position(|e| matches!(e.call.as_str(), "createDest" | "chmodDest" | "writeDest" | "utimeDest")).unwrap_or(sk.len());
                let cfg = format!("{} {} {} 0", route, preserve as u8, kind);
                let replay = format!("{{\"config\": {}, \"args\": {}, \"input_hex\": {}}}", jstr(&cfg), jstr(&s.args.join(" ")), jstr(&hex(data)));
                let read_phase_len = sk.iter().position(|e| e.call == "closeIn").map_or(0, |p| p + 1);
                ctx.line(&format!("io_program {}", cfg), &format!("ok {} first_mutation={}", names.join(","), read_phase_len));
                st.count("configs");
                st.distinct_case(cfg.as_bytes());
                if st.samples.len() < 3 {
                    st.sample(format!("oxipng {} => {}", s.args.join(" "), names.join(",")));
                }
                let after = snapshot(&s);
                // oracles on the fault-free run
                // what is delivered is exactly what the library returns for the default options: the optimised
                // bytes for the improvable file, the file itself for the one that cannot be improved
                if *kind != "invalid" && !route.starts_with("pretend") {
                    let want: &Vec<u8> = if *kind == "improvable" { &improvable.2 } else { data };
                    let got: Option<Vec<u8>> = match *route {
                        "inplace" => after_content(&s, "in.png"),
                        "out" => after_content(&s, "out.png"),
                        "dir" => after_content(&s, "outdir/in.png"),
                        _ => Some(stdout.clone()),
                    };
                    if got.as_ref() != Some(want) {
                        st.fail("delivered-bytes", format!("delivered {} bytes, the library's result has {} ({})", got.map_or(0, |g| g.len()), want.len(), cfg), replay.clone());
                    } else {
                        st.count("delivered_bytes_ok");
                    }
                }
                let expect_exit = if *kind == "invalid" { 1 } else { 0 };
                if status != Some(expect_exit) {
                    st.fail("exit-status", format!("exit {:?}, expected {} ({})", status, expect_exit, cfg), replay.clone());
                }
                for a in &anomalies {
                    if a == "input-opened-for-writing" && *route == "inplace" {
                        continue;
                    }
                    st.fail("io-anomaly", format!("{} ({})", a, cfg), replay.clone());
                }
                if *route != "inplace" && after.input != before.input {
                    st.fail("input-modified", format!("input changed with a different destination ({})", cfg), replay.clone());
                }
                if (route.starts_with("pretend") || *kind == "invalid" || (*route == "inplace" && *kind == "notimprovable")) && after != before {
                    st.fail("wrote-when-it-must-not", format!("files changed ({})", cfg), replay.clone());
                }
                if *route != "stdout" && !stdout.is_empty() {
                    st.fail("stdout-noise", format!("bytes on standard output ({})", cfg), replay.clone());
                }
                if preserve && matches!(*route, "out" | "dir") && *kind != "invalid" {
                    match &after.dest {
                        Some((_, mt, mode)) if *mt == OLD && *mode == IN_MODE => st.count("preserve_ok"),
                        other => st.fail("preserve", format!("destination attributes {:?} differ from the input's ({})", other.as_ref().map(|x| (x.1, x.2)), cfg), replay.clone()),
                    }
                }
                if preserve && *route == "inplace" && *kind == "improvable" {
                    match &after.input {
                        Some((_, mt, mode)) if *mt == OLD && *mode == IN_MODE => st.count("preserve_ok"),
                        other => st.fail("preserve", format!("in-place attributes {:?} not preserved ({})", other.as_ref().map(|x| (x.1, x.2)), cfg), replay.clone()),
                    }
                }
                // ---- fault at every call index --------------------------------------------------
                // (a call the model has once may be several system calls - a large read or write, or the
                // tail a line-buffered standard output keeps back: the fault is put on the first and on the
                // last of them, on all of them in the thorough tier)
                let runs = collapse_runs(&evs);
                let mut sites: Vec<(usize, Ev)> = vec![];
                for (k, run) in runs.iter().enumerate() {
                    let picks: Vec<usize> = if run.len() == 1 { vec![0] } else if ctx.tier_thorough { (0..run.len().min(8)).chain(std::iter::once(run.len() - 1)).collect() } else { vec![0, run.len() - 1] };
                    let mut seen = vec![];
                    for p in picks {
                        if !seen.contains(&p) { seen.push(p); sites.push((k, run[p].clone())); }
                    }
                    if run.len() > 1 { st.count("calls_with_several_syscalls"); }
                }
                for (k, e) in sites.iter().map(|(k, e)| (*k, e)) {
                    let mut faults: Vec<(String, String)> = vec![];
                    let en = if ctx.tier_thorough { errnos.to_vec() } else { vec![errnos[(k + configs) % 3]] };
                    for errno in en {
                        faults.push(("error".into(), format!("inject={}:error={}:when={}", e.sys, errno, e.nth)));
                    }
                    faults.push(("kill".into(), format!("inject={}:signal=KILL:when={}", e.sys, e.nth)));
                    for (fault, inj) in faults {
                        prepare(&s);
                        let before = snapshot(&s);
                        let (status, log2, _) = strace(&s, Some(&inj));
                        let after = snapshot(&s);
                        st.count("fault_runs");
                        if !log2.contains("INJECTED") && fault == "error" {
                            // the call numbering shifted (different thread): not a verdict
                            st.count("injection_missed");
                            continue;
                        }
                        let mutated = after != before;
                        let exit_s = match status {
                            Some(c) => c.to_string(),
                            None => "killed".to_string(),
                        };
                        // model's prediction for exit status
                        let req = format!("io_run {} {} {}", cfg, k, fault);
                        // the correspondence compares the exit status only; `mutated` is judged below
                        let model_mut_unknown = "?";
                        let _ = model_mut_unknown;
                        ctx.line(&format!("{} exitonly", req), &format!("ok exit={}", exit_s));
                        // oracle (T2): a fault before the first mutating call leaves everything as it was
                        if k < first_mut && mutated && fault == "kill" {
                            st.fail("mutation-before-computed", format!("killed at call {} ({}) but files changed ({})", k, e.call, cfg), replay.clone());
                        }
                        let fatal = !matches!(e.call.as_str(), "outDirExists" | "dirStat" | "closeIn" | "closeDest");
                        if k < first_mut && mutated && fault == "error" && fatal {
                            st.fail("mutation-before-computed", format!("error at call {} ({}) but files changed ({})", k, e.call, cfg), replay.clone());
                        }
                        // oracle (T4): destination errors are reported
                        if fault == "error" && matches!(e.call.as_str(), "createDest" | "chmodDest" | "writeDest" | "utimeDest" | "writeStdout" | "mkdirOut") && status == Some(0) {
                            st.fail("error-swallowed", format!("{} failed ({}) but the exit status is 0 ({})", e.call, inj, cfg), replay.clone());
                        }
                    }
                }
            }
        }
    }
    let _ = std::fs::remove_dir_all(&base);
    ctx.write_stats(&st);
}

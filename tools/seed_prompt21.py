#!/usr/bin/env python3
"""seed_prompt.py <Cnn[suffix]>: the task text given to a seeding sub-agent (property text + scratch worktree /tmp/wt_<id> only).
Usage: git -C /repo worktree add --detach /tmp/wt_C01x HEAD; python3 tools/seed_prompt.py C01x > /tmp/prompt_C01x.txt"""
import sys
pid=sys.argv[1]
import json
base=pid[:3]
prop=None
for l in open('/verif/properties.jsonl'):
    d=json.loads(l)
    if d['id']==base:
        prop=d['id']+' — '+d['title']+'\n\nStatement: '+d['statement']+'\n\nQuantified over: '+d['quantifier']['text']+'\n'
assert prop, 'unknown property'
print(f"""You are helping to test a verification framework for the Rust project oxipng (a lossless PNG optimizer). The framework's checks are supposed to detect realistic code changes that break a stated property of oxipng. To test those checks I need, from you, one such change — written independently of the framework (you get no access to it and must not look for it).

WHAT THIS IS FOR, AND ITS LIMITS: the change you write is only a test input for my own checks. It is kept as a patch file together with its demonstration and never becomes part of oxipng; it is never committed to the real repository.

YOUR WORKSPACE: a scratch git worktree of the oxipng repository at /tmp/wt_{pid} (it already builds; the sandbox has NO network: always use `CARGO_NET_OFFLINE=true cargo ... --offline`). Work ONLY inside /tmp/wt_{pid}. Do NOT touch /repo or /verif, and do not read /verif.

THE PROPERTY TO BREAK:
{prop}

WHAT I NEED:
1. A small, realistic change to the oxipng sources under /tmp/wt_{pid}/src (the kind of slip a maintainer could make in a refactoring or an "optimisation": an off-by-one, a wrong comparison, a dropped reset, a mishandled corner case, two sites that each look fine alone ...) that makes the property FALSE, while
   - the crate still compiles (`CARGO_NET_OFFLINE=true cargo build --offline` in the worktree), and
   - the existing test suite still passes: `CARGO_NET_OFFLINE=true cargo test --workspace --no-fail-fast --offline` (268 tests; takes a few minutes on first build).
   Leave alone everything guarded by `#[cfg(feature = "verif")]` and the file src/verif.rs (verification hooks), and do not edit tests.
1b. Prefer a LESS OBVIOUS place: read further than the first function that comes to mind - the property usually depends on several parts of the code (parsing, option handling, the reductions, the evaluator, the serialiser, the command line), and a slip in any of them can break it. In particular, AVOID the one function where the property's main mechanism obviously lives; look for code the property silently relies on: option plumbing, caller-side glue between stages, error and early-return paths, rarely used input features (animation, metadata, stdin, unusual sizes), the cfg(not(feature = \"parallel\")) code paths are out of scope. FOR THIS ROUND: make it a change at TWO SITES, each of which is correct - even an improvement - when read on its own, and which only together break the property: one site relaxes an assumption the other silently relied on (a buffer no longer cleared because 'nobody reads it first' + a new reader; a value now allowed to be zero / empty / equal + a consumer that needed it positive / non-empty / strictly smaller; a list whose order no longer matters to its producer + a consumer that takes the first element; a default changed in one constructor + a caller that relied on the old default). Check that with either site alone your demonstration passes, and say so in the README; earlier rounds covered the ordinary slips.
2. The change should need something SPECIFIC to manifest — a particular kind of input (unusual dimensions, a particular colour type / bit depth / palette / transparency situation, particular chunk layout), a particular option combination, a particular interleaving or completion order, a fault or timeout at a particular point, or a multi-step sequence — NOT something every ordinary run would expose at once.
3. A demonstration that FAILS with your change and PASSES without it: preferably a Rust integration test file `tests/seed_demo.rs` in the worktree (it may build its input PNG bytes by hand or use files from tests/files), or a small program/script. Run it both ways and confirm. IMPORTANT: do NOT use `git stash` (the stash is shared between all worktrees of this repository and other people are working in sibling worktrees): to go back and forth save your change with `git diff -- src > _seed/patch.diff` and use `git apply -R _seed/patch.diff` / `git apply _seed/patch.diff`.
4. Deliverables, in the directory /tmp/wt_{pid}/_seed/ :
   - patch.diff : `git diff` of your source change ONLY (without the demo test), applicable with `git apply` to the original tree;
   - the demonstration file(s) (copy of tests/seed_demo.rs or script);
   - README.md : which property it breaks, what exactly it needs in order to manifest, the commands you ran and their outcomes (test suite with the change: pass; demo with change: fail; demo without: pass).
Finish by replying with a short summary (what the change is, what triggers it, confirmation of the three runs). If you cannot find a change that keeps the test suite green, say so and describe the best candidate.""")

#!/usr/bin/env python3
"""Regenerate DESIGN.md section 14.8 (seeded-change results) from seeded/*/meta.json."""
import json,glob
rows=[]
metas={}
for d in sorted(glob.glob('/verif/seeded/*/')):
    m=json.load(open(d+'meta.json'))
    sid=d.rstrip('/').split('/')[-1]
    metas[sid]=m
    cb='; '.join(f"**{k}**: {v}" for k,v in m['caught_by'].items())
    rows.append(f"| `{sid}` | {m['needs']} | {cb} |")
n=len(rows)
missed=[s for s,m in metas.items() if 'issed' in m['caught_by'].get(m['property'],'') or 'MISSED' in m['caught_by'].get(m['property'],'')]
text=f'''
### 14.8 Self-validation with independently written breaking changes (seeded/)

{n} changes (one aimed at each of the 19 properties, a second one for C02-C05, C07-C09, C11-C13, C15, C16, a third one for
C01, C02, C04, C06, C07, C10, C18, C19, a fourth-round one for C03, C05, C09, C11, C12, C15, C16 and a fifth-round one for
C02, C04, C06, C07, C10, C18, C19, a sixth-round one for C03, C05, C09, C12, C13, C14, C15, C16 a seventh-round one for
C01, C02, C04, C06, C07, C09, C17, C19 an eighth-round one for C03, C05, C13, C14, C15, C16, C18 a ninth-round one for C03, C04, C09, C10, C19 a tenth-round one for C01, C02, C04, C10, C14, C17 an eleventh-round one for C05, C06, C16, C18, C19 a twelfth-round one for C03, C05, C08, C10, C11, C14, C17, a thirteenth-round one for C12, C13, C18 a fourteenth-round one for C03, C08, C10, C19 a fifteenth-round one for C02, C04, C06, C09, C13, C14 a sixteenth-round one for C03, C10, C11, C17, C19 a seventeenth-round one for C05, C13, C16, C18 an eighteenth-round one for C02, C08, C10, C11, C18 a nineteenth-round one for C06, C09, C11, C13, C16 a twentieth-round one for C01, C05, C08, C10, C18, C19 a twenty-first-round one for C01, C02, C04, C06, C07, C10, C13, C17 a twenty-second-round one for C05, C08, C09, C11, C12, C14, C15, C18 a twenty-third-round one for C06, C10, C13, C19 and a twenty-fourth-round one for C05, C10, C12, C16) were written by
fresh sub-agents that were given only the text of one property and a scratch worktree of /repo under /tmp (nothing from
/verif); each was asked for a change that compiles, keeps the 268 pinned tests green and needs something specific to
manifest, with a demonstration that fails with the change and passes without it. Every change was re-confirmed by
`tools/confirm_seed.sh` in the scratch worktree (demo without / with the change, suite with the change) before being
stored as `seeded/<id>/{{patch.diff, seed_demo.rs (or .sh), README.md, meta.json}}`; the worktrees and their build output
were removed afterwards. To run the checks against a change `tools/run_seed.sh <id> <checks>` applies the patch to /repo
(`git apply`), runs `./check`, and undoes it (`git checkout -- .`); nothing of this was ever committed to /repo. No
request was refused by the permission system or a safety layer, by a sub-agent or by me. One hundred and fifty later agents (second round: C01, C06, C10, C14, C17, C18, C19; third round: C14, C17; fourth round: C08, C13; fifth round: C01, C14, C17; sixth round: C08, C11; seventh round: C01, C10; eighth round: C08, C11, C12; ninth round: C01, C02, C06, C07, C17 - half of that round; tenth round: C03, C07, C08, C11; eleventh round: C07, C09, C12, C13, C15 - half of that round; twelfth round: C01, C02, C15; thirteenth round: C02, C04, C06, C07, C09, C16, C19 - seven of ten; the C16 one, the result queue bounded to 8 per pool thread where C16d bounds it to 8, was run once against ./check C16 and reported with a hanging input; fourteenth round: C01 (= C19g), C11 (= C03f), C17 (= C17j); fifteenth round: C05 (= C16), C07 (= C07), C12 (= C12b), C16 (the result queue bounded once more, to (threads + 1) x filters: run once against ./check C16 and reported with a hanging input); sixteenth round: C02 (= C02q), C07 (= C07b), C08 and C14 (both = C08 / C14: gray+alpha indexed although the grayscale switch is off), C01 (a variant of C01j - the blue sample's low byte is not compared -, run once against ./check C01 and reported with the image); seventeenth round: C04 (= C04g + C04j in one), C06 (= C06e / C06k: the size limit made exclusive), C09 (= C09d, also on --stdout), C12 (= C12d), C15 (= C15h) - each of the five was run once against its property's check and reported with a failing input); eighteenth round: C01 (= C01, the first seed), C03 (a variant of C03h: the low alpha byte instead of the high one), C14 (= C08 / C14 for the third time), C15 (= C15d), C19 (= C19c) - the last four run once and reported with a failing input; nineteenth round: C02 (= C02g), C04 (= C04i), C05 (= C05b), C07 (= C09i), C12 (= C12d) - all five run once and reported with a failing input; twentieth round: C03 (= C03b), C14 (= C14q), C15 (= C15d, for the third time), C17 (= C17g) - all four run once and reported with a failing input; twenty-first round: C03 and C19 (both the C19v / C01w family: a pass's first row predicted from a stale previous row) - run once and reported with a failing input; twenty-second round: C16 (the C16 / C16f family: a job that returns on an expired deadline before it is counted) - run once and reported with a hanging input; twenty-third round: C01 (a variant of C11m), C02 (= C19p), C03 (= C03h), C07 (= C02q), C17 (= C17r) - all five run once and reported with a failing input; twenty-fourth round: C02 (= C02q, for the third time), C04 (= C04q), C06 (= C06c), C09 (= C09q), C11 (= C19p), C13 (= C13u) - recognised from the agents' reports and not run again came back with the same change as an
earlier one (for C06: the change already stored for C17): not stored twice. The third round's prompt added one sentence asking
for a less obvious place than the first function that comes to mind, which produced changes in lib.rs orchestration code;
the fifth round's prompt additionally asked to avoid the one function where the property's main mechanism lives (changes in the
CLI's file writer, the APNG pre-pass, the deflater wrapper and the scan-line iterator's pass bookkeeping). The sixth round (same
prompt) was reported by every targeted check at the first run: all eight stored changes, and the two duplicates as well. The seventh
round named a source file per agent (tools/seed_prompt7.py) to get away from the places already covered: of its eight stored changes
four were missed at first (C02g, C04g, C06g, C17g - for C02g and C06g the generator had been extended after reading the agent's
summary and before the first run, so the miss was measured afterwards with the harness of the previous commit) and one (C09g) was
first reported without a failing input. The eighth round (same prompt, other files): of seven stored changes two were missed at first
(C13h, C16h - both need an animated input, which those two streams did not have) and one (C05h) was first reported without a failing input. The ninth round: five new changes (and five duplicates, a sign that the
supply of distinct small slips per property is thinning out); two were missed at first (C04i, C10i) and one (C09i) was first reported
without a failing input. The tenth round asked for changes that only show where two features meet (tools/seed_prompt10.py): six new
changes, one missed at first (C04j: standard input meets a file that is optimal but written differently) and one first reported
without a failing input (C10j: an animation meets colour-space metadata). The eleventh round (same prompt, the other properties):
four new changes, one missed at first (C19k: the Brute strategy meets alpha optimisation) - by C19's check and by C03's - and a fifth (C16k) that was missed as well. The
twelfth round asked for changes that only show at a boundary value (tools/seed_prompt12.py): seven new changes, FOUR missed at first
(C03m, C05m, C14m, C17m) - the most productive prompt so far, because the generators drew their values from classes and the oracles took
some sizes from the implementation. The thirteenth round (same prompt, the other properties) brought seven duplicates and three new changes, two
of them missed at first (C12n: same size, different bytes, in place; C13n: the timeout option at the top of its range). The fourteenth round asked for the change to be written as a performance shortcut proposed in good faith (an early exit, a value reused, a cheaper
comparison, a buffer kept; tools/seed_prompt14.py; C01, C03, C08, C10, C11, C15, C17, C19): three duplicates, four new changes of which two were missed at first (C08p, C10p), and one
change (C15p) that on inspection does not break C15 as stated - it is kept under /verif/harmless with the reasoning, and the checks stay quiet on it (14.9, H6). The fifteenth round (same prompt, the other properties) brought four duplicates and six new changes; two were
reported with the failing input at first run (C06q, C14q), one without it (C02q), three were missed by their property's check (C04q, C09q, C13q) - all three sit in the file / command-line
entry point `optimize()`, which the oracles had exercised with separate destination files, valid inputs and never-expiring timeouts only. The sixteenth round asked for the change to be written as an idiomatic rewrite (iterator combinators, std calls, tidied integer arithmetic, restructured Option chains;
tools/seed_prompt16.py; C01, C02, C03, C07, C08, C10, C11, C14, C17, C19): five duplicates, five new changes - three reported with the failing input at first run (C11r, C17r, C19r), one without it (C10r), one missed (C03r: needs all 256 gray shades in use). The seventeenth round (same prompt, the other properties): five duplicates, four new changes - three reported with the failing input at first run (C05s, C16s, C18s), one missed (C13s: needs the frames to look at the clock out of index order). The eighteenth round pointed at twin code paths that must stay in step (8 / 16 bit, bytes / bits, gray / RGB, main image / frames, the three entry points, parser / serialiser; tools/seed_prompt18.py;
C01, C02, C03, C08, C10, C11, C14, C15, C18, C19): five duplicates, five new changes, all five reported with the failing input at first run. The nineteenth round went back to the file-focused prompt (tools/seed_prompt7.py) and aimed it at where the misses of rounds 13-17 had been: main.rs, the file / memory / raw entry points of lib.rs, options.rs,
rayon.rs, the serialiser (C02, C04, C05, C06, C07, C09, C11, C12, C13, C16): five duplicates, five new changes - two reported at first run (C13u, C16u), one by a neighbouring property's check only (C06u: by C09, not by C06), two missed (C09u, C11u). The twentieth round (same prompt, aimed at option plumbing, option parsing and the small helpers: C01, C03, C05, C08, C10, C14, C15, C17, C18, C19): four duplicates, six new changes - four reported
at first run, two reported by a neighbouring property's check only (C08v by C09, C18v by C02): the checks of C08 and C18 never went through the command line / through the optimiser's own driver of the layout change. The twenty-first round asked for a change at two sites, each correct when read alone (tools/seed_prompt21.py; C01, C02, C03, C04, C06, C07, C10, C13, C17, C19): two duplicates, eight new changes - six reported
with the failing input at first run, one without it (C17w), one missed (C04w: needs an attempt strictly larger than the input). The twenty-second round (same prompt, the other properties: C05, C08, C09, C11, C12, C14, C15, C16, C18): one duplicate, eight new changes - five reported with the failing input at first run, one without it
(C11x), one missed (C12x), and one - C05x, a change after which the executable never returns - on which the CHECK ITSELF hung: the executable path added in round 20 waited without a limit. That was a defect of the machinery,
not a miss of the oracle; it is repaired (bounded waits, a watchdog on in-process calls) and described in 14.7. The twenty-third round (file-focused, the small arithmetic and wrapper files: C01, C02, C03, C06, C07, C10, C13, C17, C19): five duplicates, four new changes - three reported with the failing input at first run
(one of them, C13y, by the new watchdog), one missed (C06y: needs more than 131 070 incompressible bytes). The twenty-fourth round repeated the 'performance shortcut' prompt for ten properties: six duplicates of earlier changes, four new ones - none reported with a failing input at first run (C12z without one;
C05z, C10z, C16z missed): each needs an input of a kind no generator had produced - a stray palette index in one exact constellation, two frames colliding in length and checksum, a race of nanoseconds.

Result: **all {n} are reported by the check of the property they target**, {n-len(missed)} at the first run and {len(missed)} only after
the check was strengthened (the miss and the remedy are in the table; every remedy is a wider generator, a new stream or
an oracle clause stated from the property - none loosens anything, and all checks still pass on the unchanged tree).
"no-failing-input-found" marks reports where only the correspondence broke; where that was the *target* property's
report (C10, C17, C07e, C10e, C09g, C05h, C09i, C10j) the check was extended until it produced a concrete failing input or history.

| seeded change | needs, to manifest | reported by |
|---|---|---|
''' + '\n'.join(rows) + '''

What the misses taught (and what was changed):

* **C19** had no stream in which the *decoder* met rows filtered by somebody else: added the foreign-encoder
  `unfilter_image` stream (every filter type in every row of every pass, both layouts).
* **C05** (1) mutated containers and zlib streams but never a filter byte inside a valid stream of the right size: added
  the `refilter#row=ft` mutation family (ft 5..255). (2) The quick tier cut the list of mutations after a fixed number
  of cases, file by file, so the animated files at the end of the corpus (and with them the fcTL / acTL mutations) were
  only reached by the thorough tier: the selection is now stratified by mutation kind (round-robin over kinds) in both
  the oracle and the `from_slice` correspondence stream.
* **C11** excused a lost profile whenever the image had changed gray-ness: the oracle now applies C14's rule
  (a kept profile forbids the change) to the raw-image API too, and gray-valued RGB(A) raw images are generated.
* **C10** detected the change only through `output()` correspondence: the APNG generator now emits bKGD / hIST / pHYs /
  tEXt before IDAT, which turns the disagreement into a concrete invalid output (sequence numbers).
* **C14** generated no few-valued grayscale(+alpha) image with a profile: added (a third of the C14 cases).
* **C16** ran no case against a deadline: a third of the corr-sched cases now use the deadline override
  (expiry first seen at the k-th consultation, k in {0,1,2,3,5,8,13,30}); the watchdog reports the hang with the case.
* **C17** reported the change as a model disagreement only: the rule of the property (size, raw bytes, filter number,
  later submission) is now also evaluated directly on every observed history, giving `winner-not-rule-minimum`
  with the history as replay. (My first version of that clause compared `key_chunks_size` instead of
  IDAT + key size and alarmed on the unchanged tree: corrected before it was committed; see 14.7.)
* **C07** never saw a zero-length IDAT chunk (legal, and what makes `from_slice` record two position markers): the
  harness encoder now emits empty IDAT chunks in front of / between / after the parts in a fraction of all generated files
  (e2e, metadata and front-end corpora).
* **C09** generated destination options one at a time: `--pretend` is now combined with `--dir` / `--out` / `--stdout`
  in either order and every run is checked for files appearing anywhere but at the destination. The routing rule was
  not in the Lean model at all: added (`fileOut`, four routing theorems and the case split `route_cases`) and tied to
  the code through a new dump hook (the collected (input, output) pairs), 14 distinct flag combinations per run.
* **C08** judged the switches only on files without metadata, while `preprocess_chunks` rewrites the options from the
  chunks it finds: the switch oracle now also runs on the metadata generator's files (recognised / other / broken
  profiles, sRGB, strip policies); Lean: `prepass_only_restricts` (the pre-pass never turns a permission on).
* **C12** collapsed repeated `write` calls into the model's single call and put the fault on the first one only: a
  line-buffered standard output keeps the tail after the last newline byte back, so the last system call is a different
  failure point - faults now go on the first and the last system call of every collapsed call (all, thorough tier).
* **C04** fed `optimize()` already-optimal files that were oxipng's own canonical output, whose re-serialisation is
  byte-identical: half of them are now re-wrapped with two kept chunks in an order oxipng writes differently (still not
  improvable), so "copy of the original" and "a re-serialisation of the same size" can be told apart.
* **C07** (second miss) did not judge an output that was byte-identical to the input - exactly the case in which a
  shortcut can skip the strip policy - and every generated file was improvable: unchanged outputs are judged too, and a
  third of the cases get a second stage (the first stage's output under another strip policy).
* **C05** (third miss) had one size per layout in its corpus: sizes around the Adam7 special cases were added.
* **C09** (second miss) did not generate standard input (a stated limitation): added, incl. inputs that are a fixed
  point of the same options, which is where the early-return arm of `optimize()` matters.
* **C11** (second miss) attached only small random profiles: a third are now large and highly compressible (what the
  size guess of the profile extraction cannot inflate).
* **C12** (second miss) ran `--pretend` alone: `--pretend` with `--dir` / `--out` are configurations now, the snapshot
  lists every file below the working directory, the quick tier runs all 42 configurations, and the model knows that
  the directory named by `--dir` is created even then (which the statement exempts and the unchanged code does).
* **C15** saw a dropped key only through the model: the literal clause "the key is rounded the same way" is now an
  oracle clause.
* **C13** ran its expiry sweep on files without metadata, and the strict decoder did not check the layout of
  bKGD / sBIT / hIST against colour type, depth and palette (C02: "every structural constraint of the specification that
  the input satisfies"): a third of the deadline cases now carry such chunks under a keeping policy and the decoder
  checks them, so a timed-out run that skips the chunk clean-up is a concrete malformed output at position k.
* **C04 / C12** (fifth round) never combined `--preserve` with a destination that already held more bytes than the
  result: oracle-files now draws `preserve_attrs`, pre-writes a longer stale destination half the time and compares every
  written file with the library's bytes; corr-io compares what a fault-free run delivered (file or standard output) with
  the library's result byte for byte.
* **C07** (fifth round) accepted an ICC profile turning into sRGB under every policy: the exception is now applied "as in
  C14" (stripping enabled and sRGB kept), as the statement says.
* **C10** (fifth round): a panic inside a rayon job aborts the whole harness process, which the check could only report as
  "oracle crashed". `run_case` now notes the case it hands to the library in `<stats>.current`; when the process dies
  the check reads that note and reports the input as the failing one (`process-aborted`). Applies to every stream/oracle.
* **C06** (third-round change, confirmed late because its demonstration runs Zopfli for minutes): Zopfli was all but absent
  from the quick tier, and the D3 contract was only observed on the trials a run happened to make. There is now a
  family of few-colour, high-depth Zopfli cases in corr-eval (with counters for how often the bound falls between a
  fast compressor's size and Zopfli's), and D3 is called directly on `Deflaters::deflate` (hook 70718ab) with limits on and
  around the unbounded size for every compressor and level.
* **Seventh round**: C06's determinism oracle had no animated input (now: 3-8 recompressible frames, half with a damaged
  middle frame - the call must fail the same way under every pool); the APNG generator wrote one IDAT chunk (now also
  zero-length ones); C04's file oracle had no standard-output destination (now a two-stage run of the real executable: own
  output, half of the time re-wrapped non-canonically, through `--stdout` with the same flags); C17's tie images never went
  through the fast path's hand-over (now a third do, plus arithmetic-progression images on which a fixed filter and Bigrams tie
  exactly); C09's byte oracle handed the library whatever options the binary had parsed, so a wrong preset was invisible to it
  (now the manual's preset table is compared with the parsed options).
* **Eighth round**: animated inputs were missing from two more streams - the scheduler stream (now a fifth of the images of
  every case) and the expiry sweep (now its own block: every k, judged by C02, C04 and C10's frame predicate); the malformed-input
  corpus zeroed a frame's width without making the frame data consistent with it, so such a frame never got past the size checks
  (now a mutation family of its own).
* **Ninth round**: two oracles trusted the binary's own reading of the command line - C04's standard-output block skipped runs
  whose *parsed* options said "force" (now: whose flags contain --force), and C09's byte oracle compared with the library under the
  parsed options (now the manual's meaning of every plain switch and of the strip / keep lists is compared with the parsed options,
  next to the preset table); the APNG generator never put a chunk between the default image's fcTL and its IDAT (now it does).
* **Tenth round** (two features meeting): standard input was missing from C04's "optimal but written differently" runs, and
  most of that block's flag vectors carried a strip policy that made the re-wrapped file improvable again (now two thirds are
  drawn without one); C10's animations never carried colour-space chunks, although the pre-pass handling them runs before the
  one that switches transformations off for animations (now a third do).
* **Eleventh round**: the alpha switch of `filter_image` was compared byte for byte only for the five standard strategies, and
  the round-trip oracle of the heuristic strategies ran without it; now every strategy with the switch on is reconstructed by the
  reference decoder and compared with the original up to invisible colour, also on pictures built so that a heuristic strategy
  chooses a horizontal filter on one row and a vertical one on the next.
* **Twelfth round** (boundary values): 16-bit alpha gets a class "all-or-nothing plus one value on a byte boundary"; valid files
  with exactly 255 / 256 / 257 / 258 colours and a fully used 256-entry palette are run unmutated in C05's oracle; zero-length
  colour-space and private chunks in the metadata generator; C17's rule no longer takes the PLTE / tRNS size from the implementation
  (the harness lays the chunks out itself); the scheduler stream gets files that are smaller than their own palette (C16k).
* **Thirteenth round**: corr-io gets a second not-improvable input (the fixed point re-wrapped so that its re-serialisation has the
  same length and different bytes); the timeout option itself is run at the ends of its range in corr-deadline. Also, outside the
  rounds: the C07 / C10 / C11 / C14 oracles no longer ask the implementation what a policy keeps, which profiles count as sRGB or
  what a C2PA manifest is (`spec_keeps`, `spec_srgb_intent`, `spec_is_c2pa` in the harness) - a one-name change in the display-chunk
  table of /repo, tried by hand, is now reported as `chunk-lost` with the input, where before only the correspondence stream saw it.
* **Fourteenth round**: the all-switches-off corner of the C08 e2e stream is run under every interlace request and forced half
  of the time; the APNG generator (shared by the C01-C04, C06, C08, C10, C13, C16 streams) writes frames of different size over
  one filtered stream and true repeats of a frame.
* **Fifteenth round**: oracle-files gets destinations that are the input under another name; oracle-cli gets the manual's
  `--nx --nz` corner on files the library changes, undecodable inputs (exit status 1), standard input as the source and
  never-expiring `--timeout` values; corr-deadline runs the executable with `--timeout 0` on every route; the metadata generator
  writes files carrying both iCCP and sRGB.
* **Sixteenth round**: image class 'nothing is spare' (all 256 gray shades in opaque use next to transparent pixels) in every image
  stream; unreadable ICC profiles on animated inputs.
* **Seventeenth round**: every expiry position of corr-deadline's animated block also runs on a pool of two or four threads.
* **Nineteenth round**: oracle-cli: directories several missing levels deep, delivery of every file of a multi-file run (with skipped
  and failing files among them) under --threads 1 / 2 / 4; oracle-determinism: the executable over file sets under --threads 1 / 2 / 4 / 16;
  the raw oracle attaches bKGD / hIST / sBIT.
* **Twentieth round**: one case in ten of every end-to-end oracle also goes through the executable and is judged against the options
  that were asked for (with the `--nx` spelling); C18 gets an end-to-end oracle of the layout change as the optimiser makes it.
* **Twenty-first round**: oracle-files gets inputs whose rewrite is strictly larger than the input; corr-eval gets hand-over cases on
  images with a big palette. Also since round 20: oracle-meta sends one case in eight through the executable (keep lists spelled with
  the manual's word `display`), oracle-c05 one in twelve (exit status, never a signal), corr-deadline drives every expiry position
  through the file entry point `optimize()` as well.
* **Twenty-second round**: every run of the executable is bounded (60 s, then killed and reported as a hang with the input); a watchdog
  aborts the harness when an in-process library call takes more than 300 s and the check reports the noted case; the raw and file
  oracles note their case before every library call; corr-io judges 'not improvable' by size; pass-isolated colours on interlaced
  output at the presets that try the co-occurrence palette orders.
* **Twenty-third round**: the direct check of the compressors' contract gets noise at and beyond the limits of one and two stored blocks.
* **Twenty-fourth round**: stray-index boundary files in oracle-c05; frames with equal length and Adler-32 in the APNG generator; a
  umask-sensitive input mode in corr-io; a load block (hundreds of batches of 64 tiny images on eight workers, no taps) in corr-sched.
'''
p='/verif/DESIGN.md'
s=open(p).read()
if '### 14.8' in s:
    a=s.index('\n### 14.8')
    rest=s[a+1:]
    nxt=rest.find('\n### 14.9')
    tail=rest[nxt:] if nxt>=0 else ''
    s=s[:a]+tail
    if tail:
        # insert before 14.9
        b=s.index('\n### 14.9')
        s=s[:b].rstrip('\n')+'\n'+text+s[b:]
    else:
        s=s.rstrip('\n')+'\n'+text
else:
    s=s.rstrip('\n')+'\n'+text
open(p,'w').write(s)
print("seeds:",n,"missed-at-first:",missed)

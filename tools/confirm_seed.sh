#!/bin/bash
# confirm_seed.sh <seed-id> <worktree>: re-confirm a seeded change in its scratch worktree
# (suite passes with the change; demo fails with it and passes without), then store it under /verif/seeded/<id>/.
set -u
ID=$1; WT=$2
export CARGO_NET_OFFLINE=true
cd "$WT" || exit 2
[ -f _seed/patch.diff ] || { echo "no patch"; exit 2; }
git checkout -q -- src 2>/dev/null
git apply --check _seed/patch.diff || { echo "PATCH DOES NOT APPLY"; exit 1; }
# demo without the change
DEMO=$(ls _seed/*.rs 2>/dev/null | head -1)
if [ -n "$DEMO" ]; then cp "$DEMO" tests/seed_demo.rs; fi
echo "== demo WITHOUT change"; cargo test --offline --test seed_demo 2>&1 | grep -E "^test result|error" | head -3
git apply _seed/patch.diff
echo "== demo WITH change"; cargo test --offline --test seed_demo 2>&1 | grep -E "^test result|error" | head -3
rm -f tests/seed_demo.rs
echo "== suite WITH change"; cargo test --workspace --no-fail-fast --offline 2>&1 | grep -E "^test result" | awk '{p+=$4; f+=$6} END {print "passed="p" failed="f}'
mkdir -p /verif/seeded/$ID && cp _seed/* /verif/seeded/$ID/
git checkout -q -- src
echo "stored /verif/seeded/$ID"

#!/bin/bash
# run_seed.sh <seed-id> <check ids...>: apply a stored seeded change to /repo, run the checks, undo.
set -u
ID=$1; shift
cd /verif
git -C /repo status --short | grep -q . && { echo "/repo not clean"; exit 2; }
git -C /repo apply /verif/seeded/$ID/patch.diff || { echo "apply failed"; exit 2; }
for c in "$@"; do
  out=$(./check $c 2>&1 | grep -E "^(VIOLATION|OK|KNOWN|BUILD)" | tr '\n' ' ')
  echo "$ID :: $c :: $out"
done
git -C /repo checkout -- .
git -C /repo status --short | head -3

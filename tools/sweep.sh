#!/bin/bash
# sweep.sh <first-seed> <last-seed> [tier]: run every check with other PRNG seeds (false-alarm hunt on the
# unchanged tree). Meant for `vp run -- bash tools/sweep.sh 2 8`; prints one line per (seed, check).
cd "$(dirname "$0")/.." || exit 2
A=${1:-2}; B=${2:-6}; TIER=${3:-quick}
bash ./setup.sh > sweep_setup.log 2>&1 || { echo "setup failed"; tail -20 sweep_setup.log; exit 2; }
for s in $(seq $A $B); do
  for i in $(seq -w 1 19); do
    out=$(VERIF_SEED=$s VERIF_TIER=$TIER ./check C$i 2>&1 | grep -E "^(OK|VIOLATION|BUILD)" | tr '\n' ' ' | cut -c1-200)
    echo "seed=$s C$i :: $out"
    case "$out" in *VIOLATION*) mkdir -p sweep_replays; cp replays/C$i-*.json sweep_replays/ 2>/dev/null;; esac
  done
done

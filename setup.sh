#!/bin/sh
# Build the framework from files on disk only (offline).
set -e
cd "$(dirname "$0")"
export CARGO_NET_OFFLINE=true
(cd lean && lake build OxiModel oxidriver)
(cd harness && cargo build --release --offline)
(cd /repo && cargo build --release --offline --features verif --target-dir /verif/harness/target-bin)
echo "setup done"

#!/bin/sh
# Build the framework from files on disk only (offline).
set -e
cd "$(dirname "$0")"
export CARGO_NET_OFFLINE=true
(cd lean && lake build OxiModel oxidriver)
(cd harness && cargo build --release --offline)
echo "setup done"

#!/usr/bin/env python3
"""Regenerate MANIFEST.json from checkconf.py (claimed properties) and properties.jsonl."""
import json
from checkconf import PROPS, NOT_APPLICABLE, HOOK_COMMITS

props = [json.loads(l)["id"] for l in open("properties.jsonl")]
m = {
    "version": 1,
    "setup_cmd": "./setup.sh",
    "hooks": {
        "guard": "cargo feature `verif` of the oxipng crate",
        "enable": "harness/Cargo.toml depends on oxipng = { path = \"/repo\", features = [\"verif\", ...] }; every check runs "
                  "`cargo build --release --offline` in /verif/harness, which rebuilds /repo's working tree with the feature on",
        "baseline_off_cmd": "cd /repo && cargo test --workspace --no-fail-fast --offline",
        "source_commits": HOOK_COMMITS,
        "add_only": True,
    },
    "engines": [
        {"name": "lean-model", "path": "lean", "serves_properties": sorted(PROPS),
         "kind_free_text": "Lean 4 model + specification + theorems (lake library OxiModel; compiled driver oxidriver answers the line protocol)"},
        {"name": "harness", "path": "harness", "serves_properties": sorted(PROPS),
         "kind_free_text": "Rust crate calling /repo in-process (feature verif): correspondence streams (model vs code) and oracles (code vs specification-level reference)"},
    ],
    "checks": [],
    "notes": "Single entry point ./check <id> [--tier quick|thorough]; configuration in checkconf.py; design in DESIGN.md.",
    "not_applicable": [],
}
for pid in props:
    if pid in PROPS:
        c = PROPS[pid]
        m["checks"].append({
            "property_id": pid,
            "quick_cmd": "./check %s --tier quick" % pid,
            "thorough_cmd": "./check %s --tier thorough" % pid,
            "evidence_file": "/verif/evidence/%s.json" % pid,
            "replay_cmd_template": "./check %s --replay {path}" % pid,
            "engine": "lean-model",
            "level_claimed": {"category": "proof", "text": c["claim"], "design_ref": c.get("design_ref", "DESIGN.md section 4, " + pid)},
            "level_note": c["note"],
            "technique": c.get("technique", "Lean 4 proof + model/implementation correspondence check"),
        })
    else:
        m["not_applicable"].append({"property_id": pid, "reason": NOT_APPLICABLE.get(pid, "check not built yet in this session; will be claimed (DESIGN.md section 10)")})
json.dump(m, open("MANIFEST.json", "w"), indent=1)
print("claimed:", [c["property_id"] for c in m["checks"]])

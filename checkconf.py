"""Per-property configuration of ./check: Lean modules, correspondence streams, oracles, and the
texts that go into MANIFEST.json (regenerate with ./mkmanifest.py)."""

HOOK_COMMITS = ["42d3529"]
NOT_APPLICABLE = {}

PROPS = {
    "C04": {
        "lean": ["OxiModel.Props.C04"],
        "streams": [{"name": "corr-decision", "quick": 3000, "thorough": 50000}],
        "oracles": [{"name": "e2e", "args": ["C04"], "quick": 3000, "thorough": 40000},
                    {"name": "oracle-files", "quick": 400, "thorough": 6000}],
        "claim": "Lean 4 theorems over all byte strings and all candidate outputs: the in-memory call returns a strictly smaller result or the input; "
                 "file routing (in place: no write; other destination: copy of the original; pretend: nothing); unforced chains of arbitrary runs never grow "
                 "the file and change it at most input-length times (well-founded descent); acceptance strictly below budget; frames only shrink. "
                 "is_fully_optimized is compared with the code; the whole-call behaviour is checked by end-to-end oracles (memory API incl. chains, and the "
                 "real optimize() on files: content and mtime).",
        "note": "The decision functions are modelled exactly; `optimize_png` (what candidate is produced) is a parameter of the theorems, which is what makes them "
                "hold for every input and option set. Tie of finalMemory/finalFile to lib.rs:233-246,325-330 is by the end-to-end oracles.",
        "technique": "Lean 4 proof (case analysis + induction over run chains) + correspondence/e2e oracle",
        "rule": "is_fully_optimized on boundary and random size pairs x force; e2e: generated PNGs of all legal type/depth pairs x generated options with force=false, "
                "plus 2-step chains with fresh options; files: in place / --out / pretend incl. already-optimal inputs; distinct = distinct (input bytes, options)",
    },
    "C06": {
        "lean": ["OxiModel.Props.C06"],
        "streams": [{"name": "corr-eval", "quick": 400, "thorough": 6000}],
        "oracles": [{"name": "oracle-determinism", "quick": 250, "thorough": 4000}],
        "extra": ["nopar_outputs"],
        "claim": "Lean 4 theorem by induction over executions of the evaluator protocol (read bound / finish+publish+lower / prune) for every interleaving: the collector's "
                 "minimum is the cmp_key-minimum of the trials admitted by the initial bound; two complete runs agree; sequential fold = min_by_key; arrival order irrelevant; "
                 "executions are finite. Real histories (taps on AtomicMin get/set_min under an operation lock, 1..16 threads, injected delays) are replayed against the model; "
                 "outputs are compared byte for byte across pool sizes, nesting, timing and the build without the parallel feature.",
        "note": "Partial in the brief's sense: the proof covers the protocol's logic for all interleavings of its atomic steps; rayon's scheduler, the atomics' implementation (R1) and "
                "the compressors being functions whose success depends only on output size (D2, D3; exercised on every logged trial) are contracts, not theorems.",
        "technique": "Lean 4 proof (invariant over a transition system, all interleavings) + event-history replay",
        "partial_note": "runtime part (rayon, atomics, libdeflate/zopfli determinism) is assumed as contracts R1, D2, D3 and exercised, not proved",
        "rule": "generated images x options x pool size in {1,2,3,4,8,16} x delay injection; one history per evaluator instance; tie images (1..3 px, uniform) so that "
                "tie-breaks decide; distinct = distinct history lines / (input, options) pairs",
    },
    "C17": {
        "lean": ["OxiModel.Props.C17"],
        "streams": [{"name": "corr-eval", "quick": 400, "thorough": 6000}],
        "oracles": [],
        "claim": "Lean 4 theorems about min_by_key over cmp_key: the selected candidate is a completed trial, no completed trial has a smaller key, ties follow the fixed rule "
                 "(size, raw length, filter, later submission), the choice is a function of the set of completed trials (arrival order irrelevant). The implementation's "
                 "winner (tap on every get_best_candidate call site and on the final acceptance) is compared with the model's on replayed real histories, incl. tie images.",
        "note": "The published set and winner come from the taps; the emitted IDAT being the winner's is checked through the Final event and the e2e oracles of C01/C02.",
        "technique": "Lean 4 proof (order theory on cmp_key) + event-history replay",
        "rule": "as C06: one history per evaluator instance; distinct = distinct history lines",
    },
    "C18": {
        "lean": ["OxiModel.Props.C18"],
        "streams": [{"name": "corr-geom", "quick": 60, "thorough": 600}],
        "oracles": [],
        "claim": "Lean 4 theorems for all w>=1, h, bpp: raw_data_size equals the total length of the specification's scan lines (both layouts, "
                 "empty passes omitted), closed forms of the seven pass sizes, pass areas partition the image; the scan-line iterator, "
                 "raw_data_size, interlace_image and deinterlace_image are modelled literally and compared with the code on every (w,h) up to "
                 "24x24 (thorough 72x72) for the legal type/depth pairs, on position-labelled images, in both directions, plus malformed lengths; "
                 "the stream also compares the code directly with the harness's own specification-derived geometry.",
        "note": "Proved so far: sizes (raw_data_size = spec), pass-size closed forms, area partition. The iterator = spec-lines theorem and the pixel-placement/"
                "round-trip theorems for interlace/deinterlace are stated as growth items; until then those clauses rest on the exhaustive-up-to-bound "
                "correspondence and oracle streams. Trusted: Lean kernel, correspondence tie (tested), harness reference geometry.",
        "technique": "Lean 4 proof (omega over unbounded sizes) + exhaustive-to-bound model/implementation correspondence",
        "rule": "all (w,h) in 1..24 (thorough 1..72) x legal colour-type/depth pairs x interlaced/not x with/without filter byte, plus sparse large sizes and "
                "malformed data lengths; interlace/deinterlace on position-labelled images for all (w,h) in 1..12 (thorough 1..40) plus random sizes up to 72; "
                "distinct = distinct request lines",
    },
    "C19": {
        "lean": ["OxiModel.Props.C19"],
        "streams": [{"name": "corr-filters", "quick": 3000, "thorough": 60000}],
        "oracles": [{"name": "oracle-c19", "quick": 1500, "thorough": 30000}],
        "claim": "Lean 4 theorems: generic decode(encode) round trip for every predictor, each filter_line/unfilter_line arm identified with the "
                 "specification's filter/reconstruction for all bpp>=1 and all rows, Paeth = spec on all triples; model tied to the code by exact "
                 "correspondence streams (incl. all 2^24 Paeth triples) and an image-level oracle for the ten strategies.",
        "note": "Lean kernel + propext/Quot.sound; model-code tie is tested (streams), not proved; the heuristic strategies' per-row choice is covered as "
                "'any legal choice' by the image-level oracle.",
        "technique": "Lean 4 proof (induction along the scan line) + model/implementation correspondence check",
        "rule": "filter_line/unfilter_line on random and structured rows (zeros, 0xFF, ramps, few values) for bpp in {1,2,3,4,6,8}, "
                "a malformed stream violating the length asserts, Paeth on all 2^24 triples as a digest; oracle: filter_image for the ten "
                "strategies on generated images of the 15 legal type/depth pairs, interlaced or not, reconstructed by reference code written "
                "from the specification; distinct = distinct FNV-64 digests of (filter, bpp, row bytes) / (strategy, header, data)",
    },
}

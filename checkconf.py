"""Per-property configuration of ./check: Lean modules, correspondence streams, oracles."""

PROPS = {
    "C19": {
        "lean": ["OxiModel.Props.C19"],
        "streams": [{"name": "corr-filters", "quick": 3000, "thorough": 60000}],
        "oracles": [{"name": "oracle-c19", "quick": 1500, "thorough": 30000}],
        "rule": "filter_line/unfilter_line on random and structured rows (zeros, 0xFF, ramps, few values) for bpp in {1,2,3,4,6,8}, "
                "a malformed stream violating the length asserts, Paeth on all 2^24 triples as a digest; oracle: filter_image for the ten "
                "strategies on generated images of the 15 legal type/depth pairs, interlaced or not, reconstructed by reference code written "
                "from the specification; distinct = distinct FNV-64 digests of (filter, bpp, row bytes) / (strategy, header, data)",
    },
}

"""Per-property configuration of ./check: Lean modules, correspondence streams, oracles, and the
texts that go into MANIFEST.json (regenerate with ./mkmanifest.py)."""

HOOK_COMMITS = ["42d3529"]
NOT_APPLICABLE = {}

PROPS = {
    "C18": {
        "lean": ["OxiModel.Props.C18"],
        "streams": [{"name": "corr-geom", "quick": 60, "thorough": 600}],
        "oracles": [],
        "claim": "Lean 4 theorems for all w>=1, h, bpp: raw_data_size equals the total length of the specification's scan lines (both layouts, "
                 "empty passes omitted), closed forms of the seven pass sizes, pass areas partition the image; the scan-line iterator, "
                 "raw_data_size, interlace_image and deinterlace_image are modelled literally and compared with the code on every (w,h) up to "
                 "24x24 (thorough 72x72) for the legal type/depth pairs, on position-labelled images, in both directions, plus malformed lengths; "
                 "the stream also compares the code directly with the harness's own specification-derived geometry.",
        "note": "Proved so far: sizes (raw_data_size = spec), pass-size closed forms, area partition. The iterator = spec-lines theorem and the pixel-placement/"
                "round-trip theorems for interlace/deinterlace are stated as growth items; until then those clauses rest on the exhaustive-up-to-bound "
                "correspondence and oracle streams. Trusted: Lean kernel, correspondence tie (tested), harness reference geometry.",
        "technique": "Lean 4 proof (omega over unbounded sizes) + exhaustive-to-bound model/implementation correspondence",
        "rule": "all (w,h) in 1..24 (thorough 1..72) x legal colour-type/depth pairs x interlaced/not x with/without filter byte, plus sparse large sizes and "
                "malformed data lengths; interlace/deinterlace on position-labelled images for all (w,h) in 1..12 (thorough 1..40) plus random sizes up to 72; "
                "distinct = distinct request lines",
    },
    "C19": {
        "lean": ["OxiModel.Props.C19"],
        "streams": [{"name": "corr-filters", "quick": 3000, "thorough": 60000}],
        "oracles": [{"name": "oracle-c19", "quick": 1500, "thorough": 30000}],
        "claim": "Lean 4 theorems: generic decode(encode) round trip for every predictor, each filter_line/unfilter_line arm identified with the "
                 "specification's filter/reconstruction for all bpp>=1 and all rows, Paeth = spec on all triples; model tied to the code by exact "
                 "correspondence streams (incl. all 2^24 Paeth triples) and an image-level oracle for the ten strategies.",
        "note": "Lean kernel + propext/Quot.sound; model-code tie is tested (streams), not proved; the heuristic strategies' per-row choice is covered as "
                "'any legal choice' by the image-level oracle.",
        "technique": "Lean 4 proof (induction along the scan line) + model/implementation correspondence check",
        "rule": "filter_line/unfilter_line on random and structured rows (zeros, 0xFF, ramps, few values) for bpp in {1,2,3,4,6,8}, "
                "a malformed stream violating the length asserts, Paeth on all 2^24 triples as a digest; oracle: filter_image for the ten "
                "strategies on generated images of the 15 legal type/depth pairs, interlaced or not, reconstructed by reference code written "
                "from the specification; distinct = distinct FNV-64 digests of (filter, bpp, row bytes) / (strategy, header, data)",
    },
}

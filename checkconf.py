"""Per-property configuration of ./check: Lean modules, correspondence streams, oracles, and the
texts that go into MANIFEST.json (regenerate with ./mkmanifest.py)."""

HOOK_COMMITS = ["42d3529", "6304aea", "b625c0d", "ec24054", "b4e8b86", "70718ab", "f9a3d63"]
NOT_APPLICABLE = {}

PROPS = {
    "C01": {
        "needs_binary": True,
        "lean": ["OxiModel.Props.C01", "OxiModel.Props.C01Layout"],
        "streams": [{"name": "corr-reduce", "quick": 6000, "thorough": 120000},
                    {"name": "corr-geom", "quick": 30, "thorough": 300}],
        "oracles": [{"name": "e2e", "args": ["C01"], "quick": 4000, "thorough": 60000}],
        "claim": "Lean 4 per-pixel exactness theorems for the reductions, over all sample values: 16->8 (equal bytes) incl. the colour-key conversion (a key with unequal bytes "
                 "matches no reducible pixel), RGB(A)->gray(+alpha) incl. key, dropping an opaque alpha channel, palette entries built from pixels, bit replication 1/2/4<->8; every "
                 "reduction is modelled literally and compared with the code output-for-output (exact streams), interlacing likewise; the end-to-end oracle decodes input and output with "
                 "an independent reference decoder and compares all pixels at 16-bit precision for generated files x generated option sets (alpha and scale16 off) incl. 2-step chains. The co-occurrence palette sorters end in two shared steps (apply_most_popular_color, apply_palette_reorder) that are modelled literally and compared incl. panics on arbitrary remappings (permutations, duplicates, entries beyond the palette / the 256-entry table); palette_reorder_lossless proves the result lossless for ANY repetition-free remapping covering the used indices, most_popular_perm that the first step only rearranges.",
        "note": "IMAGE LEVEL, proved for every size and content (Spec.samePicture: same geometry and the same 16-bit RGBA meaning at every stored position): depth16to8_lossless (exact path, all four "
                "16-bit colour types, with or without key), rgb_to_gray_lossless (8/16 bit, key carried or dropped), drop_alpha_lossless (opaque alpha, 8/16 bit; via a characterisation of the scanning "
                "fold), to_indexed_lossless (gray / gray+alpha / RGB / RGBA with or without key; build_palette specification by induction), indexed_to_channels_lossless (all four target types, "
                "out-of-range index = opaque black on both sides), reduced_palette_lossless (invariant of the condensing loop), sorted_palette_lossless, expand_to_8_lossless (1/2/4 -> 8 bits, gray with or "
                "without key and indexed: the 8-bit result shows what the packed rows showed, sample extraction per PNG 7.2, expandByte checked against it on all 256 bytes x 3 depths by kernel "
                "evaluation), reduce_depth_gray_lossless and reduce_depth_indexed_lossless (8 -> 1/2/4 bits: unpack-after-pack on every list of up to 8 low values, the row lemma by induction over the "
                "chunks, the depth search's guarantee that every byte is the replication of its low bits, key rule on all 256 keys - all finite facts by kernel evaluation). ALL TEN reductions now have an "
                "image-level theorem; the interlacing change is at geometry level (its placement tables are C18's); the chain over perform_reductions is tied by the lineage streams. Trusted: D1 (inflate∘deflate), "
                "harness reference decoder (cross-checked against the png crate in C02).",
        "technique": "Lean 4 proof (per-pixel exactness lemmas) + exact model/implementation correspondence + e2e oracle",
        "partial_note": "all ten reductions have image-level theorems; the interlacing change is at placement-table level; the chain over perform_reductions is tied by lineage streams",
        "rule": "corr-reduce: each of the 10 modelled reductions on images biased to its domain (hi==lo 16-bit, gray-valued RGB, replicated bit patterns, opaque/binary alpha, keys used/unused/near-miss, "
                "palettes with duplicates/unused/transparent entries), flags random; e2e: generated PNGs (15 type/depth pairs, interlaced or not, random row filters, split IDAT) x generated options; "
                "distinct = distinct request lines / (input, options) pairs",
    },
    "C03": {
        "needs_binary": True,
        "lean": ["OxiModel.Props.C03"],
        "streams": [{"name": "corr-filters", "quick": 4000, "thorough": 80000},
                    {"name": "corr-reduce", "quick": 4000, "thorough": 80000},
                    {"name": "oracle-c19", "quick": 1500, "thorough": 30000}],
        "oracles": [{"name": "e2e", "args": ["C03"], "quick": 4000, "thorough": 60000}],
        "claim": "Lean 4 theorem by induction over the pixel loop of the per-filter alpha rewrite (all five filter types, all pixel sizes, all lines): the rewrite returns the same number of pixels, "
                 "leaves every pixel that is not fully transparent unchanged and keeps the alpha bytes of transparent ones; alphaEq is an equivalence; transparent pixels are alphaEq whatever their colour. "
                 "optimize_alpha is modelled literally and compared with the code (incl. first-pixel-transparent and all-transparent rows); the alpha-flagged reductions are compared in corr-reduce; "
                 "the e2e oracle checks alpha everywhere and colour wherever alpha != 0 at 16-bit precision with alpha optimisation on.",
        "note": "IMAGE LEVEL (all sizes, 8/16 bit, gray+alpha and RGBA): cleaned_alpha_visible (cleaned_alpha_channel gives the same picture up to invisible colour); optimizeAlpha_rowKeep (any filter type, "
                "any previous line: the rewritten row of whole pixels keeps length, alpha bytes and every non-transparent pixel; the colour written is exactly colour-bytes long - alphaColour_length); "
                "RowKeep is reflexive and transitive and optimizeAlpha_chain_rowKeep: the heuristic strategies' successive rewrites of one mutable row by any list of trial filters give a kept row; rows_keep_visible (rows related row by row => "
                "sameVisiblePicture of the whole image); filterLinesStdAlpha_spec (filter_image with alpha, standard strategies, modelled and compared byte for byte: what is written is the plain "
                "filtering of the rewritten rows - so C19's round trip returns exactly them - and they are kept versions of the original rows). reduced_palette_visible and indexed_to_channels_visible (with alpha optimisation these two are the plain reduction of the image whose fully "
                "transparent palette entries are blackened - proved as equalities - and blackening changes only invisible colour). reduced_alpha_visible (alpha channel replaced by a colour key: scan invariant, the key is unused among opaque gray pixels, "
                "transparent pixels stay transparent, opaque ones keep colour and alpha). Every alpha-flagged operation now has a whole-image theorem; which candidate a heuristic strategy picks is "
                "deliberately free.",
        "technique": "Lean 4 proof (induction over the pixel loop) + correspondence + e2e oracle",
        "partial_note": "all alpha-flagged operations have whole-image theorems; the tie to the code is the correspondence streams",
        "rule": "filter_line with alpha_bytes in {1,2} on rows with random transparent runs (all / none / mixed) for the five filters; e2e with optimize_alpha=true; distinct as C01",
    },
    "C08": {
        "needs_binary": True,
        "lean": ["OxiModel.Props.C08"],
        "streams": [{"name": "corr-lineage", "args": ["C08"], "quick": 1600, "thorough": 30000},
                    {"name": "corr-reduce", "quick": 4000, "thorough": 80000}],
        "oracles": [{"name": "e2e", "args": ["C08"], "quick": 4000, "thorough": 60000},
                    {"name": "oracle-meta", "args": ["C08"], "quick": 2000, "thorough": 30000}],
        "claim": "Lean 4 theorems: one frame lemma per reduction (what it may change in the header), the guard table of perform_reductions, `step_respects` (every allowed operation respects every "
                 "disabled switch: bit depth, colour-type code, gray/colour, exact palette of an image that stays indexed, interlace flag, dimensions) and the closure theorem over arbitrary chains of "
                 "allowed operations (leaf result not extended), plus `nothing_enabled_identity`. Orchestration is tied by lineage reconstruction: every image handed to an evaluator (tap) and the image "
                 "finally serialised must lie in the Lean-computed closure of the parsed input under the allowed operations, for all 16 switch subsets; e2e oracle checks headers/palette/IDAT identity.",
        "note": "The three palette sorters battiato/mzeng are covered as 'any palette permutation' (canonical form) and only when palette changes are enabled; with alpha optimisation on, colour under "
                "transparent pixels is free in the comparison. The order/conditions under which perform_reductions tries things are deliberately not modelled (free to change).",
        "technique": "Lean 4 proof (frame lemmas + induction over operation chains) + lineage reconstruction against the code",
        "rule": "generated images x options with the four reduction switches cycling through all 16 subsets x interlace keep/0/1 x alpha; observed = images submitted to evaluators + serialised image; "
                "distinct = distinct lineage requests",
    },
    "C12": {
        "lean": ["OxiModel.Props.C12"],
        "needs_binary": True,
        "streams": [{"name": "corr-io", "quick": 56, "thorough": 56}],
        "oracles": [],
        "claim": "Lean 4 theorems about the I/O automaton (which system calls touch input, destination and standard output, in which order, and what a failure of each leads to) for EVERY routing, input kind, "
                 "--preserve setting, fault position k and fault kind: no mutating call belongs to the phase before the complete output exists (only the --dir mkdir); a kill or fatal error at any call of that "
                 "phase executes no mutating call at all; --pretend, an invalid input and 'no improvement in place' never write, under any fault; the input is opened exactly once, read-only; an error on "
                 "create/chmod/write/utimens/stdout-write/mkdir always yields exit status 1; --preserve puts chmod before the data and utimens after the close. The REAL executable is run under strace: its "
                 "system-call skeleton must equal the model's program for all 30 configurations, and for every call index k an injected EIO/ENOSPC/EACCES (strace inject) or SIGKILL at exactly that call must give "
                 "the exit status the model predicts; files are snapshotted (content, mtime, mode) to check 'unchanged before the first mutation', input never opened for writing, preserved attributes.",
        "note": "Partial: kernel file semantics are the abstract ones (K1); page cache, close()-time errors of real file systems and short writes are not exhibited. After a failed write the bytes on disk are "
                "unconstrained (BufWriter retries on drop): only 'reported' and 'nothing before computed' are claimed. In-place writes are not atomic (kill during the write phase can lose the file) - outside the property.",
        "technique": "Lean 4 proof (I/O automaton, all fault positions) + fault enumeration on the real binary with strace injection",
        "partial_note": "kernel semantics, page cache, close-time errors are outside the model",
        "rule": "{in place, --out, --dir, --stdout, --pretend} x {improvable, not improvable, invalid} x {--preserve on/off}; per configuration every call index of the skeleton x {one errno (thorough: EIO, ENOSPC, EACCES), SIGKILL}; "
                "distinct = distinct configurations; the not-improvable inputs include one whose re-serialisation has the same length and other bytes ('not improvable' = nothing strictly smaller)",
    },
    "C13": {
        "needs_binary": True,
        "lean": ["OxiModel.Props.C13"],
        "streams": [{"name": "corr-deadline", "quick": 120, "thorough": 1500}],
        "oracles": [],
        "claim": "Lean 4 theorems: the deadline is monotone; for every sequence of guarded reduction steps and EVERY pattern of 'already expired' answers (hence expiry at the k-th check for every k) the image "
                 "reached is in the chain of allowed operations from the input, so all lineage theorems (switches, fidelity lemmas) apply; selection among the trials that did complete is still a completed, "
                 "minimal trial; nothing completed => nothing selected => original kept; the never-larger decision holds for every expiry position. With the deadline override hook the real code is run with "
                 "expiry first seen at every k in 0..K (K counted on an untimed run, single worker thread) and each run is checked for lineage membership (Lean closure) and by the C01/C03, C02, C04 oracles.",
        "note": "Wall-clock expiry inside a running trial is not interruptible by design; the override makes 'the k-th consultation is the first to see it expired' exact. Frames (APNG) are covered in C10's stream.",
        "technique": "Lean 4 proof (induction over guarded steps, all expiry patterns) + fault-position enumeration with the deadline hook",
        "rule": "per (input, options) pair: every k in 0..K when K<=24, else 0,1,2,K-1,K and 12 random k (thorough: every k); distinct = distinct (lineage request, k); animated inputs at every k on pools of 1 and of 2 / 4 threads; the timeout option at the ends of its range; every k through the file entry point optimize() (separate destination, in place); the executable with --timeout 0 on five routes incl. standard input",
    },
    "C15": {
        "needs_binary": True,
        "lean": ["OxiModel.Props.C15"],
        "streams": [{"name": "corr-reduce", "quick": 4000, "thorough": 80000}],
        "oracles": [{"name": "e2e", "args": ["C15"], "quick": 4000, "thorough": 60000}],
        "claim": "Lean 4 theorems: the integer model of the scaling is round(v/257) for every 16-bit value (|257 s - v| <= 128, equal bytes keep the byte, 0x00FF -> 1, monotone), the scaled image is 8-bit with "
                 "unchanged dimensions/colour-type code/interlacing and sample-wise scaled data, gray and RGB keys are rounded like samples, non-16-bit images are treated as without the switch. "
                 "The f32 code is tied to the integer model on all 65 536 values (digest) and on whole images (exact stream); the e2e oracle checks the relation on decoded outputs.",
        "note": "f32 semantics are outside the kernel: tie is by exhaustive comparison. With bit-depth changes disabled C08 is binding and the switch must have no effect (checked). One known finding (unforced fallback re-serialises the unscaled image).",
        "technique": "Lean 4 proof (omega over all sample values) + exhaustive correspondence on the 65 536 inputs + e2e oracle",
        "rule": "all 65 536 sample values (digest), reductions stream, e2e with scale_16=true biased to 16-bit inputs of all four 16-bit colour types with and without keys; distinct as C01",
    },
    "C02": {
        "needs_binary": True,
        "lean": ["OxiModel.Props.C02"],
        "streams": [{"name": "corr-chunks", "quick": 1200, "thorough": 20000}],
        "oracles": [{"name": "e2e", "args": ["C02"], "quick": 4000, "thorough": 60000},
                    {"name": "oracle-meta", "args": ["C02"], "quick": 2500, "thorough": 40000}],
        "claim": "Lean 4 theorems about the serialiser for ALL chunk lists / images: big-endian fields round-trip; every block written by write_png_block is read back exactly by a strict reader "
                 "(length, name, payload, CRC by construction) and so is any list of framable chunks (framing round trip, by induction); the output starts with the signature, first chunk IHDR, last IEND, "
                 "exactly one IDAT chunk; PLTE iff indexed with 3 bytes per entry and tRNS never longer than the palette; before-PLTE / after-PLTE placement. output(), key_chunks_size and the CRC are "
                 "compared byte for byte with the code; the oracles validate every clause of the statement on real outputs with an independent strict reader (incl. metadata and APNG inputs, lossy switches, "
                 "forced output, strip modes) and require the independent `png` crate to accept and agree on the decoded data.",
        "note": "Palettes produced by the reductions are proved well-formed for all inputs: to_indexed_wellformed (<= 256 entries, depth 8, every index inside the palette), reduced_palette_wellformed (same after "
                "condensing), depth_reduction_palette_fits (an indexed image reduced to depth d in {1,2,4} has palette.length <= 2^d, palette untouched). Partial: the zlib stream being valid and inflating to "
                "the header-implied size with filter types 0-4 rests on D1 and on C19/C18; indices of an *input* palette image are the input's responsibility; 'every structural constraint the input "
                "satisfies' (incl. bKGD/sBIT/hIST layout against colour type, depth and palette) is checked by the oracle's strict validation of input and output, not proved as one monotonicity theorem.",
        "technique": "Lean 4 proof (list induction over the written stream) + exact serialiser correspondence + strict-validator oracle",
        "partial_note": "zlib validity (D1) and the 'every constraint the input satisfies' clause are oracle-checked",
        "rule": "corr-chunks: random PngData (headers of all types, aux chunks incl. pre-IDAT fcTL, 0-2 frames, arbitrary IDAT bytes); oracles: generated files x options (Any profile) incl. files with "
                "gAMA/cHRM/sBIT/sRGB/iCCP/bKGD/hIST/pHYs/text/private chunks and APNGs; distinct = distinct (input, options)",
    },
    "C07": {
        "needs_binary": True,
        "lean": ["OxiModel.Props.C07"],
        "streams": [{"name": "corr-chunks", "quick": 1200, "thorough": 20000},
                    {"name": "corr-front", "quick": 2500, "thorough": 40000}],
        "oracles": [{"name": "oracle-meta", "args": ["C07"], "quick": 3000, "thorough": 50000}],
        "claim": "Lean 4 theorems for all chunks, states and policies: the critical chunks (IHDR, PLTE, tRNS, IDAT) are handled identically under every policy (cannot be stripped); an ordinary ancillary chunk is "
                 "recorded exactly once unchanged if the policy keeps it and leaves no trace otherwise; the C2PA rule; the serialiser emits every recorded chunk exactly as often as recorded (count preservation), "
                 "on the same side of IDAT, and keeps the input order within the after-PLTE group and within the rest; conditional drops touch only bKGD/sBIT/hIST/sRGB/iCCP. The full order clause is proved "
                 "FALSE of the model (`order_not_preserved_across_groups`, the input bKGD gAMA) and replayed on the code: known finding. from_slice, output, pre/postprocess are compared with the code; the "
                 "oracle checks kept/stripped/invented/side/order on real outputs for random chunk multisets x all five policy shapes.",
        "note": "Known finding (by design of the two-pass emission around PLTE): a kept chunk of {bKGD,hIST,tRNS,fcTL} that precedes other pre-IDAT chunks is emitted after them; any other reordering is a violation.",
        "technique": "Lean 4 proof (policy and serialiser as list functions) + correspondence + e2e policy oracle",
        "rule": "generated files with specification-conformant chunk multisets (before PLTE / between PLTE and IDAT / after IDAT, known, private, unsafe-to-copy, C2PA) x {None,Safe,All,Strip(list),Keep(list)} x other options",
    },
    "C09": {
        "lean": ["OxiModel.Props.C09"],
        "needs_binary": True,
        "streams": [{"name": "corr-cli", "quick": 250, "thorough": 4000}],
        "oracles": [{"name": "oracle-cli", "quick": 500, "thorough": 3000}],
        "claim": "Lean 4 theorems about the flag translation (parse_opts_into_struct + Options::from_preset) for all flag records: the preset table equals the manual's for every level (decide over the whole "
                 "finite table), presets touch only three fields, explicit -f / --zc / --fast / -i override any preset (the model has no notion of argument order), --nx implies keep-interlacing unless -i "
                 "is given and switches the four reductions off, the switch flags, the strip/keep policy table incl. the forbidden names; exit status = 0 if any ok else 1 if any failed else 3 (proved against "
                 "the fold in main); directories are descended only with --recursive and nested files filtered by extension; the DESTINATION of every collected file (`fileOut`: --pretend wins over "
                 "every destination option and writes nowhere; --stdout; --dir D gives D/<same name> carrying --preserve; otherwise --out or the input itself; `route_cases`: nothing else). The REAL executable is run on generated flag vectors in shuffled order: the options "
                 "it parsed (dump hook) must equal the model's; its output must be byte-identical to optimize_from_memory called with those options and be delivered in place / --out / --dir/<name> / "
                 "stdout (nothing else on that stream) / nowhere (--pretend, also combined with --dir/--out/--stdout in either order; no file may appear anywhere but at the destination); the (input, output) "
                 "pairs collect_files produced (second dump hook) must equal the model's fileOut; exit statuses over mixed file sets and directory recursion are compared with the model.",
        "note": "Partial: clap itself (C1), process exit plumbing and log routing are runtime; they are exercised by the real binary, not proved. Standard input (`oxipng -`) is generated with and without a destination option, improvable or a fixed point of the same options.",
        "technique": "Lean 4 proof (decision tables, decide over finite preset table) + real-binary correspondence and routing oracle",
        "partial_note": "clap / process plumbing are outside the model",
        "rule": "flag vectors over -o{0..6,max} -f{single,range,list} -a --scale16 --fast --force --fix --nb --nc --np --ng --nx --nz -i{0,1,keep} -s --strip{safe,all,list} --keep{list,display} -Z --zi --zc, "
                "argument groups shuffled; routing in {in place,--out,--dir,--stdout,--pretend}; file sets mixing valid / invalid / C2PA files; directory trees with .png/.PNG/.apng/.txt/.jpeg; "
                "distinct = distinct (flags) / (input, arguments); routes in place / --out / --dir (also several missing levels deep) / --stdout / --pretend / --pretend with a destination / standard input; the --nx --nz corner on multi-IDAT files; truncated inputs (exit status 1); --timeout with never-expiring values, --threads, -v; file sets with skipped and failing files delivered under --threads 1 / 2 / 4",
    },
    "C10": {
        "needs_binary": True,
        "lean": ["OxiModel.Props.C10"],
        "streams": [{"name": "corr-chunks", "quick": 1200, "thorough": 20000},
                    {"name": "corr-front", "quick": 2500, "thorough": 40000}],
        "oracles": [{"name": "oracle-meta", "args": ["C10"], "quick": 2500, "thorough": 40000}],
        "claim": "Lean 4 theorems: fcTL round trip (all eight fields, any sequence number), frame data written unchanged behind its number, two chunks per frame in order, sequence numbers consecutive from the "
                 "number of pre-IDAT fcTL chunks, an image with acTL has every transformation class switched off (hence, by C08, unchanged colour type/depth/palette/interlacing), a frame is replaced only by a "
                 "smaller stream with all other fields kept. Parsing (from_slice incl. split fdAT, numbering errors) and serialisation of frames are compared with the code; the oracle checks frame count, order, "
                 "all control fields, play count, default-image membership, header, per-frame pixels (alphaEq under alpha optimisation), numbering, and the stripped-animation case.",
        "note": "Frame pixel fidelity of recompression = C19/C18 at frame geometry + D1; checked by the oracle. Policies that strip only some animation chunks make the call fail (allowed).",
        "technique": "Lean 4 proof (byte-level round trips, induction over frames) + correspondence + APNG oracle",
        "rule": "APNGs with 0-3 extra frames, sub-rectangle frames, frames of different size cut from one and the same filtered stream and true repeats of a frame, frame data split over 1-3 fdAT chunks, default image in or out of the animation, all colour types/depths, interlaced or not x options x strip policies",
    },
    "C14": {
        "needs_binary": True,
        "lean": ["OxiModel.Props.C14"],
        "streams": [{"name": "corr-chunks", "quick": 1500, "thorough": 25000}],
        "oracles": [{"name": "oracle-meta", "args": ["C14"], "quick": 3000, "thorough": 50000}],
        "claim": "Lean 4 theorems over all chunk lists, options and profile contents: the complete case analysis of the colour-space stage of preprocess_chunks (unchanged / iCCP removed only with stripping on, sRGB "
                 "kept and an sRGB chunk present / replaced by sRGB carrying the rendering intent only with stripping on, sRGB kept and a recognised profile / recompressed to the same inflated profile); a kept ICC "
                 "profile switches grayscale conversion off (so by C08 no gray<->colour move); sRGB without stripping does too; after a gray<->colour conversion no sRGB/iCCP chunk is left; postprocess only drops, "
                 "and only the five names under their conditions. preprocess_chunks, postprocess_chunks, srgb_rendering_intent and the iCCP framing are compared with the code on generated chunk lists and "
                 "profiles (recognised ids, other, zero id, short, undecodable, unknown method); the e2e oracle checks the property's clauses on gray-valued colour images.",
        "note": "Inflate/deflate of the profile are parameters of the model (D1); all four recognised profile IDs are generated, and the three ID-less profiles recognised by (CRC-32, length) are generated by forging the CRC (last four bytes solved from the register; CRC-32 is linear), together with one-bit neighbours that must not be recognised.",
        "technique": "Lean 4 proof (exhaustive case analysis of the decision logic) + exact correspondence + e2e oracle",
        "rule": "chunk lists with any of {sRGB, iCCP(recognised/other/zero-id/short/undecodable/unknown-method), both, neither, acTL} x strip policies x recoding x grayscale switch; e2e: gray-valued RGB(A) and other images",
    },
    "C04": {
        "lean": ["OxiModel.Props.C04", "OxiModel.Props.C04Files"],
        "needs_binary": True,
        "streams": [{"name": "corr-decision", "quick": 3000, "thorough": 50000}],
        "oracles": [{"name": "e2e", "args": ["C04"], "quick": 3000, "thorough": 40000},
                    {"name": "oracle-files", "quick": 400, "thorough": 6000}],
        "claim": "Lean 4 theorems over all byte strings and all candidate outputs: the in-memory call returns a strictly smaller result or the input; "
                 "file routing (in place: no write; other destination: copy of the original; pretend: nothing); unforced chains of arbitrary runs never grow "
                 "the file and change it at most input-length times (well-founded descent); acceptance strictly below budget; frames only shrink. "
                 "is_fully_optimized is compared with the code; the whole-call behaviour is checked by end-to-end oracles (memory API incl. chains, and the "
                 "real optimize() on files: content and mtime).",
        "note": "The decision functions are modelled exactly; `optimize_png` (what candidate is produced) is a parameter of the theorems, which is what makes them "
                "hold for every input and option set. Tie of finalMemory/finalFile to lib.rs:233-246,325-330 is by the end-to-end oracles.",
        "technique": "Lean 4 proof (case analysis + induction over run chains) + correspondence/e2e oracle",
        "rule": "is_fully_optimized on boundary and random size pairs x force; e2e: generated PNGs of all legal type/depth pairs x generated options with force=false, "
                "plus 2-step chains with fresh options; files: in place / --out / pretend incl. already-optimal inputs; distinct = distinct (input bytes, options); oracle-files: destinations that are the input under another name (sub/../in.png, symbolic link, hard link), stale longer destinations, inputs whose rewrite is strictly larger than the input; one e2e case in ten through the executable",
    },
    "C05": {
        "needs_binary": True,
        "lean": ["OxiModel.Props.C05"],
        "streams": [{"name": "corr-front", "quick": 3000, "thorough": 60000}],
        "oracles": [{"name": "oracle-c05", "quick": 2500, "thorough": 200000}],
        "claim": "Lean 4 theorems over ALL byte strings: the chunk walker, the fcTL/fdAT sequence-number read, fcTL parsing, IHDR field access, colour-key and palette parsing never index out of range "
                 "(every slice/index of the Rust code is explicit in the model and the outcome `panic` is proved unreachable); a parsed chunk advances the offset by >= 12 (termination); an accepted header "
                 "has non-zero dimensions and a depth legal for its colour type; if the size guard passes, the buffer sized from the header is <= 17*1032*len+14 bytes (non-interlaced) and <= 119*1032*len+98 bytes (interlaced; alloc_bounded for either layout). The whole of "
                 "PngData::from_slice is modelled (walker, policy, animation chunks, header validation, size guard, length check, unfiltering) and compared with the code on a mutated corpus, error "
                 "kinds included. The oracle runs every mutation through the real entry points in a worker process with a counting allocator and an address-space limit: panic, abort, signal, "
                 "excess heap or a 20 s stall is a failing input.",
        "note": "Partial: the theorems cover the front end up to the accepted header and the inflate-buffer size; reductions/evaluator on accepted-but-odd images (stray indices, empty palettes), allocator "
                "behaviour, stack depth are covered only by the worker runs. The allocation bound is proved for both layouts (alloc_bounded) and checked by the oracle's counting allocator. 64-bit usize assumed.",
        "technique": "Lean 4 proof (explicit-index model, panic outcome unreachable) + correspondence on mutated files + worker-process oracle",
        "partial_note": "post-header code paths and runtime (allocator, stack) are outside the theorems",
        "rule": "corpus of 32 generated files (15 type/depth pairs x interlaced/not with gAMA/bKGD/tEXt/iCCP/caBX, 2 APNGs) x mutations: single-bit flips, byte sets, truncations (strided in quick), "
                "chunk deletion/duplication/swap, payload-length edits with fixed-up CRC, IHDR field edits (zero/huge dimensions, every depth/colour-type/interlace code), fcTL/acTL/iCCP/caBX/PLTE/tRNS edits, "
                "x fix_errors x strip policy; distinct = distinct mutated byte strings; one case in twelve also through the executable (file or standard input): exit status 0 / 1 / 3, never a signal, within 60 s",
    },
    "C11": {
        "lean": ["OxiModel.Props.C11"],
        "streams": [{"name": "corr-raw", "quick": 4000, "thorough": 80000}],
        "oracles": [{"name": "oracle-c11", "quick": 2500, "thorough": 40000}],
        "claim": "Lean 4 theorems: RawImage::new accepts exactly the tuples with a depth legal for the colour type, non-zero dimensions, a palette of 1..2^depth entries, a non-overflowing size and "
                 "data length = row bytes x height; illegal depth, wrong length and zero dimensions are rejected whatever the rest; accepted data has exactly the length of the specification's scan lines. "
                 "The decision is compared with the code on consistent and inconsistent tuples (incl. u32::MAX dimensions); whatever is accepted is encoded by the real create_optimized_png and must be "
                 "panic-free and well-formed; the oracle compares the decoded PNG with the given samples (C01 / C03 relation), validates it (C02) and checks attached chunks and ICC profile against the strip policy.",
        "note": "Pixel fidelity of create_optimized_png is the C01/C03 pipeline with parsing replaced by the identity: covered by the oracle plus the shared reduction streams. "
                "Pixel indices beyond the palette have no defined meaning and are not generated.",
        "technique": "Lean 4 proof (decision logic) + correspondence + e2e oracle",
        "rule": "argument tuples over all colour types x depths (legal or not) x zero/huge/normal dimensions x palette sizes {0,1,2^d+1,300,valid} x data lengths {exact,-1,+1,random}; "
                "oracle: generated grids of the 15 legal pairs with attached tEXt/pHYs/private chunks and ICC profiles x generated options; distinct = distinct requests / (image, options); oracle: attached tEXt / pHYs / private chunks, bKGD / hIST / sBIT (format-bound), sRGB, ICC profiles; one case in twenty an indexed image with a pass-isolated colour written interlaced at presets 3 / 4",
    },
    "C06": {
        "needs_binary": True,
        "lean": ["OxiModel.Props.C06"],
        "streams": [{"name": "corr-eval", "quick": 400, "thorough": 6000}],
        "oracles": [{"name": "oracle-determinism", "quick": 250, "thorough": 4000}],
        "extra": ["nopar_outputs"],
        "claim": "Lean 4 theorem by induction over executions of the evaluator protocol (read bound / finish+publish+lower / prune) for every interleaving: the collector's "
                 "minimum is the cmp_key-minimum of the trials admitted by the initial bound; two complete runs agree; sequential fold = min_by_key; arrival order irrelevant; "
                 "executions are finite; frames_schedule_independent: the parallel frame recompression (try_for_each) returns an error exactly when some frame does not decode and otherwise every frame's own result, whichever frames the workers reached first. Real histories (taps on AtomicMin get/set_min under an operation lock, 1..16 threads, injected delays) are replayed against the model; "
                 "outputs are compared byte for byte across pool sizes, nesting, timing and the build without the parallel feature.",
        "note": "Partial in the brief's sense: the proof covers the protocol's logic for all interleavings of its atomic steps; rayon's scheduler, the atomics' implementation (R1) and "
                "the compressors being functions whose success depends only on output size (D2, D3; exercised on every logged trial) are contracts, not theorems.",
        "technique": "Lean 4 proof (invariant over a transition system, all interleavings) + event-history replay",
        "partial_note": "runtime part (rayon, atomics, libdeflate/zopfli determinism) is assumed as contracts R1, D2, D3 and exercised, not proved",
        "rule": "generated images x options x pool size in {1,2,3,4,8,16} x delay injection; one history per evaluator instance; tie images (1..3 px, uniform) so that "
                "tie-breaks decide; distinct = distinct history lines / (input, options) pairs; the executable over file sets (with a skipped and an undecodable file) under --threads 1 / 2 / 4 / 16, directories compared",
    },
    "C16": {
        "lean": ["OxiModel.Props.C16"],
        "streams": [{"name": "corr-sched", "quick": 80, "thorough": 1200}],
        "oracles": [],
        "claim": "Lean 4 theorems about the evaluator's spawn / yield / collect protocol as a transition system (jobs queued in the spawner's queue, started by the collector's yield_local or stolen by other "
                 "workers at any time, each holding a channel sender until it finishes): PROGRESS - every reachable state that has not returned has an enabled step; a pool of ONE thread cannot deadlock - with "
                 "all steal steps removed the collecting worker still always has a step (the spin loop runs its queued jobs; the blocking receive is entered only when nothing is left), while blocking with "
                 "a job still queued is proved to be a stuck state (what `executed == nth` rules out); TERMINATION - every step after collection began strictly decreases 2*queued + running + phase rank, for "
                 "every interleaving of thieves; when collection returns every job has finished (no candidate lost, nothing left in the pool). Real runs (pool sizes 1..16, 1..64 concurrent images, calls "
                 "from a pool worker / nested par_iter / plain threads on the global pool / a plain thread, injected delays at the schedule points) are logged through the taps and every evaluator's event "
                 "sequence must be an execution of the model ending in `returned`, and the whole log must be an execution of the nested fork-join system with nothing left unfinished; a third of the cases run "
                 "against an expiring deadline; a watchdog turns 90 s without progress into a failing history; the pool is reused after every case.",
        "note": "NESTED COMPOSITION proved (OxiModel/Nested.lean + NestedProofs.lean): for ANY forest of image tasks (collectors: run their own queue only while waiting), evaluation jobs (forkers: may steal "
                "while waiting) and pure trials, any number of workers and any distribution / stealing pattern, with waiting jobs stacked on the workers - nested_progress (some step is always enabled while a "
                "job is unfinished; found on the job that started last, by eight invariants incl. 'a started child is younger than its parent' and 'a queued child sits in its parent's worker's queue'), "
                "nested_progress_without_stealing (hence a pool of one thread cannot deadlock, nested calls included), nested_termination (measure < 3 x jobs). Every real run's WHOLE event log (all "
                "evaluators, jobs and trials with their threads) is replayed as one execution of that system: stack discipline per thread, no stealing by a collector, nothing finishes before its children. "
                "Still assumed (R1): rayon's sleep/wake protocol and deque implementation, OS scheduling fairness, callers that are not pool workers rely on idle workers taking injected jobs; the CPU "
                "burn of the spin loop is not a subject of the theorems.",
        "technique": "Lean 4 proof (progress + variant over a transition system, all interleavings) + event-log replay under many pool shapes with a watchdog",
        "partial_note": "rayon internals, OS fairness and non-pool callers are assumed (R1) and exercised, not proved",
        "rule": "pool size in {1,1,2,3,4,8,16} x images in {1,2,3,5,8,17,64} x call site in {pool worker, nested par_iter, plain threads on the global pool, plain thread} x delay in {0,100,800}us; "
                "one log per evaluator instance; distinct = distinct logs",
    },
    "C17": {
        "lean": ["OxiModel.Props.C17"],
        "streams": [{"name": "corr-eval", "quick": 400, "thorough": 6000}],
        "oracles": [],
        "claim": "Lean 4 theorems about min_by_key over cmp_key: the selected candidate is a completed trial, no completed trial has a smaller key, ties follow the fixed rule "
                 "(size, raw length, filter, later submission), the choice is a function of the set of completed trials (arrival order irrelevant). The implementation's "
                 "winner (tap on every get_best_candidate call site and on the final acceptance) is compared with the model's on replayed real histories, incl. tie images. "
                 "The fast path's hand-over between its two evaluators is modelled too (`handoff`): theorem handoff_minimal - what goes on is the result in hand or a completed trial of the second "
                 "evaluator and nothing of either kind has a smaller key; every fast-path history is replayed through it, and the rule is also evaluated directly on each history "
                 "(winner-not-rule-minimum, handoff-lost-*). This is where the repaired defect 1734855 showed.",
        "note": "The published set and winner come from the taps; the emitted IDAT being the winner's is checked through the Final event and the e2e oracles of C01/C02.",
        "technique": "Lean 4 proof (order theory on cmp_key) + event-history replay",
        "rule": "as C06: one history per evaluator instance; distinct = distinct history lines",
    },
    "C18": {
        "lean": ["OxiModel.Props.C18", "OxiModel.Props.C18Roundtrip", "OxiModel.Props.C18Reverse", "OxiModel.Props.C18ReverseBits"],
        "streams": [{"name": "corr-geom", "quick": 60, "thorough": 600}],
        "oracles": [{"name": "oracle-geom-e2e", "quick": 1, "thorough": 1}],
        "claim": "Lean 4 theorems for ALL w>=1, h>=1, bpp>=1 (no bound): the scan-line iterator run over data of the header-implied size yields exactly the specification's rows "
                 "(pass by pass: Spec.passDims rows of ceil(width*bpp/8) bytes, pass number, pixel count, empty passes omitted) in both layouts with or without filter bytes - by an invariant "
                 "on the iterator state, the small-image skip conditions shown equal to 'pass empty', and induction on the rows left in a pass; raw_data_size equals the total length of those rows; "
                 "closed forms of the seven pass sizes; the pass areas partition the image. The iterator, raw_data_size, interlace_image and deinterlace_image are modelled literally and compared "
                 "with the code on every (w,h) up to 24x24 (thorough 72x72) for the legal type/depth pairs, on position-labelled images, in both directions, plus malformed lengths; "
                 "the stream also compares the code directly with the harness's own specification-derived geometry and pixel placement.",
        "note": "Proved: iterator = specification rows, sizes, closed forms, area partition; PLACEMENT tables: passOf_is_spec (interlace_image sends each of the 64 residues of (row, column) mod 8 to the first "
                "pass of the specification's table whose lattice contains it) with lattice_mod8 (a pixel's pass depends only on the residues, all x, y), interlacedConstants_is_spec (deinterlace_image uses the "
                "table's shifts and steps), incrementPass_is_spec (for every w, h >= 1 the next pass is the next non-empty one of the specification, or the end), pixel_in_exactly_its_pass and "
                "adam7Order_each_once (for all sizes every pixel position occurs exactly once in the Adam7 storage order, in the pass interlace_image picks). interlace_is_spec_bytes: for pixels of whole bytes (8/16-bit samples) and every size, interlace_image writes pass after pass, row "
                "after row, exactly the pixels on the pass's lattice, whole and in order (block-filter lemma over the bit stream, bytesOfBits∘bitsOf = id). interlace_row_pixels: at ANY bit depth the bits a row contributes to a pass are its pixels on the "
                "lattice, whole and in order, padding never selected. ROUND TRIP (Props/C18Roundtrip.lean): deinterlace_interlace_bytes - for every width, height >= 1, every colour type and every pixel of a whole "
                "number of bytes, deinterlace_image(interlace_image(i)) = i (header and every data byte, neither function panicking), proved by running the de-interlacing state machine (deStep = the loop of "
                "deinterlace_bytes with increment_pass and the constants table, modelled literally) over the lines the scan-line iterator cuts from the interlaced data: invariant 'the working lines agree with the "
                "original wherever something was written' (every write puts the original's value: scatter_agrees), one pass = induction over its rows (run_pass_rows), the chain over passes by strong induction with "
                "increment_pass = next non-empty pass (run_from_pass), every position written by the pass of its pixel (all_covered), and interlace_image's output shown to be exactly those lines (interlaceData_eq). "
                "deinterlace_interlace_bits: the same for pixels below 8 bits (deinterlace_bits: the machine is generic in the unit - byte or bit -, the line encoder and the units reader; bit_units_roundtrip shows the "
                "u32 subtraction never underflows on a pass that has pixels and that the reader cuts the padding off) - every row's pixels come back unchanged (returned_row_pixels) and the unused bits after a row's last "
                "pixel come back as zero, so the image comes back byte for byte whenever its padding bits were zero (deinterlace_interlace_bits_exact). "
                "interlace_places_pixels / interlace_stored_pixels: the interlaced data is, position by position along the specification's Adam7 storage order, the original's pixel at those coordinates (whole image, byte pixels). "
                "THE OTHER ORDER (Props/C18Reverse.lean and Props/C18ReverseBits.lean, the only files importing Mathlib: Mathlib.Data.Fintype.Card/.Vector, Mathlib.Data.List.Nodup): interlace_deinterlace_bytes - for ANY interlaced data of the header-implied size (byte pixels, all "
                "w, h >= 1) deinterlace_image succeeds and interlace_image of its result is the image started from: interlace_image restricted to one header is an injective self-map (left inverse: the round trip) of the byte "
                "strings of one length (dataSize_bytes: the pass areas partition the image), hence onto. interlace_deinterlace_bits (+ _exact): the same below 8 bits per pixel for ANY interlaced data of the header-implied size - "
                "deinterlace_image succeeds and interlace_image of its result is the image started from, scan line by scan line, with the unused bits after each line's last pixel cleared (byte for byte when they were zero): "
                "the map rows -> pixels of all pass lines is an injective self-map of the bit strings of length h*w*bpp (units_onto; left inverse: the de-interlacing machine), hence onto, so the pixels of arbitrary interlaced data "
                "are the pass-line pixels of some rows R; the machine, generalised to arbitrary lines (machine_rebuilds_rowsL: it reads nothing of a line but its pixels, bitUnitsOf_eq), rebuilds R from them; interlacing R packs "
                "the same pixels again. With this every clause of C18 is a theorem for every width, height >= 1 and every pixel size. "
                "Trusted: Lean kernel, correspondence tie (tested), harness reference geometry.",
        "technique": "Lean 4 proof (omega over unbounded sizes) + exhaustive-to-bound model/implementation correspondence",
        "rule": "all (w,h) in 1..24 (thorough 1..72) x legal colour-type/depth pairs x interlaced/not x with/without filter byte, plus sparse large sizes and "
                "malformed data lengths; interlace/deinterlace on position-labelled images for all (w,h) in 1..12 (thorough 1..40) plus random sizes up to 72; "
                "distinct = distinct request lines; oracle-geom-e2e: the layout change through optimize_from_memory for every size to 9x9 (20x20) x 14 type / depth pairs x both directions",
    },
    "C19": {
        "lean": ["OxiModel.Props.C19"],
        "streams": [{"name": "corr-filters", "quick": 3000, "thorough": 60000},
                    {"name": "oracle-c19", "quick": 2000, "thorough": 40000}],
        "oracles": [],
        "claim": "Lean 4 theorems: generic decode(encode) round trip for every predictor (induction along the line), each filter_line/unfilter_line arm identified with the "
                 "specification's filter/reconstruction for all bpp>=1 and all rows, Paeth = spec on all triples, only legal filter bytes; IMAGE LEVEL: for ANY per-row choice of filter "
                 "types 0..4 (hence all ten strategies: the delta strategies with their first-row fallback, the heuristics with whatever they pick) row-wise filtering followed by the "
                 "specification's reconstruction (prior row reset per pass) returns the rows (induction over rows); the stream a standard strategy writes is the serialisation of such rows; "
                 "unfilter_image is the specification's reconstruction. Tied to the code by exact streams: filter_line/unfilter_line, all 2^24 Paeth triples, filter_image for the five delta "
                 "strategies byte for byte, and for the five heuristics with the per-row choice read back from the output (must be a choice the model allows and give the same bytes); the same "
                 "stream reconstructs every output with reference code written from the specification.",
        "note": "Lean kernel + propext/Quot.sound; model-code tie is tested (streams), not proved. Which filter a heuristic picks is deliberately not modelled (free to change).",
        "technique": "Lean 4 proof (induction along the scan line) + model/implementation correspondence check",
        "rule": "filter_line/unfilter_line on random and structured rows (zeros, 0xFF, ramps, few values) for bpp in {1,2,3,4,6,8}, "
                "a malformed stream violating the length asserts, Paeth on all 2^24 triples as a digest; oracle: filter_image for the ten "
                "strategies on generated images of the 15 legal type/depth pairs, interlaced or not, reconstructed by reference code written "
                "from the specification; distinct = distinct FNV-64 digests of (filter, bpp, row bytes) / (strategy, header, data)",
    },
}

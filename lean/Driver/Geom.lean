import Driver.Util
import OxiModel.ScanLines
import OxiModel.Interlace
open OxiModel
namespace Driver

def showLines (ls : List (Nat × Option Nat × Nat)) : String :=
  if ls.isEmpty then "-" else
  ",".intercalate (ls.map fun (len, pass, px) => s!"{len}:{showOptNat pass}:{px}")

def chanOfCode (ct : Nat) : Nat :=
  match ct with | 0 => 1 | 3 => 1 | 4 => 2 | 2 => 3 | 6 => 4 | _ => 0

def handleGeom (args : List String) : Option String :=
  match args with
  | ["scan_lines", w, h, ct, d, il, hf, len] => some <|
    match natArg w, natArg h, natArg ct, natArg d, natArg il, natArg hf, natArg len with
    | some w, some h, some ct, some d, some il, some hf, some len =>
      match scanLines w h (d * chanOfCode ct) (il = 1) (hf = 1) len with
      | some ls => "ok " ++ showLines ls
      | none => "panic"
    | _, _, _, _, _, _, _ => "bad-args"
  | ["spec_lines", w, h, ct, d, il, hf] => some <|
    match natArg w, natArg h, natArg ct, natArg d, natArg il, natArg hf with
    | some w, some h, some ct, some d, some il, some hf =>
      "ok " ++ showLines (Spec.lineLens w h (d * chanOfCode ct) (il = 1) (hf = 1))
    | _, _, _, _, _, _ => "bad-args"
  | ["raw_data_size", w, h, ct, d, il] => some <|
    match natArg w, natArg h, natArg ct, natArg d, natArg il with
    | some w, some h, some ct, some d, some il =>
      "ok " ++ toString (rawDataSize w h (d * chanOfCode ct) (il = 1))
    | _, _, _, _, _ => "bad-args"
  | "interlace" :: rest => some <|
    match parseImg rest with
    | some img => (match interlaceData img with | some d => "ok " ++ toHex d | none => "panic")
    | none => "bad-args"
  | "deinterlace" :: rest => some <|
    match parseImg rest with
    | some img => (match deinterlaceData img with | some d => "ok " ++ toHex d | none => "panic")
    | none => "bad-args"
  | _ => none

end Driver

import Driver.Util
import OxiModel.Filters
import OxiModel.FilterImage
open OxiModel
namespace Driver

def paethDigest (lo hi : Nat) : UInt64 := Id.run do
  let mut h : UInt64 := fnvInit
  for a in [lo:hi] do
    for b in [0:256] do
      for c in [0:256] do
        h := fnv h (paeth (UInt8.ofNat a) (UInt8.ofNat b) (UInt8.ofNat c))
  return h

def handleFilters (args : List String) : Option String :=
  match args with
  | ["filter_line", ft, bpp, d, p] => some <|
    match natArg ft, natArg bpp, ofHex d, ofHex p with
    | some ft, some bpp, some d, some p =>
      match filterLine ft bpp d p with
      | some out => "ok " ++ toHex out
      | none => "panic"
    | _, _, _, _ => "bad-args"
  | ["unfilter_line", ft, bpp, d, p] => some <|
    match natArg ft, natArg bpp, ofHex d, ofHex p with
    | some ft, some bpp, some d, some p =>
      match unfilterLine ft bpp d p with
      | some (some out) => "ok " ++ toHex out
      | some none => "err"
      | none => "panic"
    | _, _, _, _ => "bad-args"
  | ["filter_line_alpha", ft, bpp, d, p, ab] => some <|
    match natArg ft, natArg bpp, ofHex d, ofHex p, natArg ab with
    | some ft, some bpp, some d, some p, some ab =>
      match filterLineAlpha ft bpp d p ab with
      | some (d', out) => "ok " ++ toHex d' ++ " " ++ toHex out
      | none => "panic"
    | _, _, _, _, _ => "bad-args"
  | "unfilter_image" :: rest => some <|
    match parseImg rest with
    | none => "bad-args"
    | some img =>
      match unfilterImage img with
      | some (some d) => "ok " ++ toHex d
      | some none => "err"
      | none => "panic"
  | "filter_image_alpha" :: how :: rest => some <|
    match parseImg rest, how.toNat? with
    | some img, some s =>
      (match filterImageStdAlpha img s with
       | some (out, _) => "ok " ++ toHex out
       | none => "panic")
    | _, _ => "bad-args"
  | "filter_image" :: how :: rest => some <|
    match parseImg rest with
    | none => "bad-args"
    | some img =>
      match img.scanLines false with
      | none => "panic"
      | some lines =>
        if how.startsWith "c:" then
          match ((how.drop 2).toString.splitOn ",").mapM String.toNat? with
          | some fts => (match filterLinesChoice img.bppBytes lines fts none [] [] with
                         | some out => "ok " ++ toHex out
                         | none => "illegal-choice")
          | none => "bad-args"
        else match how.toNat? with
          | some s => (match filterLinesStd s img.bppBytes lines none [] [] with
                       | some out => "ok " ++ toHex out
                       | none => "panic")
          | none => "bad-args"
  | ["spec_recon", ft, bpp, d, p] => some <|
    match natArg ft, natArg bpp, ofHex d, ofHex p with
    | some ft, some bpp, some d, some p =>
      match Spec.recon ft bpp d p with
      | some out => "ok " ++ toHex out
      | none => "err"
    | _, _, _, _ => "bad-args"
  | ["paeth_digest", lo, hi] => some <|
    match natArg lo, natArg hi with
    | some lo, some hi => "ok " ++ toString (paethDigest lo hi).toNat
    | _, _ => "bad-args"
  | ["paeth", a, b, c] => some <|
    match natArg a, natArg b, natArg c with
    | some a, some b, some c => "ok " ++ toString (paeth (UInt8.ofNat a) (UInt8.ofNat b) (UInt8.ofNat c)).toNat
    | _, _, _ => "bad-args"
  | _ => none

end Driver

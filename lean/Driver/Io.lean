import Driver.Util
import OxiModel.Io
open OxiModel
namespace Driver

def showCall : Call → String
  | .outDirExists => "outDirExists" | .mkdirOut => "mkdirOut" | .dirStat => "dirStat" | .statIn => "statIn"
  | .openIn => "openIn" | .readIn => "readIn" | .closeIn => "closeIn" | .createDest => "createDest"
  | .chmodDest => "chmodDest" | .writeDest => "writeDest" | .closeDest => "closeDest" | .utimeDest => "utimeDest"
  | .writeStdout => "writeStdout"

def parseCfg (route preserve input force : String) : Option IoCfg :=
  let r : Option Route := match route with
    | "inplace" => some .inPlace | "out" => some .out | "dir" => some .dir | "stdout" => some .stdout
    | "pretend" => some .pretend | "pretenddir" => some .pretend | _ => none
  let i : Option InputKind := match input with
    | "improvable" => some .improvable | "notimprovable" => some .notImprovable | "invalid" => some .invalid | _ => none
  match r, i with
  | some r, some i => some ⟨r, preserve == "1", i, force == "1", route == "pretenddir"⟩
  | _, _ => none

def handleIo (args : List String) : Option String :=
  match args with
  | ["io_program", route, preserve, input, force] => some <|
    match parseCfg route preserve input force with
    | some c => "ok " ++ ",".intercalate ((program c).map showCall) ++ s!" first_mutation={(readPhase c).length}"
    | none => "bad-args"
  | ["io_run", route, preserve, input, force, k, fault, "exitonly"] => some <|
    match parseCfg route preserve input force, k.toNat? with
    | some c, some k =>
      let f : Option Fault := if fault == "error" then some .error else if fault == "kill" then some .kill else none
      match f with
      | none => "bad-args"
      | some f =>
        let r := ioRun c (some (k, f))
        match r.exit with
        | some e => s!"ok exit={e}"
        | none => "ok exit=killed"
    | _, _ => "bad-args"
  | ["io_run", route, preserve, input, force, k, fault] => some <|
    match parseCfg route preserve input force, k.toNat? with
    | some c, some k =>
      let f : Option Fault := if fault == "error" then some .error else if fault == "kill" then some .kill else none
      match f with
      | none => "bad-args"
      | some f =>
        let r := ioRun c (some (k, f))
        let ex := match r.exit with | some e => toString e | none => "killed"
        let mutated := r.succeeded.any Call.mutating
        s!"ok exit={ex} mutated={if mutated then 1 else 0}"
    | _, _ => "bad-args"
  | _ => none

end Driver

import OxiModel.Basic
import OxiModel.Filters
/-
  oxidriver: line protocol over the executable model.
  One request per line: `<op> <arg> ...`; one answer line per request.
  Bytes travel as lowercase hex ("-" = empty).
-/
open OxiModel

namespace Driver

def natArg (s : String) : Option Nat := s.toNat?

/-- FNV-1a style 64-bit digest step (shared with the Rust harness). -/
def fnv (h : UInt64) (b : UInt8) : UInt64 := (h ^^^ b.toUInt64) * 1099511628211

def paethDigest (lo hi : Nat) : UInt64 := Id.run do
  let mut h : UInt64 := 14695981039346656037
  for a in [lo:hi] do
    for b in [0:256] do
      for c in [0:256] do
        h := fnv h (paeth (UInt8.ofNat a) (UInt8.ofNat b) (UInt8.ofNat c))
  return h

def handle (args : List String) : String :=
  match args with
  | ["filter_line", ft, bpp, d, p] =>
    match natArg ft, natArg bpp, ofHex d, ofHex p with
    | some ft, some bpp, some d, some p =>
      match filterLine ft bpp d p with
      | some out => "ok " ++ toHex out
      | none => "panic"
    | _, _, _, _ => "bad-args"
  | ["unfilter_line", ft, bpp, d, p] =>
    match natArg ft, natArg bpp, ofHex d, ofHex p with
    | some ft, some bpp, some d, some p =>
      match unfilterLine ft bpp d p with
      | some (some out) => "ok " ++ toHex out
      | some none => "err"
      | none => "panic"
    | _, _, _, _ => "bad-args"
  | ["spec_recon", ft, bpp, d, p] =>
    match natArg ft, natArg bpp, ofHex d, ofHex p with
    | some ft, some bpp, some d, some p =>
      match Spec.recon ft bpp d p with
      | some out => "ok " ++ toHex out
      | none => "err"
    | _, _, _, _ => "bad-args"
  | ["paeth_digest", lo, hi] =>
    match natArg lo, natArg hi with
    | some lo, some hi => "ok " ++ toString (paethDigest lo hi).toNat
    | _, _ => "bad-args"
  | ["paeth", a, b, c] =>
    match natArg a, natArg b, natArg c with
    | some a, some b, some c => "ok " ++ toString (paeth (UInt8.ofNat a) (UInt8.ofNat b) (UInt8.ofNat c)).toNat
    | _, _, _ => "bad-args"
  | _ => "bad-op"

partial def loop (hin : IO.FS.Stream) (hout : IO.FS.Stream) : IO Unit := do
  let line ← hin.getLine
  if line.isEmpty then return ()
  let args := (line.trimAscii.toString.splitOn " ").filter (· ≠ "")
  hout.putStrLn (handle args)
  loop hin hout

end Driver

def main : IO Unit := do
  let hin ← IO.getStdin
  let hout ← IO.getStdout
  Driver.loop hin hout

import Driver.Filters
import Driver.Geom
import Driver.Eval
import Driver.Decision
import Driver.Reduce
import Driver.Lineage
import Driver.Front
import Driver.Meta
import Driver.Cli
import Driver.Io
import Driver.Sched
/-
  oxidriver: line protocol over the executable model.
  One request per line: `<op> <arg> ...`; one answer line per request.
  Bytes travel as lowercase hex ("-" = empty).
-/
namespace Driver

def handlers : List (List String → Option String) := [handleFilters, handleGeom, handleEval, handleDecision, handleReduce, handleLineage, handleFront, handleMeta, handleCli, handleIo, handleSched]

def handle (args : List String) : String :=
  match handlers.findSome? (fun h => h args) with
  | some r => r
  | none => "bad-op"

partial def loop (hin : IO.FS.Stream) (hout : IO.FS.Stream) : IO Unit := do
  let line ← hin.getLine
  if line.isEmpty then return ()
  let args := (line.trimAscii.toString.splitOn " ").filter (· ≠ "")
  hout.putStrLn (handle args)
  loop hin hout

end Driver

def main : IO Unit := do
  let hin ← IO.getStdin
  let hout ← IO.getStdout
  Driver.loop hin hout

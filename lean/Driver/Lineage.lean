import Driver.Util
import OxiModel.Pipeline
open OxiModel
namespace Driver

/-- `<bd><ct><pal><gray><alpha><scale16>` as 0/1 characters followed by the interlace request `k|0|1` -/
def parseSwitches (s : String) : Option Switches :=
  match s.toList with
  | [b, c, p, g, a, sc, il] =>
    let bit (ch : Char) := ch == '1'
    let ilv : Option (Option Bool) :=
      if il == 'k' then some none else if il == '0' then some (some false) else if il == '1' then some (some true) else none
    ilv.map fun il => ⟨bit b, bit c, bit p, bit g, il, bit a, bit sc⟩
  | _ => none

def chunk8 : List String → List (List String)
  | a :: b :: c :: d :: e :: f :: g :: h :: rest => [a, b, c, d, e, f, g, h] :: chunk8 rest
  | _ => []

def handleLineage (args : List String) : Option String :=
  match args with
  | "lineage" :: sw :: depth :: rest => some <|
    match parseSwitches sw, depth.toNat?, (chunk8 rest).mapM parseImg with
    | some sw, some depth, some (start :: observed) =>
      let cl := closure sw start depth
      let cln := cl.map (normFor sw)
      let bits := observed.map fun o =>
        if cl.contains o || cln.contains (normFor sw o) then '1' else '0'
      s!"ok {String.ofList bits}"
    | _, _, _ => "bad-args"
  | _ => none

end Driver

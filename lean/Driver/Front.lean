import Driver.Util
import OxiModel.Front
import OxiModel.RawApi
open OxiModel
namespace Driver

def digest (bs : Bytes) : String := toString (bs.foldl fnv fnvInit).toNat

def parseStrip (s : String) : Option StripChunks :=
  let names (l : String) : List Bytes := (l.splitOn ",").filter (· ≠ "") |>.map nm
  if s == "none" then some .none
  else if s == "safe" then some .safe
  else if s == "all" then some .all
  else if s.startsWith "strip:" then some (.strip (names (s.drop 6).toString))
  else if s.startsWith "keep:" then some (.keep (names (s.drop 5).toString))
  else none

def showErr : ParseErr → String
  | .truncated => "truncated" | .notPng => "notPng" | .crcMismatch => "crcMismatch"
  | .apngOutOfOrder => "apngOutOfOrder" | .c2pa => "c2pa" | .chunkMissing => "chunkMissing"
  | .badHeader => "badHeader" | .invalidData => "invalidData" | .panic => "panic"

def showName (n : Bytes) : String := String.ofList (n.map fun b => Char.ofNat b.toNat)

def showFrame (f : Frame) : String :=
  s!"{f.width}:{f.height}:{f.xOffset}:{f.yOffset}:{f.delayNum}:{f.delayDen}:{f.disposeOp.toNat}:{f.blendOp.toNat}:{digest f.data}"

def showParsed (p : Parsed) : String :=
  let i := p.img
  let (pal, trns) : Bytes × Bytes := match i.ihdr.ct with
    | .gray (some t) => ([], be16 t)
    | .rgb (some (r, g, b)) => ([], be16 r ++ be16 g ++ be16 b)
    | .indexed pl => (bytesOfRgba pl, [])
    | _ => ([], [])
  let aux := ",".intercalate (p.aux.map fun c => s!"{toHex c.name}:{digest c.data}")
  let frames := ",".intercalate (p.frames.map showFrame)
  s!"ok {i.ihdr.width} {i.ihdr.height} {i.ihdr.ct.code} {i.ihdr.depth} {if i.ihdr.interlaced then 1 else 0} pal={toHex pal} trns={toHex trns} data={digest i.data} idat={digest p.idat} aux=[{aux}] frames=[{frames}]"

def handleFront (args : List String) : Option String :=
  match args with
  | ["from_slice", strip, fix, file, infl] => some <|
    match parseStrip strip, ofHex file with
    | some st, some b =>
      let inflated : Option (Option Bytes) := if infl == "x" then some none else (ofHex infl).map some
      match inflated with
      | none => "bad-args"
      | some inflated =>
        match fromSlice st (fix == "1") b inflated with
        | .ok p => showParsed p
        | .error e => "err " ++ showErr e
    | _, _ => "bad-args"
  | ["crc32", d] => some <|
    match ofHex d with
    | some d => "ok " ++ toString (Spec.crc32 d)
    | none => "bad-args"
  | ["raw_new", w, h, ct, depth, pal, len] => some <|
    match w.toNat?, h.toNat?, ct.toNat?, depth.toNat?, len.toNat? with
    | some w, some h, some ct, some depth, some len =>
      let palLen : Nat := if pal == "-" then 0 else pal.toNat?.getD 0
      let cty : Option ColorType := match ct with
        | 0 => some (.gray none) | 2 => some (.rgb none)
        | 3 => some (.indexed (List.replicate palLen ⟨0, 0, 0, 255⟩))
        | 4 => some .grayAlpha | 6 => some .rgba | _ => none
      match cty with
      | some cty => if rawNewAccepts w h cty depth len then "ok" else "err"
      | none => "bad-args"
    | _, _, _, _, _ => "bad-args"
  | _ => none

end Driver

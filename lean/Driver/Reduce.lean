import Driver.Util
import OxiModel.Reductions
open OxiModel
namespace Driver

def showRes (r : Option Img) : String :=
  match r with
  | some i => "some " ++ showImg i
  | none => "none"

def applyReduction (op : String) (flags : List Nat) (img : Img) : Option String :=
  match op, flags with
  | "r16to8", [s] => some (showRes (reducedBitDepth16to8 img (s = 1)))
  | "r8orless", [] => some (showRes (reducedBitDepth8OrLess img))
  | "expand8", [] => some (showRes (expandedBitDepthTo8 img))
  | "rgb2gray", [] => some (showRes (reducedRgbToGrayscale img))
  | "toindexed", [g] => some (showRes (reducedToIndexed img (g = 1)))
  | "idx2ch", [g, a] => some (showRes (indexedToChannels img (g = 1) (a = 1)))
  | "cleanalpha", [] => some (showRes (cleanedAlphaChannel img))
  | "dropalpha", [a] => some (showRes (reducedAlphaChannel img (a = 1)))
  | "condense", [a] => some (showRes (reducedPalette img (a = 1)))
  | "sortluma", [] => some (showRes (sortedPalette img))
  | "reorder", remapping => some (match applyPaletteReorder img remapping with
      | none => "panic"
      | some r => showRes r)
  | "popular", remapping => some (match applyMostPopularColor img.data remapping with
      | none => "panic"
      | some r => "ok " ++ " ".intercalate (r.map toString))
  | _, _ => none

def handleReduce (args : List String) : Option String :=
  match args with
  | "reduce" :: op :: rest =>
    -- the image is the last 8 tokens, flags come before it
    let nflags := rest.length - 8
    let flags := (rest.take nflags).mapM String.toNat?
    match flags, parseImg (rest.drop nflags) with
    | some fl, some img => some ((applyReduction op fl img).getD "bad-op")
    | _, _ => some "bad-args"
  | ["scale_digest"] => some <| Id.run do
    let mut h : UInt64 := fnvInit
    for hi in [0:256] do
      for lo in [0:256] do
        h := fnv h (scaleSample (UInt8.ofNat hi) (UInt8.ofNat lo))
    return "ok " ++ toString h.toNat
  | _ => none

end Driver

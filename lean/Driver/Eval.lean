import Driver.Util
import OxiModel.Evaluate
open OxiModel
namespace Driver

def parseBound (s : String) : Option Bound :=
  if s == "-" then some none else s.toNat?.map some

def parseEvent (tok : String) : Option EvEvent :=
  match tok.splitOn ":" with
  | ["R", n, f, b] =>
    match n.toNat?, f.toNat?, parseBound b with
    | some n, some f, some b => some (.read n f b)
    | _, _, _ => none
  | ["F", n, f, idat, key, raw, ok] =>
    match n.toNat?, f.toNat?, idat.toNat?, key.toNat?, raw.toNat? with
    | some n, some f, some i, some k, some r => some (.finish ⟨n, f, i, k, r⟩ (ok == "1"))
    | _, _, _, _, _ => none
  | ["S", v] => v.toNat?.map .setBest
  | _ => none

def parsePrev (tok : String) : Option (Option Trial) :=
  if tok == "-" then some none else
  match tok.splitOn ":" with
  | ["P", n, f, est, raw] =>
    match n.toNat?, f.toNat?, est.toNat?, raw.toNat? with
    | some n, some f, some e, some r => some (some ⟨n, f, e, 0, r⟩)
    | _, _, _, _ => none
  | _ => none

def handleEval (args : List String) : Option String :=
  match args with
  | ["eval_handoff", b0, toks, prev] => some <|
    match parseBound b0, parsePrev prev with
    | some b0, some prev =>
      let evs := if toks == "-" then some [] else (toks.splitOn ";").mapM parseEvent
      match evs with
      | none => "bad-args"
      | some evs =>
        match replay b0 evs with
        | .error e => "err " ++ e
        | .ok (pub, _) =>
          let w := match handoff prev (minByKey pub) with
            | some t => s!"{t.nth}:{t.filter}:{t.est}"
            | none => "none"
          s!"ok result={w} pub={pub.length}"
    | _, _ => "bad-args"
  | ["eval_history", b0, toks] => some <|
    match parseBound b0 with
    | none => "bad-args"
    | some b0 =>
      let evs := if toks == "-" then some [] else (toks.splitOn ";").mapM parseEvent
      match evs with
      | none => "bad-args"
      | some evs =>
        match replay b0 evs with
        | .error e => "err " ++ e
        | .ok (pub, _) =>
          let w := match minByKey pub with
            | some t => s!"{t.nth}:{t.filter}"
            | none => "none"
          s!"ok winner={w} pub={pub.length}"
  | _ => none

end Driver

import Driver.Front
import Driver.Lineage
import OxiModel.Meta
open OxiModel
namespace Driver

/-- `name:hex,name:hex` with names as 8 hex digits -/
def parseChunkList (s : String) : Option (List Chunk) :=
  if s == "-" then some [] else
  (s.splitOn ",").mapM fun tok =>
    match tok.splitOn ":" with
    | [n, d] => match ofHex n, ofHex d with
      | some n, some d => some ⟨n, d⟩
      | _, _ => none
    | _ => none

def showChunkList (cs : List Chunk) : String :=
  if cs.isEmpty then "-" else ",".intercalate (cs.map fun c => s!"{toHex c.name}:{toHex c.data}")

def parseFrames (s : String) : Option (List Frame) :=
  if s == "-" then some [] else
  (s.splitOn ",").mapM fun tok =>
    match tok.splitOn ":" with
    | [w, h, x, y, dn, dd, dis, bl, d] =>
      match w.toNat?, h.toNat?, x.toNat?, y.toNat?, dn.toNat?, dd.toNat?, dis.toNat?, bl.toNat?, ofHex d with
      | some w, some h, some x, some y, some dn, some dd, some dis, some bl, some d =>
        some ⟨w, h, x, y, dn, dd, UInt8.ofNat dis, UInt8.ofNat bl, d⟩
      | _, _, _, _, _, _, _, _, _ => none
    | _ => none

def optHex (s : String) : Option (Option Bytes) :=
  if s == "x" then some none else (ofHex s).map some

def bit (s : String) : Bool := s == "1"

def handleMeta (args : List String) : Option String :=
  match args with
  | ["preprocess", strip, recode, gray, il, bd, ct, pal, icc, recomp, chunks] => some <|
    match parseStrip strip, optHex icc, optHex recomp, parseChunkList chunks with
    | some st, some icc, some recomp, some cs =>
      let ilv : Option Bool := if il == "k" then none else some (il == "1")
      let o : MetaOpts := ⟨st, bit recode, bit gray, ilv, bit bd, bit ct, bit pal⟩
      let (cs', o') := preprocessChunks cs o (fun _ => icc) (fun _ _ => recomp)
      let ils := match o'.interlace with | none => "k" | some true => "1" | some false => "0"
      s!"ok gray={if o'.grayscale then 1 else 0} il={ils} bd={if o'.bitDepth then 1 else 0} ct={if o'.colorType then 1 else 0} pal={if o'.palette then 1 else 0} {showChunkList cs'}"
    | _, _, _, _ => "bad-args"
  | "postprocess" :: chunks :: rest => some <|
    match parseChunkList chunks, (chunk8 rest).mapM parseImg with
    | some cs, some [new, orig] => "ok " ++ showChunkList (postprocessChunks cs new.ihdr orig.ihdr)
    | _, _ => "bad-args"
  | "output" :: idat :: aux :: frames :: rest => some <|
    match ofHex idat, parseChunkList aux, parseFrames frames, parseImg rest with
    | some idat, some aux, some frames, some img => "ok " ++ toHex (output ⟨img, idat, aux, frames⟩)
    | _, _, _, _ => "bad-args"
  | ["srgb_intent", icc] => some <|
    match ofHex icc with
    | some icc => (match srgbRenderingIntent icc with | some i => s!"ok {i.toNat}" | none => "ok none")
    | none => "bad-args"
  | ["is_c2pa", name, data] => some <|
    match ofHex name, ofHex data with
    | some n, some d => if isC2pa ⟨n, d⟩ then "ok 1" else "ok 0"
    | _, _ => "bad-args"
  | ["key_chunks_size", ct, pal, trns] => some <|
    match ct.toNat?, ofHex pal, ofHex trns with
    | some ct, some pal, some trns =>
      (match parseColorType ct pal trns with
       | some c => s!"ok {keyChunksSize c}"
       | none => "bad-args")
    | _, _, _ => "bad-args"
  | _ => none

end Driver

import Driver.Util
import OxiModel.Cli
open OxiModel
namespace Driver

def natList (s : String) : Option (List Nat) := (s.splitOn ",").mapM String.toNat?

def sortNat (l : List Nat) : List Nat := l.mergeSort (· ≤ ·)

def showNames (l : List Bytes) : String :=
  let strs := l.map fun b => String.ofList (b.map fun c => Char.ofNat c.toNat)
  ",".intercalate (strs.mergeSort (· ≤ ·))

def showCliOptions (o : CliOptions) : String :=
  let b (x : Bool) : String := if x then "1" else "0"
  let il := match o.interlace with | none => "keep" | some true => "1" | some false => "0"
  let strip := match o.strip with
    | .none => "none" | .safe => "safe" | .all => "all"
    | .strip l => "strip:" ++ showNames l
    | .keep l => "keep:" ++ showNames l
  let defl := match o.deflate with | .lib l => s!"zc{l}" | .zopfli i => s!"zopfli{i}"
  let filt := ",".intercalate ((sortNat o.filter).map toString)
  let tmo := match o.timeout with | none => "-" | some t => toString t
  s!"fix={b o.fixErrors} force={b o.force} filter=[{filt}] il={il} alpha={b o.optimizeAlpha} bd={b o.bitDepth} ct={b o.colorType} pal={b o.palette} gray={b o.grayscale} recode={b o.idatRecoding} scale16={b o.scale16} strip={strip} deflate={defl} fast={b o.fastEvaluation} timeout={tmo}"

def parseFlag (f : Flags) (tok : String) : Option Flags :=
  match tok.splitOn "=" with
  | ["o", v] => (if v == "max" then some 7 else v.toNat?).map fun n => { f with opt := some n }
  | ["f", v] => (natList v).map fun l => { f with filters := some l }
  | ["timeout", v] => v.toNat?.map fun n => { f with timeout := some n }
  | ["a"] => some { f with alpha := true }
  | ["scale16"] => some { f with scale16 := true }
  | ["fast"] => some { f with fast := true }
  | ["force"] => some { f with force := true }
  | ["fix"] => some { f with fix := true }
  | ["nb"] => some { f with nb := true }
  | ["nc"] => some { f with nc := true }
  | ["np"] => some { f with np := true }
  | ["ng"] => some { f with ng := true }
  | ["nx"] => some { f with nx := true }
  | ["nz"] => some { f with nz := true }
  | ["i", v] => if v == "keep" then some { f with interlace := some none }
                else v.toNat?.map fun n => { f with interlace := some (some (n = 1)) }
  | ["keep", v] => some { f with keep := some (v.splitOn ",") }
  | ["strip", v] => some { f with strip := some (if v == "safe" then .safe else if v == "all" then .all else .list (v.splitOn ",")) }
  | ["s"] => some { f with stripSafe := true }
  | ["Z"] => some { f with zopfli := true }
  | ["zi", v] => v.toNat?.map fun n => { f with zi := n }
  | ["zc", v] => v.toNat?.map fun n => { f with zc := some n }
  | _ => none

def handleCli (args : List String) : Option String :=
  match args with
  | "cli" :: toks => some <|
    match toks.foldlM parseFlag ({} : Flags) with
    | none => "bad-args"
    | some f => match cliToOptions f with
      | some o => "ok " ++ showCliOptions o
      | none => "err"
  | "exit_status" :: rs => some <|
    let parse (s : String) : Option RunResult :=
      if s == "ok" then some .ok else if s == "failed" then some .failed else if s == "skipped" then some .skipped else none
    match (rs.filter (· ≠ "-")).mapM parse with
    | some l => s!"ok {exitStatus l}"
    | none => "bad-args"
  | ["has_png_ext", n] => some (if hasPngExt n then "ok 1" else "ok 0")
  | ["cli_route", pretend, stdout, out, dir, preserve, name] => some <|
    let opt (s : String) : Option String := if s == "-" then none else some s
    let d : DestFlags := { pretend := pretend == "1", stdout := stdout == "1", out := opt out, dir := opt dir,
                           preserve := preserve == "1" }
    match fileOut d name with
    | .none => "ok none"
    | .stdout => "ok stdout"
    | .path p pr => s!"ok path {p.getD "-"} {if pr then 1 else 0}"
  | _ => none

end Driver

import Driver.Util
import OxiModel.Decision
open OxiModel
namespace Driver

def handleDecision (args : List String) : Option String :=
  match args with
  | ["is_fully_optimized", o, n, f] => some <|
    match natArg o, natArg n, natArg f with
    | some o, some n, some f => if isFullyOptimized o n (f = 1) then "ok 1" else "ok 0"
    | _, _, _ => "bad-args"
  | ["accepted", c, est, m] => some <|
    match natArg c, natArg est with
    | some c, some est =>
      let ms : Option (Option Nat) := if m == "-" then some none else m.toNat?.map some
      match ms with
      | some ms => if accepted (c = 1) est ms then "ok 1" else "ok 0"
      | none => "bad-args"
    | _, _ => "bad-args"
  | _ => none

end Driver

import Driver.Util
import OxiModel.Sched
open OxiModel
namespace Driver

def parseSchedEvent (tok : String) : Option SchedEvent :=
  match tok.splitOn ":" with
  | ["S"] => some .submit
  | ["C", n] => n.toNat?.map .collectStart
  | ["B", i, same] => i.toNat?.map fun i => .jobStart i (same == "1")
  | ["E", i] => i.toNat?.map .jobEnd
  | ["R"] => some .collectEnd
  | _ => none

def handleSched (args : List String) : Option String :=
  match args with
  | ["sched_log", inPool, toks] => some <|
    match (toks.splitOn ";").mapM parseSchedEvent with
    | none => "bad-args"
    | some evs =>
      match schedReplay (inPool == "1") evs with
      | .error e => "err " ++ e
      | .ok s => if s.phase = .returned then s!"ok returned jobs={s.jobs.length}" else "err not-returned"
  | _ => none

end Driver

import Driver.Util
import OxiModel.Sched
import OxiModel.Nested
open OxiModel
namespace Driver

def parseSchedEvent (tok : String) : Option SchedEvent :=
  match tok.splitOn ":" with
  | ["S"] => some .submit
  | ["C", n] => n.toNat?.map .collectStart
  | ["B", i, same] => i.toNat?.map fun i => .jobStart i (same == "1")
  | ["E", i] => i.toNat?.map .jobEnd
  | ["R"] => some .collectEnd
  | _ => none

def parseNestEvent (tok : String) : Option Nest.NEv :=
  match tok.splitOn ":" with
  | ["Q", j, p, k, w] =>
    let kind : Option Nest.Kind := if k == "c" then some .collector else if k == "f" then some .forker
                                    else if k == "p" then some .pure else none
    let parent : Option (Option Nat) := if p == "-" then some none else p.toNat?.map some
    match j.toNat?, parent, kind, w.toNat? with
    | some j, some p, some k, some w => some (.spawn j p k w)
    | _, _, _, _ => none
  | ["S", j, w] => (match j.toNat?, w.toNat? with | some j, some w => some (.start j w) | _, _ => none)
  | ["F", j, w] => (match j.toNat?, w.toNat? with | some j, some w => some (.finish j w) | _, _ => none)
  | _ => none

def handleSched (args : List String) : Option String :=
  match args with
  | ["nest_log", toks] => some <|
    match (toks.splitOn ";").mapM parseNestEvent with
    | none => "bad-args"
    | some evs =>
      match Nest.nestReplay evs with
      | .error e => "err " ++ e
      | .ok (js, _) =>
        let open_ := (js.filter fun r => r.st ≠ .finished).length
        s!"ok jobs={js.length} unfinished={open_}"
  | ["sched_log", inPool, toks] => some <|
    match (toks.splitOn ";").mapM parseSchedEvent with
    | none => "bad-args"
    | some evs =>
      match schedReplay (inPool == "1") evs with
      | .error e => "err " ++ e
      | .ok s => if s.phase = .returned then s!"ok returned jobs={s.jobs.length}" else "err not-returned"
  | _ => none

end Driver

import OxiModel.Basic
open OxiModel
namespace Driver

def natArg (s : String) : Option Nat := s.toNat?

/-- FNV-1a style 64-bit digest step (shared with the Rust harness). -/
def fnv (h : UInt64) (b : UInt8) : UInt64 := (h ^^^ b.toUInt64) * 1099511628211
def fnvInit : UInt64 := 14695981039346656037

def showOptNat : Option Nat → String
  | some n => toString n
  | none => "-"

end Driver

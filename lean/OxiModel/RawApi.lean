import OxiModel.Image
import OxiModel.ScanLines
/- `RawImage::new` argument validation (/repo/src/lib.rs:101-139, after the `fix:` commit). -/
namespace OxiModel

def rawValidDepth (ct : ColorType) (depth : Nat) : Bool :=
  match ct with
  | .gray _ => true
  | .indexed _ => decide (depth ≤ 8)
  | _ => decide (depth ≥ 8)

def rawPaletteOk (ct : ColorType) (depth : Nat) : Bool :=
  match ct with
  | .indexed p => decide (1 ≤ p.length ∧ p.length ≤ 2 ^ depth)
  | _ => true

def rawRowBytes (w : Nat) (ct : ColorType) (depth : Nat) : Nat := (depth * ct.channels * w + 7) / 8

/-- does `RawImage::new` return `Ok`? (`depth` is one of 1,2,4,8,16 by construction of `BitDepth`) -/
def rawNewAccepts (w h : Nat) (ct : ColorType) (depth dataLen : Nat) : Bool :=
  rawValidDepth ct depth && decide (w ≠ 0) && decide (h ≠ 0) && rawPaletteOk ct depth &&
  decide (rawRowBytes w ct depth * h < 2 ^ 64) && decide (dataLen = rawRowBytes w ct depth * h)

end OxiModel

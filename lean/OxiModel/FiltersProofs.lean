import OxiModel.Filters
/-
  Helper lemmas for C19: the generic round trip of the specification's delta filters, and the
  identification of each arm of the Rust `filter_line` / `unfilter_line` with the generic functions.
-/
namespace OxiModel
open Spec

theorem encode_length (p) (bpp : Nat) (cur prior : Bytes) :
    (encode p bpp cur prior).length = cur.length := by
  simp [encode]

theorem encode_getElem (p) (bpp : Nat) (cur prior : Bytes) (i : Nat) (h : i < cur.length) :
    (encode p bpp cur prior)[i]'(by simpa [encode_length] using h) =
      cur.getD i 0 - p (if bpp ≤ i then cur.getD (i - bpp) 0 else 0) (prior.getD i 0)
                       (if bpp ≤ i then prior.getD (i - bpp) 0 else 0) := by
  simp [encode]

theorem decodeAux_encode (p) (bpp : Nat) (hb : 0 < bpp) (cur prior : Bytes) :
    ∀ n k, k + n = cur.length →
      decodeAux p bpp prior (cur.take k) ((encode p bpp cur prior).drop k) = cur := by
  intro n
  induction n with
  | zero =>
    intro k hk
    have hk' : k = cur.length := by omega
    subst hk'
    rw [List.drop_eq_nil_of_le (by simp [encode_length])]
    simp [decodeAux]
  | succ n ih =>
    intro k hk
    have hlt : k < cur.length := by omega
    have hlt' : k < (encode p bpp cur prior).length := by simpa [encode_length] using hlt
    rw [List.drop_eq_getElem_cons hlt']
    simp only [decodeAux]
    have hlen : (cur.take k).length = k := by simp [List.length_take]; omega
    rw [hlen, encode_getElem p bpp cur prior k hlt]
    have hacc : (if bpp ≤ k then (cur.take k).getD (k - bpp) 0 else 0)
              = (if bpp ≤ k then cur.getD (k - bpp) 0 else 0) := by
      split
      · rename_i hle
        simp only [List.getD_eq_getElem?_getD]
        rw [List.getElem?_take]
        have : k - bpp < k := by omega
        simp [this]
      · rfl
    rw [hacc]
    have hcur : cur.getD k 0 = cur[k] := by
      simp [List.getD_eq_getElem?_getD, hlt]
    rw [hcur, UInt8.sub_add_cancel]
    have hnext : cur.take k ++ [cur[k]] = cur.take (k + 1) := by
      rw [List.take_succ_eq_append_getElem hlt]
    rw [hnext]
    exact ih (k + 1) (by omega)

/-- Generic round trip: reconstruction undoes filtering for **every** predictor. -/
theorem decode_encode (p) (bpp : Nat) (hb : 0 < bpp) (cur prior : Bytes) :
    decode p bpp (encode p bpp cur prior) prior = cur := by
  have := decodeAux_encode p bpp hb cur prior cur.length 0 (by omega)
  simpa [decode] using this

theorem decodeAux_length (p) (bpp : Nat) (prior : Bytes) :
    ∀ rest acc, (decodeAux p bpp prior acc rest).length = acc.length + rest.length := by
  intro rest
  induction rest with
  | nil => intro acc; simp [decodeAux]
  | cons x rest ih => intro acc; simp [decodeAux, ih]; omega

theorem decode_length (p) (bpp : Nat) (filt prior : Bytes) :
    (decode p bpp filt prior).length = filt.length := by
  simp [decode, decodeAux_length]

/-! ### Each arm of `filter_line` is the specification's filter -/

theorem paeth_eq_spec (a b c : UInt8) : paeth a b c = Spec.paeth a b c := rfl

theorem avg_zero_left (b : UInt8) : avg 0 b = b >>> 1 := by
  have h : (b >>> 1).toNat = b.toNat / 2 := by
    simp [UInt8.toNat_shiftRight]
    rfl
  apply UInt8.toNat_inj.mp
  rw [h]
  simp [avg]
  have := b.toNat_lt
  omega

theorem paeth_zero (b : UInt8) : paeth 0 b 0 = b := by
  simp only [paeth]
  have hb := b.toNat_lt
  simp only [UInt8.toNat_zero]
  split
  · rename_i h
    apply UInt8.toNat_inj.mp
    simp
    omega
  · split
    · rfl
    · rename_i h1 h2
      exfalso
      omega

/-- Each of the five arms of `filter_line` computes the specification's filter for its type. -/
theorem filterLineBody_eq_encode (ft bpp : Nat) (data prev : Bytes) (hft : ft ≤ 4) (hb : 0 < bpp)
    (hlen : bpp ≤ data.length) (heq : data.length = prev.length) :
    filterLineBody ft bpp data prev = some (encode (Spec.pred ft) bpp data prev) := by
  have hguard : ¬ (data.length < bpp ∨ data.length ≠ prev.length) := by omega
  unfold filterLineBody
  rw [if_neg hguard]
  have h5 : ft = 0 ∨ ft = 1 ∨ ft = 2 ∨ ft = 3 ∨ ft = 4 := by omega
  rcases h5 with h | h | h | h | h <;> subst h <;> simp only [Option.some.injEq]
  · -- None
    apply List.ext_getElem
    · simp [encode_length]
    · intro i h1 h2
      rw [encode_getElem _ _ _ _ _ h1]
      simp [Spec.pred, List.getD_eq_getElem?_getD, h1]
  · -- Sub
    apply List.ext_getElem
    · simp [encode_length]; omega
    · intro i h1 h2
      have hi : i < data.length := by simpa [encode_length] using h2
      rw [encode_getElem _ _ _ _ _ hi]
      simp only [Spec.pred]
      by_cases hle : bpp ≤ i
      · rw [List.getElem_append_right (by simp; omega)]
        simp [hle, List.getD_eq_getElem?_getD, hi]
        have h3 : bpp + (i - bpp) = i := by omega
        have h4 : i - bpp < data.length := by omega
        simp [h3, h4, Nat.min_eq_left hlen]
      · rw [List.getElem_append_left (by simp; omega)]
        simp [hle, List.getD_eq_getElem?_getD, hi]
  · -- Up
    apply List.ext_getElem
    · simp [encode_length]; omega
    · intro i h1 h2
      have hi : i < data.length := by simpa [encode_length] using h2
      have hp : i < prev.length := by omega
      rw [encode_getElem _ _ _ _ _ hi]
      simp [Spec.pred, List.getD_eq_getElem?_getD, hi, hp]
  · -- Average
    apply List.ext_getElem
    · simp [encode_length]
    · intro i h1 h2
      have hi : i < data.length := by simpa [encode_length] using h2
      rw [encode_getElem _ _ _ _ _ hi]
      simp only [Spec.pred, List.getElem_map, List.getElem_range]
      by_cases hle : bpp ≤ i
      · simp [hle, avg]
      · simp only [hle, if_false]
        rw [← avg_zero_left]
        simp [avg]
  · -- Paeth
    apply List.ext_getElem
    · simp [encode_length]
    · intro i h1 h2
      have hi : i < data.length := by simpa [encode_length] using h2
      rw [encode_getElem _ _ _ _ _ hi]
      simp only [Spec.pred, List.getElem_map, List.getElem_range]
      by_cases hle : bpp ≤ i
      · simp [hle, paeth_eq_spec]
      · simp only [hle, if_false]
        rw [← paeth_eq_spec, paeth_zero]

/-- Each arm of `unfilter_line` performs the specification's reconstruction step. -/
theorem unfilterStep_eq (ft bpp : Nat) (prev buf : Bytes) (cur : UInt8) (hft : ft ≤ 4)
    (hb : 0 < bpp) (hlt : buf.length < prev.length) :
    unfilterStep ft bpp prev buf cur =
      cur + Spec.pred ft (if bpp ≤ buf.length then buf.getD (buf.length - bpp) 0 else 0)
                         (prev.getD buf.length 0)
                         (if bpp ≤ buf.length then prev.getD (buf.length - bpp) 0 else 0) := by
  have h5 : ft = 0 ∨ ft = 1 ∨ ft = 2 ∨ ft = 3 ∨ ft = 4 := by omega
  rcases h5 with h | h | h | h | h <;> subst h
  · simp [unfilterStep, Spec.pred]
  · simp only [unfilterStep, Spec.pred]
    by_cases hle : bpp ≤ buf.length
    · have h1 : buf.length - bpp < buf.length := by omega
      simp [hle, h1, List.getD_eq_getElem?_getD]
    · simp [hle]
  · simp [unfilterStep, Spec.pred]
  · simp only [unfilterStep, Spec.pred]
    by_cases hle : bpp ≤ buf.length
    · have h1 : buf.length - bpp < buf.length := by omega
      simp [hle, h1, List.getD_eq_getElem?_getD, avg]
    · simp only [hle, if_false]
      rw [← avg_zero_left]
      simp [avg]
  · simp only [unfilterStep, Spec.pred]
    by_cases hle : bpp ≤ buf.length
    · have h1 : buf.length - bpp < buf.length := by omega
      have h2 : buf.length - bpp < prev.length := by omega
      simp [hle, h1, h2, List.getD_eq_getElem?_getD, paeth_eq_spec]
    · simp only [hle, if_false]
      rw [← paeth_eq_spec, paeth_zero]

theorem unfilterAux_eq_decodeAux (ft bpp : Nat) (prev : Bytes) (hft : ft ≤ 4) (hb : 0 < bpp) :
    ∀ rest buf, buf.length + rest.length ≤ prev.length →
      unfilterAux ft bpp prev buf rest = decodeAux (Spec.pred ft) bpp prev buf rest := by
  intro rest
  induction rest with
  | nil => intro buf _; simp [unfilterAux, decodeAux]
  | cons x rest ih =>
    intro buf hlen
    simp only [unfilterAux, decodeAux]
    have hlt : buf.length < prev.length := by simp at hlen; omega
    rw [unfilterStep_eq ft bpp prev buf x hft hb hlt]
    apply ih
    simp at hlen ⊢
    omega

/-- `unfilter_line` is the specification's reconstruction on its whole non-panicking domain. -/
theorem unfilterLine_eq_recon (ft bpp : Nat) (data prev : Bytes) (hb : 0 < bpp)
    (hlen : bpp ≤ data.length) (heq : data.length = prev.length) :
    unfilterLine ft bpp data prev = some (Spec.recon ft bpp data prev) := by
  have hguard : ¬ (data.length < bpp ∨ data.length ≠ prev.length) := by omega
  unfold unfilterLine Spec.recon
  rw [if_neg hguard]
  by_cases hft : ft ≤ 4
  · simp only [hft, if_true]
    rw [unfilterAux_eq_decodeAux ft bpp prev hft hb data [] (by simp; omega)]
    rfl
  · simp [hft]

end OxiModel

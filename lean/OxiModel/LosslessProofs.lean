import OxiModel.Spec.Decode
import OxiModel.ChunkLemmas
/-
  Helper lemmas for the image-level losslessness theorems of C01 (Props/C01.lean): how the stored
  pixels of a reduced image relate to the stored pixels of the image it was made from.
-/
namespace OxiModel.Spec
open OxiModel

/-! ### pairs16 -/

theorem pairs16_append : ∀ (k : Nat) (a b : Bytes), a.length = 2 * k →
    pairs16 (a ++ b) = pairs16 a ++ pairs16 b := by
  intro k
  induction k with
  | zero =>
    intro a b h
    have : a = [] := List.eq_nil_of_length_eq_zero (by omega)
    subst this
    simp [pairs16]
  | succ k ih =>
    intro a b h
    match a, h with
    | x :: y :: rest, h =>
      simp only [List.cons_append, pairs16]
      rw [ih rest b (by simp only [List.length_cons] at h; omega)]

theorem pairs16_length : ∀ (k : Nat) (a : Bytes), a.length = 2 * k → (pairs16 a).length = k := by
  intro k
  induction k with
  | zero =>
    intro a h
    have : a = [] := List.eq_nil_of_length_eq_zero (by omega)
    subst this
    simp [pairs16]
  | succ k ih =>
    intro a h
    match a, h with
    | x :: y :: rest, h =>
      simp only [pairs16, List.length_cons]
      rw [ih rest (by simp only [List.length_cons] at h; omega)]

theorem pairs16_flatten (c : Nat) (ps : List Bytes) (h : ∀ p ∈ ps, p.length = 2 * c) :
    pairs16 ps.flatten = (ps.map pairs16).flatten := by
  induction ps with
  | nil => simp [pairs16]
  | cons p ps ih =>
    simp only [List.flatten_cons, List.map_cons]
    rw [pairs16_append c p _ (h p List.mem_cons_self), ih (fun q hq => h q (List.mem_cons_of_mem _ hq))]

/-- the stored pixels after halving every sample are the halved stored pixels -/
theorem chunks_16to8 (f : UInt8 × UInt8 → UInt8) (data : Bytes) (c n : Nat) (hc : 0 < c)
    (hlen : data.length = n * (2 * c)) :
    chunksExact c ((pairs16 data).map f) =
      (chunksExact (2 * c) data).map (fun px => (pairs16 px).map f) ∧
    (∀ px ∈ chunksExact (2 * c) data, px.length = 2 * c ∧ ∀ p ∈ pairs16 px, p ∈ pairs16 data) := by
  obtain ⟨hfl, hall⟩ := flatten_chunksExact (2 * c) (by omega) n data hlen
  generalize hp : chunksExact (2 * c) data = pxs at hfl hall
  subst hfl
  constructor
  · rw [pairs16_flatten c pxs hall, List.map_flatten, List.map_map]
    apply chunksExact_flatten c hc
    intro q hq
    obtain ⟨px, hpx, rfl⟩ := List.mem_map.mp hq
    simp only [Function.comp, List.length_map]
    exact pairs16_length c px (hall px hpx)
  · intro px hpx
    refine ⟨hall px hpx, ?_⟩
    intro p hp'
    rw [pairs16_flatten c pxs hall]
    exact List.mem_flatten.mpr ⟨pairs16 px, List.mem_map.mpr ⟨px, hpx, rfl⟩, hp'⟩

/-! ### samples -/

theorem getD_map_zero (f : Nat → Nat) (hf : f 0 = 0) (s : List Nat) (k : Nat) :
    (s.map f).getD k 0 = f (s.getD k 0) := by
  simp only [List.getD_eq_getElem?_getD, List.getElem?_map]
  cases s[k]? <;> simp [hf]

theorem getD_toNat_lt (px : Bytes) (k : Nat) : (px.map (·.toNat)).getD k 0 < 256 := by
  simp only [List.getD_eq_getElem?_getD, List.getElem?_map]
  cases h : px[k]? with
  | none => simp
  | some b => simpa using b.toNat_lt

end OxiModel.Spec

import OxiModel.Spec.Decode
import OxiModel.ChunkLemmas
/-
  Helper lemmas for the image-level losslessness theorems of C01 (Props/C01.lean): how the stored
  pixels of a reduced image relate to the stored pixels of the image it was made from.
-/
namespace OxiModel.Spec
open OxiModel

/-! ### pairs16 -/

theorem pairs16_append : ∀ (k : Nat) (a b : Bytes), a.length = 2 * k →
    pairs16 (a ++ b) = pairs16 a ++ pairs16 b := by
  intro k
  induction k with
  | zero =>
    intro a b h
    have : a = [] := List.eq_nil_of_length_eq_zero (by omega)
    subst this
    simp [pairs16]
  | succ k ih =>
    intro a b h
    match a, h with
    | x :: y :: rest, h =>
      simp only [List.cons_append, pairs16]
      rw [ih rest b (by simp only [List.length_cons] at h; omega)]

theorem pairs16_length : ∀ (k : Nat) (a : Bytes), a.length = 2 * k → (pairs16 a).length = k := by
  intro k
  induction k with
  | zero =>
    intro a h
    have : a = [] := List.eq_nil_of_length_eq_zero (by omega)
    subst this
    simp [pairs16]
  | succ k ih =>
    intro a h
    match a, h with
    | x :: y :: rest, h =>
      simp only [pairs16, List.length_cons]
      rw [ih rest (by simp only [List.length_cons] at h; omega)]

theorem pairs16_flatten (c : Nat) (ps : List Bytes) (h : ∀ p ∈ ps, p.length = 2 * c) :
    pairs16 ps.flatten = (ps.map pairs16).flatten := by
  induction ps with
  | nil => simp [pairs16]
  | cons p ps ih =>
    simp only [List.flatten_cons, List.map_cons]
    rw [pairs16_append c p _ (h p List.mem_cons_self), ih (fun q hq => h q (List.mem_cons_of_mem _ hq))]

/-- the stored pixels after halving every sample are the halved stored pixels -/
theorem chunks_16to8 (f : UInt8 × UInt8 → UInt8) (data : Bytes) (c n : Nat) (hc : 0 < c)
    (hlen : data.length = n * (2 * c)) :
    chunksExact c ((pairs16 data).map f) =
      (chunksExact (2 * c) data).map (fun px => (pairs16 px).map f) ∧
    (∀ px ∈ chunksExact (2 * c) data, px.length = 2 * c ∧ ∀ p ∈ pairs16 px, p ∈ pairs16 data) := by
  obtain ⟨hfl, hall⟩ := flatten_chunksExact (2 * c) (by omega) n data hlen
  generalize hp : chunksExact (2 * c) data = pxs at hfl hall
  subst hfl
  constructor
  · rw [pairs16_flatten c pxs hall, List.map_flatten, List.map_map]
    apply chunksExact_flatten c hc
    intro q hq
    obtain ⟨px, hpx, rfl⟩ := List.mem_map.mp hq
    simp only [Function.comp, List.length_map]
    exact pairs16_length c px (hall px hpx)
  · intro px hpx
    refine ⟨hall px hpx, ?_⟩
    intro p hp'
    rw [pairs16_flatten c pxs hall]
    exact List.mem_flatten.mpr ⟨pairs16 px, List.mem_map.mpr ⟨px, hpx, rfl⟩, hp'⟩

/-! ### samples -/

theorem getD_map_zero (f : Nat → Nat) (hf : f 0 = 0) (s : List Nat) (k : Nat) :
    (s.map f).getD k 0 = f (s.getD k 0) := by
  simp only [List.getD_eq_getElem?_getD, List.getElem?_map]
  cases s[k]? <;> simp [hf]

theorem getD_toNat_lt (px : Bytes) (k : Nat) : (px.map (·.toNat)).getD k 0 < 256 := by
  simp only [List.getD_eq_getElem?_getD, List.getElem?_map]
  cases h : px[k]? with
  | none => simp
  | some b => simpa using b.toNat_lt

/-! ### taking lists of known length apart -/

theorem length_succ {α} (l : List α) (n : Nat) (h : l.length = n + 1) :
    ∃ a t, l = a :: t ∧ t.length = n := by
  cases l with
  | nil => simp at h
  | cons a t => exact ⟨a, t, rfl, by simpa using h⟩

theorem length_three {α} (l : List α) (h : l.length = 3) : ∃ a b c, l = [a, b, c] := by
  obtain ⟨a, t1, rfl, h1⟩ := length_succ l 2 h
  obtain ⟨b, t2, rfl, h2⟩ := length_succ t1 1 h1
  obtain ⟨c, t3, rfl, h3⟩ := length_succ t2 0 h2
  exact ⟨a, b, c, by rw [List.eq_nil_of_length_eq_zero h3]⟩

theorem length_four {α} (l : List α) (h : l.length = 4) : ∃ a b c d, l = [a, b, c, d] := by
  obtain ⟨a, t1, rfl, h1⟩ := length_succ l 3 h
  obtain ⟨b, c, d, rfl⟩ := length_three t1 h1
  exact ⟨a, b, c, d, rfl⟩

theorem length_two {α} (l : List α) (h : l.length = 2) : ∃ a b, l = [a, b] := by
  obtain ⟨a, t1, rfl, h1⟩ := length_succ l 1 h
  obtain ⟨b, t2, rfl, h2⟩ := length_succ t1 0 h1
  exact ⟨a, b, by rw [List.eq_nil_of_length_eq_zero h2]⟩

theorem length_six {α} (l : List α) (h : l.length = 6) : ∃ a b c d e f, l = [a, b, c, d, e, f] := by
  obtain ⟨a, t1, rfl, h1⟩ := length_succ l 5 h
  obtain ⟨b, t2, rfl, h2⟩ := length_succ t1 4 h1
  obtain ⟨c, d, e, f, rfl⟩ := length_four t2 h2
  exact ⟨a, b, c, d, e, f, rfl⟩

theorem length_eight {α} (l : List α) (h : l.length = 8) :
    ∃ a b c d e f g k, l = [a, b, c, d, e, f, g, k] := by
  obtain ⟨a, t1, rfl, h1⟩ := length_succ l 7 h
  obtain ⟨b, t2, rfl, h2⟩ := length_succ t1 6 h1
  obtain ⟨c, d, e, f, g, k, rfl⟩ := length_six t2 h2
  exact ⟨a, b, c, d, e, f, g, k, rfl⟩

/-- stored pixels of an image made by mapping every stored pixel to `m` bytes -/
theorem chunks_flatMap (f : Bytes → Bytes) (m : Nat) (hm : 0 < m) (pxs : List Bytes)
    (h : ∀ px ∈ pxs, (f px).length = m) : chunksExact m (pxs.flatMap f) = pxs.map f := by
  rw [List.flatMap_def]
  apply chunksExact_flatten m hm
  intro q hq
  obtain ⟨px, hpx, rfl⟩ := List.mem_map.mp hq
  exact h px hpx

/-! ### the first loop of `reduced_alpha_channel` without alpha optimisation -/

def opaqueStep (colored : Nat) (st : Bool × Bool × List UInt8) (px : Bytes) : Bool × Bool × List UInt8 :=
  if (!st.1) = true then st
  else if ((px.drop colored).any fun x => decide (x ≠ 255)) = true then (false, st.2.1, st.2.2) else st

theorem opaque_scan (colored : Nat) : ∀ (pxs : List Bytes) (st : Bool × Bool × List UInt8), st.2.1 = false →
    (pxs.foldl (opaqueStep colored) st).2.1 = false ∧
    ((pxs.foldl (opaqueStep colored) st).1 = true →
      ∀ px ∈ pxs, ((px.drop colored).any fun x => decide (x ≠ 255)) = false) := by
  intro pxs
  induction pxs with
  | nil => intro st h; simp [h]
  | cons px pxs ih =>
    intro st h
    simp only [List.foldl_cons]
    have h2 : (opaqueStep colored st px).2.1 = false := by
      unfold opaqueStep; split
      · exact h
      · split <;> simp [h]
    obtain ⟨i1, i2⟩ := ih (opaqueStep colored st px) h2
    refine ⟨i1, ?_⟩
    intro hr q hq
    have hall := i2 hr
    cases List.mem_cons.mp hq with
    | inr hq' => exact hall q hq'
    | inl hq' =>
      subst hq'
      -- the step on q cannot have failed, else the flag would stay false
      cases hany : ((q.drop colored).any fun x => decide (x ≠ 255))
      · rfl
      · exfalso
        have hf : (opaqueStep colored st q).1 = false := by
          unfold opaqueStep; split
          · rename_i h1; simpa using h1
          · simp [hany]
        -- once false, stays false
        have stay : ∀ (l : List Bytes) (s : Bool × Bool × List UInt8), s.1 = false →
            (l.foldl (opaqueStep colored) s).1 = false := by
          intro l
          induction l with
          | nil => intro s hs; simpa using hs
          | cons a l ihl =>
            intro s hs
            simp only [List.foldl_cons]
            apply ihl
            unfold opaqueStep; simp [hs]
        rw [stay pxs _ hf] at hr
        cases hr

/-- sample width in bytes used by the reductions (`bytes_per_channel`) -/
def bdOf (d : Nat) : Nat := if d = 16 then 2 else 1

/-- colour type after dropping the alpha channel without a key -/
def noAlphaCt : ColorType → ColorType
  | .grayAlpha => .gray none
  | _ => .rgb none

theorem reducedAlpha_false_char (i j : Img) (h : reducedAlphaChannel i false = some j) :
    i.ihdr.ct.hasAlpha = true ∧
    (∀ px ∈ chunksExact i.bppBytes i.data,
      ((px.drop (i.bppBytes - bdOf i.ihdr.depth)).any fun x => decide (x ≠ 255)) = false) ∧
    j = ⟨{ i.ihdr with ct := noAlphaCt i.ihdr.ct },
         (chunksExact i.bppBytes i.data).flatMap (·.take (i.bppBytes - bdOf i.ihdr.depth))⟩ := by
  unfold reducedAlphaChannel at h
  simp only [Bool.false_and, Bool.false_eq_true, if_false] at h
  have hbd : i.bytesPerChannel = bdOf i.ihdr.depth := rfl
  have hbpp : i.channelsPerPixel * i.bytesPerChannel = i.bppBytes := Nat.mul_comm _ _
  rw [hbpp, hbd] at h
  have facts := opaque_scan (i.bppBytes - bdOf i.ihdr.depth) (chunksExact i.bppBytes i.data) (true, false, []) rfl
  unfold opaqueStep at facts
  generalize List.foldl _ (true, false, []) (chunksExact i.bppBytes i.data) = scan at h facts
  obtain ⟨f1, f2⟩ := facts
  cases ha : i.ihdr.ct.hasAlpha
  case false => simp [ha] at h
  case true =>
    simp only [ha, Bool.not_true, Bool.false_eq_true, if_false, f1] at h
    cases hs : scan.1
    case false => simp [hs] at h
    case true =>
      simp only [hs, Bool.not_true, Bool.false_eq_true, if_false, Option.some.injEq] at h
      refine ⟨rfl, f2 hs, ?_⟩
      subst h
      cases hc : i.ihdr.ct <;> simp [hc, ColorType.hasAlpha] at ha <;> simp [noAlphaCt]

theorem any_ne_false (l : Bytes) (h : (l.any fun x => decide (x ≠ 255)) = false) : ∀ x ∈ l, x = 255 := by
  intro x hx
  have := List.any_eq_false.mp h x hx
  simpa using this


/-! ### `build_palette` -/

theorem idxOf?_some {α} [BEq α] [LawfulBEq α] (l : List α) (a : α) (k : Nat) (h : l.idxOf? a = some k) :
    l[k]? = some a := by
  unfold List.idxOf? at h
  obtain ⟨hk, hp, _⟩ := List.findIdx?_eq_some_iff_getElem.mp h
  rw [List.getElem?_eq_getElem hk]
  simp at hp
  rw [hp]

theorem ofNat_toNat_lt (k : Nat) (h : k < 256) : (UInt8.ofNat k).toNat = k := by
  rw [UInt8.toNat_ofNat']; exact Nat.mod_eq_of_lt h

/-- what `build_palette` returns: every produced index points at its pixel -/
theorem buildPalette_spec : ∀ (pxs pal : List Bytes) (acc : Bytes) (pmap : List Bytes) (raw : Bytes),
    buildPalette pxs pal acc = some (pmap, raw) → pal.length ≤ 256 →
    ∃ idxs, raw = acc.reverse ++ idxs ∧ idxs.map (fun b => pmap[b.toNat]?) = pxs.map some ∧
      (∃ ext, pmap = pal ++ ext) ∧ pmap.length ≤ 256 := by
  intro pxs
  induction pxs with
  | nil =>
    intro pal acc pmap raw h hl
    simp only [buildPalette, Option.some.injEq, Prod.mk.injEq] at h
    obtain ⟨rfl, rfl⟩ := h
    exact ⟨[], by simp, rfl, ⟨[], by simp⟩, hl⟩
  | cons px rest ih =>
    intro pal acc pmap raw h hl
    simp only [buildPalette] at h
    cases hi : pal.idxOf? px with
    | some idx =>
      simp only [hi] at h
      obtain ⟨idxs, h1, h2, ⟨ext, h3⟩, h4⟩ := ih pal _ pmap raw h hl
      have hget := idxOf?_some pal px idx hi
      have hlt : idx < pal.length := by
        cases Nat.lt_or_ge idx pal.length with
        | inl hh => exact hh
        | inr hh => rw [List.getElem?_eq_none hh] at hget; cases hget
      refine ⟨UInt8.ofNat idx :: idxs, by simp [h1], ?_, ⟨ext, h3⟩, h4⟩
      simp only [List.map_cons, h2, List.cons.injEq, and_true]
      rw [ofNat_toNat_lt idx (by omega), h3, List.getElem?_append_left hlt, hget]
    | none =>
      simp only [hi] at h
      by_cases h256 : pal.length = 256
      · simp [h256] at h
      · simp only [h256, if_false] at h
        obtain ⟨idxs, h1, h2, ⟨ext, h3⟩, h4⟩ := ih (pal ++ [px]) _ pmap raw h (by simp; omega)
        refine ⟨UInt8.ofNat pal.length :: idxs, by simp [h1], ?_, ⟨px :: ext, by simp [h3]⟩, h4⟩
        simp only [List.map_cons, h2, List.cons.injEq, and_true]
        rw [ofNat_toNat_lt pal.length (by omega), h3]
        simp

def entryPx (e : Rgba) : Px := ⟨e.r.toNat * 257, e.g.toNat * 257, e.b.toNat * 257, e.a.toNat * 257⟩

theorem ofNat_eq_iff (k : Nat) (g : UInt8) : UInt8.ofNat k = g ↔ k % 256 = g.toNat := by
  constructor
  · intro h; rw [← h, UInt8.toNat_ofNat']
  · intro h
    apply UInt8.toNat_inj.mp
    rw [UInt8.toNat_ofNat', h]

theorem chunksExact_one {α} (l : List α) : chunksExact 1 l = l.map fun b => [b] := by
  induction l with
  | nil => rfl
  | cons a l ih =>
    have := chunksExact_append 1 (by decide) [a] l rfl
    simpa [ih] using this

theorem colourOf_indexed (pal : List Rgba) (d k : Nat) :
    colourOf (.indexed pal) d [k] = match pal[k]? with
      | some e => entryPx e
      | none => ⟨0, 0, 0, 65535⟩ := by
  simp only [colourOf, List.getD_cons_zero, entryPx]
  rfl


/-! ### palette lookups -/

theorem chunks_flatMap' {α} (f : α → Bytes) (m : Nat) (hm : 0 < m) (xs : List α)
    (h : ∀ x ∈ xs, (f x).length = m) : chunksExact m (xs.flatMap f) = xs.map f := by
  rw [List.flatMap_def]
  apply chunksExact_flatten m hm
  intro q hq
  obtain ⟨x, hx, rfl⟩ := List.mem_map.mp hq
  exact h x hx

def blackEntry : Rgba := ⟨0, 0, 0, 255⟩

theorem getD_mem_or (p : List Rgba) (k : Nat) : p.getD k blackEntry ∈ p ∨ p.getD k blackEntry = blackEntry := by
  rw [List.getD_eq_getElem?_getD]
  cases h : p[k]? with
  | none => right; rfl
  | some e => left; exact List.mem_of_getElem? h

theorem opaque_entries (p0 : List Rgba) (ha : (p0.any fun c => decide (c.a ≠ 255)) = false) (k : Nat) :
    (p0.getD k blackEntry).a = 255 := by
  cases getD_mem_or p0 k with
  | inl hm => simpa using List.any_eq_false.mp ha _ hm
  | inr he => rw [he]; rfl

theorem gray_entries (p0 : List Rgba) (ag : Bool)
    (hg : (ag && p0.all fun c => decide (c.r = c.g ∧ c.g = c.b)) = true) (k : Nat) :
    (p0.getD k blackEntry).r = (p0.getD k blackEntry).g ∧ (p0.getD k blackEntry).g = (p0.getD k blackEntry).b := by
  cases getD_mem_or p0 k with
  | inl hm =>
    have := (Bool.and_eq_true _ _).mp hg
    simpa using List.all_eq_true.mp this.2 _ hm
  | inr he => rw [he]; exact ⟨rfl, rfl⟩


/-! ### the condensing loop of `reduced_palette` -/

/-- invariant of the condensing loop (no alpha optimisation): every processed index is mapped to a
    slot of the condensed palette holding its colour; slots are below 256; if nothing "changed" every
    index is mapped to itself -/
def PalInv (palette : List Rgba) (st : List Rgba × List (Nat × Nat) × Bool) (done : List Nat) : Prop :=
  ∀ k ∈ done, ∃ idx, st.2.1.lookup k = some idx ∧ st.1[idx]? = some (palette.getD k blackEntry) ∧
    (st.2.2 = false → idx = k)

theorem palStep_inv (palette : List Rgba) (st : List Rgba × List (Nat × Nat) × Bool) (done : List Nat)
    (k : Nat) (hinv : PalInv palette st done) (hlen : st.1.length < 256) :
    PalInv palette (palStep palette false st k) (k :: done) ∧
    (palStep palette false st k).1.length ≤ st.1.length + 1 := by
  unfold palStep
  simp only [Bool.false_and, Bool.false_eq_true, if_false]
  cases hi : st.1.idxOf? (palette.getD k ⟨0, 0, 0, 255⟩) with
  | some j =>
    have hget := idxOf?_some _ _ _ hi
    have hj : j < st.1.length := by
      cases Nat.lt_or_ge j st.1.length with
      | inl hh => exact hh
      | inr hh => rw [List.getElem?_eq_none hh] at hget; cases hget
    refine ⟨?_, by simp⟩
    intro k' hk'
    by_cases hkk : k' = k
    · subst hkk
      refine ⟨j, by simp [List.lookup], hget, ?_⟩
      intro hch
      simp only [Bool.or_eq_false_iff, decide_eq_false_iff_not, Decidable.not_not] at hch
      have : j % 256 = j := Nat.mod_eq_of_lt (by omega)
      omega
    · have hk'' : k' ∈ done := by
        cases List.mem_cons.mp hk' with
        | inl h => exact absurd h hkk
        | inr h => exact h
      obtain ⟨idx, h1, h2, h3⟩ := hinv k' hk''
      refine ⟨idx, ?_, h2, ?_⟩
      · simp only [List.lookup]
        have : (k' == k) = false := by simpa using hkk
        rw [this]; exact h1
      · intro hch
        simp only [Bool.or_eq_false_iff] at hch
        exact h3 hch.1
  | none =>
    refine ⟨?_, by simp⟩
    intro k' hk'
    by_cases hkk : k' = k
    · subst hkk
      refine ⟨st.1.length, by simp [List.lookup], by simp [blackEntry], ?_⟩
      intro hch
      simp only [Bool.or_eq_false_iff, decide_eq_false_iff_not, Decidable.not_not] at hch
      have : st.1.length % 256 = st.1.length := Nat.mod_eq_of_lt hlen
      omega
    · have hk'' : k' ∈ done := by
        cases List.mem_cons.mp hk' with
        | inl h => exact absurd h hkk
        | inr h => exact h
      obtain ⟨idx, h1, h2, h3⟩ := hinv k' hk''
      have hidx : idx < st.1.length := by
        cases Nat.lt_or_ge idx st.1.length with
        | inl hh => exact hh
        | inr hh => rw [List.getElem?_eq_none hh] at h2; cases h2
      refine ⟨idx, ?_, ?_, ?_⟩
      · simp only [List.lookup]
        have : (k' == k) = false := by simpa using hkk
        rw [this]; exact h1
      · rw [List.getElem?_append_left hidx]; exact h2
      · intro hch
        simp only [Bool.or_eq_false_iff] at hch
        exact h3 hch.1

theorem palFold_inv (palette : List Rgba) : ∀ (rest : List Nat) (st : List Rgba × List (Nat × Nat) × Bool)
    (done : List Nat), PalInv palette st done → st.1.length + rest.length ≤ 256 →
    PalInv palette (rest.foldl (palStep palette false) st) (rest.reverse ++ done) ∧
    (rest.foldl (palStep palette false) st).1.length ≤ 256 := by
  intro rest
  induction rest with
  | nil => intro st done h hl; exact ⟨by simpa using h, by simpa using hl⟩
  | cons k rest ih =>
    intro st done h hl
    simp only [List.length_cons] at hl
    obtain ⟨h1, h2⟩ := palStep_inv palette st done k h (by omega)
    have := ih (palStep palette false st k) (k :: done) h1 (by omega)
    simpa using this

theorem lookup_getD_ofNat (l : List (Nat × Nat)) (k idx : Nat) (h : l.lookup k = some idx) (hi : idx < 256) :
    (UInt8.ofNat ((l.lookup k).getD 0)).toNat = idx := by
  rw [h]; exact ofNat_toNat_lt idx hi

theorem getD_of_getElem? {α} (l : List α) (k : Nat) (d x : α) (h : l[k]? = some x) : l.getD k d = x := by
  rw [List.getD_eq_getElem?_getD, h]; rfl

theorem lt_of_getElem?_some {α} (l : List α) (k : Nat) (x : α) (h : l[k]? = some x) : k < l.length := by
  cases Nat.lt_or_ge k l.length with
  | inl hh => exact hh
  | inr hh => rw [List.getElem?_eq_none hh] at h; cases h

theorem used_mem (data : Bytes) (b : UInt8) (hb : b ∈ data) :
    b.toNat ∈ ((List.range 256).filter fun k => data.contains (UInt8.ofNat k)) := by
  rw [List.mem_filter]
  refine ⟨List.mem_range.mpr b.toNat_lt, ?_⟩
  have : UInt8.ofNat b.toNat = b := UInt8.ofNat_toNat
  rw [this]
  simpa using hb


/-! ### `sorted_palette` -/

theorem idxOf?_none {α} [BEq α] [LawfulBEq α] (l : List α) (a : α) (h : l.idxOf? a = none) : a ∉ l := by
  unfold List.idxOf? at h
  have := List.findIdx?_eq_none_iff.mp h
  intro hm
  have := this a hm
  simp at this

theorem mem_enumerated (palette : List Rgba) (k : Nat) (c : Rgba) :
    (k, c) ∈ enumeratedPalette palette ↔ palette[k]? = some c := by
  unfold enumeratedPalette
  rw [List.mem_map]
  constructor
  · rintro ⟨⟨c', k'⟩, hm, he⟩
    simp only [Prod.mk.injEq] at he
    obtain ⟨rfl, rfl⟩ := he
    exact List.mem_zipIdx_iff_getElem?.mp hm
  · intro h
    exact ⟨(c, k), List.mem_zipIdx_iff_getElem?.mpr h, rfl⟩

/-- the reordered list built by `sorted_palette` has the same members as the enumerated palette -/
theorem mem_sortedFinal (en : List (Nat × Rgba)) (keepFirst : Option Nat) (x : Nat × Rgba) :
    x ∈ sortedFinal en keepFirst ↔ x ∈ en := by
  unfold sortedFinal
  cases keepFirst with
  | none => simp [List.mem_mergeSort]
  | some f =>
    cases hf : en[f]? with
    | none =>
      simp only [hf, List.mem_mergeSort]
      have : en.length ≤ f := by
        cases Nat.lt_or_ge f en.length with
        | inl hh => rw [List.getElem?_eq_getElem hh] at hf; cases hf
        | inr hh => exact hh
      rw [List.eraseIdx_of_length_le this]
    | some y =>
      simp only [hf, List.mem_cons, List.mem_mergeSort]
      constructor
      · rintro (rfl | h)
        · exact List.mem_of_getElem? hf
        · exact List.mem_of_mem_eraseIdx h
      · intro h
        obtain ⟨i, hi⟩ := List.getElem?_of_mem h
        by_cases hif : i = f
        · subst hif; rw [hf] at hi; left; exact (Option.some.inj hi).symm
        · right; exact List.mem_eraseIdx_iff_getElem?.mpr ⟨i, hif, hi⟩

theorem length_sortedFinal (en : List (Nat × Rgba)) (keepFirst : Option Nat) :
    (sortedFinal en keepFirst).length = en.length := by
  unfold sortedFinal
  cases keepFirst with
  | none => simp [List.length_mergeSort]
  | some f =>
    cases hf : en[f]? with
    | none =>
      have : en.length ≤ f := by
        cases Nat.lt_or_ge f en.length with
        | inl hh => rw [List.getElem?_eq_getElem hh] at hf; cases hf
        | inr hh => exact hh
      simp only [hf, List.length_mergeSort, List.eraseIdx_of_length_le this]
    | some y =>
      have : f < en.length := lt_of_getElem?_some _ _ _ hf
      simp only [hf, List.length_cons, List.length_mergeSort, List.length_eraseIdx, this, if_true]
      omega

theorem length_enumeratedPalette (palette : List Rgba) : (enumeratedPalette palette).length = palette.length := by
  simp [enumeratedPalette]


end OxiModel.Spec

import OxiModel.Image
import OxiModel.Spec.Crc
/-
  Container level: chunks, the strip policy, the chunk walker and `PngData::from_slice`'s
  classification loop (/repo/src/headers.rs, png/mod.rs:90-186), APNG frames (apng.rs) and the
  serialiser `PngData::output` (png/mod.rs:190-276).
-/
namespace OxiModel

structure Chunk where
  name : Bytes      -- 4 bytes
  data : Bytes
  deriving DecidableEq, Repr, Inhabited

def nm (s : String) : Bytes := s.toList.map fun c => UInt8.ofNat c.toNat

/-! ## strip policy -/

inductive StripChunks
  | none
  | strip (names : List Bytes)
  | safe
  | keep (names : List Bytes)
  | all
  deriving DecidableEq, Repr

def displayChunks : List Bytes := [nm "cICP", nm "iCCP", nm "sRGB", nm "pHYs", nm "acTL", nm "fcTL", nm "fdAT"]

/-- `StripChunks::keep` -/
def StripChunks.keeps (s : StripChunks) (name : Bytes) : Bool :=
  match s with
  | .none => true
  | .keep names => names.contains name
  | .strip names => !names.contains name
  | .safe => displayChunks.contains name
  | .all => false

/-! ## C2PA detection -/

/-- `parse_jumbf_box`: (box name, payload) -/
def parseJumbfBox (data : Bytes) : Option (Bytes × Bytes) :=
  if data.length < 8 then none else
  let len := readBE (data.take 4)
  if len < 8 ∨ len > data.length then none else
  let rest := data.drop 4
  let boxName := rest.take 4
  let body := rest.drop 4
  if len - 8 ≤ body.length then some (boxName, body.take (len - 8)) else none

def isC2pa (c : Chunk) : Bool :=
  if c.name = nm "caBX" then
    match parseJumbfBox c.data with
    | some (n1, d1) =>
      if n1 = nm "jumb" then
        match parseJumbfBox d1 with
        | some (n2, d2) => n2 = nm "jumd" && (d2.length ≥ 4 && d2.take 4 = nm "c2pa")
        | none => false
      else false
    | none => false
  else false

/-! ## frames -/

structure Frame where
  width : Nat
  height : Nat
  xOffset : Nat
  yOffset : Nat
  delayNum : Nat
  delayDen : Nat
  disposeOp : UInt8
  blendOp : UInt8
  data : Bytes
  deriving DecidableEq, Repr, Inhabited

/-- `Frame::from_fctl_data` (`none` = `Err(TruncatedData)`) -/
def Frame.ofFctl (d : Bytes) : Option Frame :=
  if d.length < 26 then none else
  some ⟨readBE ((d.drop 4).take 4), readBE ((d.drop 8).take 4), readBE ((d.drop 12).take 4),
        readBE ((d.drop 16).take 4), readBE ((d.drop 20).take 2), readBE ((d.drop 22).take 2),
        d.getD 24 0, d.getD 25 0, []⟩

def Frame.fctlData (f : Frame) (seq : Nat) : Bytes :=
  be32 seq ++ be32 f.width ++ be32 f.height ++ be32 f.xOffset ++ be32 f.yOffset ++
  be16 f.delayNum ++ be16 f.delayDen ++ [f.disposeOp, f.blendOp]

def Frame.fdatData (f : Frame) (seq : Nat) : Bytes := be32 seq ++ f.data

/-! ## chunk walker -/

inductive ParseErr
  | truncated | notPng | crcMismatch | apngOutOfOrder | c2pa | chunkMissing | badHeader | invalidData
  | panic        -- the Rust code would panic here (slice index out of range)
  deriving DecidableEq, Repr

/-- `parse_next_chunk`: `ok none` at IEND, `ok (some (chunk, newOffset))` otherwise -/
def parseNextChunk (b : Bytes) (off : Nat) (fixErrors : Bool) : Except ParseErr (Option (Chunk × Nat)) :=
  if off + 4 > b.length then .error .truncated else
  let length := readBE ((b.drop off).take 4)
  if b.length < off + 12 + length then .error .truncated else
  let name := (b.drop (off + 4)).take 4
  if name = nm "IEND" then .ok none else
  let data := (b.drop (off + 8)).take length
  let crc := readBE ((b.drop (off + 8 + length)).take 4)
  if !fixErrors ∧ Spec.crc32 (name ++ data) ≠ crc then .error .crcMismatch else
  .ok (some (⟨name, data⟩, off + 12 + length))

structure Collected where
  idat : Bytes := []
  ihdr : Option Bytes := none
  plte : Option Bytes := none
  trns : Option Bytes := none
  aux : List Chunk := []          -- in file order, with an empty `IDAT` marker at the first IDAT
  frames : List Frame := []
  seq : Nat := 0
  deriving Repr

/-- one iteration of the `while let` loop in `from_slice` for an already parsed chunk -/
def classify (strip : StripChunks) (st : Collected) (c : Chunk) : Except ParseErr Collected :=
  if c.name = nm "IDAT" then
    let aux := if st.idat.isEmpty then st.aux ++ [⟨c.name, []⟩] else st.aux
    .ok { st with aux := aux, idat := st.idat ++ c.data }
  else if c.name = nm "IHDR" then .ok { st with ihdr := some c.data }
  else if c.name = nm "PLTE" then .ok { st with plte := some c.data }
  else if c.name = nm "tRNS" then .ok { st with trns := some c.data }
  else if strip.keeps c.name then
    if isC2pa c then (if strip = .none then .ok st else .error .c2pa) else
    if c.name = nm "fcTL" ∨ c.name = nm "fdAT" then
      if c.data.length < 4 then .error .truncated else   -- (after the `fix:` commit; the pinned code panicked here)
      if readBE (c.data.take 4) ≠ st.seq then .error .apngOutOfOrder else
      let st := { st with seq := st.seq + 1 }
      if c.name = nm "fcTL" ∧ !st.idat.isEmpty then
        match Frame.ofFctl c.data with
        | some f =>
          if f.width = 0 ∨ f.height = 0 then .error .invalidData   -- (after the `fix:` commit)
          else .ok { st with frames := st.frames ++ [f] }
        | none => .error .truncated
      else if c.name = nm "fdAT" then
        match st.frames.reverse with
        | [] => .error .apngOutOfOrder
        | last :: revInit =>
          .ok { st with frames := revInit.reverse ++ [{ last with data := last.data ++ c.data.drop 4 }] }
      else .ok { st with aux := st.aux ++ [c] }
    else .ok { st with aux := st.aux ++ [c] }
  else .ok st

/-- the whole walk; fuel = number of bytes (each chunk consumes at least 12) -/
def walk (strip : StripChunks) (fixErrors : Bool) (b : Bytes) : Nat → Nat → Collected → Except ParseErr Collected
  | 0, _, _ => .error .truncated
  | fuel + 1, off, st =>
    match parseNextChunk b off fixErrors with
    | .error e => .error e
    | .ok none => .ok st
    | .ok (some (c, off')) =>
      match classify strip st c with
      | .error e => .error e
      | .ok st' => walk strip fixErrors b fuel off' st'

def pngSignature : Bytes := [0x89, 0x50, 0x4E, 0x47, 0x0D, 0x0A, 0x1A, 0x0A]

/-- `from_slice` up to (not including) header parsing and inflation -/
def collect (strip : StripChunks) (fixErrors : Bool) (b : Bytes) : Except ParseErr Collected :=
  if b.length < 8 then .error .truncated else
  if b.take 8 ≠ pngSignature then .error .notPng else
  match walk strip fixErrors b (b.length + 1) 8 {} with
  | .error e => .error e
  | .ok st => if st.idat.isEmpty then .error .chunkMissing else
              if st.ihdr.isNone then .error .chunkMissing else .ok st

/-! ## serialiser -/

structure PngData where
  raw : Img
  idat : Bytes
  aux : List Chunk
  frames : List Frame
  deriving Repr

def isAfterPlte (name : Bytes) : Bool :=
  name = nm "bKGD" || name = nm "hIST" || name = nm "tRNS" || name = nm "fcTL"

/-- `aux_chunks.split(|c| c.name == "IDAT")`: first group, and the rest flattened -/
def splitAtIdat (aux : List Chunk) : List Chunk × List Chunk :=
  let pre := aux.takeWhile fun c => c.name ≠ nm "IDAT"
  let post := (aux.drop (pre.length + 1)).filter fun c => c.name ≠ nm "IDAT"
  (pre, post)

def ihdrBytes (h : Ihdr) : Bytes :=
  be32 h.width ++ be32 h.height ++ [UInt8.ofNat h.depth, UInt8.ofNat h.ct.code, 0, 0, if h.interlaced then 1 else 0]

/-- PLTE / tRNS chunks implied by the colour type -/
def keyChunks (ct : ColorType) : List Chunk :=
  match ct with
  | .indexed p =>
    let plte : Chunk := ⟨nm "PLTE", p.flatMap fun e => [e.r, e.g, e.b]⟩
    match (p.zipIdx.filter fun (e, _) => e.a ≠ 255).getLast? with
    | some (_, last) => [plte, ⟨nm "tRNS", (p.take (last + 1)).map (·.a)⟩]
    | none => [plte]
  | .gray (some t) => [⟨nm "tRNS", be16 t⟩]
  | .rgb (some (r, g, b)) => [⟨nm "tRNS", be16 r ++ be16 g ++ be16 b⟩]
  | _ => []

def frameChunks : List Frame → Nat → List Chunk
  | [], _ => []
  | f :: rest, seq => ⟨nm "fcTL", f.fctlData seq⟩ :: ⟨nm "fdAT", f.fdatData (seq + 1)⟩ :: frameChunks rest (seq + 2)

/-- the chunk sequence `output` writes -/
def outputChunks (p : PngData) : List Chunk :=
  let (pre, post) := splitAtIdat p.aux
  let special := pre.filter fun c => isAfterPlte c.name
  let seq0 := (special.filter fun c => c.name = nm "fcTL").length
  [⟨nm "IHDR", ihdrBytes p.raw.ihdr⟩] ++ pre.filter (fun c => !isAfterPlte c.name) ++ keyChunks p.raw.ihdr.ct ++
  special ++ [⟨nm "IDAT", p.idat⟩] ++ frameChunks p.frames seq0 ++ post ++ [⟨nm "IEND", []⟩]

/-- `write_png_block` -/
def writeBlock (c : Chunk) : Bytes :=
  be32 c.data.length ++ c.name ++ c.data ++ be32 (Spec.crc32 (c.name ++ c.data))

def writeChunks (cs : List Chunk) : Bytes := pngSignature ++ cs.flatMap writeBlock

def output (p : PngData) : Bytes := writeChunks (outputChunks p)

/-- `key_chunks_size` -/
def keyChunksSize (ct : ColorType) : Nat :=
  ((keyChunks ct).map fun c => 12 + c.data.length).sum

end OxiModel

import OxiModel.GeomProofs
/-
  C18 (a): the scan-line iterator yields exactly the specification's lines.
-/
namespace OxiModel
open Spec

/-- running through the remaining rows of a non-empty pass -/
theorem run_pass (w h bpp : Nat) (hf : Bool) (p pf dy ns : Nat)
    (hpf : passFactors p = some (pf, dy)) (hdy : 0 < dy)
    (hns : (match p + 1 with | 3 => 4 | 5 => 2 | 7 => 1 | _ => 0) = ns)
    (hskip : ∀ y, skipPasses w h (p, y) = (p, y))
    (hlen : 0 < (passPixels w p pf * bpp + 7) / 8 + (if hf then 1 else 0)) :
    ∀ (k y left fuel rest : Nat), y < h → (h - y + dy - 1) / dy = k + 1 →
      left = (k + 1) * ((passPixels w p pf * bpp + 7) / 8 + (if hf then 1 else 0)) + rest → left ≤ fuel →
      scanLinesAux w h bpp hf fuel ⟨some (p, y), left⟩ =
        (scanLinesAux w h bpp hf (fuel - (k + 1)) ⟨some (p + 1, ns), rest⟩).map
          (List.replicate (k + 1) ((passPixels w p pf * bpp + 7) / 8 + (if hf then 1 else 0), some p, passPixels w p pf) ++ ·) := by
  subst hns
  intro k
  induction k with
  | zero =>
    intro y left fuel rest hy hrows hleft hfuel
    have hlast : y + dy ≥ h := by
      -- exactly one row remains
      have hlt : (h - y + dy - 1) / dy < 2 := by omega
      have : h - y + dy - 1 < 2 * dy := by
        rw [Nat.div_lt_iff_lt_mul hdy] at hlt; omega
      omega
    cases fuel with
    | zero => omega
    | succ f =>
      simp only [scanLinesAux, scanNext]
      have hl0 : ¬ left = 0 := by omega
      simp only [hl0, if_false, hskip y, hpf]
      have hge : ¬ left < (passPixels w p pf * bpp + 7) / 8 + (if hf then 1 else 0) := by
        simp only [Nat.zero_add, Nat.one_mul] at hleft; omega
      simp only [hge, if_false, hlast, if_true]
      have hlen0 : ¬ ((passPixels w p pf * bpp + 7) / 8 + (if hf then 1 else 0) = 0) := by omega
      simp only [hlen0, if_false]
      have hrest : left - ((passPixels w p pf * bpp + 7) / 8 + (if hf then 1 else 0)) = rest := by
        simp only [Nat.zero_add, Nat.one_mul] at hleft; omega
      rw [hrest]
      simp only [Nat.zero_add, Nat.add_sub_cancel, List.replicate_one, Option.map_map]
      rfl
  | succ k ih =>
    intro y left fuel rest hy hrows hleft hfuel
    have hmore : ¬ y + dy ≥ h := by
      intro hc
      have : h - y + dy - 1 < 2 * dy := by omega
      have hlt : (h - y + dy - 1) / dy < 2 := by
        rw [Nat.div_lt_iff_lt_mul hdy]; omega
      omega
    cases fuel with
    | zero =>
      have : 0 < left := by
        rw [hleft]; exact Nat.lt_of_lt_of_le (Nat.mul_pos (by omega) hlen) (Nat.le_add_right _ _)
      omega
    | succ f =>
      simp only [scanLinesAux, scanNext]
      have hpos : 0 < left := by
        rw [hleft]; exact Nat.lt_of_lt_of_le (Nat.mul_pos (by omega) hlen) (Nat.le_add_right _ _)
      have hl0 : ¬ left = 0 := by omega
      simp only [hl0, if_false, hskip y, hpf]
      have hmul : (k + 1 + 1) * ((passPixels w p pf * bpp + 7) / 8 + (if hf then 1 else 0)) =
          (k + 1) * ((passPixels w p pf * bpp + 7) / 8 + (if hf then 1 else 0)) +
          ((passPixels w p pf * bpp + 7) / 8 + (if hf then 1 else 0)) := by
        rw [Nat.add_mul, Nat.one_mul]
      have hge : ¬ left < (passPixels w p pf * bpp + 7) / 8 + (if hf then 1 else 0) := by
        rw [hleft, hmul]; omega
      simp only [hge, if_false, hmore]
      have hlen0 : ¬ ((passPixels w p pf * bpp + 7) / 8 + (if hf then 1 else 0) = 0) := by omega
      simp only [hlen0, if_false]
      have hrows' : (h - (y + dy) + dy - 1) / dy = k + 1 := by
        have h1 : h - y + dy - 1 = (h - (y + dy) + dy - 1) + dy := by omega
        rw [h1, Nat.add_div_right _ hdy] at hrows
        omega
      have := ih (y + dy) (left - ((passPixels w p pf * bpp + 7) / 8 + (if hf then 1 else 0))) f rest
        (by omega) hrows' (by rw [hleft, hmul]; omega) (by omega)
      rw [this]
      simp only [Option.map_map]
      have hf2 : f - (k + 1) = f + 1 - (k + 1 + 1) := by omega
      rw [hf2]
      congr 1

end OxiModel

namespace OxiModel
open Spec

/-- constants of pass `p` (1-based): pixel factor, row step, first row -/
def pfOf : Nat → Nat | 1 => 8 | 2 => 8 | 3 => 4 | 4 => 4 | 5 => 2 | 6 => 2 | _ => 1
def dyOf : Nat → Nat | 1 => 8 | 2 => 8 | 3 => 8 | 4 => 4 | 5 => 4 | 6 => 2 | _ => 2
def ysOf : Nat → Nat | 3 => 4 | 5 => 2 | 7 => 1 | _ => 0

/-- the iterator's own skip conditions -/
def passEmpty (w h : Nat) : Nat → Bool
  | 2 => decide (w < 5) | 3 => decide (h < 5) | 4 => decide (w < 3) | 5 => decide (h < 3)
  | 6 => decide (w = 1) | 7 => decide (h < 2) | _ => false

def iterLen (w bpp : Nat) (hf : Bool) (p : Nat) : Nat :=
  (passPixels w p (pfOf p) * bpp + 7) / 8 + (if hf then 1 else 0)

def iterRows (h p : Nat) : Nat := (h - ysOf p + dyOf p - 1) / dyOf p

/-- lines of pass `p` as the iterator produces them -/
def iterPass (w h bpp : Nat) (hf : Bool) (p : Nat) : List (Nat × Option Nat × Nat) :=
  if passEmpty w h p then [] else
  List.replicate (iterRows h p) (iterLen w bpp hf p, some p, passPixels w p (pfOf p))

/-- lines of passes `p .. 7` -/
def iterTail (w h bpp : Nat) (hf : Bool) : Nat → Nat → List (Nat × Option Nat × Nat)
  | 0, _ => []
  | n + 1, p => iterPass w h bpp hf p ++ iterTail w h bpp hf n (p + 1)

def total (l : List (Nat × Option Nat × Nat)) : Nat := (l.map (·.1)).sum

theorem total_append (a b : List (Nat × Option Nat × Nat)) : total (a ++ b) = total a + total b := by
  simp [total, List.sum_append]

theorem total_replicate (n a : Nat) (x : Option Nat) (y : Nat) : total (List.replicate n (a, x, y)) = n * a := by
  simp only [total]
  exact sum_map_replicate n a x y

theorem scanLinesAux_congr (w h bpp : Nat) (hf : Bool) (fuel : Nat) (s1 s2 : ScanState)
    (hh : scanNext w h bpp hf s1 = scanNext w h bpp hf s2) :
    scanLinesAux w h bpp hf fuel s1 = scanLinesAux w h bpp hf fuel s2 := by
  cases fuel <;> simp only [scanLinesAux, hh]

theorem scanLinesAux_done (w h bpp : Nat) (hf : Bool) (fuel : Nat) (p : Option (Nat × Nat)) :
    scanLinesAux w h bpp hf fuel ⟨p, 0⟩ = some [] := by
  cases fuel <;> simp [scanLinesAux, scanNext]

/-- one pass of the iterator, given the rest: the induction step of the main theorem -/
theorem pass_step (w h bpp : Nat) (hf : Bool) (hb : 1 ≤ bpp) (p : Nat)
    (hpf : passFactors p = some (pfOf p, dyOf p))
    (hns : (match p + 1 with | 3 => 4 | 5 => 2 | 7 => 1 | _ => 0) = ysOf (p + 1))
    (hys : ysOf p < h ∨ passEmpty w h p = true)
    (hppl : passEmpty w h p = false → 0 < passPixels w p (pfOf p))
    (hskipNE : passEmpty w h p = false → ∀ y, skipPasses w h (p, y) = (p, y))
    (hskipE : passEmpty w h p = true → ∀ left, p < 7 →
        scanNext w h bpp hf ⟨some (p, ysOf p), left⟩ = scanNext w h bpp hf ⟨some (p + 1, ysOf (p + 1)), left⟩)
    (rest : List (Nat × Option Nat × Nat))
    (hrest : ∀ fuel, total rest ≤ fuel →
        scanLinesAux w h bpp hf fuel ⟨some (p + 1, ysOf (p + 1)), total rest⟩ = some rest)
    (hlast : p = 7 → passEmpty w h p = true → rest = []) :
    ∀ fuel, total (iterPass w h bpp hf p ++ rest) ≤ fuel →
      scanLinesAux w h bpp hf fuel ⟨some (p, ysOf p), total (iterPass w h bpp hf p ++ rest)⟩ =
        some (iterPass w h bpp hf p ++ rest) := by
  intro fuel hfuel
  cases he : passEmpty w h p with
  | true =>
    simp only [iterPass, he, if_true, List.nil_append] at hfuel ⊢
    by_cases h7 : p < 7
    · rw [scanLinesAux_congr w h bpp hf fuel _ _ (hskipE he (total rest) h7)]
      exact hrest fuel hfuel
    · -- pass 7 empty: nothing is left at all
      have hp7 : p = 7 := by
        have : passEmpty w h p = true := he
        unfold passEmpty at this
        split at this <;> first | omega | simp at this
      rw [hlast hp7 he]
      simp [total, scanLinesAux_done]
  | false =>
    have hyslt : ysOf p < h := by
      rcases hys with h1 | h1
      · exact h1
      · rw [he] at h1; cases h1
    have hdy : 0 < dyOf p := by unfold dyOf; split <;> omega
    have hrows : 0 < iterRows h p := by
      unfold iterRows
      apply Nat.div_pos _ hdy
      omega
    have hlenpos : 0 < iterLen w bpp hf p := by
      unfold iterLen
      have := hppl he
      have : 8 ≤ passPixels w p (pfOf p) * bpp + 7 := by
        have : 1 ≤ passPixels w p (pfOf p) * bpp := Nat.mul_pos this hb
        omega
      have : 1 ≤ (passPixels w p (pfOf p) * bpp + 7) / 8 := (Nat.le_div_iff_mul_le (by decide)).mpr (by omega)
      omega
    obtain ⟨k, hk⟩ : ∃ k, iterRows h p = k + 1 := ⟨iterRows h p - 1, by omega⟩
    have htot : total (iterPass w h bpp hf p ++ rest) = (k + 1) * iterLen w bpp hf p + total rest := by
      rw [total_append]
      simp only [iterPass, he, Bool.false_eq_true, if_false, hk, total_replicate]
    rw [htot] at hfuel ⊢
    have := run_pass w h bpp hf p (pfOf p) (dyOf p) (ysOf (p + 1)) hpf hdy hns (hskipNE he) hlenpos
      k (ysOf p) _ fuel (total rest) hyslt (by simpa [iterRows] using hk) rfl hfuel
    simp only [iterLen] at this ⊢
    rw [this, hrest (fuel - (k + 1)) (by
      have : k + 1 ≤ (k + 1) * iterLen w bpp hf p := Nat.le_mul_of_pos_right _ hlenpos
      omega)]
    simp only [Option.map_some, iterPass, he, Bool.false_eq_true, if_false, hk, iterLen]

end OxiModel

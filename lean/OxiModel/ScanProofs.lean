import OxiModel.GeomProofs
/-
  C18 (a): the scan-line iterator yields exactly the specification's lines.
-/
namespace OxiModel
open Spec

/-- running through the remaining rows of a non-empty pass -/
theorem run_pass (w h bpp : Nat) (hf : Bool) (p pf dy ns : Nat)
    (hpf : passFactors p = some (pf, dy)) (hdy : 0 < dy)
    (hns : (match p + 1 with | 3 => 4 | 5 => 2 | 7 => 1 | _ => 0) = ns)
    (hskip : ∀ y, skipPasses w h (p, y) = (p, y))
    (hlen : 0 < (passPixels w p pf * bpp + 7) / 8 + (if hf then 1 else 0)) :
    ∀ (k y left fuel rest : Nat), y < h → (h - y + dy - 1) / dy = k + 1 →
      left = (k + 1) * ((passPixels w p pf * bpp + 7) / 8 + (if hf then 1 else 0)) + rest → left ≤ fuel →
      scanLinesAux w h bpp hf fuel ⟨some (p, y), left⟩ =
        (scanLinesAux w h bpp hf (fuel - (k + 1)) ⟨some (p + 1, ns), rest⟩).map
          (List.replicate (k + 1) ((passPixels w p pf * bpp + 7) / 8 + (if hf then 1 else 0), some p, passPixels w p pf) ++ ·) := by
  subst hns
  intro k
  induction k with
  | zero =>
    intro y left fuel rest hy hrows hleft hfuel
    have hlast : y + dy ≥ h := by
      -- exactly one row remains
      have hlt : (h - y + dy - 1) / dy < 2 := by omega
      have : h - y + dy - 1 < 2 * dy := by
        rw [Nat.div_lt_iff_lt_mul hdy] at hlt; omega
      omega
    cases fuel with
    | zero => omega
    | succ f =>
      simp only [scanLinesAux, scanNext]
      have hl0 : ¬ left = 0 := by omega
      simp only [hl0, if_false, hskip y, hpf]
      have hge : ¬ left < (passPixels w p pf * bpp + 7) / 8 + (if hf then 1 else 0) := by
        simp only [Nat.zero_add, Nat.one_mul] at hleft; omega
      simp only [hge, if_false, hlast, if_true]
      have hlen0 : ¬ ((passPixels w p pf * bpp + 7) / 8 + (if hf then 1 else 0) = 0) := by omega
      simp only [hlen0, if_false]
      have hrest : left - ((passPixels w p pf * bpp + 7) / 8 + (if hf then 1 else 0)) = rest := by
        simp only [Nat.zero_add, Nat.one_mul] at hleft; omega
      rw [hrest]
      simp only [Nat.zero_add, Nat.add_sub_cancel, List.replicate_one, Option.map_map]
      rfl
  | succ k ih =>
    intro y left fuel rest hy hrows hleft hfuel
    have hmore : ¬ y + dy ≥ h := by
      intro hc
      have : h - y + dy - 1 < 2 * dy := by omega
      have hlt : (h - y + dy - 1) / dy < 2 := by
        rw [Nat.div_lt_iff_lt_mul hdy]; omega
      omega
    cases fuel with
    | zero =>
      have : 0 < left := by
        rw [hleft]; exact Nat.lt_of_lt_of_le (Nat.mul_pos (by omega) hlen) (Nat.le_add_right _ _)
      omega
    | succ f =>
      simp only [scanLinesAux, scanNext]
      have hpos : 0 < left := by
        rw [hleft]; exact Nat.lt_of_lt_of_le (Nat.mul_pos (by omega) hlen) (Nat.le_add_right _ _)
      have hl0 : ¬ left = 0 := by omega
      simp only [hl0, if_false, hskip y, hpf]
      have hmul : (k + 1 + 1) * ((passPixels w p pf * bpp + 7) / 8 + (if hf then 1 else 0)) =
          (k + 1) * ((passPixels w p pf * bpp + 7) / 8 + (if hf then 1 else 0)) +
          ((passPixels w p pf * bpp + 7) / 8 + (if hf then 1 else 0)) := by
        rw [Nat.add_mul, Nat.one_mul]
      have hge : ¬ left < (passPixels w p pf * bpp + 7) / 8 + (if hf then 1 else 0) := by
        rw [hleft, hmul]; omega
      simp only [hge, if_false, hmore]
      have hlen0 : ¬ ((passPixels w p pf * bpp + 7) / 8 + (if hf then 1 else 0) = 0) := by omega
      simp only [hlen0, if_false]
      have hrows' : (h - (y + dy) + dy - 1) / dy = k + 1 := by
        have h1 : h - y + dy - 1 = (h - (y + dy) + dy - 1) + dy := by omega
        rw [h1, Nat.add_div_right _ hdy] at hrows
        omega
      have := ih (y + dy) (left - ((passPixels w p pf * bpp + 7) / 8 + (if hf then 1 else 0))) f rest
        (by omega) hrows' (by rw [hleft, hmul]; omega) (by omega)
      rw [this]
      simp only [Option.map_map]
      have hf2 : f - (k + 1) = f + 1 - (k + 1 + 1) := by omega
      rw [hf2]
      congr 1

end OxiModel

namespace OxiModel
open Spec

/-- constants of pass `p` (1-based): pixel factor, row step, first row -/
def pfOf : Nat → Nat | 1 => 8 | 2 => 8 | 3 => 4 | 4 => 4 | 5 => 2 | 6 => 2 | _ => 1
def dyOf : Nat → Nat | 1 => 8 | 2 => 8 | 3 => 8 | 4 => 4 | 5 => 4 | 6 => 2 | _ => 2
def ysOf : Nat → Nat | 3 => 4 | 5 => 2 | 7 => 1 | _ => 0

/-- the iterator's own skip conditions -/
def passEmpty (w h : Nat) : Nat → Bool
  | 2 => decide (w < 5) | 3 => decide (h < 5) | 4 => decide (w < 3) | 5 => decide (h < 3)
  | 6 => decide (w = 1) | 7 => decide (h < 2) | _ => false

def iterLen (w bpp : Nat) (hf : Bool) (p : Nat) : Nat :=
  (passPixels w p (pfOf p) * bpp + 7) / 8 + (if hf then 1 else 0)

def iterRows (h p : Nat) : Nat := (h - ysOf p + dyOf p - 1) / dyOf p

/-- lines of pass `p` as the iterator produces them -/
def iterPass (w h bpp : Nat) (hf : Bool) (p : Nat) : List (Nat × Option Nat × Nat) :=
  if passEmpty w h p then [] else
  List.replicate (iterRows h p) (iterLen w bpp hf p, some p, passPixels w p (pfOf p))

/-- lines of passes `p .. 7` -/
def iterTail (w h bpp : Nat) (hf : Bool) : Nat → Nat → List (Nat × Option Nat × Nat)
  | 0, _ => []
  | n + 1, p => iterPass w h bpp hf p ++ iterTail w h bpp hf n (p + 1)

def total (l : List (Nat × Option Nat × Nat)) : Nat := (l.map (·.1)).sum

theorem total_append (a b : List (Nat × Option Nat × Nat)) : total (a ++ b) = total a + total b := by
  simp [total, List.sum_append]

theorem total_replicate (n a : Nat) (x : Option Nat) (y : Nat) : total (List.replicate n (a, x, y)) = n * a := by
  simp only [total]
  exact sum_map_replicate n a x y

theorem scanLinesAux_congr (w h bpp : Nat) (hf : Bool) (fuel : Nat) (s1 s2 : ScanState)
    (hh : scanNext w h bpp hf s1 = scanNext w h bpp hf s2) :
    scanLinesAux w h bpp hf fuel s1 = scanLinesAux w h bpp hf fuel s2 := by
  cases fuel <;> simp only [scanLinesAux, hh]

theorem scanLinesAux_done (w h bpp : Nat) (hf : Bool) (fuel : Nat) (p : Option (Nat × Nat)) :
    scanLinesAux w h bpp hf fuel ⟨p, 0⟩ = some [] := by
  cases fuel <;> simp [scanLinesAux, scanNext]

/-- one pass of the iterator, given the rest: the induction step of the main theorem -/
theorem pass_step (w h bpp : Nat) (hf : Bool) (hb : 1 ≤ bpp) (p : Nat)
    (hpf : passFactors p = some (pfOf p, dyOf p))
    (hns : (match p + 1 with | 3 => 4 | 5 => 2 | 7 => 1 | _ => 0) = ysOf (p + 1))
    (hys : ysOf p < h ∨ passEmpty w h p = true)
    (hppl : passEmpty w h p = false → 0 < passPixels w p (pfOf p))
    (hskipNE : passEmpty w h p = false → ∀ y, skipPasses w h (p, y) = (p, y))
    (hskipE : passEmpty w h p = true → ∀ left, p < 7 →
        scanNext w h bpp hf ⟨some (p, ysOf p), left⟩ = scanNext w h bpp hf ⟨some (p + 1, ysOf (p + 1)), left⟩)
    (rest : List (Nat × Option Nat × Nat))
    (hrest : ∀ fuel, total rest ≤ fuel →
        scanLinesAux w h bpp hf fuel ⟨some (p + 1, ysOf (p + 1)), total rest⟩ = some rest)
    (hlast : p = 7 → passEmpty w h p = true → rest = []) :
    ∀ fuel, total (iterPass w h bpp hf p ++ rest) ≤ fuel →
      scanLinesAux w h bpp hf fuel ⟨some (p, ysOf p), total (iterPass w h bpp hf p ++ rest)⟩ =
        some (iterPass w h bpp hf p ++ rest) := by
  intro fuel hfuel
  cases he : passEmpty w h p with
  | true =>
    simp only [iterPass, he, if_true, List.nil_append] at hfuel ⊢
    by_cases h7 : p < 7
    · rw [scanLinesAux_congr w h bpp hf fuel _ _ (hskipE he (total rest) h7)]
      exact hrest fuel hfuel
    · -- pass 7 empty: nothing is left at all
      have hp7 : p = 7 := by
        have : passEmpty w h p = true := he
        unfold passEmpty at this
        split at this <;> first | omega | simp at this
      rw [hlast hp7 he]
      simp [total, scanLinesAux_done]
  | false =>
    have hyslt : ysOf p < h := by
      rcases hys with h1 | h1
      · exact h1
      · rw [he] at h1; cases h1
    have hdy : 0 < dyOf p := by unfold dyOf; split <;> omega
    have hrows : 0 < iterRows h p := by
      unfold iterRows
      apply Nat.div_pos _ hdy
      omega
    have hlenpos : 0 < iterLen w bpp hf p := by
      unfold iterLen
      have := hppl he
      have : 8 ≤ passPixels w p (pfOf p) * bpp + 7 := by
        have : 1 ≤ passPixels w p (pfOf p) * bpp := Nat.mul_pos this hb
        omega
      have : 1 ≤ (passPixels w p (pfOf p) * bpp + 7) / 8 := (Nat.le_div_iff_mul_le (by decide)).mpr (by omega)
      omega
    obtain ⟨k, hk⟩ : ∃ k, iterRows h p = k + 1 := ⟨iterRows h p - 1, by omega⟩
    have htot : total (iterPass w h bpp hf p ++ rest) = (k + 1) * iterLen w bpp hf p + total rest := by
      rw [total_append]
      simp only [iterPass, he, Bool.false_eq_true, if_false, hk, total_replicate]
    rw [htot] at hfuel ⊢
    have := run_pass w h bpp hf p (pfOf p) (dyOf p) (ysOf (p + 1)) hpf hdy hns (hskipNE he) hlenpos
      k (ysOf p) _ fuel (total rest) hyslt (by simpa [iterRows] using hk) rfl hfuel
    simp only [iterLen] at this ⊢
    rw [this, hrest (fuel - (k + 1)) (by
      have : k + 1 ≤ (k + 1) * iterLen w bpp hf p := Nat.le_mul_of_pos_right _ hlenpos
      omega)]
    simp only [Option.map_some, iterPass, he, Bool.false_eq_true, if_false, hk, iterLen]

end OxiModel

namespace OxiModel
open Spec

theorem scanNext_skip_congr (w h bpp : Nat) (hf : Bool) (a b : Nat × Nat) (left : Nat)
    (hh : skipPasses w h a = skipPasses w h b) :
    scanNext w h bpp hf ⟨some a, left⟩ = scanNext w h bpp hf ⟨some b, left⟩ := by
  simp only [scanNext, hh]

/-- all seven passes: from the entry state of pass `p` the iterator produces the lines of passes `p..7` -/
theorem iter_from_pass (w h bpp : Nat) (hf : Bool) (hw : 1 ≤ w) (hh : 1 ≤ h) (hb : 1 ≤ bpp) :
    ∀ fuel, total (iterTail w h bpp hf 7 1) ≤ fuel →
      scanLinesAux w h bpp hf fuel ⟨some (1, 0), total (iterTail w h bpp hf 7 1)⟩ =
        some (iterTail w h bpp hf 7 1) := by
  -- pass 8: nothing left
  have t8 : ∀ fuel, total ([] : List (Nat × Option Nat × Nat)) ≤ fuel →
      scanLinesAux w h bpp hf fuel ⟨some (8, ysOf 8), total []⟩ = some [] := by
    intro fuel _; exact scanLinesAux_done w h bpp hf fuel _
  -- pass 7
  have t7 := pass_step w h bpp hf hb 7 rfl rfl
    (by simp only [ysOf, passEmpty, decide_eq_true_eq]; omega)
    (by intro _; simp only [passPixels, pfOf]; omega)
    (by intro _ y; simp [skipPasses])
    (by intro _ _ h7; omega) [] t8 (by intro _ _; rfl)
  -- pass 6
  have t6 := pass_step w h bpp hf hb 6 rfl rfl
    (by left; simp only [ysOf]; omega)
    (by intro he; simp only [passEmpty, decide_eq_false_iff_not] at he; simp only [passPixels, pfOf]; split <;> omega)
    (by intro he y; simp only [passEmpty, decide_eq_false_iff_not] at he; simp [skipPasses, he])
    (by intro he left _
        simp only [passEmpty, decide_eq_true_eq] at he
        apply scanNext_skip_congr
        simp [skipPasses, he, ysOf])
    _ t7 (by intro h7; omega)
  -- pass 5
  have t5 := pass_step w h bpp hf hb 5 rfl rfl
    (by simp only [ysOf, passEmpty, decide_eq_true_eq]; omega)
    (by intro _; simp only [passPixels, pfOf]; split <;> omega)
    (by intro he y; simp only [passEmpty, decide_eq_false_iff_not] at he; simp [skipPasses, he])
    (by intro he left _
        simp only [passEmpty, decide_eq_true_eq] at he
        apply scanNext_skip_congr
        simp [skipPasses, he, ysOf])
    _ t6 (by intro h7; omega)
  -- pass 4
  have t4 := pass_step w h bpp hf hb 4 rfl rfl
    (by left; simp only [ysOf]; omega)
    (by intro he; simp only [passEmpty, decide_eq_false_iff_not] at he; simp only [passPixels, pfOf]; split <;> omega)
    (by intro he y; simp only [passEmpty, decide_eq_false_iff_not] at he; simp [skipPasses, he])
    (by intro he left _
        simp only [passEmpty, decide_eq_true_eq] at he
        apply scanNext_skip_congr
        simp [skipPasses, he, ysOf])
    _ t5 (by intro h7; omega)
  -- pass 3
  have t3 := pass_step w h bpp hf hb 3 rfl rfl
    (by simp only [ysOf, passEmpty, decide_eq_true_eq]; omega)
    (by intro _; simp only [passPixels, pfOf]; split <;> omega)
    (by intro he y; simp only [passEmpty, decide_eq_false_iff_not] at he; simp [skipPasses, he])
    (by intro he left _
        simp only [passEmpty, decide_eq_true_eq] at he
        apply scanNext_skip_congr
        simp [skipPasses, he, ysOf])
    _ t4 (by intro h7; omega)
  -- pass 2
  have t2 := pass_step w h bpp hf hb 2 rfl rfl
    (by left; simp only [ysOf]; omega)
    (by intro he; simp only [passEmpty, decide_eq_false_iff_not] at he; simp only [passPixels, pfOf]; split <;> omega)
    (by intro he y; simp only [passEmpty, decide_eq_false_iff_not] at he; simp [skipPasses, he])
    (by intro he left _
        simp only [passEmpty, decide_eq_true_eq] at he
        apply scanNext_skip_congr
        simp [skipPasses, he, ysOf])
    _ t3 (by intro h7; omega)
  -- pass 1
  have t1 := pass_step w h bpp hf hb 1 rfl rfl
    (by left; simp only [ysOf]; omega)
    (by intro _; simp only [passPixels, pfOf]; split <;> omega)
    (by intro _ y; simp [skipPasses])
    (by intro he; simp [passEmpty] at he)
    _ t2 (by intro h7; omega)
  intro fuel hfuel
  have := t1 fuel (by simpa [iterTail] using hfuel)
  simpa [iterTail, ysOf] using this

end OxiModel

namespace OxiModel
open Spec

/-- the lines the specification prescribes for pass `p` (1-based) -/
def specPass (w h bpp : Nat) (hf : Bool) (p : Nat) : List (Nat × Option Nat × Nat) :=
  let g := adam7.getD (p - 1) ⟨0, 0, 1, 1⟩
  let d := passDims g w h
  if d.1 = 0 then [] else List.replicate d.2 (rowBytes d.1 bpp + (if hf then 1 else 0), some p, d.1)

theorem lineLens_interlaced (w h bpp : Nat) (hf : Bool) :
    Spec.lineLens w h bpp true hf =
      specPass w h bpp hf 1 ++ specPass w h bpp hf 2 ++ specPass w h bpp hf 3 ++ specPass w h bpp hf 4 ++
      specPass w h bpp hf 5 ++ specPass w h bpp hf 6 ++ specPass w h bpp hf 7 := by
  have hr : List.range 7 = [0, 1, 2, 3, 4, 5, 6] := by decide
  simp only [Spec.lineLens, hr, Bool.not_true, Bool.false_eq_true, if_false, List.flatMap_cons,
    List.flatMap_nil, List.append_nil, specPass, List.append_assoc]

theorem pp1 (w : Nat) : passPixels w 1 8 = (w + 8 - 1 - 0) / 8 := by simp only [passPixels]; split <;> omega
theorem pp2 (w : Nat) : passPixels w 2 8 = (w + 8 - 1 - 4) / 8 := by simp only [passPixels]; split <;> omega
theorem pp3 (w : Nat) : passPixels w 3 4 = (w + 4 - 1 - 0) / 4 := by simp only [passPixels]; split <;> omega
theorem pp4 (w : Nat) : passPixels w 4 4 = (w + 4 - 1 - 2) / 4 := by simp only [passPixels]; split <;> omega
theorem pp5 (w : Nat) : passPixels w 5 2 = (w + 2 - 1 - 0) / 2 := by simp only [passPixels]; split <;> omega
theorem pp6 (w : Nat) : passPixels w 6 2 = (w + 2 - 1 - 1) / 2 := by simp only [passPixels]; split <;> omega
theorem pp7 (w : Nat) : passPixels w 7 1 = (w + 1 - 1 - 0) / 1 := by simp [passPixels]

/-- pass by pass, the iterator's lines are the specification's -/
theorem iterPass_eq_spec (w h bpp : Nat) (hf : Bool) (hw : 1 ≤ w) (hh : 1 ≤ h) :
    ∀ p ∈ [1, 2, 3, 4, 5, 6, 7], iterPass w h bpp hf p = specPass w h bpp hf p := by
  intro p hp
  simp only [List.mem_cons, List.mem_nil_iff, or_false] at hp
  rcases hp with rfl | rfl | rfl | rfl | rfl | rfl | rfl
  · -- pass 1
    simp only [iterPass, passEmpty, Bool.false_eq_true, if_false, iterRows, iterLen, pfOf, dyOf, ysOf, pp1,
      specPass, adam7, List.getD_cons_zero, passDims, passCount, rowBytes, Nat.sub_self]
    have : ¬ ((w + 8 - 1 - 0) / 8 = 0) := by omega
    simp only [this, if_false]
    all_goals (try (congr 1 <;> omega))
  · -- pass 2
    simp only [iterPass, passEmpty, iterRows, iterLen, pfOf, dyOf, ysOf, pp2, specPass, adam7,
      List.getD_cons_succ, List.getD_cons_zero, passDims, passCount, rowBytes, decide_eq_true_eq]
    by_cases hc : w < 5
    · have : (w + 8 - 1 - 4) / 8 = 0 := by omega
      simp [hc, this] <;> omega
    · have : ¬ ((w + 8 - 1 - 4) / 8 = 0) := by omega
      simp only [hc, this, if_false]
      all_goals (try (congr 1 <;> omega))
  · -- pass 3
    simp only [iterPass, passEmpty, iterRows, iterLen, pfOf, dyOf, ysOf, pp3, specPass, adam7,
      List.getD_cons_succ, List.getD_cons_zero, passDims, passCount, rowBytes, decide_eq_true_eq]
    have hpw : ¬ ((w + 4 - 1 - 0) / 4 = 0) := by omega
    by_cases hc : h < 5
    · have : (h + 8 - 1 - 4) / 8 = 0 := by omega
      simp [hc, this, hpw] <;> omega
    · simp only [hc, hpw, if_false]
      all_goals (try (congr 1 <;> omega))
  · -- pass 4
    simp only [iterPass, passEmpty, iterRows, iterLen, pfOf, dyOf, ysOf, pp4, specPass, adam7,
      List.getD_cons_succ, List.getD_cons_zero, passDims, passCount, rowBytes, decide_eq_true_eq]
    by_cases hc : w < 3
    · have : (w + 4 - 1 - 2) / 4 = 0 := by omega
      simp [hc, this] <;> omega
    · have : ¬ ((w + 4 - 1 - 2) / 4 = 0) := by omega
      simp only [hc, this, if_false]
      all_goals (try (congr 1 <;> omega))
  · -- pass 5
    simp only [iterPass, passEmpty, iterRows, iterLen, pfOf, dyOf, ysOf, pp5, specPass, adam7,
      List.getD_cons_succ, List.getD_cons_zero, passDims, passCount, rowBytes, decide_eq_true_eq]
    have hpw : ¬ ((w + 2 - 1 - 0) / 2 = 0) := by omega
    by_cases hc : h < 3
    · have : (h + 4 - 1 - 2) / 4 = 0 := by omega
      simp [hc, this, hpw] <;> omega
    · simp only [hc, hpw, if_false]
      all_goals (try (congr 1 <;> omega))
  · -- pass 6
    simp only [iterPass, passEmpty, iterRows, iterLen, pfOf, dyOf, ysOf, pp6, specPass, adam7,
      List.getD_cons_succ, List.getD_cons_zero, passDims, passCount, rowBytes, decide_eq_true_eq]
    by_cases hc : w = 1
    · have : (w + 2 - 1 - 1) / 2 = 0 := by omega
      simp [hc] <;> omega
    · have : ¬ ((w + 2 - 1 - 1) / 2 = 0) := by omega
      simp only [hc, this, if_false]
      all_goals (try (congr 1 <;> omega))
  · -- pass 7
    simp only [iterPass, passEmpty, iterRows, iterLen, pfOf, dyOf, ysOf, pp7, specPass, adam7,
      List.getD_cons_succ, List.getD_cons_zero, passDims, passCount, rowBytes, decide_eq_true_eq]
    have hpw : ¬ ((w + 1 - 1 - 0) / 1 = 0) := by simp; omega
    by_cases hc : h < 2
    · have : (h + 2 - 1 - 1) / 2 = 0 := by omega
      simp [hc, this, hpw] <;> omega
    · simp only [hc, hpw, if_false]
      all_goals (try (congr 1 <;> omega))

theorem iterTail_eq_spec (w h bpp : Nat) (hf : Bool) (hw : 1 ≤ w) (hh : 1 ≤ h) :
    iterTail w h bpp hf 7 1 = Spec.lineLens w h bpp true hf := by
  have hp := iterPass_eq_spec w h bpp hf hw hh
  rw [lineLens_interlaced]
  simp only [iterTail, List.append_nil, List.append_assoc]
  rw [hp 1 (by decide), hp 2 (by decide), hp 3 (by decide), hp 4 (by decide), hp 5 (by decide),
      hp 6 (by decide), hp 7 (by decide)]

/-- **The scan-line iterator is the specification** (interlaced): with the right amount of data it
    yields, pass by pass, exactly the specification's rows — empty passes omitted — for every
    width, height ≥ 1 and pixel size ≥ 1, with or without filter bytes. -/
theorem scanLines_interlaced_is_spec (w h bpp : Nat) (hf : Bool) (hw : 1 ≤ w) (hh : 1 ≤ h) (hb : 1 ≤ bpp) :
    scanLines w h bpp true hf (Spec.dataSize w h bpp true hf) = some (Spec.lineLens w h bpp true hf) := by
  have he := iterTail_eq_spec w h bpp hf hw hh
  have ht : Spec.dataSize w h bpp true hf = total (iterTail w h bpp hf 7 1) := by
    rw [he]; rfl
  simp only [scanLines, scanInit, if_true]
  rw [ht]
  have := iter_from_pass w h bpp hf hw hh hb (total (iterTail w h bpp hf 7 1)) (Nat.le_refl _)
  rw [this, he]

/-- non-interlaced: `h` rows of the full width -/
theorem scanLines_progressive_is_spec (w h bpp : Nat) (hf : Bool) (hw : 1 ≤ w) (hb : 1 ≤ bpp) :
    scanLines w h bpp false hf (Spec.dataSize w h bpp false hf) = some (Spec.lineLens w h bpp false hf) := by
  have hlen : 0 < (w * bpp + 7) / 8 + (if hf then 1 else 0) := by
    have : 1 ≤ w * bpp := Nat.mul_pos hw hb
    have : 1 ≤ (w * bpp + 7) / 8 := (Nat.le_div_iff_mul_le (by decide)).mpr (by omega)
    omega
  rw [dataSize_progressive]
  simp only [scanLines, scanInit, Bool.false_eq_true, if_false, Spec.lineLens, Bool.not_false, if_true, rowBytes]
  -- induction on the number of rows
  have key : ∀ (n fuel : Nat), n * ((w * bpp + 7) / 8 + (if hf then 1 else 0)) ≤ fuel →
      scanLinesAux w h bpp hf fuel ⟨none, n * ((w * bpp + 7) / 8 + (if hf then 1 else 0))⟩ =
        some (List.replicate n ((w * bpp + 7) / 8 + (if hf then 1 else 0), none, w)) := by
    intro n
    induction n with
    | zero => intro fuel _; simp [scanLinesAux_done]
    | succ n ih =>
      intro fuel hfuel
      have hmul : (n + 1) * ((w * bpp + 7) / 8 + (if hf then 1 else 0)) =
          n * ((w * bpp + 7) / 8 + (if hf then 1 else 0)) + ((w * bpp + 7) / 8 + (if hf then 1 else 0)) := by
        rw [Nat.add_mul, Nat.one_mul]
      cases fuel with
      | zero => omega
      | succ f =>
        simp only [scanLinesAux, scanNext]
        have h0 : ¬ ((n + 1) * ((w * bpp + 7) / 8 + (if hf then 1 else 0)) = 0) := by rw [hmul]; omega
        have hge : ¬ ((n + 1) * ((w * bpp + 7) / 8 + (if hf then 1 else 0)) < (w * bpp + 7) / 8 + (if hf then 1 else 0)) := by
          rw [hmul]; omega
        have hl0 : ¬ ((w * bpp + 7) / 8 + (if hf then 1 else 0) = 0) := by omega
        simp only [h0, hge, hl0, if_false]
        have hsub : (n + 1) * ((w * bpp + 7) / 8 + (if hf then 1 else 0)) - ((w * bpp + 7) / 8 + (if hf then 1 else 0)) =
            n * ((w * bpp + 7) / 8 + (if hf then 1 else 0)) := by rw [hmul]; omega
        rw [hsub, ih f (by rw [hmul] at hfuel; omega)]
        simp [List.replicate_succ]
  have := key h (h * ((w * bpp + 7) / 8 + (if hf then 1 else 0))) (Nat.le_refl _)
  simpa [Nat.mul_comm] using this

end OxiModel

import OxiModel.Image
/-
  Scan-line geometry.
  * `Spec.adam7`, `Spec.passDims`, `Spec.lineLens` : the PNG specification's pass geometry.
  * `ScanState`, `scanNext`, `scanLines`           : literal model of `ScanLineRanges` in
                                                     /repo/src/png/scan_lines.rs.
  * `rawDataSize`                                  : literal model of `IhdrData::raw_data_size`.
-/
namespace OxiModel

namespace Spec

structure PassGeom where
  xs : Nat
  ys : Nat
  dx : Nat
  dy : Nat
  deriving Repr, DecidableEq

/-- Adam7: starting column, starting row, column increment, row increment of the seven passes. -/
def adam7 : List PassGeom :=
  [⟨0,0,8,8⟩, ⟨4,0,8,8⟩, ⟨0,4,4,8⟩, ⟨2,0,4,4⟩, ⟨0,2,2,4⟩, ⟨1,0,2,2⟩, ⟨0,1,1,2⟩]

/-- number of pixels of a pass along one axis: those `x < n` with `x ≡ start (mod step)` -/
def passCount (n start step : Nat) : Nat := (n + step - 1 - start) / step

def passDims (g : PassGeom) (w h : Nat) : Nat × Nat := (passCount w g.xs g.dx, passCount h g.ys g.dy)

/-- bytes of a row of `pixels` pixels of `bpp` bits -/
def rowBytes (pixels bpp : Nat) : Nat := (pixels * bpp + 7) / 8

/-- The scan lines of an image as the specification prescribes them: `(byte length incl. filter byte
    if any, pass number or none, pixels)`; empty passes are omitted. -/
def lineLens (w h bpp : Nat) (interlaced hasFilter : Bool) : List (Nat × Option Nat × Nat) :=
  let f := if hasFilter then 1 else 0
  if !interlaced then List.replicate h (rowBytes w bpp + f, none, w)
  else (List.range 7).flatMap fun p =>
    let g := adam7.getD p ⟨0,0,1,1⟩
    let (pw, ph) := passDims g w h
    if pw = 0 then [] else List.replicate ph (rowBytes pw bpp + f, some (p + 1), pw)

def dataSize (w h bpp : Nat) (interlaced hasFilter : Bool) : Nat :=
  ((lineLens w h bpp interlaced hasFilter).map (·.1)).sum

end Spec

/-! ## Model of `ScanLineRanges` -/

structure ScanState where
  pass : Option (Nat × Nat)   -- (pass number 1..7 (or 8 after the end), row within the image)
  left : Nat
  deriving Repr, DecidableEq

inductive ScanOut
  | done                                    -- `None`
  | line (len : Nat) (pass : Option Nat) (pixels : Nat) (s : ScanState)
  | unreachable                             -- `unreachable!()` (pass 8 with data left)
  deriving Repr

/-- the five small-image skips at the top of `next`, applied one after another -/
def skipPasses (w h : Nat) (p : Nat × Nat) : Nat × Nat :=
  let p := if w < 5 ∧ p.1 = 2 then (3, 4) else p
  let p := if h < 5 ∧ p.1 = 3 then (4, 0) else p
  let p := if w < 3 ∧ p.1 = 4 then (5, 2) else p
  let p := if h < 3 ∧ p.1 = 5 then (6, 0) else p
  let p := if w = 1 ∧ p.1 = 6 then (7, 1) else p
  p

def passFactors (p : Nat) : Option (Nat × Nat) :=
  match p with
  | 1 => some (8, 8) | 2 => some (8, 8) | 3 => some (4, 8) | 4 => some (4, 4)
  | 5 => some (2, 4) | 6 => some (2, 2) | 7 => some (1, 2) | _ => none

def passPixels (w p pf : Nat) : Nat :=
  let ppl := w / pf
  let gap := w % pf
  match p with
  | 1 => if gap > 0 then ppl + 1 else ppl
  | 3 => if gap > 0 then ppl + 1 else ppl
  | 5 => if gap > 0 then ppl + 1 else ppl
  | 2 => if gap ≥ 5 then ppl + 1 else ppl
  | 4 => if gap ≥ 3 then ppl + 1 else ppl
  | 6 => if gap ≥ 2 then ppl + 1 else ppl
  | _ => ppl

def scanNext (w h bpp : Nat) (hasFilter : Bool) (s : ScanState) : ScanOut :=
  if s.left = 0 then .done else
  match s.pass with
  | some p0 =>
    let p := skipPasses w h p0
    match passFactors p.1 with
    | none => .unreachable
    | some (pf, ysteps) =>
      let ppl := passPixels w p.1 pf
      let p' : Nat × Nat :=
        if p.2 + ysteps ≥ h then
          (p.1 + 1, match p.1 + 1 with | 3 => 4 | 5 => 2 | 7 => 1 | _ => 0)
        else (p.1, p.2 + ysteps)
      let len := (ppl * bpp + 7) / 8 + (if hasFilter then 1 else 0)
      if s.left < len then .done   -- `checked_sub(len)?` (the pass state has still been advanced)
      else .line len (some p.1) ppl ⟨some p', s.left - len⟩
  | none =>
    let len := (w * bpp + 7) / 8 + (if hasFilter then 1 else 0)
    if s.left < len then .done else .line len none w ⟨none, s.left - len⟩

/-- Lines produced by the iterator; `none` = `unreachable!()` hit, or a zero-length line with data
    left (the real iterator would then never terminate). Fuel = bytes left: each line consumes ≥ 1. -/
def scanLinesAux (w h bpp : Nat) (hasFilter : Bool) : Nat → ScanState → Option (List (Nat × Option Nat × Nat))
  | 0, s => match scanNext w h bpp hasFilter s with
            | .done => some []
            | _ => none
  | fuel + 1, s =>
    match scanNext w h bpp hasFilter s with
    | .done => some []
    | .unreachable => none
    | .line len pass px s' =>
      if len = 0 then none else
      (scanLinesAux w h bpp hasFilter fuel s').map ((len, pass, px) :: ·)

def scanInit (interlaced : Bool) (dataLen : Nat) : ScanState :=
  ⟨if interlaced then some (1, 0) else none, dataLen⟩

def scanLines (w h bpp : Nat) (interlaced hasFilter : Bool) (dataLen : Nat) : Option (List (Nat × Option Nat × Nat)) :=
  scanLinesAux w h bpp hasFilter dataLen (scanInit interlaced dataLen)

/-! ## Model of `raw_data_size` (unbounded arithmetic; the checked version lives in the C05 model) -/

def bitmapSize (bpp w h : Nat) : Nat := ((w * bpp + 7) / 8) * h

def rawDataSize (w h bpp : Nat) (interlaced : Bool) : Nat :=
  if !interlaced then bitmapSize bpp w h + h
  else
    let size := bitmapSize bpp ((w + 7) / 8) ((h + 7) / 8) + (h + 7) / 8
    let size := if w > 4 then size + bitmapSize bpp ((w + 3) / 8) ((h + 7) / 8) + (h + 7) / 8 else size
    let size := size + bitmapSize bpp ((w + 3) / 4) ((h + 3) / 8) + (h + 3) / 8
    let size := if w > 2 then size + bitmapSize bpp ((w + 1) / 4) ((h + 3) / 4) + (h + 3) / 4 else size
    let size := size + bitmapSize bpp ((w + 1) / 2) ((h + 1) / 4) + (h + 1) / 4
    let size := if w > 1 then size + bitmapSize bpp (w / 2) ((h + 1) / 2) + (h + 1) / 2 else size
    size + bitmapSize bpp w (h / 2) + h / 2

/-- Split `data` into scan lines following the iterator (`ScanLines`): `(filter byte, data, pass, pixels)`. -/
def splitLines (hasFilter : Bool) : List (Nat × Option Nat × Nat) → Bytes → List (UInt8 × Bytes × Option Nat × Nat)
  | [], _ => []
  | (len, pass, px) :: rest, data =>
    let line := data.take len
    let tail := data.drop len
    if hasFilter then
      match line with
      | f :: body => (f, body, pass, px) :: splitLines hasFilter rest tail
      | [] => []
    else (0, line, pass, px) :: splitLines hasFilter rest tail

def Img.scanLines (i : Img) (hasFilter : Bool) : Option (List (UInt8 × Bytes × Option Nat × Nat)) :=
  (OxiModel.scanLines i.ihdr.width i.ihdr.height i.ihdr.bpp i.ihdr.interlaced hasFilter i.data.length).map
    fun ls => splitLines hasFilter ls i.data

end OxiModel

import OxiModel.Basic
/-
  Model of the candidate evaluator (/repo/src/evaluate.rs, atomicmin.rs, deflate/mod.rs:39-43):
  trials read the shared best-size bound, compress, and publish; the collector takes the minimum
  under `cmp_key`.  The compressors are parameters: a trial is characterised by the size of its
  (unbounded) compressed stream (contracts D2, D3 of DESIGN.md).
-/
namespace OxiModel

structure Trial where
  nth : Nat        -- submission index of the image (`Candidate::nth`)
  filter : Nat     -- `RowFilter as u8`
  idat : Nat       -- length of the compressed stream when not size-limited
  key : Nat        -- `key_chunks_size` of the image
  raw : Nat        -- `image.data.len()`
  deriving DecidableEq, Repr

namespace Trial
def est (t : Trial) : Nat := t.idat + t.key
end Trial

/-- `Candidate::cmp_key` compared lexicographically: (estimated size, raw length, filter,
    `usize::MAX - nth`) — i.e. *later* submissions win the last tie-break. -/
def keyLt (a b : Trial) : Prop :=
  a.est < b.est ∨ (a.est = b.est ∧ (a.raw < b.raw ∨ (a.raw = b.raw ∧
    (a.filter < b.filter ∨ (a.filter = b.filter ∧ b.nth < a.nth)))))

instance (a b : Trial) : Decidable (keyLt a b) := by unfold keyLt; exact inferInstance

def keyEq (a b : Trial) : Prop := a.est = b.est ∧ a.raw = b.raw ∧ a.filter = b.filter ∧ a.nth = b.nth
def keyLe (a b : Trial) : Prop := keyLt a b ∨ keyEq a b

instance (a b : Trial) : Decidable (keyEq a b) := by unfold keyEq; exact inferInstance
instance (a b : Trial) : Decidable (keyLe a b) := by unfold keyLe; exact inferInstance

/-- `Iterator::min_by_key`: on equal keys the earlier element is kept. -/
def minByKey : List Trial → Option Trial
  | [] => none
  | t :: ts => some (ts.foldl (fun best c => if keyLt c best then c else best) t)

/-- The sequential (`parallel` feature off) update rule of `eval_best_candidate`:
    keep `prev` only if its key is strictly smaller, else take the new candidate. -/
def seqBest : List Trial → Option Trial
  | [] => none
  | t :: ts => some (ts.foldl (fun prev c => if keyLt prev c then prev else c) t)

/-- The fast path's hand-off between evaluators (lib.rs `perform_trials`): the winner of the second
    evaluator replaces the result already in hand only if its key is strictly smaller (the size limit
    given to the second evaluator bounds the IDAT stream alone, so its trials can complete and still be
    larger overall). -/
def handoff (prev new : Option Trial) : Option Trial :=
  match prev, new with
  | some p, some n => if keyLt n p then some n else some p
  | none, n => n
  | some p, none => some p

/-! ## The shared bound (`AtomicMin`) -/

/-- `none` = no bound (`usize::MAX` inside `AtomicMin`). -/
abbrev Bound := Option Nat

/-- compression with limit `b` succeeds iff the stream fits (contract D3 + the explicit length
    check in `Deflaters::deflate`) -/
def fits (b : Bound) (n : Nat) : Prop := match b with | none => True | some m => n ≤ m

instance (b : Bound) (n : Nat) : Decidable (fits b n) := by unfold fits; cases b <;> exact inferInstance

/-- `set_min` -/
def lower (b : Bound) (n : Nat) : Bound := match b with | none => some n | some m => some (min m n)

/-! ## Transition system -/

structure EvState where
  bound : Bound
  pending : List Trial              -- submitted, bound not read yet
  inflight : List (Trial × Bound)   -- bound read, compression running
  published : List Trial            -- sent to the collector
  deriving Repr

inductive EvStep : EvState → EvState → Prop
  /-- a trial reads the current bound -/
  | read (s : EvState) (t : Trial) (h : t ∈ s.pending) :
      EvStep s { s with pending := s.pending.erase t, inflight := (t, s.bound) :: s.inflight }
  /-- compression fitted the bound that was read: publish and lower the shared bound -/
  | finishOk (s : EvState) (t : Trial) (b : Bound) (h : (t, b) ∈ s.inflight) (hf : fits b t.idat) :
      EvStep s { s with inflight := s.inflight.erase (t, b), published := t :: s.published,
                        bound := lower s.bound t.est }
  /-- compression did not fit: the trial is dropped -/
  | finishPruned (s : EvState) (t : Trial) (b : Bound) (h : (t, b) ∈ s.inflight) (hf : ¬ fits b t.idat) :
      EvStep s { s with inflight := s.inflight.erase (t, b) }

inductive EvReach (s0 : EvState) : EvState → Prop
  | refl : EvReach s0 s0
  | step {s s'} : EvReach s0 s → EvStep s s' → EvReach s0 s'

def evInit (bound0 : Bound) (trials : List Trial) : EvState := ⟨bound0, trials, [], []⟩

/-- nothing left to run -/
def EvState.final (s : EvState) : Prop := s.pending = [] ∧ s.inflight = []

/-! ## Executable replay of a logged history (driver) -/

inductive EvEvent
  | read (nth filter : Nat) (bound : Bound)
  | finish (t : Trial) (ok : Bool)
  | setBest (v : Nat)

/-- Replays a history against the model: returns the published set, or the index and reason of
    the first event that is not an enabled transition with the logged outcome. -/
def replay (bound0 : Bound) (evs : List EvEvent) : Except String (List Trial × Bound) :=
  let rec go (i : Nat) (bound : Bound) (inflight : List (Nat × Nat × Bound)) (pub : List Trial) :
      List EvEvent → Except String (List Trial × Bound)
    | [] => if inflight.isEmpty then .ok (pub.reverse, bound) else .error s!"unfinished:{inflight.length}"
    | .setBest v :: rest => go (i + 1) (lower bound v) inflight pub rest
    | .read n f b :: rest =>
      if b ≠ bound then .error s!"event{i}:read-bound-mismatch"
      else go (i + 1) bound ((n, f, b) :: inflight) pub rest
    | .finish t ok :: rest =>
      match inflight.find? (fun x => x.1 = t.nth ∧ x.2.1 = t.filter) with
      | none => .error s!"event{i}:finish-without-read"
      | some (n, f, b) =>
        let infl := inflight.erase (n, f, b)
        if decide (fits b t.idat) ≠ ok then .error s!"event{i}:outcome-mismatch"
        else if ok then go (i + 1) (lower bound t.est) infl (t :: pub) rest
        else go (i + 1) bound infl pub rest
  go 0 bound0 [] [] evs

end OxiModel

import OxiModel.Io
/-
  C12 — files are touched only once the result is complete; I/O errors are reported.
  Partial in the brief's sense: the theorems are about the I/O automaton (which calls, in which
  order, what a failure of each leads to); the kernel's file semantics (K1), page cache and
  close-time errors of real file systems are outside the model.
-/
namespace OxiModel.C12
open OxiModel

/-- (T1) **Nothing is created, truncated or modified before the complete output exists**: no call
    of the read phase is mutating — for every routing, input kind and `--preserve` setting. -/
theorem no_mutation_before_computed (c : IoCfg) : ∀ call ∈ readPhase c, call.mutating = false := by
  intro call h
  simp only [readPhase, List.mem_append, List.mem_cons, List.mem_nil_iff, or_false] at h
  rcases h with ((h | h) | h) | h
  · split at h <;> simp at h
    rcases h with rfl | rfl <;> rfl
  · subst h; rfl
  · split at h <;> simp at h
    subst h; rfl
  · rcases h with rfl | rfl | rfl <;> rfl

/-- the executed calls of any run are a prefix-with-gaps of the program, in order -/
theorem runFrom_sublist (c : IoCfg) (fault : Option (Nat × Fault)) :
    ∀ (l : List Call) (i : Nat) (done : List Call),
      (runFrom c fault i l done).succeeded.Sublist (done.reverse ++ l) := by
  intro l
  induction l with
  | nil => intro i done; simp [runFrom]
  | cons call rest ih =>
    intro i done
    unfold runFrom
    cases fault with
    | none =>
      simp only
      have := ih (i + 1) (call :: done)
      simpa using this
    | some kf =>
      obtain ⟨k, f⟩ := kf
      simp only
      split
      · cases f with
        | kill => simp
        | error =>
          simp only
          split
          · simp
          · have := ih (i + 1) done
            exact List.Sublist.trans this (by simp)
      · have := ih (i + 1) (call :: done)
        simpa using this

/-- index of the first mutating call = length of the read phase (if anything is written at all) -/
def firstMutation (c : IoCfg) : Nat := (readPhase c).length

/-- helper: a fault at or before position `n` of `l ++ m` stops or skips inside `l`'s range, so
    with a fatal error or kill at index `k < l.length` nothing of `m` is executed -/
theorem runFrom_stops (c : IoCfg) (k : Nat) (f : Fault) :
    ∀ (l m : List Call) (i : Nat) (done : List Call), i ≤ k → k < i + l.length →
      (f = .kill ∨ (l.getD (k - i) .dirStat).fatal = true) →
      ∀ x ∈ (runFrom c (some (k, f)) i (l ++ m) done).succeeded, x ∈ done ∨ x ∈ l := by
  intro l
  induction l with
  | nil => intro m i done h1 h2; simp at h2; omega
  | cons call rest ih =>
    intro m i done h1 h2 hf x hx
    simp only [List.cons_append] at hx
    unfold runFrom at hx
    simp only at hx
    by_cases hik : i = k
    · subst hik
      simp only [if_true] at hx
      cases f with
      | kill => simp at hx; left; exact hx
      | error =>
        simp only at hx
        have : call.fatal = true := by
          rcases hf with h | h
          · cases h
          · simpa using h
        simp only [this, if_true] at hx
        simp at hx; left; exact hx
    · simp only [hik, if_false] at hx
      have := ih m (i + 1) (call :: done) (by omega) (by simp at h2; omega)
        (by
          rcases hf with h | h
          · left; exact h
          · right
            have e : k - i = (k - (i + 1)) + 1 := by omega
            rw [e] at h
            simpa using h) x hx
      rcases this with h | h
      · rcases List.mem_cons.mp h with rfl | h
        · right; exact List.mem_cons_self
        · left; exact h
      · right; exact List.mem_cons_of_mem _ h

/-- (T2) **A failure or a kill before the first mutation leaves every file as it was**: if the
    process is killed at, or a fatal error hits, any call of the read phase, no mutating call is
    ever executed — whatever the routing. -/
theorem fault_before_computed_changes_nothing (c : IoCfg) (k : Nat) (f : Fault) (hk : k < firstMutation c)
    (hf : f = .kill ∨ ((readPhase c).getD k .dirStat).fatal = true) :
    ∀ x ∈ (ioRun c (some (k, f))).succeeded, x.mutating = false := by
  intro x hx
  have := runFrom_stops c k f (readPhase c) (writePhase c) 0 [] (by omega) (by simpa [firstMutation] using hk)
    (by simpa using hf) x (by simpa [ioRun, program] using hx)
  rcases this with h | h
  · cases h
  · exact no_mutation_before_computed c x h

/-- `--pretend`, an invalid input, and "no improvement in place" never write at all. -/
theorem nothing_written (c : IoCfg)
    (h : c.route = .pretend ∨ c.input = .invalid ∨ (c.input = .notImprovable ∧ c.route = .inPlace ∧ c.force = false)) :
    writePhase c = [] := by
  rcases h with h | h | ⟨h1, h2, h3⟩
  · simp only [writePhase]
    split
    · rfl
    · simp [h]
  · simp [writePhase, delivers, h]
  · simp [writePhase, delivers, h1, h2, h3]

/-- …so in those cases no run, faulty or not, executes a mutating call. -/
theorem nothing_written_any_fault (c : IoCfg) (fault : Option (Nat × Fault))
    (h : c.route = .pretend ∨ c.input = .invalid ∨ (c.input = .notImprovable ∧ c.route = .inPlace ∧ c.force = false)) :
    ∀ x ∈ (ioRun c fault).succeeded, x.mutating = false := by
  intro x hx
  have hs := runFrom_sublist c fault (program c) 0 []
  have hmem : x ∈ program c := by
    have := hs.subset hx
    simpa using this
  rw [program, nothing_written c h, List.append_nil] at hmem
  exact no_mutation_before_computed c x hmem

/-- (T3) **The input is only ever opened for reading**: the model has a single call that opens the
    input, and it is the read-only one; `createDest` is the only call opening something for writing
    (its target is the destination, which is the input only for in-place runs). -/
theorem input_opened_read_only (c : IoCfg) (h : c.route ≠ .inPlace) :
    (program c).count .openIn = 1 ∧ ∀ call ∈ readPhase c, call ≠ .createDest := by
  constructor
  · obtain ⟨route, preserve, input, force, alsoDir⟩ := c
    cases route <;> cases input <;> cases preserve <;> cases force <;> cases alsoDir <;>
      first | (exfalso; exact h rfl) | decide
  · intro call hc heq
    have := no_mutation_before_computed c call hc
    rw [heq] at this
    cases this

/-- (T4) **Every failure to create, write, or set attributes of the destination — file or standard
    output — is reported**: an error at such a call ends the run with a non-zero exit status. -/
theorem destination_errors_reported (c : IoCfg) (k : Nat) (call : Call)
    (hcall : (program c)[k]? = some call)
    (hdest : call = .createDest ∨ call = .chmodDest ∨ call = .writeDest ∨ call = .utimeDest ∨ call = .writeStdout ∨ call = .mkdirOut) :
    (ioRun c (some (k, .error))).exit = some 1 := by
  have hfatal : call.fatal = true := by
    rcases hdest with h | h | h | h | h | h <;> subst h <;> rfl
  -- generalised statement over the suffix being executed
  have key : ∀ (l : List Call) (i : Nat) (done : List Call), i ≤ k → l[k - i]? = some call →
      (runFrom c (some (k, .error)) i l done).exit = some 1 := by
    intro l
    induction l with
    | nil => intro i done _ h; simp at h
    | cons x rest ih =>
      intro i done hik h
      unfold runFrom
      simp only
      by_cases he : i = k
      · subst he
        simp only [Nat.sub_self, List.getElem?_cons_zero, Option.some.injEq] at h
        subst h
        simp [hfatal]
      · simp only [he, if_false]
        apply ih (i + 1) (x :: done) (by omega)
        have e : k - i = (k - (i + 1)) + 1 := by omega
        rw [e] at h
        simpa using h
  exact key (program c) 0 [] (by omega) (by simpa using hcall)

/-- (T5) **`--preserve` copies permission bits and timestamps**: with a file destination both the
    chmod and the utimens call are part of every delivering run, chmod before the data is written
    and utimens after the file is closed. -/
theorem preserve_sets_attributes (c : IoCfg) (hp : preserveApplies c = true) (hd : delivers c = true) :
    ∃ pre, program c = pre ++ [.createDest, .chmodDest, .writeDest, .closeDest, .utimeDest] := by
  refine ⟨readPhase c, ?_⟩
  simp only [program, writePhase, hd, hp]
  have hr : c.route = .inPlace ∨ c.route = .out ∨ c.route = .dir := by
    simp only [preserveApplies, Bool.and_eq_true, Bool.or_eq_true, decide_eq_true_eq] at hp
    rcases hp.2 with (h | h) | h
    · exact Or.inl h
    · exact Or.inr (Or.inl h)
    · exact Or.inr (Or.inr h)
  rcases hr with h | h | h <;> simp [h]

/-- a fault-free run of a valid file succeeds, of an invalid one fails -/
theorem clean_exit (c : IoCfg) : (ioRun c none).exit = some (if c.input = .invalid then 1 else 0) := by
  have key : ∀ (l : List Call) (i : Nat) (done : List Call), (runFrom c none i l done).exit = some (cleanExit c) := by
    intro l
    induction l with
    | nil => intro i done; simp [runFrom]
    | cons x rest ih => intro i done; unfold runFrom; simp only; exact ih _ _
  simpa [ioRun, cleanExit] using key (program c) 0 []

/-- Non-vacuity: an in-place run with `--preserve` on an improvable file. -/
example : program ⟨.inPlace, true, .improvable, false, false⟩ =
    [.dirStat, .statIn, .openIn, .readIn, .closeIn, .createDest, .chmodDest, .writeDest, .closeDest, .utimeDest] ∧
    (ioRun ⟨.inPlace, true, .improvable, false, false⟩ (some (3, .kill))).succeeded = [.dirStat, .statIn, .openIn] := by decide

/-- `--pretend` together with `--dir`: the directory may be created (the statement exempts it), nothing
    else is, and the write phase is empty -/
example : program ⟨.pretend, false, .improvable, false, true⟩ =
    [.outDirExists, .mkdirOut, .dirStat, .openIn, .readIn, .closeIn] ∧
    writePhase ⟨.pretend, false, .improvable, false, true⟩ = [] := by decide

end OxiModel.C12

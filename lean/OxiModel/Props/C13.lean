import OxiModel.Props.C08
import OxiModel.EvaluateProofs
import OxiModel.Decision
import OxiModel.Props.C10
/-
  C13 — a timeout expiring at any moment still yields a correct result.
  The deadline only ever *skips* work: reductions, compression trials, frames. The theorems show
  that every image produced under any pattern of skipped steps lies in the lineage of the input
  (to which the fidelity / switch theorems apply), that whatever the evaluator selects among the
  trials that did run is a completed trial, and that "nothing completed" falls back to the input.
-/
namespace OxiModel.C13
open OxiModel OxiModel.C08

/-- The deadline as the k-th consultation sees it: expired from position `k` on (`none`: never). -/
def passed (expireAt : Option Nat) (n : Nat) : Bool :=
  match expireAt with
  | none => false
  | some k => decide (k ≤ n)

/-- once expired, always expired -/
theorem deadline_monotone (e : Option Nat) (n m : Nat) (h : n ≤ m) (hp : passed e n = true) :
    passed e m = true := by
  cases e with
  | none => simp [passed] at hp
  | some k => simp [passed] at *; omega

/-- a guarded reduction step of `perform_reductions`: `if switch && !deadline.passed() { if let Some(r) = op(png) { png = r } }` -/
def guardedStep (sw : Switches) (img : Img) (step : Op × Bool) : Img :=
  if allowed sw step.1 && !step.1.isLeaf && !step.2 then (applyOp sw step.1 img).getD img else img

/-- run a sequence of guarded steps; the Boolean of each step says whether the deadline had passed
    when that step consulted it -/
def runGuarded (sw : Switches) (img : Img) (steps : List (Op × Bool)) : Img :=
  steps.foldl (guardedStep sw) img

/-- **Any pattern of skipped steps stays in the lineage.** For every sequence of operations and
    every assignment of "deadline already passed" flags (in particular the monotone ones produced
    by expiry at the k-th check, for every k), the image reached is in the chain of allowed
    operations from the input. -/
theorem runGuarded_chain (sw : Switches) (steps : List (Op × Bool)) (i : Img) :
    Chain sw i (runGuarded sw i steps) := by
  suffices h : ∀ (m : Img), Chain sw i m → Chain sw i (steps.foldl (guardedStep sw) m) from
    h i (Chain.refl i)
  induction steps with
  | nil => intro m hm; exact hm
  | cons s rest ih =>
    intro m hm
    simp only [List.foldl_cons]
    apply ih
    unfold guardedStep
    by_cases hc : (allowed sw s.1 && !s.1.isLeaf && !s.2) = true
    · simp only [hc, if_true]
      cases happ : applyOp sw s.1 m with
      | none => simpa using hm
      | some o =>
        simp only [Option.getD_some]
        simp only [Bool.and_eq_true, Bool.not_eq_true'] at hc
        exact Chain.step s.1 hm hc.1.2 hc.1.1 happ
    · simp only [hc]
      exact hm

/-- hence every disabled switch is respected whatever the expiry position -/
theorem runGuarded_respects (sw : Switches) (steps : List (Op × Bool)) (i : Img) :
    Respects sw i (runGuarded sw i steps) :=
  (chain_respects sw i _ (runGuarded_chain sw steps i)).1

/-- expiry before any work: nothing is transformed -/
theorem expired_from_start (sw : Switches) (steps : List (Op × Bool)) (i : Img)
    (h : ∀ s ∈ steps, s.2 = true) : runGuarded sw i steps = i := by
  induction steps generalizing i with
  | nil => rfl
  | cons s rest ih =>
    simp only [runGuarded, List.foldl_cons]
    have hs : s.2 = true := h s List.mem_cons_self
    have : guardedStep sw i s = i := by simp [guardedStep, hs]
    rw [this]
    exact ih i (fun s' hs' => h s' (List.mem_cons_of_mem _ hs'))

/-- Trials skipped by the deadline simply do not complete: the evaluator selects among those that
    did, and what it selects is one of them with no smaller completed trial (C17 holds for any
    subset of the trials). -/
theorem selection_among_completed (all completed : List Trial) (hsub : ∀ t ∈ completed, t ∈ all)
    (m : Trial) (h : minByKey completed = some m) :
    m ∈ all ∧ m ∈ completed ∧ ∀ c ∈ completed, keyLe m c :=
  ⟨hsub m (minByKey_mem h), minByKey_mem h, minByKey_le h⟩

/-- no trial completed ⇒ nothing is selected ⇒ (`optimize_raw` returns `None`) the original image is kept -/
theorem nothing_completed (completed : List Trial) (h : completed = []) : minByKey completed = none := by
  subst h; rfl

/-- and the never-larger decision is taken on whatever came out, so C04 holds for every expiry position -/
theorem never_larger_any_expiry (input : Bytes) (candidateAt : Option Nat → Bytes) (e : Option Nat) :
    (finalMemory input (candidateAt e) false).length < input.length ∨
    finalMemory input (candidateAt e) false = input := by
  unfold finalMemory isFullyOptimized
  by_cases h : input.length ≤ (candidateAt e).length
  · right; simp [h]
  · left; simp [h]; omega

/-! ### frames of an animation: each one is recompressed behind its own look at the clock -/

/-- `recompress_frames` under a deadline: frame `k` is looked at only if the clock has not run out at
    its check (`live k`), and then replaced only by a strictly smaller stream (`fresh k`) -/
def framesUnderDeadline (fs : List Frame) (live : Nat → Bool) (fresh : Nat → Option Bytes) : List Frame :=
  fs.zipIdx.map fun p => if live p.2 then C10.recompressFrame p.1 (fresh p.2) else p.1

/-- **Whatever the expiry position, an animation keeps all its frames**: as many frames, each with its
    geometry, timing and disposal fields, each with data that is the original or strictly shorter -
    in particular never emptied (the seeded change C13h left skipped frames without data). -/
theorem frames_any_expiry (fs : List Frame) (live : Nat → Bool) (fresh : Nat → Option Bytes) :
    (framesUnderDeadline fs live fresh).length = fs.length ∧
    ∀ k (hk : k < fs.length), ∃ g, (framesUnderDeadline fs live fresh)[k]? = some g ∧
      { g with data := [] } = { fs[k] with data := [] } ∧ g.data.length ≤ fs[k].data.length ∧
      (g.data = fs[k].data ∨ g.data.length < fs[k].data.length) := by
  constructor
  · simp [framesUnderDeadline]
  · intro k hk
    unfold framesUnderDeadline
    rw [List.getElem?_map, List.getElem?_zipIdx, List.getElem?_eq_getElem hk]
    simp only [Option.map_some, Nat.zero_add]
    by_cases hl : live k = true
    · simp only [hl, if_true]
      refine ⟨_, rfl, (C10.recompress_keeps_fields fs[k] (fresh k)).1, (C10.recompress_keeps_fields fs[k] (fresh k)).2, ?_⟩
      unfold C10.recompressFrame
      cases fresh k with
      | none => left; rfl
      | some d =>
        simp only
        split
        · right; simp only; omega
        · left; rfl
    · simp only [hl, Bool.false_eq_true, if_false]
      exact ⟨_, rfl, rfl, Nat.le_refl _, Or.inl rfl⟩

/-- Non-vacuity: expiry at the 2nd check lets the first reduction happen and skips the second. -/
example : runGuarded ⟨true, true, true, true, none, false, false⟩
    ⟨⟨1, 1, .rgb none, 16, false⟩, [7, 7, 7, 7, 7, 7]⟩
    [(.depth16to8, passed (some 1) 0), (.rgbToGray, passed (some 1) 1)]
    = ⟨⟨1, 1, .rgb none, 8, false⟩, [7, 7, 7]⟩ := by decide

end OxiModel.C13

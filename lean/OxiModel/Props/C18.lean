import OxiModel.GeomProofs
import OxiModel.ScanProofs
/-
  C18 — Adam7 geometry is exact for every image size (sizes and row lengths).
-/
namespace OxiModel.C18
open OxiModel

/-- `raw_data_size` equals the total length of the scan lines the specification prescribes
    (filter bytes included, empty passes omitted) for every width ≥ 1, every height, every pixel
    size and both layouts. -/
theorem rawDataSize_is_spec (w h bpp : Nat) (il : Bool) (hw : 1 ≤ w) :
    rawDataSize w h bpp il = Spec.dataSize w h bpp il true := by
  cases il
  · exact rawDataSize_progressive w h bpp
  · exact rawDataSize_interlaced w h bpp hw

/-- The specification's pass widths/heights, in the closed forms the code uses. -/
theorem passDims_closed (w h : Nat) :
    (Spec.adam7.map fun g => Spec.passDims g w h) =
      [((w + 7) / 8, (h + 7) / 8), ((w + 3) / 8, (h + 7) / 8), ((w + 3) / 4, (h + 3) / 8),
       ((w + 1) / 4, (h + 3) / 4), ((w + 1) / 2, (h + 1) / 4), (w / 2, (h + 1) / 2), (w, h / 2)] := by
  simp only [Spec.adam7, Spec.passDims, Spec.passCount, List.map_cons, List.map_nil]
  have e7 : (w + 1 - 1 - 0) / 1 = w := by simp
  simp only [e7]
  congr 1 <;> (try congr 1) <;> (try congr 1) <;> (try congr 1) <;> (try congr 1) <;> (try congr 1) <;>
    (try congr 1) <;> omega

/-- Every pixel of the image belongs to exactly one pass: the pass pixel counts add up to `w * h`
    along each axis (columns: passes 1,2,4,6 on rows ≡ 0 (mod 8) cover the row, …). Stated on the
    counts: the seven pass areas partition the image area. -/
theorem pass_areas_partition (w h : Nat) :
    (w + 7) / 8 * ((h + 7) / 8) + (w + 3) / 8 * ((h + 7) / 8) + (w + 3) / 4 * ((h + 3) / 8) +
    (w + 1) / 4 * ((h + 3) / 4) + (w + 1) / 2 * ((h + 1) / 4) + w / 2 * ((h + 1) / 2) + w * (h / 2)
      = w * h := by
  -- columns: a + b = c (passes 1+2 = pass-3 width), c + d = e, e + f = w
  have hc1 : (w + 7) / 8 + (w + 3) / 8 = (w + 3) / 4 := by omega
  have hc2 : (w + 3) / 4 + (w + 1) / 4 = (w + 1) / 2 := by omega
  have hc3 : (w + 1) / 2 + w / 2 = w := by omega
  have hr1 : (h + 7) / 8 + (h + 3) / 8 = (h + 3) / 4 := by omega
  have hr2 : (h + 3) / 4 + (h + 1) / 4 = (h + 1) / 2 := by omega
  have hr3 : (h + 1) / 2 + h / 2 = h := by omega
  calc _ = ((w + 7) / 8 + (w + 3) / 8) * ((h + 7) / 8) + (w + 3) / 4 * ((h + 3) / 8) +
            (w + 1) / 4 * ((h + 3) / 4) + (w + 1) / 2 * ((h + 1) / 4) + w / 2 * ((h + 1) / 2) + w * (h / 2) := by
            rw [Nat.add_mul]
    _ = (w + 3) / 4 * ((h + 7) / 8 + (h + 3) / 8) + (w + 1) / 4 * ((h + 3) / 4) +
            (w + 1) / 2 * ((h + 1) / 4) + w / 2 * ((h + 1) / 2) + w * (h / 2) := by
            rw [hc1, Nat.mul_add]
    _ = ((w + 3) / 4 + (w + 1) / 4) * ((h + 3) / 4) + (w + 1) / 2 * ((h + 1) / 4) +
            w / 2 * ((h + 1) / 2) + w * (h / 2) := by
            rw [hr1, Nat.add_mul]
    _ = (w + 1) / 2 * ((h + 3) / 4 + (h + 1) / 4) + w / 2 * ((h + 1) / 2) + w * (h / 2) := by
            rw [hc2, Nat.mul_add]
    _ = ((w + 1) / 2 + w / 2) * ((h + 1) / 2) + w * (h / 2) := by
            rw [hr2, Nat.add_mul]
    _ = w * ((h + 1) / 2 + h / 2) := by
            rw [hc3, Nat.mul_add]
    _ = w * h := by rw [hr3]

/-- **The scan-line iterator yields exactly the specification's rows**: for every width ≥ 1, height ≥ 1
    and pixel size ≥ 1 bit, in both layouts, with or without filter bytes, iterating over data of the
    header-implied size produces, pass by pass, `Spec.passDims` rows of `⌈width·bpp/8⌉` bytes with
    their pass number and pixel count — empty passes omitted — and nothing else. (Proof: an
    invariant on the iterator state per pass, the small-image skip conditions shown to coincide with
    "pass empty", induction on the rows remaining in a pass; no bound on the dimensions.) -/
theorem iterator_is_spec (w h bpp : Nat) (il hf : Bool) (hw : 1 ≤ w) (hh : 1 ≤ h) (hb : 1 ≤ bpp) :
    scanLines w h bpp il hf (Spec.dataSize w h bpp il hf) = some (Spec.lineLens w h bpp il hf) := by
  cases il
  · exact scanLines_progressive_is_spec w h bpp hf hw hb
  · exact scanLines_interlaced_is_spec w h bpp hf hw hh hb

/-- in particular the iterator never hits `unreachable!()` and never yields an empty line on
    well-sized data: it terminates with a list -/
theorem iterator_total (w h bpp : Nat) (il hf : Bool) (hw : 1 ≤ w) (hh : 1 ≤ h) (hb : 1 ≤ bpp) :
    (scanLines w h bpp il hf (Spec.dataSize w h bpp il hf)).isSome = true := by
  rw [iterator_is_spec w h bpp il hf hw hh hb]; rfl

/-- and with filter bytes the data it walks is exactly `raw_data_size` bytes long -/
theorem iterator_consumes_raw_data_size (w h bpp : Nat) (il : Bool) (hw : 1 ≤ w) (hh : 1 ≤ h) (hb : 1 ≤ bpp) :
    scanLines w h bpp il true (rawDataSize w h bpp il) = some (Spec.lineLens w h bpp il true) := by
  rw [rawDataSize_is_spec w h bpp il hw]
  exact iterator_is_spec w h bpp il true hw hh hb

/-- Non-vacuity / sanity: a 5x5 gray-8 interlaced image has 36 bytes of filtered data. -/
example : rawDataSize 5 5 8 true = 36 ∧ Spec.dataSize 5 5 8 true true = 36 := by decide

end OxiModel.C18

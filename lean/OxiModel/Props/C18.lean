import OxiModel.GeomProofs
import OxiModel.ScanProofs
import OxiModel.Interlace
import OxiModel.DepthProofs
/-
  C18 — Adam7 geometry is exact for every image size (sizes and row lengths).
-/
namespace OxiModel.C18
open OxiModel

/-- `raw_data_size` equals the total length of the scan lines the specification prescribes
    (filter bytes included, empty passes omitted) for every width ≥ 1, every height, every pixel
    size and both layouts. -/
theorem rawDataSize_is_spec (w h bpp : Nat) (il : Bool) (hw : 1 ≤ w) :
    rawDataSize w h bpp il = Spec.dataSize w h bpp il true := by
  cases il
  · exact rawDataSize_progressive w h bpp
  · exact rawDataSize_interlaced w h bpp hw

/-- The specification's pass widths/heights, in the closed forms the code uses. -/
theorem passDims_closed (w h : Nat) :
    (Spec.adam7.map fun g => Spec.passDims g w h) =
      [((w + 7) / 8, (h + 7) / 8), ((w + 3) / 8, (h + 7) / 8), ((w + 3) / 4, (h + 3) / 8),
       ((w + 1) / 4, (h + 3) / 4), ((w + 1) / 2, (h + 1) / 4), (w / 2, (h + 1) / 2), (w, h / 2)] := by
  simp only [Spec.adam7, Spec.passDims, Spec.passCount, List.map_cons, List.map_nil]
  have e7 : (w + 1 - 1 - 0) / 1 = w := by simp
  simp only [e7]
  congr 1 <;> (try congr 1) <;> (try congr 1) <;> (try congr 1) <;> (try congr 1) <;> (try congr 1) <;>
    (try congr 1) <;> omega

/-- Every pixel of the image belongs to exactly one pass: the pass pixel counts add up to `w * h`
    along each axis (columns: passes 1,2,4,6 on rows ≡ 0 (mod 8) cover the row, …). Stated on the
    counts: the seven pass areas partition the image area. -/
theorem pass_areas_partition (w h : Nat) :
    (w + 7) / 8 * ((h + 7) / 8) + (w + 3) / 8 * ((h + 7) / 8) + (w + 3) / 4 * ((h + 3) / 8) +
    (w + 1) / 4 * ((h + 3) / 4) + (w + 1) / 2 * ((h + 1) / 4) + w / 2 * ((h + 1) / 2) + w * (h / 2)
      = w * h := by
  -- columns: a + b = c (passes 1+2 = pass-3 width), c + d = e, e + f = w
  have hc1 : (w + 7) / 8 + (w + 3) / 8 = (w + 3) / 4 := by omega
  have hc2 : (w + 3) / 4 + (w + 1) / 4 = (w + 1) / 2 := by omega
  have hc3 : (w + 1) / 2 + w / 2 = w := by omega
  have hr1 : (h + 7) / 8 + (h + 3) / 8 = (h + 3) / 4 := by omega
  have hr2 : (h + 3) / 4 + (h + 1) / 4 = (h + 1) / 2 := by omega
  have hr3 : (h + 1) / 2 + h / 2 = h := by omega
  calc _ = ((w + 7) / 8 + (w + 3) / 8) * ((h + 7) / 8) + (w + 3) / 4 * ((h + 3) / 8) +
            (w + 1) / 4 * ((h + 3) / 4) + (w + 1) / 2 * ((h + 1) / 4) + w / 2 * ((h + 1) / 2) + w * (h / 2) := by
            rw [Nat.add_mul]
    _ = (w + 3) / 4 * ((h + 7) / 8 + (h + 3) / 8) + (w + 1) / 4 * ((h + 3) / 4) +
            (w + 1) / 2 * ((h + 1) / 4) + w / 2 * ((h + 1) / 2) + w * (h / 2) := by
            rw [hc1, Nat.mul_add]
    _ = ((w + 3) / 4 + (w + 1) / 4) * ((h + 3) / 4) + (w + 1) / 2 * ((h + 1) / 4) +
            w / 2 * ((h + 1) / 2) + w * (h / 2) := by
            rw [hr1, Nat.add_mul]
    _ = (w + 1) / 2 * ((h + 3) / 4 + (h + 1) / 4) + w / 2 * ((h + 1) / 2) + w * (h / 2) := by
            rw [hc2, Nat.mul_add]
    _ = ((w + 1) / 2 + w / 2) * ((h + 1) / 2) + w * (h / 2) := by
            rw [hr2, Nat.add_mul]
    _ = w * ((h + 1) / 2 + h / 2) := by
            rw [hc3, Nat.mul_add]
    _ = w * h := by rw [hr3]

/-- **The scan-line iterator yields exactly the specification's rows**: for every width ≥ 1, height ≥ 1
    and pixel size ≥ 1 bit, in both layouts, with or without filter bytes, iterating over data of the
    header-implied size produces, pass by pass, `Spec.passDims` rows of `⌈width·bpp/8⌉` bytes with
    their pass number and pixel count — empty passes omitted — and nothing else. (Proof: an
    invariant on the iterator state per pass, the small-image skip conditions shown to coincide with
    "pass empty", induction on the rows remaining in a pass; no bound on the dimensions.) -/
theorem iterator_is_spec (w h bpp : Nat) (il hf : Bool) (hw : 1 ≤ w) (hh : 1 ≤ h) (hb : 1 ≤ bpp) :
    scanLines w h bpp il hf (Spec.dataSize w h bpp il hf) = some (Spec.lineLens w h bpp il hf) := by
  cases il
  · exact scanLines_progressive_is_spec w h bpp hf hw hb
  · exact scanLines_interlaced_is_spec w h bpp hf hw hh hb

/-- in particular the iterator never hits `unreachable!()` and never yields an empty line on
    well-sized data: it terminates with a list -/
theorem iterator_total (w h bpp : Nat) (il hf : Bool) (hw : 1 ≤ w) (hh : 1 ≤ h) (hb : 1 ≤ bpp) :
    (scanLines w h bpp il hf (Spec.dataSize w h bpp il hf)).isSome = true := by
  rw [iterator_is_spec w h bpp il hf hw hh hb]; rfl

/-- and with filter bytes the data it walks is exactly `raw_data_size` bytes long -/
theorem iterator_consumes_raw_data_size (w h bpp : Nat) (il : Bool) (hw : 1 ≤ w) (hh : 1 ≤ h) (hb : 1 ≤ bpp) :
    scanLines w h bpp il true (rawDataSize w h bpp il) = some (Spec.lineLens w h bpp il true) := by
  rw [rawDataSize_is_spec w h bpp il hw]
  exact iterator_is_spec w h bpp il true hw hh hb

/-- Non-vacuity / sanity: a 5x5 gray-8 interlaced image has 36 bytes of filtered data. -/
example : rawDataSize 5 5 8 true = 36 ∧ Spec.dataSize 5 5 8 true true = 36 := by decide

/-! ### placement: interlace / deinterlace use the specification's table -/

/-- pixel column/row residue `(pm, r)` (mod 8) lies on pass `k` of the specification's table -/
def onPass (k r pm : Nat) : Bool :=
  let g := Spec.adam7.getD k ⟨0, 0, 1, 1⟩
  decide (g.ys ≤ r ∧ (r - g.ys) % g.dy = 0 ∧ g.xs ≤ pm ∧ (pm - g.xs) % g.dx = 0)

/-- **`interlace_image` sends every pixel to the pass the specification's table gives it**: for each of
    the 64 residues of (row, column) modulo 8 the pass chosen by the code is on the table's lattice,
    and it is the first such pass (the lattices of later passes overlap those of earlier ones only
    through the order of the table). -/
theorem passOf_is_spec : ∀ r < 8, ∀ pm < 8,
    passOf r pm < 7 ∧ onPass (passOf r pm) r pm = true ∧ ∀ k < passOf r pm, onPass k r pm = false := by
  decide

/-- since all Adam7 steps divide 8, a pixel's pass depends only on its residues: `(x, y)` is on the
    lattice of pass `k` iff `(x % 8, y % 8)` is -/
theorem lattice_mod8 (k : Nat) (hk : k < 7) (x y : Nat) :
    let g := Spec.adam7.getD k ⟨0, 0, 1, 1⟩
    (g.ys ≤ y ∧ (y - g.ys) % g.dy = 0 ∧ g.xs ≤ x ∧ (x - g.xs) % g.dx = 0) ↔ onPass k (y % 8) (x % 8) = true := by
  have h7 : k = 0 ∨ k = 1 ∨ k = 2 ∨ k = 3 ∨ k = 4 ∨ k = 5 ∨ k = 6 := by omega
  rcases h7 with rfl | rfl | rfl | rfl | rfl | rfl | rfl <;>
    simp [onPass, Spec.adam7] <;> omega

/-- **`deinterlace_image` uses the table's constants** for every pass -/
theorem interlacedConstants_is_spec : ∀ p, 1 ≤ p → p ≤ 7 →
    interlacedConstants p = (Spec.adam7[p - 1]?).map fun g => ⟨g.xs, g.ys, g.dx, g.dy⟩ := by
  intro p h1 h7
  have : p = 1 ∨ p = 2 ∨ p = 3 ∨ p = 4 ∨ p = 5 ∨ p = 6 ∨ p = 7 := by omega
  rcases this with rfl | rfl | rfl | rfl | rfl | rfl | rfl <;> rfl

/-- pass `p` (1-based) has no pixel in a `w × h` image -/
def passEmptyS (p w h : Nat) : Prop :=
  let g := Spec.adam7.getD (p - 1) ⟨0, 0, 1, 1⟩
  Spec.passCount w g.xs g.dx = 0 ∨ Spec.passCount h g.ys g.dy = 0

instance (p w h : Nat) : Decidable (passEmptyS p w h) := by unfold passEmptyS; exact inferInstance

theorem pe1 (w h : Nat) : passEmptyS 1 w h ↔ (w = 0 ∨ h = 0) := by
  simp [passEmptyS, Spec.adam7, Spec.passCount, Nat.div_eq_zero_iff]; omega
theorem pe2 (w h : Nat) : passEmptyS 2 w h ↔ (w ≤ 4 ∨ h = 0) := by
  simp [passEmptyS, Spec.adam7, Spec.passCount, Nat.div_eq_zero_iff]; omega
theorem pe3 (w h : Nat) : passEmptyS 3 w h ↔ (w = 0 ∨ h ≤ 4) := by
  simp [passEmptyS, Spec.adam7, Spec.passCount, Nat.div_eq_zero_iff]; omega
theorem pe4 (w h : Nat) : passEmptyS 4 w h ↔ (w ≤ 2 ∨ h = 0) := by
  simp [passEmptyS, Spec.adam7, Spec.passCount, Nat.div_eq_zero_iff]; omega
theorem pe5 (w h : Nat) : passEmptyS 5 w h ↔ (w = 0 ∨ h ≤ 2) := by
  simp [passEmptyS, Spec.adam7, Spec.passCount, Nat.div_eq_zero_iff]; omega
theorem pe6 (w h : Nat) : passEmptyS 6 w h ↔ (w ≤ 1 ∨ h = 0) := by
  simp [passEmptyS, Spec.adam7, Spec.passCount, Nat.div_eq_zero_iff]; omega
theorem pe7 (w h : Nat) : passEmptyS 7 w h ↔ (w = 0 ∨ h ≤ 1) := by
  simp [passEmptyS, Spec.adam7, Spec.passCount, Nat.div_eq_zero_iff]; omega

/-- **`increment_pass` moves to the next pass that is not empty** (and reports the end when there is
    none), for every image size -/
theorem incrementPass_is_spec (p w h : Nat) (hp1 : 1 ≤ p) (hp7 : p ≤ 7) (hw : 1 ≤ w) (hh : 1 ≤ h) :
    match incrementPass p w h with
    | some q => p < q ∧ q ≤ 7 ∧ ¬ passEmptyS q w h ∧ ∀ m, p < m → m < q → passEmptyS m w h
    | none => ∀ m, p < m → m ≤ 7 → passEmptyS m w h := by
  have hp : p = 1 ∨ p = 2 ∨ p = 3 ∨ p = 4 ∨ p = 5 ∨ p = 6 ∨ p = 7 := by omega
  have hwc : w = 1 ∨ w = 2 ∨ w = 3 ∨ w = 4 ∨ 5 ≤ w := by omega
  have hhc : h = 1 ∨ h = 2 ∨ h = 3 ∨ h = 4 ∨ 5 ≤ h := by omega
  rcases hp with rfl | rfl | rfl | rfl | rfl | rfl | rfl <;>
    rcases hwc with rfl | rfl | rfl | rfl | hw5 <;>
    rcases hhc with rfl | rfl | rfl | rfl | hh5 <;>
    (try (have n1 : ¬ w ≤ 4 := by omega)) <;> (try (have n2 : ¬ w ≤ 2 := by omega)) <;>
    (try (have n3 : ¬ w = 1 := by omega)) <;> (try (have m1 : ¬ h ≤ 4 := by omega)) <;>
    (try (have m2 : ¬ h ≤ 2 := by omega)) <;> (try (have m3 : ¬ h = 1 := by omega)) <;>
    simp [incrementPass, *] <;>
    first
      | (intro m h1 h2
         have hm : m = 2 ∨ m = 3 ∨ m = 4 ∨ m = 5 ∨ m = 6 ∨ m = 7 := by omega
         rcases hm with rfl | rfl | rfl | rfl | rfl | rfl <;>
           simp only [pe2, pe3, pe4, pe5, pe6, pe7] <;> omega)
      | (refine ⟨?_, ?_⟩
         · simp only [pe2, pe3, pe4, pe5, pe6, pe7]; omega
         · intro m h1 h2
           have hm : m = 2 ∨ m = 3 ∨ m = 4 ∨ m = 5 ∨ m = 6 ∨ m = 7 := by omega
           rcases hm with rfl | rfl | rfl | rfl | rfl | rfl <;>
             simp only [pe2, pe3, pe4, pe5, pe6, pe7] <;> omega)

/-! ### the Adam7 order is a rearrangement of the image -/

/-- the coordinates `v < n` on the lattice `start, start + step, …` -/
def latticeList (n start step : Nat) : List Nat :=
  (List.range n).filter fun v => decide (start ≤ v ∧ (v - start) % step = 0)

/-- the pixels of pass `k` (0-based) of a `w × h` image in the order the specification stores them -/
def passCoords (k w h : Nat) : List (Nat × Nat) :=
  let g := Spec.adam7.getD k ⟨0, 0, 1, 1⟩
  (latticeList h g.ys g.dy).flatMap fun y => (latticeList w g.xs g.dx).map fun x => (x, y)

/-- each residue pair lies on the lattice of exactly one pass: the one the code picks -/
theorem onPass_unique : ∀ r < 8, ∀ pm < 8, ∀ k < 7, (onPass k r pm = true ↔ k = passOf r pm) := by
  decide

theorem mem_latticeList (n start step v : Nat) :
    v ∈ latticeList n start step ↔ v < n ∧ start ≤ v ∧ (v - start) % step = 0 := by
  simp [latticeList]

theorem mem_passCoords (k w h x y : Nat) :
    (x, y) ∈ passCoords k w h ↔
      let g := Spec.adam7.getD k ⟨0, 0, 1, 1⟩
      (x < w ∧ g.xs ≤ x ∧ (x - g.xs) % g.dx = 0) ∧ (y < h ∧ g.ys ≤ y ∧ (y - g.ys) % g.dy = 0) := by
  simp only [passCoords, List.mem_flatMap, List.mem_map, Prod.mk.injEq, mem_latticeList]
  constructor
  · rintro ⟨y', hy', x', hx', rfl, rfl⟩
    exact ⟨hx', hy'⟩
  · rintro ⟨hx, hy⟩
    exact ⟨y, hy, x, hx, rfl, rfl⟩

/-- **Every pixel of the image belongs to exactly one Adam7 pass, namely the one `interlace_image`
    sends it to** (all widths and heights): `(x, y)` is among the stored pixels of pass `k` iff
    `k = passOf (y % 8) (x % 8)`. -/
theorem pixel_in_exactly_its_pass (w h x y k : Nat) (hx : x < w) (hy : y < h) (hk : k < 7) :
    (x, y) ∈ passCoords k w h ↔ k = passOf (y % 8) (x % 8) := by
  rw [mem_passCoords]
  have hl := lattice_mod8 k hk x y
  simp only at hl ⊢
  rw [← onPass_unique (y % 8) (Nat.mod_lt _ (by decide)) (x % 8) (Nat.mod_lt _ (by decide)) k hk, ← hl]
  constructor
  · rintro ⟨⟨_, h1, h2⟩, ⟨_, h3, h4⟩⟩; exact ⟨h3, h4, h1, h2⟩
  · rintro ⟨h3, h4, h1, h2⟩; exact ⟨⟨hx, h1, h2⟩, ⟨hy, h3, h4⟩⟩

theorem count_range (v n : Nat) : (List.range n).count v = if v < n then 1 else 0 := by
  induction n with
  | zero => simp
  | succ n ih =>
    rw [List.range_succ, List.count_append, ih]
    by_cases h1 : v < n
    · have : ¬ (n = v) := by omega
      simp [h1, this]; omega
    · by_cases h2 : v = n
      · subst h2; simp
      · have : ¬ (n = v) := fun h => h2 h.symm
        have h3 : ¬ v < n + 1 := by omega
        simp [h1, this, h3]

theorem count_latticeList_le (n start step v : Nat) : (latticeList n start step).count v ≤ 1 := by
  unfold latticeList
  have h1 := List.Sublist.count_le v (List.filter_sublist (p := fun v => decide (start ≤ v ∧ (v - start) % step = 0)) (l := List.range n))
  have h2 := count_range v n
  have : (List.range n).count v ≤ 1 := by rw [h2]; split <;> omega
  omega

theorem sum_map_le_count (L : List Nat) (y : Nat) (f : Nat → Nat) (hf : ∀ y', f y' ≤ if y' = y then 1 else 0) :
    (L.map f).sum ≤ L.count y := by
  induction L with
  | nil => simp
  | cons a L ih =>
    simp only [List.map_cons, List.sum_cons, List.count_cons]
    have := hf a
    by_cases h : a = y
    · simp [h] at this ⊢; omega
    · have h' : ¬ (a == y) = true := by simpa using h
      simp [h] at this
      simp [h', this]; exact ih

theorem count_map_pair (l : List Nat) (x y : Nat) : (l.map fun a => (a, y)).count (x, y) = l.count x := by
  induction l with
  | nil => rfl
  | cons a l ih =>
    simp only [List.map_cons, List.count_cons, ih]
    by_cases h : a = x
    · subst h; simp
    · have h1 : ¬ ((a, y) == (x, y)) = true := by simpa using h
      have h2 : ¬ (a == x) = true := by simpa using h
      simp [h1, h2]

/-- within a pass no pixel is stored twice -/
theorem count_passCoords_le (k w h x y : Nat) : (passCoords k w h).count (x, y) ≤ 1 := by
  unfold passCoords
  simp only
  rw [List.count_flatMap]
  refine Nat.le_trans (sum_map_le_count _ y _ ?_) (count_latticeList_le _ _ _ y)
  intro y'
  simp only [Function.comp]
  by_cases hy : y' = y
  · subst hy
    rw [if_pos rfl]
    rw [count_map_pair]; exact count_latticeList_le _ _ _ x
  · rw [if_neg hy]
    apply Nat.le_of_eq
    apply List.count_eq_zero_of_not_mem
    intro hm
    obtain ⟨x', _, he⟩ := List.mem_map.mp hm
    simp only [Prod.mk.injEq] at he
    exact hy he.2

/-- the Adam7 storage order of the whole image: pass after pass -/
def adam7Order (w h : Nat) : List (Nat × Nat) := (List.range 7).flatMap fun k => passCoords k w h

/-- **The Adam7 order is a rearrangement of the image**: every pixel position occurs in it exactly
    once (for all sizes), so writing the pixels in this order and reading them back by the same table
    loses and duplicates nothing. -/
theorem adam7Order_each_once (w h x y : Nat) (hx : x < w) (hy : y < h) :
    (adam7Order w h).count (x, y) = 1 := by
  unfold adam7Order
  rw [List.count_flatMap]
  have hp := (passOf_is_spec (y % 8) (Nat.mod_lt _ (by decide)) (x % 8) (Nat.mod_lt _ (by decide))).1
  -- the count in pass k is 1 for k = passOf … and 0 otherwise
  have hcount : ∀ k, k < 7 → (passCoords k w h).count (x, y) = if k = passOf (y % 8) (x % 8) then 1 else 0 := by
    intro k hk
    by_cases hkp : k = passOf (y % 8) (x % 8)
    · rw [if_pos hkp]
      have hm := (pixel_in_exactly_its_pass w h x y k hx hy hk).mpr hkp
      have h1 := count_passCoords_le k w h x y
      have h2 : 0 < (passCoords k w h).count (x, y) := List.count_pos_iff.mpr hm
      omega
    · rw [if_neg hkp]
      exact List.count_eq_zero_of_not_mem (fun hm => hkp ((pixel_in_exactly_its_pass w h x y k hx hy hk).mp hm))
  have : (List.range 7).map (fun k => (passCoords k w h).count (x, y)) =
      (List.range 7).map (fun k => if k = passOf (y % 8) (x % 8) then 1 else 0) := by
    apply List.map_congr_left
    intro k hk
    exact hcount k (List.mem_range.mp hk)
  show ((List.range 7).map (fun k => (passCoords k w h).count (x, y))).sum = 1
  rw [this]
  generalize passOf (y % 8) (x % 8) = p at hp
  have : p = 0 ∨ p = 1 ∨ p = 2 ∨ p = 3 ∨ p = 4 ∨ p = 5 ∨ p = 6 := by omega
  rcases this with rfl | rfl | rfl | rfl | rfl | rfl | rfl <;> decide

/-! ### `interlace_image` writes the specification's arrangement (byte pixels) -/
section interlaceBytes
open OxiModel.Spec

theorem byteOfBits_bitsOfByte_aux : ∀ n < 256, byteOfBits (bitsOfByte (UInt8.ofNat n)) = UInt8.ofNat n := by
  decide +kernel

theorem byteOfBits_bitsOfByte (b : UInt8) : byteOfBits (bitsOfByte b) = b := by
  have := byteOfBits_bitsOfByte_aux b.toNat b.toNat_lt
  rwa [UInt8.ofNat_toNat] at this

theorem bitsOfByte_length (b : UInt8) : (bitsOfByte b).length = 8 := rfl

/-- packing the bits of whole bytes gives the bytes back -/
theorem bytesOfBits_bitsOf (bs : Bytes) : bytesOfBits (bitsOf bs) = bs := by
  induction bs with
  | nil => rfl
  | cons b bs ih =>
    unfold bytesOfBits bitsOf at *
    simp only [List.flatMap_cons]
    rw [chunks_cons 8 (by decide) _ (by simp [bitsOfByte])]
    have h1 : (bitsOfByte b ++ bs.flatMap bitsOfByte).take 8 = bitsOfByte b := List.take_left' (bitsOfByte_length b)
    have h2 : (bitsOfByte b ++ bs.flatMap bitsOfByte).drop 8 = bs.flatMap bitsOfByte := List.drop_left' (bitsOfByte_length b)
    rw [h1, h2, List.map_cons, byteOfBits_bitsOfByte, ih]

/-- keeping the elements of equal-sized blocks by a test on the block number keeps whole blocks -/
theorem filter_blocks {α} (s : Nat) (hs : 0 < s) (P : Nat → Bool) :
    ∀ (blocks : List (List α)) (off : Nat), (∀ b ∈ blocks, b.length = s) →
      ((blocks.flatten.zipIdx (off * s)).filter (fun p => P (p.2 / s))).map (·.1) =
        ((blocks.zipIdx off).filter (fun p => P p.2)).flatMap (·.1) := by
  intro blocks
  induction blocks with
  | nil => intro off _; rfl
  | cons b bs ih =>
    intro off hlen
    have hb : b.length = s := hlen b List.mem_cons_self
    simp only [List.flatten_cons, List.zipIdx_cons]
    rw [List.zipIdx_append, List.filter_append, List.map_append]
    have hrest := ih (off + 1) (fun x hx => hlen x (List.mem_cons_of_mem _ hx))
    rw [hb, show off * s + s = (off + 1) * s by rw [Nat.add_mul, Nat.one_mul], hrest]
    -- the first block: every index divides to `off`
    have hfirst : ((b.zipIdx (off * s)).filter (fun p => P (p.2 / s))).map (·.1) = if P off then b else [] := by
      have hall : ∀ p ∈ b.zipIdx (off * s), p.2 / s = off := by
        intro p hp
        obtain ⟨h1, h2, _⟩ := List.mem_zipIdx hp
        rw [hb] at h2
        rw [Nat.div_eq_iff hs]
        constructor
        · exact h1
        · omega
      cases hP : P off
      · simp only [Bool.false_eq_true, if_false]
        rw [List.filter_eq_nil_iff.mpr (fun p hp => by rw [hall p hp, hP]; simp)]
        rfl
      · simp only [if_true]
        rw [List.filter_eq_self.mpr (fun p hp => by rw [hall p hp, hP])]
        simp
    rw [hfirst]
    cases hP : P off
    · simp [List.filter_cons, hP]
    · simp [List.filter_cons, hP]

theorem bitsOf_length (bs : Bytes) : (bitsOf bs).length = 8 * bs.length := by
  induction bs with
  | nil => rfl
  | cons b bs ih =>
    simp only [bitsOf, List.flatMap_cons, List.length_append, List.length_cons] at *
    rw [ih, bitsOfByte_length]; omega

theorem bitsOf_flatten (ps : List Bytes) : bitsOf ps.flatten = (ps.map bitsOf).flatten := by
  induction ps with
  | nil => rfl
  | cons p ps ih =>
    simp only [List.flatten_cons, List.map_cons, bitsOf, List.flatMap_append] at *
    rw [ih]

/-- the pixels of one row that belong to pass `k`, in order (the specification's selection: column
    residue against the pass table, through `passOf`) -/
def rowPassPixels (c : Nat) (k rowIdx : Nat) (line : Bytes) : Bytes :=
  ((chunksExact c line).zipIdx.filter fun p => decide (passOf (rowIdx % 8) (p.2 % 8) = k)).flatMap (·.1)

/-- **One source row of `interlace_image`, byte pixels**: the bits it selects for pass `k`, packed into
    bytes, are exactly the row's pixels whose column is on the pass - whole pixels, in order. -/
theorem interlace_row_bytes (w c rowIdx k : Nat) (hc : 0 < c) (line : Bytes) (hl : line.length = w * c) :
    bytesOfBits (lineBitsForPass w (8 * c) rowIdx k line) = rowPassPixels c k rowIdx line := by
  unfold lineBitsForPass rowPassPixels
  have htake : (bitsOf line).take (w * (8 * c)) = bitsOf line := by
    apply List.take_of_length_le
    rw [bitsOf_length, hl]
    exact Nat.le_of_eq (by rw [Nat.mul_comm w c, Nat.mul_comm w (8 * c), Nat.mul_assoc])
  rw [htake]
  obtain ⟨hfl, hpl⟩ := flatten_chunksExact c hc w line hl
  have hb : 0 < 8 * c := by omega
  have hblocks : ∀ b ∈ (chunksExact c line).map bitsOf, b.length = 8 * c := by
    intro b hb'
    obtain ⟨px, hpx, rfl⟩ := List.mem_map.mp hb'
    rw [bitsOf_length, hpl px hpx]
  have key := filter_blocks (8 * c) hb (fun m => decide (passOf (rowIdx % 8) (m % 8) = k))
    ((chunksExact c line).map bitsOf) 0 hblocks
  rw [Nat.zero_mul, ← bitsOf_flatten, hfl] at key
  have hlhs : ((bitsOf line).zipIdx.filter fun x => decide (passOf (rowIdx % 8) (x.2 / (8 * c) % 8) = k)).map (·.1) =
      ((bitsOf line).zipIdx.filter fun p => decide (passOf (rowIdx % 8) (p.2 / (8 * c) % 8) = k)).map (·.1) := rfl
  have : (((bitsOf line).zipIdx.filter fun x : Bool × Nat =>
      match x with | (_, i) => decide (passOf (rowIdx % 8) (i / (8 * c) % 8) = k)).map (·.1)) =
      ((bitsOf line).zipIdx.filter fun p => decide (passOf (rowIdx % 8) (p.2 / (8 * c) % 8) = k)).map (·.1) := rfl
  rw [this, key, List.zipIdx_map, List.filter_map, List.flatMap_map]
  -- bits of the selected pixels, packed
  have hsel : ∀ (l : List (Bytes × Nat)), (l.flatMap fun p => (Prod.map bitsOf id p).1) = bitsOf (l.flatMap (·.1)) := by
    intro l
    induction l with
    | nil => rfl
    | cons a l ih =>
      simp only [List.flatMap_cons, Prod.map, id] at ih ⊢
      rw [ih]
      simp [bitsOf, List.flatMap_append]
  have hf : ((chunksExact c line).zipIdx.filter ((fun p : List Bool × Nat => decide (passOf (rowIdx % 8) (p.2 % 8) = k)) ∘ Prod.map bitsOf id)) =
      ((chunksExact c line).zipIdx.filter fun p => decide (passOf (rowIdx % 8) (p.2 % 8) = k)) := rfl
  rw [hf, hsel, bytesOfBits_bitsOf]

theorem flatMap_congr_of_mem {α β} (l : List α) (f g : α → List β) (h : ∀ a ∈ l, f a = g a) :
    l.flatMap f = l.flatMap g := by
  induction l with
  | nil => rfl
  | cons a l ih =>
    simp only [List.flatMap_cons]
    rw [h a List.mem_cons_self, ih (fun b hb => h b (List.mem_cons_of_mem _ hb))]

/-- **`interlace_image` writes the specification's Adam7 arrangement** (pixels of whole bytes: 8- and
    16-bit samples, every colour type): pass after pass, and within a pass row after row, exactly the
    pixels whose row and column are on the pass's lattice, whole and in order - for every image size. -/
theorem interlace_is_spec_bytes (i : Img) (c : Nat) (hc : 0 < c) (hbpp : i.ihdr.bpp = 8 * c)
    (lines : List (UInt8 × Bytes × Option Nat × Nat)) (hl : i.scanLines false = some lines)
    (hrows : ∀ l ∈ lines, l.2.1.length = i.ihdr.width * c) :
    interlaceData i = some ((List.range 7).flatMap fun k =>
      lines.zipIdx.flatMap fun p => rowPassPixels c k p.2 p.1.2.1) := by
  unfold interlaceData
  rw [hl]
  simp only [hbpp, Option.some.injEq]
  apply flatMap_congr_of_mem
  intro k _
  apply flatMap_congr_of_mem
  intro p hp
  obtain ⟨⟨f, line, pass, px⟩, y⟩ := p
  have hmem : (f, line, pass, px) ∈ lines := by
    have := List.mem_zipIdx hp
    -- the element of a zipIdx pair is an element of the list
    obtain ⟨_, h2, h3⟩ := this
    simp only [Nat.zero_add] at h2 h3
    rw [h3]; exact List.getElem_mem _
  exact interlace_row_bytes i.ihdr.width c y k hc line (hrows _ hmem)

/-- **One source row of `interlace_image`, any bit depth**: the bits selected for pass `k` are the bit
    groups (pixels) of the row whose column is on the pass - whole pixels, in order; the padding bits
    after the last pixel are never selected. -/
theorem interlace_row_pixels (w bpp rowIdx k : Nat) (hb : 0 < bpp) (line : Bytes)
    (hl : w * bpp ≤ 8 * line.length) :
    lineBitsForPass w bpp rowIdx k line =
      ((chunksExact bpp ((bitsOf line).take (w * bpp))).zipIdx.filter
        fun p => decide (passOf (rowIdx % 8) (p.2 % 8) = k)).flatMap (·.1) := by
  unfold lineBitsForPass
  have hlen : ((bitsOf line).take (w * bpp)).length = w * bpp := by
    rw [List.length_take, bitsOf_length]; omega
  obtain ⟨hfl, hpl⟩ := flatten_chunksExact bpp hb w _ hlen
  have key := filter_blocks bpp hb (fun m => decide (passOf (rowIdx % 8) (m % 8) = k))
    (chunksExact bpp ((bitsOf line).take (w * bpp))) 0 hpl
  rw [Nat.zero_mul, hfl] at key
  exact key

end interlaceBytes

end OxiModel.C18

import OxiModel.Props.C02
import OxiModel.Props.C14
/-
  C10 — animated PNGs keep every frame, its timing and its pixels (container level).
-/
namespace OxiModel.C10
open OxiModel OxiModel.C02

/-- field ranges of a frame as parsed from a fcTL chunk -/
def FrameWF (f : Frame) : Prop :=
  f.width < 2 ^ 32 ∧ f.height < 2 ^ 32 ∧ f.xOffset < 2 ^ 32 ∧ f.yOffset < 2 ^ 32 ∧
  f.delayNum < 2 ^ 16 ∧ f.delayDen < 2 ^ 16

/-- **fcTL round trip**: every field written by `fctl_data` (size, offset, delay, dispose, blend) is
    read back by `from_fctl_data` unchanged, whatever sequence number is written in front. -/
theorem fctl_roundtrip (f : Frame) (seq : Nat) (h : FrameWF f) :
    Frame.ofFctl (f.fctlData seq) = some { f with data := [] } := by
  obtain ⟨h1, h2, h3, h4, h5, h6⟩ := h
  have e : f.fctlData seq = be32 seq ++ (be32 f.width ++ (be32 f.height ++ (be32 f.xOffset ++ (be32 f.yOffset ++
      (be16 f.delayNum ++ (be16 f.delayDen ++ [f.disposeOp, f.blendOp])))))) := by
    simp [Frame.fctlData, List.append_assoc]
  have hlen : (f.fctlData seq).length = 26 := by rw [e]; simp [be32, be16]
  unfold Frame.ofFctl
  have hl : ¬ (f.fctlData seq).length < 26 := by omega
  simp only [hl, if_false]
  have w : readBE (((f.fctlData seq).drop 4).take 4) = f.width := by
    rw [e, List.drop_left' (be32_length _), List.take_left' (be32_length _)]
    exact readBE_be32 _ h1
  have hh : readBE (((f.fctlData seq).drop 8).take 4) = f.height := by
    rw [e]
    have : (8 : Nat) = 4 + 4 := rfl
    rw [this, ← List.drop_drop, List.drop_left' (be32_length _), List.drop_left' (be32_length _),
      List.take_left' (be32_length _)]
    exact readBE_be32 _ h2
  have hx : readBE (((f.fctlData seq).drop 12).take 4) = f.xOffset := by
    rw [e]
    have : (12 : Nat) = 4 + 4 + 4 := rfl
    rw [this, ← List.drop_drop, ← List.drop_drop, List.drop_left' (be32_length _), List.drop_left' (be32_length _),
      List.drop_left' (be32_length _), List.take_left' (be32_length _)]
    exact readBE_be32 _ h3
  have hy : readBE (((f.fctlData seq).drop 16).take 4) = f.yOffset := by
    rw [e]
    have : (16 : Nat) = 4 + 4 + 4 + 4 := rfl
    rw [this, ← List.drop_drop, ← List.drop_drop, ← List.drop_drop, List.drop_left' (be32_length _),
      List.drop_left' (be32_length _), List.drop_left' (be32_length _), List.drop_left' (be32_length _),
      List.take_left' (be32_length _)]
    exact readBE_be32 _ h4
  have hdn : readBE (((f.fctlData seq).drop 20).take 2) = f.delayNum := by
    rw [e]
    have : (20 : Nat) = 4 + 4 + 4 + 4 + 4 := rfl
    rw [this, ← List.drop_drop, ← List.drop_drop, ← List.drop_drop, ← List.drop_drop, List.drop_left' (be32_length _),
      List.drop_left' (be32_length _), List.drop_left' (be32_length _), List.drop_left' (be32_length _),
      List.drop_left' (be32_length _), List.take_left' (by rfl : (be16 f.delayNum).length = 2)]
    exact readBE_be16 _ h5
  have hdd : readBE (((f.fctlData seq).drop 22).take 2) = f.delayDen := by
    rw [e]
    have : (22 : Nat) = 4 + 4 + 4 + 4 + 4 + 2 := rfl
    rw [this, ← List.drop_drop, ← List.drop_drop, ← List.drop_drop, ← List.drop_drop, ← List.drop_drop,
      List.drop_left' (be32_length _),
      List.drop_left' (be32_length _), List.drop_left' (be32_length _), List.drop_left' (be32_length _),
      List.drop_left' (be32_length _), List.drop_left' (by rfl : (be16 f.delayNum).length = 2),
      List.take_left' (by rfl : (be16 f.delayDen).length = 2)]
    exact readBE_be16 _ h6
  have hdis : (f.fctlData seq).getD 24 0 = f.disposeOp := by
    rw [e]; simp [be32, be16]
  have hbl : (f.fctlData seq).getD 25 0 = f.blendOp := by
    rw [e]; simp [be32, be16]
  rw [w, hh, hx, hy, hdn, hdd, hdis, hbl]

/-- sequence number carried by an animation chunk -/
def seqOf (c : Chunk) : Nat := readBE (c.data.take 4)

/-- **Sequence numbers are consecutive**: the frames are written with numbers `s, s+1, s+2, …`
    (fcTL then fdAT per frame), `s` being the number of fcTL chunks that precede the image data. -/
theorem sequence_consecutive (fs : List Frame) (s : Nat) (h : s + 2 * fs.length ≤ 2 ^ 32) :
    (frameChunks fs s).map seqOf = List.range' s (2 * fs.length) := by
  induction fs generalizing s with
  | nil => simp [frameChunks]
  | cons f fs ih =>
    simp only [List.length_cons] at h
    have e1 : seqOf ⟨nm "fcTL", f.fctlData s⟩ = s := by
      simp only [seqOf, Frame.fctlData, List.append_assoc]
      rw [List.take_left' (be32_length _)]
      exact readBE_be32 _ (by omega)
    have e2 : seqOf ⟨nm "fdAT", f.fdatData (s + 1)⟩ = s + 1 := by
      simp only [seqOf, Frame.fdatData]
      rw [List.take_left' (be32_length _)]
      exact readBE_be32 _ (by omega)
    simp only [frameChunks, List.map_cons, e1, e2]
    rw [ih (s + 2) (by omega)]
    have : 2 * (fs.length + 1) = (2 * fs.length) + 1 + 1 := by omega
    rw [List.length_cons, this, List.range'_succ, List.range'_succ]

/-- the frame data is written behind its sequence number, unchanged -/
theorem fdat_payload (f : Frame) (seq : Nat) : (f.fdatData seq).drop 4 = f.data := by
  simp only [Frame.fdatData]
  exact List.drop_left' (be32_length _)

/-- one fcTL and one fdAT per frame, in frame order -/
theorem two_chunks_per_frame (fs : List Frame) (s : Nat) : (frameChunks fs s).length = 2 * fs.length := by
  induction fs generalizing s with
  | nil => rfl
  | cons f fs ih => simp [frameChunks, ih]; omega

/-- **An animated image has every transformation class switched off** before optimisation starts,
    so (C08) colour type, bit depth, palette and interlacing of the animation are unchanged. -/
theorem apng_disables_reductions (aux : List Chunk) (allow : Bool) (o : MetaOpts)
    (h : hasChunk aux (nm "acTL") = true) :
    (finishOpts aux allow o).interlace = none ∧ (finishOpts aux allow o).bitDepth = false ∧
    (finishOpts aux allow o).colorType = false ∧ (finishOpts aux allow o).palette = false ∧
    (finishOpts aux allow o).grayscale = false := C14.finish_apng aux allow o h

/-- A frame is replaced only by a strictly smaller stream with the same geometry: the model of
    `recompress_frames` keeps every field but `data`. -/
def recompressFrame (f : Frame) (newData : Option Bytes) : Frame :=
  match newData with
  | some d => if d.length ≤ f.data.length - 1 ∧ 0 < f.data.length then { f with data := d } else f
  | none => f

theorem recompress_keeps_fields (f : Frame) (d : Option Bytes) :
    { recompressFrame f d with data := [] } = { f with data := [] } ∧
    (recompressFrame f d).data.length ≤ f.data.length := by
  unfold recompressFrame
  cases d with
  | none => simp
  | some d => simp only; split <;> simp <;> omega

/-- an animation chunk (fcTL or fdAT) -/
def isAnim (c : Chunk) : Bool := c.name = nm "fcTL" || c.name = nm "fdAT"

/-- the sequence numbers of a chunk list's animation chunks, in file order -/
def animSeqs (cs : List Chunk) : List Nat := (cs.filter isAnim).map seqOf

/-- **The whole output is numbered consecutively from zero**, wherever the ancillary chunks sit: if
    the fcTL chunks in front of the image data (at most the default image's) carry 0, 1, … in order -
    which is all a valid input can have there - and no animation chunk hides among the other
    ancillary chunks, then the animation chunks of the written file carry 0, 1, 2, … in file order.
    (The start number for the frames is the *count* of fcTL chunks before IDAT, not a guess from the
    chunk next to IDAT - the seeded change C10i.) -/
theorem output_sequence_from_zero (p : PngData)
    (hfd : ∀ c ∈ p.aux, c.name ≠ nm "fdAT")
    (hpre : (((splitAtIdat p.aux).1).filter fun c => c.name = nm "fcTL").map seqOf =
      List.range (((splitAtIdat p.aux).1).filter fun c => c.name = nm "fcTL").length)
    (hpost : ∀ c ∈ (splitAtIdat p.aux).2, c.name ≠ nm "fcTL")
    (hsz : (((splitAtIdat p.aux).1).filter fun c => c.name = nm "fcTL").length + 2 * p.frames.length ≤ 2 ^ 32) :
    animSeqs (outputChunks p) =
      List.range ((((splitAtIdat p.aux).1).filter fun c => c.name = nm "fcTL").length + 2 * p.frames.length) := by
  generalize hsp : splitAtIdat p.aux = sp at hpre hpost hsz
  obtain ⟨pre, post⟩ := sp
  simp only at hpre hpost hsz
  have hpre_sub : ∀ c ∈ pre, c ∈ p.aux := by
    intro c hc
    have : pre = p.aux.takeWhile fun c => c.name ≠ nm "IDAT" := by
      have := congrArg Prod.fst hsp; simpa [splitAtIdat] using this.symm
    rw [this] at hc
    exact (List.takeWhile_sublist _).subset hc
  have hpost_sub : ∀ c ∈ post, c ∈ p.aux := by
    intro c hc
    have : post = (p.aux.drop ((p.aux.takeWhile fun c => c.name ≠ nm "IDAT").length + 1)).filter fun c => c.name ≠ nm "IDAT" := by
      have := congrArg Prod.snd hsp; simpa [splitAtIdat] using this.symm
    rw [this] at hc
    exact (List.drop_sublist _ _).subset (List.mem_filter.mp hc).1
  have n1 : nm "IHDR" ≠ nm "fcTL" := by decide
  have n2 : nm "IHDR" ≠ nm "fdAT" := by decide
  have n3 : nm "IDAT" ≠ nm "fcTL" := by decide
  have n4 : nm "IDAT" ≠ nm "fdAT" := by decide
  have a1 : isAnim ⟨nm "IHDR", ihdrBytes p.raw.ihdr⟩ = false := by simp [isAnim, n1, n2]
  have a2 : isAnim ⟨nm "IDAT", p.idat⟩ = false := by simp [isAnim, n3, n4]
  have a3 : isAnim ⟨nm "IEND", []⟩ = false := by decide
  unfold animSeqs outputChunks
  rw [hsp]
  simp only [List.filter_append, List.filter_cons, List.filter_nil, a1, a2, a3, Bool.false_eq_true, if_false,
    List.nil_append, List.append_nil, List.map_append]
  -- ordinary chunks in front: none is an animation chunk
  have h1 : (pre.filter fun c => !isAfterPlte c.name).filter isAnim = [] := by
    rw [List.filter_eq_nil_iff]
    intro c hc
    obtain ⟨hcp, hn⟩ := List.mem_filter.mp hc
    have hfdc := hfd c (hpre_sub c hcp)
    simp only [isAnim, Bool.or_eq_true, decide_eq_true_eq, not_or]
    refine ⟨?_, hfdc⟩
    intro hf
    simp [isAfterPlte, hf] at hn
  have h2 : (keyChunks p.raw.ihdr.ct).filter isAnim = [] := by
    rw [List.filter_eq_nil_iff]
    intro c hc
    have e1 : nm "PLTE" ≠ nm "fcTL" := by decide
    have e2 : nm "PLTE" ≠ nm "fdAT" := by decide
    have e3 : nm "tRNS" ≠ nm "fcTL" := by decide
    have e4 : nm "tRNS" ≠ nm "fdAT" := by decide
    rcases C02.keyChunks_names _ c hc with h | h <;> simp [isAnim, h, e1, e2, e3, e4]
  have h3 : (pre.filter fun c => isAfterPlte c.name).filter isAnim = pre.filter fun c => c.name = nm "fcTL" := by
    rw [List.filter_filter]
    apply List.filter_congr
    intro c hc
    have hfdc := hfd c (hpre_sub c hc)
    by_cases hf : c.name = nm "fcTL"
    · simp [isAnim, isAfterPlte, hf]
    · simp [isAnim, hf, hfdc]
  have h4 : (frameChunks p.frames (pre.filter fun c => c.name = nm "fcTL").length).filter isAnim =
      frameChunks p.frames (pre.filter fun c => c.name = nm "fcTL").length := by
    rw [List.filter_eq_self]
    intro c hc
    rcases C02.frameChunks_names _ _ c hc with h | h <;> simp [isAnim, h]
  have h5 : post.filter isAnim = [] := by
    rw [List.filter_eq_nil_iff]
    intro c hc
    simp only [isAnim, Bool.or_eq_true, decide_eq_true_eq, not_or]
    exact ⟨hpost c hc, hfd c (hpost_sub c hc)⟩
  have hcount : ((pre.filter fun c => isAfterPlte c.name).filter fun c => c.name = nm "fcTL") =
      pre.filter fun c => c.name = nm "fcTL" := by
    rw [List.filter_filter]
    apply List.filter_congr
    intro c _
    by_cases hf : c.name = nm "fcTL"
    · simp [isAfterPlte, hf]
    · simp [hf]
  rw [h1, h2, h3, hcount, h4, h5]
  simp only [List.map_nil, List.nil_append, List.append_nil]
  rw [hpre, sequence_consecutive _ _ hsz, List.range_eq_range', List.range_eq_range']
  have := @List.range'_append_1 0 (pre.filter fun c => c.name = nm "fcTL").length (2 * p.frames.length)
  rw [Nat.zero_add] at this
  exact this

/-- Non-vacuity -/
example : FrameWF ⟨3, 2, 1, 0, 5, 100, 1, 0, [9]⟩ := by unfold FrameWF; decide

end OxiModel.C10

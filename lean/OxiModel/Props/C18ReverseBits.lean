import OxiModel.Props.C18Reverse
import Mathlib.Data.List.Nodup
/-
  C18, the other order below 8 bits per pixel: de-interlacing ANY well-sized interlaced image whose
  pixels are 1..7 bits wide and interlacing the result returns the interlaced image with the unused
  bits after the last pixel of every pass line cleared (they carry no pixel) - so every pixel of every
  pass line is put where `interlace_image` takes it from.  As in C18Reverse the argument is a count:
  the map "rows -> pixels of all pass lines" is an injective self-map of the bit strings of length
  `h * w * bpp` (the de-interlacing machine is a left inverse), hence onto; so the pixels of an
  arbitrary interlaced image are the pass-line pixels of some rows `R`, the machine (which reads
  nothing but those pixels) rebuilds `R` from it, and interlacing `R` packs the same pixels again.
-/
namespace OxiModel.C18
open OxiModel OxiModel.DeProofs OxiModel.Spec

/-! ### the lines of an interlaced image, tagged (pass, row) -/

/-- pixels in a line of pass `p` -/
def pcnt (w p : Nat) : Nat := Spec.passCount w (geom p).xs (geom p).dx

/-- (pass, image row) of every line of the interlaced image, in storage order -/
def allTags (w h : Nat) : List (Nat × Nat) :=
  (List.range' 1 7).flatMap fun q => if passEmptyS q w h then [] else (passRowsOf q h).map fun y => (q, y)

theorem allLinesL_eq_map (lineOf : Nat → Nat → Bytes) (w h : Nat) :
    allLinesL lineOf w h = (allTags w h).map fun t => lineOf t.1 t.2 := by
  unfold allLinesL allTags passLinesL
  rw [List.map_flatMap]
  congr 1
  funext q
  split
  · rfl
  · rw [List.map_map]; rfl

theorem mem_allTags (w h : Nat) (t : Nat × Nat) (ht : t ∈ allTags w h) :
    1 ≤ t.1 ∧ t.1 ≤ 7 ∧ ¬ passEmptyS t.1 w h ∧ t.2 ∈ passRowsOf t.1 h := by
  unfold allTags at ht
  obtain ⟨q, hq, hin⟩ := List.mem_flatMap.mp ht
  obtain ⟨i, hi, rfl⟩ := List.mem_range'.mp hq
  by_cases he : passEmptyS (1 + 1 * i) w h
  · simp only [he, if_true, List.not_mem_nil] at hin
  · simp only [he, if_false] at hin
    obtain ⟨y, hy, rfl⟩ := List.mem_map.mp hin
    exact ⟨by simp only; omega, by simp only; omega, he, hy⟩

theorem allTags_nodup (w h : Nat) : (allTags w h).Nodup := by
  unfold allTags
  rw [List.nodup_flatMap]
  refine ⟨?_, ?_⟩
  · intro q hq
    obtain ⟨i, hi, rfl⟩ := List.mem_range'.mp hq
    split
    · exact List.nodup_nil
    · apply List.Nodup.map
      · intro a b hab
        exact (Prod.mk.inj hab).2
      · unfold passRowsOf
        have hd : 0 < (geom (1 + 1 * i)).dy := by
          have := geom_rows (1 + 1 * i) (by omega) (by omega)
          simp only [latticePairs, List.mem_cons, Prod.mk.injEq, List.not_mem_nil, or_false] at this
          omega
        exact List.nodup_range' _ hd
  · have hp : (List.range' 1 7).Pairwise (· ≠ ·) := by decide
    refine hp.imp ?_
    intro a b hab
    simp only [Function.onFun, List.disjoint_left]
    intro t hta htb
    split at hta
    · simp at hta
    · split at htb
      · simp at htb
      · obtain ⟨_, _, rfl⟩ := List.mem_map.mp hta
        obtain ⟨_, _, h2⟩ := List.mem_map.mp htb
        exact hab (Prod.mk.inj h2).1.symm

/-- a list of lines as a function of (pass, row); off the lattice the value is `dflt` -/
def lineOfList (Ls : List Bytes) (dflt : Nat → Nat → Bytes) (w h : Nat) : Nat → Nat → Bytes := fun p y =>
  if (p, y) ∈ allTags w h then Ls.getD ((allTags w h).idxOf (p, y)) [] else dflt p y

theorem allLinesL_lineOfList (Ls : List Bytes) (dflt : Nat → Nat → Bytes) (w h : Nat)
    (hlen : Ls.length = (allTags w h).length) : allLinesL (lineOfList Ls dflt w h) w h = Ls := by
  rw [allLinesL_eq_map]
  apply List.ext_getElem
  · rw [List.length_map, hlen]
  · intro k h1 h2
    rw [List.length_map] at h1
    rw [List.getElem_map]
    unfold lineOfList
    have hm : ((allTags w h)[k].1, (allTags w h)[k].2) ∈ allTags w h := List.getElem_mem h1
    rw [if_pos hm]
    have : ((allTags w h)[k].1, (allTags w h)[k].2) = (allTags w h)[k] := rfl
    rw [this, (allTags_nodup w h).idxOf_getElem k h1, List.getD_eq_getElem?_getD, List.getElem?_eq_getElem h2]
    rfl

/-- the specification's line table, from the tags -/
theorem lineLens_tags (w h bpp : Nat) :
    Spec.lineLens w h bpp true false =
      (allTags w h).map fun t => (Spec.rowBytes (pcnt w t.1) bpp + 0, some t.1, pcnt w t.1) := by
  unfold Spec.lineLens allTags
  simp only [Bool.not_true, Bool.false_eq_true, if_false]
  rw [List.map_flatMap]
  have hr : List.range' 1 7 = (List.range 7).map (· + 1) := by decide
  rw [hr, List.flatMap_map]
  apply flatMap_congr_of_mem
  intro k hk
  have hk7 : k < 7 := List.mem_range.mp hk
  have hg : Spec.adam7.getD k ⟨0, 0, 1, 1⟩ = geom (k + 1) := by simp [geom]
  simp only [hg, Spec.passDims, Function.comp]
  by_cases hw0 : Spec.passCount w (geom (k + 1)).xs (geom (k + 1)).dx = 0
  · simp only [hw0, if_true, empty_of_count_zero (k + 1) w h (Or.inl hw0), List.map_nil]
  · by_cases hh0 : Spec.passCount h (geom (k + 1)).ys (geom (k + 1)).dy = 0
    · simp only [hw0, if_false, hh0, List.replicate_zero, empty_of_count_zero (k + 1) w h (Or.inr hh0), if_true,
        List.map_nil]
    · have hne : ¬ passEmptyS (k + 1) w h := (not_empty_iff (k + 1) w h).mpr ⟨hw0, hh0⟩
      simp only [hw0, if_false, hne, List.map_map]
      have : ∀ y ∈ passRowsOf (k + 1) h,
          ((fun t : Nat × Nat => (Spec.rowBytes (pcnt w t.1) bpp + 0, some t.1, pcnt w t.1)) ∘ fun y => (k + 1, y)) y =
          (fun _ => (Spec.rowBytes (Spec.passCount w (geom (k + 1)).xs (geom (k + 1)).dx) bpp + 0, some (k + 1),
            Spec.passCount w (geom (k + 1)).xs (geom (k + 1)).dx)) y := by
        intro y _
        rfl
      rw [List.map_congr_left this, List.map_const']
      simp [passRowsOf]

/-! ### the pixels of all pass lines, as a function of the rows -/

/-- the units (pixels' bits) of every line, in storage order -/
def unitsAll {α} (c w h : Nat) (R : List (List α)) : List (List α) :=
  (allTags w h).map fun t => passRowUnits c w t.1 (R.getD t.2 [])

theorem allLinesG_units {α} (enc : List α → Bytes) (c w h : Nat) (R : List (List α)) :
    allLinesG enc c w h R = (unitsAll c w h R).map enc := by
  rw [allLinesG_eq_L, allLinesL_eq_map, unitsAll, List.map_map]
  rfl

theorem unitsAll_lengths {α} (c w h : Nat) (hc : 0 < c) (R : List (List α)) (hR : R.length = h)
    (hrows : ∀ r ∈ R, r.length = w * c) :
    (unitsAll c w h R).map List.length = (allTags w h).map fun t => pcnt w t.1 * c := by
  unfold unitsAll
  rw [List.map_map]
  apply List.map_congr_left
  intro t ht
  obtain ⟨h1, h7, _, hy⟩ := mem_allTags w h t ht
  have hyh := passRows_lt t.1 h t.2 h1 h7 hy
  have hyR : t.2 < R.length := by omega
  simp only [Function.comp]
  rw [getD_rows R t.2 hyR, (units_spec c w t.1 hc h1 h7 R[t.2] (hrows _ (List.getElem_mem hyR))).1]
  rfl

theorem tags_sum (w h c : Nat) : ((allTags w h).map fun t => pcnt w t.1 * c).sum = h * (w * c) := by
  rw [← dataSize_bytes w h c]
  unfold Spec.dataSize
  rw [lineLens_tags, List.map_map]
  congr 1
  apply List.map_congr_left
  intro t _
  simp only [Function.comp, Nat.add_zero]
  exact (rowBytes_bytes _ _).symm

theorem unitsAll_flatten_length {α} (c w h : Nat) (hc : 0 < c) (R : List (List α)) (hR : R.length = h)
    (hrows : ∀ r ∈ R, r.length = w * c) : (unitsAll c w h R).flatten.length = h * (w * c) := by
  rw [List.length_flatten, unitsAll_lengths c w h hc R hR hrows, tags_sum]

/-- **Every assignment of pixels to the pass lines is the interlacing of some rows** (bits; the count
    argument): given for every line as many bits as its pixels take, there are `h` rows of `w` pixels
    whose pass-line pixels are exactly those. -/
theorem units_onto (w h b : Nat) (hw : 1 ≤ w) (hh : 1 ≤ h) (hb : 0 < b) (Us : List (List Bool))
    (hUs : Us.map List.length = (allTags w h).map fun t => pcnt w t.1 * b) :
    ∃ R : List (List Bool), R.length = h ∧ (∀ r ∈ R, r.length = w * b) ∧ unitsAll b w h R = Us := by
  have hwb : 0 < w * b := Nat.mul_pos hw hb
  let N := h * (w * b)
  have hrowsOf : ∀ v : List.Vector Bool N, (chunksExact (w * b) v.1).length = h ∧
      (∀ r ∈ chunksExact (w * b) v.1, r.length = w * b) ∧ (chunksExact (w * b) v.1).flatten = v.1 := by
    intro v
    obtain ⟨hfl, hpl⟩ := flatten_chunksExact (w * b) hwb h v.1 v.2
    exact ⟨chunksExact_length (w * b) hwb h v.1 v.2, hpl, hfl⟩
  let f : List.Vector Bool N → List.Vector Bool N := fun v =>
    ⟨(unitsAll b w h (chunksExact (w * b) v.1)).flatten,
      unitsAll_flatten_length b w h hb _ (hrowsOf v).1 (hrowsOf v).2.1⟩
  have hinj : Function.Injective f := by
    intro v v' hvv
    have hfl : (unitsAll b w h (chunksExact (w * b) v.1)).flatten =
        (unitsAll b w h (chunksExact (w * b) v'.1)).flatten := congrArg Subtype.val hvv
    have hu := flatten_inj _ _ (by
      rw [unitsAll_lengths b w h hb _ (hrowsOf v).1 (hrowsOf v).2.1,
        unitsAll_lengths b w h hb _ (hrowsOf v').1 (hrowsOf v').2.1]) hfl
    obtain ⟨st, hrun, hres⟩ := machine_rebuilds_rowsG bytesOfBits (bitUnitsOf w b) false w h b hw hh hb
      (chunksExact (w * b) v.1) (hrowsOf v).1 (hrowsOf v).2.1
      (fun p h1 h7 hne row hl => bit_units_roundtrip w h b hb p h1 h7 hne row hl)
    obtain ⟨st', hrun', hres'⟩ := machine_rebuilds_rowsG bytesOfBits (bitUnitsOf w b) false w h b hw hh hb
      (chunksExact (w * b) v'.1) (hrowsOf v').1 (hrowsOf v').2.1
      (fun p h1 h7 hne row hl => bit_units_roundtrip w h b hb p h1 h7 hne row hl)
    rw [allLinesG_units, hu, ← allLinesG_units, hrun'] at hrun
    have hst : st' = st := Option.some.inj hrun
    rw [hst] at hres'
    apply Subtype.ext
    rw [← (hrowsOf v).2.2, ← (hrowsOf v').2.2, ← hres, ← hres']
  have hlenU : Us.flatten.length = N := by
    rw [List.length_flatten, hUs, tags_sum]
  obtain ⟨v, hv⟩ := Finite.surjective_of_injective hinj ⟨Us.flatten, hlenU⟩
  refine ⟨chunksExact (w * b) v.1, (hrowsOf v).1, (hrowsOf v).2.1, ?_⟩
  apply flatten_inj
  · rw [unitsAll_lengths b w h hb _ (hrowsOf v).1 (hrowsOf v).2.1, hUs]
  · exact congrArg Subtype.val hv

/-! ### from the machine to the image functions -/

/-- the iterator's lines carry the table's pixel counts and the data's pieces -/
theorem splitLines_zip {γ} (g : Bytes → Nat → γ) : ∀ (specs : List (Nat × Option Nat × Nat)) (pieces : List Bytes),
    specs.map (·.1) = pieces.map List.length →
    (splitLines false specs pieces.flatten).map (fun x => g x.2.1 x.2.2.2) =
      List.zipWith (fun sp pc => g pc sp.2.2) specs pieces := by
  intro specs
  induction specs with
  | nil =>
    intro pieces h
    cases pieces with
    | nil => rfl
    | cons a l => simp at h
  | cons sp rest ih =>
    intro pieces h
    obtain ⟨len, pass, px⟩ := sp
    cases pieces with
    | nil => simp at h
    | cons pc ps =>
      simp only [List.map_cons, List.cons.injEq] at h
      obtain ⟨hlen, hrest⟩ := h
      simp only [splitLines, Bool.false_eq_true, if_false, List.flatten_cons, List.map_cons, List.zipWith_cons_cons]
      rw [List.take_left' hlen.symm, List.drop_left' hlen.symm, ih ps hrest]

/-- what `deinterlace_bits` reads from a line of a pass that has pixels: the bits of its pixels -/
theorem bitUnitsOf_eq (w h b p : Nat) (h1 : 1 ≤ p) (h7 : p ≤ 7) (hne : ¬ passEmptyS p w h) (l : Bytes) :
    bitUnitsOf w b (pcOf p) l = some ((bitsOf l).take (pcnt w p * b)) := by
  obtain ⟨hw0, _⟩ := (not_empty_iff p w h).mp hne
  have hx := lattice_bound _ _ (geom_cols p h1 h7) w 0 (by omega)
  have hN : (w - (geom p).xs + (geom p).dx - 1) / (geom p).dx = Spec.passCount w (geom p).xs (geom p).dx := by
    unfold Spec.passCount
    congr 1
    omega
  unfold bitUnitsOf
  have hnlt : ¬ w < (pcOf p).xShift := by simp only [pcOf]; omega
  rw [if_neg hnlt]
  simp only [pcOf]
  rw [hN]
  rfl

/-- the pixels' bits of scan line `x`, packed again with the unused bits cleared -/
def clearPad (bpp : Nat) (x : UInt8 × Bytes × Option Nat × Nat) : Bytes :=
  bytesOfBits ((bitsOf x.2.1).take (x.2.2.2 * bpp))

/-- **De-interlacing and then interlacing returns the original interlaced image, below 8 bits per
    pixel** - every width and height from 1 upward, pixel sizes 1 to 7 bits, ANY interlaced data of the
    header-implied size: `deinterlace_image` succeeds, and `interlace_image` of its result is the image
    we started from, line by line, with the unused bits after each line's last pixel cleared.  So
    `deinterlace_image` puts every pixel of every pass line where `interlace_image` takes it from. -/
theorem interlace_deinterlace_bits (hdr : Ihdr) (hb1 : 1 ≤ hdr.bpp) (hb8 : hdr.bpp < 8)
    (hw : 1 ≤ hdr.width) (hh : 1 ≤ hdr.height) (hil : hdr.interlaced = true) (D : Bytes)
    (hlen : D.length = Spec.dataSize hdr.width hdr.height hdr.bpp true false) :
    ∃ L i j, Img.scanLines ⟨hdr, D⟩ false = some L ∧ deinterlaceImage ⟨hdr, D⟩ = some i ∧
      i.ihdr = { hdr with interlaced := false } ∧ interlaceImage i = some j ∧ j.ihdr = hdr ∧
      j.data = (L.map (clearPad hdr.bpp)).flatten := by
  obtain ⟨ps, hps', hfl⟩ := exists_pieces
    ((Spec.lineLens hdr.width hdr.height hdr.bpp true false).map fun x : Nat × Option Nat × Nat => x.1) D hlen
  have hps := hps'.symm
  subst hfl
  have hpsLen : ps.length = (allTags hdr.width hdr.height).length := by
    have := congrArg List.length hps'
    rw [List.length_map, List.length_map, lineLens_tags, List.length_map] at this
    exact this
  have hpk : ∀ k (hk : k < ps.length) (hk' : k < (allTags hdr.width hdr.height).length),
      ps[k].length = Spec.rowBytes (pcnt hdr.width (allTags hdr.width hdr.height)[k].1) hdr.bpp := by
    intro k hk hk'
    have h1 : (ps.map List.length)[k]? = some ps[k].length := by
      rw [List.getElem?_map, List.getElem?_eq_getElem hk]; rfl
    rw [hps', lineLens_tags, List.map_map, List.getElem?_map, List.getElem?_eq_getElem hk'] at h1
    simp only [Option.map_some, Function.comp, Nat.add_zero, Option.some.injEq] at h1
    exact h1.symm
  -- the scan lines
  have hscan : Img.scanLines ⟨hdr, ps.flatten⟩ false =
      some (splitLines false (Spec.lineLens hdr.width hdr.height hdr.bpp true false) ps.flatten) := by
    unfold Img.scanLines
    simp only [hil, hlen]
    rw [iterator_is_spec _ _ _ true false hw hh hb1]
    rfl
  have hLp : (splitLines false (Spec.lineLens hdr.width hdr.height hdr.bpp true false) ps.flatten).map (·.2.1) = ps :=
    splitLines_flatten _ _ hps
  -- the pixels of every line
  let Us : List (List Bool) := List.zipWith
    (fun (t : Nat × Nat) (l : Bytes) => (bitsOf l).take (pcnt hdr.width t.1 * hdr.bpp)) (allTags hdr.width hdr.height) ps
  have hUsLen : Us.length = (allTags hdr.width hdr.height).length := by
    simp only [Us, List.length_zipWith, hpsLen, Nat.min_self]
  have hUs : Us.map List.length = (allTags hdr.width hdr.height).map fun t => pcnt hdr.width t.1 * hdr.bpp := by
    apply List.ext_getElem
    · rw [List.length_map, List.length_map, hUsLen]
    · intro k h1 h2
      rw [List.length_map] at h1 h2
      have hkp : k < ps.length := by rw [hpsLen]; exact h2
      rw [List.getElem_map, List.getElem_map]
      simp only [Us, List.getElem_zipWith, List.length_take, bitsOf_length, hpk k hkp h2]
      unfold Spec.rowBytes
      omega
  obtain ⟨R, hR, hrows, hRU⟩ := units_onto hdr.width hdr.height hdr.bpp hw hh hb1 Us hUs
  -- the machine on the lines of D
  have hdec : ∀ p, 1 ≤ p → p ≤ 7 → ¬ passEmptyS p hdr.width hdr.height → ∀ y, y < hdr.height →
      bitUnitsOf hdr.width hdr.bpp (pcOf p)
        (lineOfList ps (fun p y => bytesOfBits (passRowUnits hdr.bpp hdr.width p (R.getD y []))) hdr.width hdr.height p y) =
        some (passRowUnits hdr.bpp hdr.width p (R.getD y [])) := by
    intro p h1 h7 hne y hy
    unfold lineOfList
    by_cases hm : (p, y) ∈ allTags hdr.width hdr.height
    · rw [if_pos hm, bitUnitsOf_eq hdr.width hdr.height hdr.bpp p h1 h7 hne]
      have hk : (allTags hdr.width hdr.height).idxOf (p, y) < (allTags hdr.width hdr.height).length :=
        List.idxOf_lt_length_of_mem hm
      have hkp : (allTags hdr.width hdr.height).idxOf (p, y) < ps.length := by rw [hpsLen]; exact hk
      have htag : (allTags hdr.width hdr.height)[(allTags hdr.width hdr.height).idxOf (p, y)] = (p, y) :=
        List.getElem_idxOf hk
      have hU : (unitsAll hdr.bpp hdr.width hdr.height R)[(allTags hdr.width hdr.height).idxOf (p, y)]? =
          Us[(allTags hdr.width hdr.height).idxOf (p, y)]? := by rw [hRU]
      rw [unitsAll, List.getElem?_map, List.getElem?_eq_getElem hk, htag,
        List.getElem?_eq_getElem (by rw [hUsLen]; exact hk)] at hU
      simp only [Us, Option.map_some, List.getElem_zipWith, htag, Option.some.injEq] at hU
      rw [List.getD_eq_getElem?_getD, List.getElem?_eq_getElem hkp, hU]
      rfl
    · rw [if_neg hm]
      have hyR : y < R.length := by omega
      apply bit_units_roundtrip hdr.width hdr.height hdr.bpp hb1 p h1 h7 hne
      rw [getD_rows R y hyR]
      exact hrows _ (List.getElem_mem hyR)
  obtain ⟨st', hrun, hres⟩ := machine_rebuilds_rowsL
    (lineOfList ps (fun p y => bytesOfBits (passRowUnits hdr.bpp hdr.width p (R.getD y []))) hdr.width hdr.height)
    (bitUnitsOf hdr.width hdr.bpp) false hdr.width hdr.height hdr.bpp hw hh hb1 R hR hrows hdec
  rw [allLinesL_lineOfList ps _ hdr.width hdr.height hpsLen] at hrun
  have hdata : deinterlaceData ⟨hdr, ps.flatten⟩ = some (R.flatMap bytesOfBits) := by
    unfold deinterlaceData
    simp only [hscan]
    have hge : ¬ hdr.bpp ≥ 8 := by omega
    simp only [hge, if_false]
    have hfold : (splitLines false (Spec.lineLens hdr.width hdr.height hdr.bpp true false) ps.flatten).foldlM
          (fun st (x : UInt8 × Bytes × Option Nat × Nat) =>
            match x with
            | (_, line, _, _) => deStep hdr.width hdr.height hdr.bpp (bitUnitsOf hdr.width hdr.bpp) st line)
          (⟨Array.replicate hdr.height (Array.replicate (hdr.bpp * hdr.width) false), 1, 0, false⟩ : DeState Bool) =
          some st' := by
      have h2 := hrun
      rw [← hLp, List.foldlM_map] at h2
      exact h2
    unfold bitUnitsOf at hfold
    rw [hfold]
    simp only
    rw [← hres, List.flatMap_map]
  -- interlacing the result
  have hrb : 0 < Spec.rowBytes hdr.width hdr.bpp := by
    unfold Spec.rowBytes
    have : 1 ≤ hdr.width * hdr.bpp := Nat.mul_pos hw hb1
    omega
  have hpacked : ∀ r ∈ R.map bytesOfBits, r.length = Spec.rowBytes hdr.width hdr.bpp := by
    intro r hr
    obtain ⟨r0, hr0, rfl⟩ := List.mem_map.mp hr
    rw [length_bytesOfBits, hrows r0 hr0]
    rfl
  have hchunks : chunksExact (Spec.rowBytes hdr.width hdr.bpp) (R.flatMap bytesOfBits) = R.map bytesOfBits := by
    rw [List.flatMap_def]
    exact chunksExact_flatten _ hrb _ hpacked
  have hilen : (R.flatMap bytesOfBits).length = hdr.height * Spec.rowBytes hdr.width hdr.bpp := by
    rw [List.flatMap_def, List.length_flatten, sum_lengths_const _ _ hpacked, List.length_map, hR]
  obtain ⟨j, hj1, hj2, hj3, _⟩ := deinterlace_interlace_bits ⟨{ hdr with interlaced := false }, R.flatMap bytesOfBits⟩
    hb1 hb8 hw hh rfl hilen
  have hRback : ((chunksExact (Spec.rowBytes hdr.width hdr.bpp) (R.flatMap bytesOfBits)).map
      fun r => (bitsOf r).take (hdr.width * hdr.bpp)) = R := by
    rw [hchunks, List.map_map]
    have : ∀ r ∈ R, ((fun r => (bitsOf r).take (hdr.width * hdr.bpp)) ∘ bytesOfBits) r = id r := by
      intro r hr
      simp only [Function.comp, id]
      have := bitsOf_bytesOfBits_take r
      rw [hrows r hr] at this
      exact this
    rw [List.map_congr_left this, List.map_id]
  refine ⟨_, ⟨{ hdr with interlaced := false }, R.flatMap bytesOfBits⟩, j, hscan, ?_, rfl, hj1, ?_, ?_⟩
  · unfold deinterlaceImage
    rw [hdata]
    rfl
  · rw [hj2]
    obtain ⟨w, h, ct, depth, il⟩ := hdr
    simp only at hil
    subst hil
    rfl
  · have hj3' : j.data = (allLinesG bytesOfBits hdr.bpp hdr.width hdr.height
        ((chunksExact (Spec.rowBytes hdr.width hdr.bpp) (R.flatMap bytesOfBits)).map
          fun r => (bitsOf r).take (hdr.width * hdr.bpp))).flatten := hj3
    rw [hj3', hRback, allLinesG_units, hRU]
    congr 1
    have hz := splitLines_zip (fun l px => bytesOfBits ((bitsOf l).take (px * hdr.bpp)))
      (Spec.lineLens hdr.width hdr.height hdr.bpp true false) ps hps
    unfold clearPad
    rw [hz, lineLens_tags, List.zipWith_map_left]
    simp only [Us, List.map_zipWith]

/-- and when the interlaced image's unused bits are zero (as in everything `interlace_image` and the
    encoders of this model write), the two conversions return it byte for byte -/
theorem interlace_deinterlace_bits_exact (hdr : Ihdr) (hb1 : 1 ≤ hdr.bpp) (hb8 : hdr.bpp < 8)
    (hw : 1 ≤ hdr.width) (hh : 1 ≤ hdr.height) (hil : hdr.interlaced = true) (D : Bytes)
    (hlen : D.length = Spec.dataSize hdr.width hdr.height hdr.bpp true false)
    (hpad : ∀ L, Img.scanLines ⟨hdr, D⟩ false = some L → ∀ x ∈ L, clearPad hdr.bpp x = x.2.1) :
    ∃ i, deinterlaceImage ⟨hdr, D⟩ = some i ∧ interlaceImage i = some ⟨hdr, D⟩ := by
  obtain ⟨L, i, j, hL, hi, _, hj, hjh, hjd⟩ := interlace_deinterlace_bits hdr hb1 hb8 hw hh hil D hlen
  refine ⟨i, hi, ?_⟩
  rw [hj]
  obtain ⟨jh, jd⟩ := j
  simp only at hjh hjd
  rw [hjh, hjd, List.map_congr_left (hpad L hL)]
  -- the lines of D concatenate to D
  obtain ⟨ps, hps', hfl⟩ := exists_pieces
    ((Spec.lineLens hdr.width hdr.height hdr.bpp true false).map fun x : Nat × Option Nat × Nat => x.1) D hlen
  have hps := hps'.symm
  subst hfl
  have hscan : Img.scanLines ⟨hdr, ps.flatten⟩ false =
      some (splitLines false (Spec.lineLens hdr.width hdr.height hdr.bpp true false) ps.flatten) := by
    unfold Img.scanLines
    simp only [hil, hlen]
    rw [iterator_is_spec _ _ _ true false hw hh hb1]
    rfl
  rw [hscan] at hL
  rw [← Option.some.inj hL, splitLines_flatten _ _ hps]

/-- Non-vacuity: 8 bytes of ones are a well-sized interlaced 5x3 gray-2 image (six non-empty passes);
    the two conversions clear exactly the unused bits of its seven lines. -/
example :
    let hdr : Ihdr := ⟨5, 3, .gray none, 2, true⟩
    let D : Bytes := [0xFF, 0xFF, 0xFF, 0xFF, 0xFF, 0xFF, 0xFF, 0xFF]
    hdr.bpp = 2 ∧ D.length = Spec.dataSize hdr.width hdr.height hdr.bpp true false ∧
    ((deinterlaceImage ⟨hdr, D⟩).bind interlaceImage) =
      some ⟨hdr, [0xC0, 0xC0, 0xC0, 0xFC, 0xF0, 0xF0, 0xFF, 0xC0]⟩ := by
  decide

end OxiModel.C18

import OxiModel.Filters
import OxiModel.Spec.Pixel
import OxiModel.LosslessProofs
import OxiModel.FilterImage
import OxiModel.Props.C01
/-
  C03 — alpha optimisation may only change colour under fully transparent pixels.
-/
namespace OxiModel.C03
open OxiModel OxiModel.Spec

/-- what the rewrite may do to one pixel: nothing, unless all its alpha bytes are zero, in which
    case only the bytes in front of the alpha bytes are replaced -/
def pixelRel (cb : Nat) (px q : Bytes) : Prop :=
  if pxTransparent cb px then ∃ c, q = c ++ px.drop cb else q = px

theorem fold_frame (ft cb : Nat) (pixels prevPixels : List Bytes) (fo : Nat) :
    ∀ (l : List (Bytes × Nat)) (acc : List Bytes),
      let r := l.foldl (fun acc (p : Bytes × Nat) =>
        if pxTransparent cb p.1 then
          acc ++ [alphaColour ft cb p.2 pixels prevPixels acc fo ++ p.1.drop cb]
        else acc ++ [p.1]) acc
      r.length = acc.length + l.length ∧ (∀ k (hk : k < acc.length), r[k]? = acc[k]?) ∧
      ∀ k (hk : k < l.length), ∃ q, r[acc.length + k]? = some q ∧ pixelRel cb l[k].1 q := by
  intro l
  induction l with
  | nil => intro acc; simp
  | cons p l ih =>
    intro acc
    simp only [List.foldl_cons]
    cases ht : pxTransparent cb p.1
    case true =>
      simp only [if_true]
      have := ih (acc ++ [alphaColour ft cb p.2 pixels prevPixels acc fo ++ p.1.drop cb])
      simp only [List.length_append, List.length_cons, List.length_nil] at this
      obtain ⟨h1, h2, h3⟩ := this
      refine ⟨by simp only [List.length_cons]; omega, ?_, ?_⟩
      · intro k hk
        rw [h2 k (by omega)]
        simp [List.getElem?_append_left hk]
      · intro k hk
        cases k with
        | zero =>
          refine ⟨alphaColour ft cb p.2 pixels prevPixels acc fo ++ p.1.drop cb, ?_, ?_⟩
          · rw [Nat.add_zero, h2 acc.length (by omega)]
            simp
          · simp only [List.getElem_cons_zero, pixelRel, ht, if_true]
            exact ⟨_, rfl⟩
        | succ k =>
          simp only [List.length_cons] at hk
          obtain ⟨q, hq1, hq2⟩ := h3 k (by omega)
          refine ⟨q, ?_, ?_⟩
          · rw [← hq1]; congr 1; omega
          · simpa using hq2
    case false =>
      simp only [Bool.false_eq_true, if_false]
      have := ih (acc ++ [p.1])
      simp only [List.length_append, List.length_cons, List.length_nil] at this
      obtain ⟨h1, h2, h3⟩ := this
      refine ⟨by simp only [List.length_cons]; omega, ?_, ?_⟩
      · intro k hk
        rw [h2 k (by omega)]
        simp [List.getElem?_append_left hk]
      · intro k hk
        cases k with
        | zero =>
          refine ⟨p.1, ?_, ?_⟩
          · rw [Nat.add_zero, h2 acc.length (by omega)]
            simp
          · simp [pixelRel, ht]
        | succ k =>
          simp only [List.length_cons] at hk
          obtain ⟨q, hq1, hq2⟩ := h3 k (by omega)
          refine ⟨q, ?_, ?_⟩
          · rw [← hq1]; congr 1; omega
          · simpa using hq2

/-- **Frame property of the per-filter alpha rewrite.** For every filter type, every pixel size and
    every line: the rewrite returns as many pixels as it was given; a pixel that is not fully
    transparent is returned unchanged; a fully transparent pixel keeps its alpha bytes (as the
    suffix after the rewritten colour bytes). -/
theorem alpha_rewrite_frame (ft cb : Nat) (pixels prevPixels : List Bytes) :
    (optimizeAlphaPixels ft cb pixels prevPixels).length = pixels.length ∧
    ∀ k (hk : k < pixels.length), ∃ q, (optimizeAlphaPixels ft cb pixels prevPixels)[k]? = some q ∧
      pixelRel cb pixels[k] q := by
  unfold optimizeAlphaPixels
  have := fold_frame ft cb pixels prevPixels
    ((pixels.findIdx? fun px => (px.drop cb).any (· ≠ 0)).getD 0) pixels.zipIdx []
  simp only [List.length_nil, Nat.zero_add, List.length_zipIdx] at this
  obtain ⟨h1, _, h3⟩ := this
  refine ⟨h1, ?_⟩
  intro k hk
  obtain ⟨q, hq1, hq2⟩ := h3 k hk
  refine ⟨q, hq1, ?_⟩
  simpa using hq2

/-- Filter type None performs no rewrite at all ("assume transparent pixels already set to 0"). -/
theorem none_filter_no_rewrite (bpp : Nat) (data prev : Bytes) (cb : Nat) :
    optimizeAlpha 0 bpp data prev cb = data := by
  simp [optimizeAlpha]

/-- A pixel whose alpha samples are zero is invisible whatever its colour bytes: two RGBA pixels
    with alpha 0 are related by `alphaEq` regardless of colour. -/
theorem transparent_pixels_alphaEq (depth r g b r' g' b' : Nat) :
    alphaEq (colourOf .rgba depth [r, g, b, 0]) (colourOf .rgba depth [r', g', b', 0]) := by
  simp [alphaEq, colourOf, scaleTo16]

theorem transparent_ga_alphaEq (depth g g' : Nat) :
    alphaEq (colourOf .grayAlpha depth [g, 0]) (colourOf .grayAlpha depth [g', 0]) := by
  simp [alphaEq, colourOf, scaleTo16]

/-- `alphaEq` is an equivalence containing equality (so chains of alpha-optimising runs compose). -/
theorem alphaEq_refl (p : Px) : alphaEq p p := ⟨rfl, fun _ => rfl⟩
theorem alphaEq_symm {p q : Px} (h : alphaEq p q) : alphaEq q p :=
  ⟨h.1.symm, fun hq => (h.2 (by rw [h.1]; exact hq)).symm⟩
theorem alphaEq_trans {p q r : Px} (h1 : alphaEq p q) (h2 : alphaEq q r) : alphaEq p r :=
  ⟨h1.1.trans h2.1, fun hp => (h1.2 hp).trans (h2.2 (by rw [← h1.1]; exact hp))⟩

/-- a stored pixel whose alpha bytes are all zero is fully transparent -/
theorem transparent_px_alpha (ct : ColorType) (d : Nat) (px : Bytes) (ha : ct.hasAlpha = true)
    (hd : d = 8 ∨ d = 16) (hlen : px.length = bdOf d * ct.channels)
    (hz : (px.drop (bdOf d * ct.channels - bdOf d)).all (· = 0) = true) :
    (colourOf ct d (samplesOf d px)).a = 0 := by
  have hall : ∀ x ∈ px.drop (bdOf d * ct.channels - bdOf d), x = 0 := by
    intro x hx; simpa using List.all_eq_true.mp hz x hx
  rcases hd with rfl | rfl
  · have hb : bdOf 8 = 1 := rfl
    rw [hb] at hlen hall
    cases ct with
    | grayAlpha =>
      obtain ⟨g, a, rfl⟩ := length_two px (by simpa [ColorType.channels] using hlen)
      have : a = 0 := hall a (by simp [ColorType.channels])
      subst this
      simp [samplesOf, colourOf, scaleTo16]
    | rgba =>
      obtain ⟨r, g, b, a, rfl⟩ := length_four px (by simpa [ColorType.channels] using hlen)
      have : a = 0 := hall a (by simp [ColorType.channels])
      subst this
      simp [samplesOf, colourOf, scaleTo16]
    | gray t => simp [ColorType.hasAlpha] at ha
    | rgb t => simp [ColorType.hasAlpha] at ha
    | indexed p => simp [ColorType.hasAlpha] at ha
  · have hb : bdOf 16 = 2 := rfl
    rw [hb] at hlen hall
    cases ct with
    | grayAlpha =>
      obtain ⟨g1, g2, a1, a2, rfl⟩ := length_four px (by simpa [ColorType.channels] using hlen)
      have e1 : a1 = 0 := hall a1 (by simp [ColorType.channels])
      have e2 : a2 = 0 := hall a2 (by simp [ColorType.channels])
      subst e1 e2
      simp [samplesOf, pairs16, colourOf, scaleTo16]
    | rgba =>
      obtain ⟨r1, r2, g1, g2, b1, b2, a1, a2, rfl⟩ := length_eight px (by simpa [ColorType.channels] using hlen)
      have e1 : a1 = 0 := hall a1 (by simp [ColorType.channels])
      have e2 : a2 = 0 := hall a2 (by simp [ColorType.channels])
      subst e1 e2
      simp [samplesOf, pairs16, colourOf, scaleTo16]
    | gray t => simp [ColorType.hasAlpha] at ha
    | rgb t => simp [ColorType.hasAlpha] at ha
    | indexed p => simp [ColorType.hasAlpha] at ha

/-- **Cleaning the alpha channel changes only invisible colour, for the whole image**: the result has
    the same geometry and, at every stored position, the same alpha and - unless fully transparent -
    the same colour (alpha optimisation's first step, `cleaned_alpha_channel`). -/
theorem cleaned_alpha_visible (i j : Img) (n : Nat)
    (hlen : i.data.length = n * i.bppBytes) (hd : i.ihdr.depth = 8 ∨ i.ihdr.depth = 16)
    (h : cleanedAlphaChannel i = some j) : sameVisiblePicture i j := by
  unfold cleanedAlphaChannel at h
  cases ha : i.ihdr.ct.hasAlpha
  case false => simp [ha] at h
  case true =>
    simp only [ha, Bool.not_true, Bool.false_eq_true, if_false, Option.some.injEq] at h
    have hbd : i.bytesPerChannel = bdOf i.ihdr.depth := rfl
    have hbpp : i.channelsPerPixel * i.bytesPerChannel = i.bppBytes := Nat.mul_comm _ _
    rw [hbpp, hbd] at h
    subst h
    have hbpos : 0 < bdOf i.ihdr.depth := by unfold bdOf; split <;> decide
    have hbb : i.bppBytes = bdOf i.ihdr.depth * i.ihdr.ct.channels := rfl
    have hch : 2 ≤ i.ihdr.ct.channels := by
      cases hc : i.ihdr.ct <;> simp [hc, ColorType.hasAlpha] at ha <;> simp [ColorType.channels]
    have hbppos : 0 < i.bppBytes := by rw [hbb]; exact Nat.mul_pos hbpos (by omega)
    obtain ⟨_, hpxlen⟩ := flatten_chunksExact i.bppBytes hbppos n i.data hlen
    let f : Bytes → Bytes := fun px =>
      if (px.drop (i.bppBytes - bdOf i.ihdr.depth)).all (· = 0) = true then List.replicate i.bppBytes 0 else px
    have hj : chunksExact i.bppBytes ((chunksExact i.bppBytes i.data).flatMap f) =
        (chunksExact i.bppBytes i.data).map f := by
      apply chunks_flatMap _ _ hbppos
      intro px hpx
      simp only [f]
      split
      · simp
      · exact hpxlen px hpx
    have hjb : (⟨i.ihdr, (chunksExact i.bppBytes i.data).flatMap f⟩ : Img).bppBytes = i.bppBytes := rfl
    refine ⟨rfl, rfl, rfl, ?_, ?_⟩
    · simp only [pixelColours, storagePixels, List.length_map]
      rw [hjb, hj, List.length_map]
    · intro p hp
      simp only [pixelColours, storagePixels] at hp
      rw [hjb, hj, List.map_map, List.zip_map', List.mem_map] at hp
      obtain ⟨px, hpx, rfl⟩ := hp
      simp only [Function.comp, f]
      split
      · rename_i hz
        have hl := hpxlen px hpx
        have a1 := transparent_px_alpha i.ihdr.ct i.ihdr.depth px ha hd (by rw [hl, hbb]) (by rw [← hbb]; exact hz)
        have a2 := transparent_px_alpha i.ihdr.ct i.ihdr.depth (List.replicate i.bppBytes 0) ha hd
          (by rw [List.length_replicate, hbb]) (by
            apply List.all_eq_true.mpr
            intro x hx
            have := List.mem_of_mem_drop hx
            simp [List.mem_replicate] at this
            simp [this.2])
        exact ⟨by rw [a1, a2], fun hne => absurd a1 hne⟩
      · exact alphaEq_refl _

example : cleanedAlphaChannel ⟨⟨2, 1, .rgba, 8, false⟩, [9, 8, 7, 0, 1, 2, 3, 255]⟩ =
    some ⟨⟨2, 1, .rgba, 8, false⟩, [0, 0, 0, 0, 1, 2, 3, 255]⟩ := by decide

/-! ### whole rows and whole images under the per-filter rewrite -/

theorem getD_length_of_all {bpp : Nat} (l : List Bytes) (h : ∀ p ∈ l, p.length = bpp) (k : Nat) (hk : k < l.length) :
    (l.getD k []).length = bpp := by
  rw [List.getD_eq_getElem?_getD, List.getElem?_eq_getElem hk]
  exact h _ (List.getElem_mem hk)

/-- the colour bytes written under a transparent pixel are exactly `cb` bytes -/
theorem alphaColour_length (ft cb bpp i : Nat) (pixels prevPixels acc : List Bytes) (fo : Nat)
    (hcb : cb ≤ bpp) (hp : ∀ p ∈ pixels, p.length = bpp) (hq : ∀ p ∈ prevPixels, p.length = bpp)
    (hl : prevPixels.length = pixels.length) (ha : ∀ p ∈ acc, p.length = bpp) (hai : acc.length = i)
    (hi : i < pixels.length) (hfo : fo < pixels.length) :
    (alphaColour ft cb i pixels prevPixels acc fo).length = cb := by
  have hup : ((prevPixels.getD i []).take cb).length = cb := by
    rw [List.length_take, getD_length_of_all prevPixels hq i (by omega)]; omega
  have hfirst : ((pixels.getD fo []).take cb).length = cb := by
    rw [List.length_take, getD_length_of_all pixels hp fo hfo]; omega
  have hleft : 0 < i → ((acc.getD (i - 1) []).take cb).length = cb := by
    intro h0
    rw [List.length_take, getD_length_of_all acc ha (i - 1) (by omega)]; omega
  unfold alphaColour
  simp only
  split
  · -- Sub
    split
    · exact hfirst
    · exact hleft (by omega)
  · exact hup
  · split
    · rw [List.length_map]; exact hup
    · rw [List.length_zipWith, hleft (by omega), hup]; omega
  · split
    · rw [List.length_zipWith, hfirst, hup]; omega
    · simp
  · rw [List.length_take, getD_length_of_all pixels hp i hi]; omega

/-- what the rewrite does to one pixel, in a form that composes: same length, same alpha bytes, and
    nothing at all unless the pixel is fully transparent -/
def pxKeep (cb : Nat) (px q : Bytes) : Prop :=
  q.length = px.length ∧ q.drop cb = px.drop cb ∧ (pxTransparent cb px = false → q = px)

theorem pxKeep_refl (cb : Nat) (px : Bytes) : pxKeep cb px px := ⟨rfl, rfl, fun _ => rfl⟩

theorem pxKeep_trans {cb : Nat} {a b c : Bytes} (h1 : pxKeep cb a b) (h2 : pxKeep cb b c) : pxKeep cb a c := by
  refine ⟨h2.1.trans h1.1, h2.2.1.trans h1.2.1, ?_⟩
  intro ht
  have hb := h1.2.2 ht
  subst hb
  exact h2.2.2 ht

theorem fold_keep (ft cb bpp : Nat) (pixels prevPixels : List Bytes) (fo : Nat)
    (hcb : cb ≤ bpp) (hp : ∀ p ∈ pixels, p.length = bpp) (hq : ∀ p ∈ prevPixels, p.length = bpp)
    (hl : prevPixels.length = pixels.length) (hfo : fo < pixels.length) :
    ∀ (l : List (Bytes × Nat)) (acc : List Bytes),
      (∀ k (hk : k < l.length), l[k].2 = acc.length + k ∧ l[k].1.length = bpp ∧ l[k].2 < pixels.length) →
      (∀ a ∈ acc, a.length = bpp) →
      let r := l.foldl (fun acc (p : Bytes × Nat) =>
        if pxTransparent cb p.1 then
          acc ++ [alphaColour ft cb p.2 pixels prevPixels acc fo ++ p.1.drop cb]
        else acc ++ [p.1]) acc
      r.length = acc.length + l.length ∧ (∀ k (hk : k < acc.length), r[k]? = acc[k]?) ∧
      ∀ k (hk : k < l.length), ∃ q, r[acc.length + k]? = some q ∧ pxKeep cb l[k].1 q := by
  intro l
  induction l with
  | nil => intro acc _ _; simp
  | cons p l ih =>
    intro acc hidx hacc
    simp only [List.foldl_cons]
    have h0 := hidx 0 (by simp)
    simp only [List.getElem_cons_zero, Nat.add_zero] at h0
    obtain ⟨hi0, hlen0, hlt0⟩ := h0
    -- the pixel appended in this step
    let q : Bytes := if pxTransparent cb p.1 then alphaColour ft cb p.2 pixels prevPixels acc fo ++ p.1.drop cb else p.1
    have hqkeep : pxKeep cb p.1 q := by
      simp only [q]
      cases ht : pxTransparent cb p.1
      · simp only [Bool.false_eq_true, if_false]; exact pxKeep_refl _ _
      · simp only [if_true]
        have hc := alphaColour_length ft cb bpp p.2 pixels prevPixels acc fo hcb hp hq hl hacc hi0.symm hlt0 hfo
        refine ⟨by rw [List.length_append, hc, List.length_drop, hlen0]; omega, ?_, fun h => by rw [ht] at h; cases h⟩
        rw [List.drop_left' hc]
    have hstep : (if pxTransparent cb p.1 = true then
          acc ++ [alphaColour ft cb p.2 pixels prevPixels acc fo ++ p.1.drop cb] else acc ++ [p.1]) = acc ++ [q] := by
      simp only [q]; split <;> rfl
    rw [hstep]
    have hacc' : ∀ a ∈ acc ++ [q], a.length = bpp := by
      intro a ha
      cases List.mem_append.mp ha with
      | inl h => exact hacc a h
      | inr h =>
        have : a = q := by simpa using h
        rw [this, hqkeep.1, hlen0]
    have hidx' : ∀ k (hk : k < l.length), l[k].2 = (acc ++ [q]).length + k ∧ l[k].1.length = bpp ∧ l[k].2 < pixels.length := by
      intro k hk
      have := hidx (k + 1) (by simp; omega)
      simp only [List.getElem_cons_succ] at this
      refine ⟨?_, this.2.1, this.2.2⟩
      rw [this.1]; simp; omega
    have := ih (acc ++ [q]) hidx' hacc'
    simp only [List.length_append, List.length_cons, List.length_nil] at this
    obtain ⟨h1, h2, h3⟩ := this
    refine ⟨by simp only [List.length_cons]; omega, ?_, ?_⟩
    · intro k hk
      rw [h2 k (by omega)]
      simp [List.getElem?_append_left hk]
    · intro k hk
      cases k with
      | zero =>
        refine ⟨q, ?_, by simpa using hqkeep⟩
        rw [Nat.add_zero, h2 acc.length (by omega)]
        simp
      | succ k =>
        simp only [List.length_cons] at hk
        obtain ⟨q', hq1, hq2⟩ := h3 k (by omega)
        refine ⟨q', ?_, by simpa using hq2⟩
        rw [← hq1]; congr 1; omega

/-- the rewrite of a list of whole pixels: as many pixels, each kept in the sense of `pxKeep` -/
theorem pixels_keep (ft cb bpp : Nat) (pixels prevPixels : List Bytes)
    (hcb : cb ≤ bpp) (hp : ∀ p ∈ pixels, p.length = bpp) (hq : ∀ p ∈ prevPixels, p.length = bpp)
    (hl : prevPixels.length = pixels.length) :
    (optimizeAlphaPixels ft cb pixels prevPixels).length = pixels.length ∧
    ∀ k (hk : k < pixels.length), ∃ q, (optimizeAlphaPixels ft cb pixels prevPixels)[k]? = some q ∧
      pxKeep cb pixels[k] q := by
  cases hpx : pixels with
  | nil => simp [optimizeAlphaPixels]
  | cons p0 ps =>
    rw [← hpx]
    have hne : 0 < pixels.length := by rw [hpx]; simp
    unfold optimizeAlphaPixels
    have hfo : (pixels.findIdx? fun px => (px.drop cb).any (· ≠ 0)).getD 0 < pixels.length := by
      cases hf : pixels.findIdx? fun px => (px.drop cb).any (· ≠ 0) with
      | none => simpa using hne
      | some idx =>
        obtain ⟨hlt, _⟩ := List.findIdx?_eq_some_iff_getElem.mp hf
        simpa using hlt
    have := fold_keep ft cb bpp pixels prevPixels _ hcb hp hq hl hfo pixels.zipIdx []
      (by
        intro k hk
        simp only [List.length_zipIdx] at hk
        simp only [List.getElem_zipIdx, List.length_nil, Nat.zero_add]
        exact ⟨trivial, hp _ (List.getElem_mem hk), hk⟩)
      (by intro a ha; cases ha)
    simp only [List.length_nil, Nat.zero_add, List.length_zipIdx] at this
    obtain ⟨h1, _, h3⟩ := this
    refine ⟨h1, ?_⟩
    intro k hk
    obtain ⟨q, hq1, hq2⟩ := h3 k hk
    exact ⟨q, hq1, by simpa using hq2⟩

/-- two rows of whole pixels, related pixel by pixel -/
def RowKeep (cb bpp : Nat) (row row' : Bytes) : Prop :=
  (chunksExact bpp row').length = (chunksExact bpp row).length ∧
  ∀ k (hk : k < (chunksExact bpp row).length), ∃ q, (chunksExact bpp row')[k]? = some q ∧
    pxKeep cb (chunksExact bpp row)[k] q

theorem RowKeep_refl (cb bpp : Nat) (row : Bytes) : RowKeep cb bpp row row :=
  ⟨rfl, fun k hk => ⟨_, List.getElem?_eq_getElem hk, pxKeep_refl _ _⟩⟩

theorem RowKeep_trans {cb bpp : Nat} {a b c : Bytes} (h1 : RowKeep cb bpp a b) (h2 : RowKeep cb bpp b c) :
    RowKeep cb bpp a c := by
  refine ⟨h2.1.trans h1.1, ?_⟩
  intro k hk
  obtain ⟨q, hq, hk1⟩ := h1.2 k hk
  have hkb : k < (chunksExact bpp b).length := by rw [h1.1]; exact hk
  obtain ⟨r, hr, hk2⟩ := h2.2 k hkb
  have : (chunksExact bpp b)[k] = q := by
    have := List.getElem?_eq_getElem hkb
    rw [hq] at this; exact (Option.some.inj this).symm
  rw [this] at hk2
  exact ⟨r, hr, pxKeep_trans hk1 hk2⟩

/-- **One row**: whatever the filter type and the previous line, the alpha rewrite of a row of `m`
    whole pixels gives a row of the same length whose pixels are kept in the sense of `pxKeep`. -/
theorem optimizeAlpha_rowKeep (ft bpp cb m : Nat) (data prev : Bytes) (hb : 0 < bpp) (hcb : cb ≤ bpp)
    (hd : data.length = m * bpp) (hpv : prev.length = data.length) :
    (optimizeAlpha ft bpp data prev cb).length = data.length ∧ RowKeep cb bpp data (optimizeAlpha ft bpp data prev cb) := by
  unfold optimizeAlpha
  by_cases hft : ft = 0 ∨ ft > 4
  · rw [if_pos hft]; exact ⟨rfl, RowKeep_refl _ _ _⟩
  · rw [if_neg hft]
    simp only
    obtain ⟨hfl, hpl⟩ := flatten_chunksExact bpp hb m data hd
    obtain ⟨_, hql⟩ := flatten_chunksExact bpp hb m prev (hpv.trans hd)
    have hnp := chunksExact_length bpp hb m data hd
    have hnq := chunksExact_length bpp hb m prev (hpv.trans hd)
    obtain ⟨hrl, hrk⟩ := pixels_keep ft cb bpp (chunksExact bpp data) (chunksExact bpp prev) hcb hpl hql (hnq.trans hnp.symm)
    generalize optimizeAlphaPixels ft cb (chunksExact bpp data) (chunksExact bpp prev) = r at hrl hrk
    have hrlen : ∀ q ∈ r, q.length = bpp := by
      intro q hq
      obtain ⟨k, hk⟩ := List.getElem?_of_mem hq
      have hkl : k < (chunksExact bpp data).length := by
        rw [← hrl]; exact lt_of_getElem?_some _ _ _ hk
      obtain ⟨q', hq', hkeep⟩ := hrk k hkl
      rw [hk] at hq'
      have : q = q' := Option.some.inj hq'
      subst this
      rw [hkeep.1]; exact hpl _ (List.getElem_mem hkl)
    have htail : data.drop (bpp * (chunksExact bpp data).length) = [] := by
      apply List.drop_eq_nil_of_le
      rw [hnp, hd, Nat.mul_comm]; exact Nat.le_refl _
    rw [htail, List.append_nil]
    have hchunks : chunksExact bpp r.flatten = r := chunksExact_flatten bpp hb r hrlen
    have hlen : r.flatten.length = data.length := by
      have : ∀ (l : List Bytes), (∀ q ∈ l, q.length = bpp) → l.flatten.length = l.length * bpp := by
        intro l
        induction l with
        | nil => intro _; simp
        | cons a l ih =>
          intro h
          simp only [List.flatten_cons, List.length_append, List.length_cons]
          rw [ih (fun q hq => h q (List.mem_cons_of_mem _ hq)), h a List.mem_cons_self, Nat.add_mul]
          omega
      rw [this r hrlen, hrl, hnp, hd]
    refine ⟨hlen, ?_⟩
    unfold RowKeep
    rw [hchunks]
    exact ⟨hrl, hrk⟩

/-- one kept pixel means the same, up to invisible colour -/
theorem pxKeep_alphaEq (ct : ColorType) (d : Nat) (px q : Bytes) (ha : ct.hasAlpha = true)
    (hd : d = 8 ∨ d = 16) (hlen : px.length = bdOf d * ct.channels)
    (hk : pxKeep (bdOf d * ct.channels - bdOf d) px q) :
    alphaEq (colourOf ct d (samplesOf d px)) (colourOf ct d (samplesOf d q)) := by
  cases ht : pxTransparent (bdOf d * ct.channels - bdOf d) px
  · rw [hk.2.2 ht]; exact alphaEq_refl _
  · have a1 := transparent_px_alpha ct d px ha hd hlen ht
    have a2 := transparent_px_alpha ct d q ha hd (hk.1.trans hlen) (by
      unfold pxTransparent at ht; rw [hk.2.1]; exact ht)
    exact ⟨by rw [a1, a2], fun hne => absurd a1 hne⟩

/-- rows of whole pixels related row by row -/
inductive RowsKeep (cb bpp : Nat) : List Bytes → List Bytes → Prop
  | nil : RowsKeep cb bpp [] []
  | cons {row row' : Bytes} {rows rows' : List Bytes} (m : Nat) (hm : row.length = m * bpp)
      (hl : row'.length = row.length) (hk : RowKeep cb bpp row row') (t : RowsKeep cb bpp rows rows') :
      RowsKeep cb bpp (row :: rows) (row' :: rows')

/-- **Whole image**: if every stored row is a kept version of the original row (as after any number
    of alpha rewrites with any filter types), the stored image shows the same picture up to the colour
    of fully transparent pixels. -/
theorem rows_keep_visible (ihdr : Ihdr) (rows rows' : List Bytes) (ha : ihdr.ct.hasAlpha = true)
    (hd : ihdr.depth = 8 ∨ ihdr.depth = 16)
    (h : RowsKeep (bdOf ihdr.depth * ihdr.ct.channels - bdOf ihdr.depth) (bdOf ihdr.depth * ihdr.ct.channels) rows rows') :
    sameVisiblePicture ⟨ihdr, rows.flatten⟩ ⟨ihdr, rows'.flatten⟩ := by
  have hbpos : 0 < bdOf ihdr.depth := by unfold bdOf; split <;> decide
  have hch : 2 ≤ ihdr.ct.channels := by
    cases hc : ihdr.ct <;> simp [hc, ColorType.hasAlpha] at ha <;> simp [ColorType.channels]
  have hb : 0 < bdOf ihdr.depth * ihdr.ct.channels := Nat.mul_pos hbpos (by omega)
  refine ⟨rfl, rfl, rfl, ?_⟩
  simp only [pixelColours, storagePixels]
  have hbb : ∀ d : Bytes, (⟨ihdr, d⟩ : Img).bppBytes = bdOf ihdr.depth * ihdr.ct.channels := fun _ => rfl
  rw [hbb, hbb]
  induction h with
  | nil => simp [chunksExact_nil]
  | cons m hm hl hk t ih =>
    rename_i row row' rows rows'
    simp only [List.flatten_cons]
    rw [chunksExact_append_whole _ hb m row _ hm, chunksExact_append_whole _ hb m row' _ (hl.trans hm)]
    simp only [List.map_append, List.length_append]
    have hn1 := chunksExact_length _ hb m row hm
    have hn2 := chunksExact_length _ hb m row' (hl.trans hm)
    obtain ⟨ihl, ihz⟩ := ih
    refine ⟨by simp only [List.length_map] at ihl ⊢; omega, ?_⟩
    intro p hp
    rw [List.zip_append (by simp [hn1, hn2])] at hp
    cases List.mem_append.mp hp with
    | inr hp2 => exact ihz p hp2
    | inl hp1 =>
      obtain ⟨k, hk'⟩ := List.getElem?_of_mem hp1
      rw [List.getElem?_zip_eq_some] at hk'
      obtain ⟨h1, h2⟩ := hk'
      rw [List.getElem?_map] at h1 h2
      have hkl : k < (chunksExact (bdOf ihdr.depth * ihdr.ct.channels) row).length := by
        cases hx : (chunksExact (bdOf ihdr.depth * ihdr.ct.channels) row)[k]? with
        | none => rw [hx] at h1; cases h1
        | some x => exact lt_of_getElem?_some _ _ _ hx
      obtain ⟨q, hq, hkeep⟩ := hk.2 k hkl
      rw [List.getElem?_eq_getElem hkl] at h1
      rw [hq] at h2
      simp only [Option.map_some, Option.some.injEq] at h1 h2
      rw [← h1, ← h2]
      obtain ⟨_, hpl⟩ := flatten_chunksExact _ hb m row hm
      exact pxKeep_alphaEq ihdr.ct ihdr.depth _ q ha hd (hpl _ (List.getElem_mem hkl)) hkeep

/-- the lines with their data replaced -/
def withData (lines : List (UInt8 × Bytes × Option Nat × Nat)) (rows : List Bytes) : List (UInt8 × Bytes × Option Nat × Nat) :=
  List.zipWith (fun l d => (l.1, d, l.2.2.1, l.2.2.2)) lines rows

/-- **What is written is the plain filtering of the rewritten rows, and the rewritten rows are kept
    versions of the original rows.** Hence (C19's round trip) a decoder recovers exactly the rewritten
    rows, and (`rows_keep_visible`) they show the same picture up to invisible colour. -/
theorem filterLinesStdAlpha_spec (strategy bpp ab : Nat) (hb : 0 < bpp) (hab : ab ≤ bpp) :
    ∀ (lines : List (UInt8 × Bytes × Option Nat × Nat)) (prevPass : Option Nat) (prevLine acc : Bytes)
      (rows0 : List Bytes) (out : Bytes) (rows : List Bytes),
      (∀ l ∈ lines, ∃ m, l.2.1.length = m * bpp) →
      filterLinesStdAlpha strategy bpp ab lines prevPass prevLine acc rows0 = some (out, rows) →
      ∃ rows', rows = rows0.reverse ++ rows' ∧
        filterLinesStd strategy bpp (withData lines rows') prevPass prevLine acc = some out ∧
        RowsKeep (bpp - ab) bpp (lines.map (·.2.1)) rows' := by
  intro lines
  induction lines with
  | nil =>
    intro prevPass prevLine acc rows0 out rows _ h
    simp only [filterLinesStdAlpha, Option.some.injEq, Prod.mk.injEq] at h
    obtain ⟨rfl, rfl⟩ := h
    exact ⟨[], by simp, by simp [withData, filterLinesStd], RowsKeep.nil⟩
  | cons l lines ih =>
    intro prevPass prevLine acc rows0 out rows hw h
    obtain ⟨f, data, pass, px⟩ := l
    simp only [filterLinesStdAlpha] at h
    obtain ⟨m, hm⟩ := hw (f, data, pass, px) List.mem_cons_self
    simp only at hm
    generalize hprev : (if prevPass ≠ pass ∨ data.length ≠ prevLine.length then List.replicate data.length 0 else prevLine) = prev at h
    generalize hft : standardRowFilter strategy _ = ft at h
    have hpl : prev.length = data.length := by
      rw [← hprev]; split
      · simp
      · rename_i hn
        have : ¬ (data.length ≠ prevLine.length) := fun x => hn (Or.inr x)
        omega
    cases hfa : filterLineAlpha ft bpp data prev ab with
    | none => simp [hfa] at h
    | some r =>
      obtain ⟨data', o⟩ := r
      simp only [hfa] at h
      obtain ⟨rows', hr1, hr2, hr3⟩ := ih pass data' (acc ++ o) (data' :: rows0) out rows
        (fun l hl => hw l (List.mem_cons_of_mem _ hl)) h
      -- unpack filterLineAlpha
      unfold filterLineAlpha at hfa
      split at hfa
      · cases hfa
      · generalize hdd : (if ab ≠ 0 then optimizeAlpha ft bpp data prev (bpp - ab) else data) = dd at hfa
        cases hfl : filterLine ft bpp dd prev with
        | none => simp [hfl] at hfa
        | some o' =>
          simp only [hfl, Option.map_some, Option.some.injEq, Prod.mk.injEq] at hfa
          obtain ⟨hd', ho⟩ := hfa
          subst ho
          subst hd'
          have hkeep : dd.length = data.length ∧ RowKeep (bpp - ab) bpp data dd := by
            rw [← hdd]
            split
            · exact optimizeAlpha_rowKeep _ bpp (bpp - ab) m data prev hb (Nat.sub_le _ _) hm hpl
            · exact ⟨rfl, RowKeep_refl _ _ _⟩
          refine ⟨dd :: rows', by rw [hr1]; simp, ?_, RowsKeep.cons m hm hkeep.1 hkeep.2 hr3⟩
          simp only [withData, List.zipWith_cons_cons, filterLinesStd]
          rw [hkeep.1, hprev, hft, hfl]
          exact hr2

/-- **The heuristic strategies' trial loop**: they run `filter_line` for one candidate filter after
    the other on the *same, mutable* copy of the row, so the row that is finally stored has gone through
    the alpha rewrite of every candidate up to the chosen one. Whatever the list of candidates and
    wherever the loop stops, the stored row is a kept version of the original row. -/
theorem optimizeAlpha_chain_rowKeep (bpp cb m : Nat) (prev : Bytes) (hb : 0 < bpp) (hcb : cb ≤ bpp) :
    ∀ (fts : List Nat) (data : Bytes), data.length = m * bpp → prev.length = data.length →
      (fts.foldl (fun d ft => optimizeAlpha ft bpp d prev cb) data).length = data.length ∧
      RowKeep cb bpp data (fts.foldl (fun d ft => optimizeAlpha ft bpp d prev cb) data) := by
  intro fts
  induction fts with
  | nil => intro data _ _; exact ⟨rfl, RowKeep_refl _ _ _⟩
  | cons ft fts ih =>
    intro data hd hp
    simp only [List.foldl_cons]
    obtain ⟨hl1, hk1⟩ := optimizeAlpha_rowKeep ft bpp cb m data prev hb hcb hd hp
    obtain ⟨hl2, hk2⟩ := ih (optimizeAlpha ft bpp data prev cb) (by rw [hl1, hd]) (by rw [hl1, hp])
    exact ⟨by rw [hl2, hl1], RowKeep_trans hk1 hk2⟩


/-! ### the alpha-flagged palette reductions -/

def bl (c : Rgba) : Rgba := if c.a = 0 then ⟨0, 0, 0, c.a⟩ else c

theorem blackenTransparent_eq (p : List Rgba) : blackenTransparent p = p.map bl := rfl

theorem getD_map_bl (p : List Rgba) (k : Nat) : (p.map bl).getD k blackEntry = bl (p.getD k blackEntry) := by
  simp only [List.getD_eq_getElem?_getD, List.getElem?_map]
  cases p[k]? <;> rfl

theorem palStep_true (palette : List Rgba) (st : List Rgba × List (Nat × Nat) × Bool) (k : Nat) :
    palStep palette true st k = palStep (blackenTransparent palette) false st k := by
  unfold palStep
  simp only [Bool.true_and, Bool.false_and, Bool.false_eq_true, if_false]
  have h := getD_map_bl palette k
  simp only [blackEntry] at h
  rw [blackenTransparent_eq, h]
  simp only [bl, decide_eq_true_eq]
  rfl

theorem samePicture_visible {a b : Img} (h : samePicture a b) : sameVisiblePicture a b := by
  refine ⟨h.1, h.2.1, h.2.2.1, by rw [h.2.2.2], ?_⟩
  intro p hp
  rw [h.2.2.2] at hp
  obtain ⟨k, hk⟩ := List.getElem?_of_mem hp
  rw [List.getElem?_zip_eq_some] at hk
  have : p.1 = p.2 := by
    have h1 := hk.1; rw [hk.2] at h1; exact (Option.some.inj h1).symm
  rw [this]; exact alphaEq_refl _

theorem sameVisiblePicture_trans {a b c : Img} (h1 : sameVisiblePicture a b) (h2 : sameVisiblePicture b c) :
    sameVisiblePicture a c := by
  obtain ⟨w1, hh1, i1, l1, z1⟩ := h1
  obtain ⟨w2, hh2, i2, l2, z2⟩ := h2
  refine ⟨w1.trans w2, hh1.trans hh2, i1.trans i2, l1.trans l2, ?_⟩
  intro p hp
  obtain ⟨k, hk⟩ := List.getElem?_of_mem hp
  rw [List.getElem?_zip_eq_some] at hk
  have hka : k < (pixelColours a).length := lt_of_getElem?_some _ _ _ hk.1
  have hkb : k < (pixelColours b).length := by rw [← l1]; exact hka
  have e1 : ((pixelColours a)[k], (pixelColours b)[k]) ∈ List.zip (pixelColours a) (pixelColours b) := by
    apply List.mem_iff_getElem?.mpr
    exact ⟨k, by rw [List.getElem?_zip_eq_some]; exact ⟨List.getElem?_eq_getElem hka, List.getElem?_eq_getElem hkb⟩⟩
  have hkc : k < (pixelColours c).length := by rw [← l2]; exact hkb
  have e2 : ((pixelColours b)[k], (pixelColours c)[k]) ∈ List.zip (pixelColours b) (pixelColours c) := by
    apply List.mem_iff_getElem?.mpr
    exact ⟨k, by rw [List.getElem?_zip_eq_some]; exact ⟨List.getElem?_eq_getElem hkb, List.getElem?_eq_getElem hkc⟩⟩
  have a1 := z1 _ e1
  have a2 := z2 _ e2
  have hp1 : p.1 = (pixelColours a)[k] := by
    have := hk.1; rw [List.getElem?_eq_getElem hka] at this; exact (Option.some.inj this).symm
  have hp2 : p.2 = (pixelColours c)[k] := by
    have := hk.2; rw [List.getElem?_eq_getElem hkc] at this; exact (Option.some.inj this).symm
  rw [hp1, hp2]
  exact alphaEq_trans a1 a2

/-- blackening the fully transparent palette entries changes only invisible colour -/
theorem blacken_visible (w hh : Nat) (il : Bool) (p : List Rgba) (data : Bytes) :
    sameVisiblePicture ⟨⟨w, hh, .indexed p, 8, il⟩, data⟩ ⟨⟨w, hh, .indexed (blackenTransparent p), 8, il⟩, data⟩ := by
  have hb1 : Img.bppBytes ⟨⟨w, hh, .indexed p, 8, il⟩, data⟩ = 1 := rfl
  have hb2 : Img.bppBytes ⟨⟨w, hh, .indexed (blackenTransparent p), 8, il⟩, data⟩ = 1 := rfl
  refine ⟨rfl, rfl, rfl, ?_, ?_⟩
  · simp only [pixelColours, storagePixels, hb1, hb2, List.length_map]
  · intro q hq
    simp only [pixelColours, storagePixels, hb1, hb2, chunksExact_one, List.map_map, List.zip_map', List.mem_map] at hq
    obtain ⟨b, _, rfl⟩ := hq
    simp only [Function.comp, samplesOf, if_neg (by decide : ¬ ((8 : Nat) = 16)), List.map_cons, List.map_nil,
      C01.colourOf_indexed_getD, blackenTransparent_eq, getD_map_bl]
    generalize p.getD b.toNat blackEntry = c
    unfold bl
    by_cases h : c.a = 0
    · simp only [h, if_true]
      exact ⟨by simp [entryPx, h], fun hne => by simp [entryPx, h] at hne⟩
    · simp only [h, if_false]; exact alphaEq_refl _

theorem palFold_true (palette : List Rgba) (l : List Nat) (st : List Rgba × List (Nat × Nat) × Bool) :
    l.foldl (palStep palette true) st = l.foldl (palStep (blackenTransparent palette) false) st := by
  induction l generalizing st with
  | nil => rfl
  | cons k l ih => simp only [List.foldl_cons, palStep_true, ih]

/-- with alpha optimisation the palette is condensed after blackening its fully transparent entries -/
theorem reducedPalette_true_eq (w hh : Nat) (il : Bool) (p : List Rgba) (data : Bytes) :
    reducedPalette ⟨⟨w, hh, .indexed p, 8, il⟩, data⟩ true =
      reducedPalette ⟨⟨w, hh, .indexed (blackenTransparent p), 8, il⟩, data⟩ false := by
  unfold reducedPalette
  simp only [ne_eq, not_true_eq_false, if_false, palFold_true]
  have : (blackenTransparent p).length = p.length := by simp [blackenTransparent_eq]
  rw [this]

/-- **Condensing the palette under alpha optimisation changes only invisible colour** (whole image) -/
theorem reduced_palette_visible (w hh : Nat) (il : Bool) (p : List Rgba) (data : Bytes) (j : Img)
    (h : reducedPalette ⟨⟨w, hh, .indexed p, 8, il⟩, data⟩ true = some j) :
    sameVisiblePicture ⟨⟨w, hh, .indexed p, 8, il⟩, data⟩ j := by
  rw [reducedPalette_true_eq] at h
  exact sameVisiblePicture_trans (blacken_visible w hh il p data)
    (samePicture_visible (C01.reduced_palette_lossless _ j h))

theorem indexedToChannels_true_eq (w hh : Nat) (il : Bool) (p : List Rgba) (data : Bytes) (ag : Bool) :
    indexedToChannels ⟨⟨w, hh, .indexed p, 8, il⟩, data⟩ ag true =
      indexedToChannels ⟨⟨w, hh, .indexed (blackenTransparent p), 8, il⟩, data⟩ ag false := by
  unfold indexedToChannels
  simp only [if_true, Bool.false_eq_true, if_false]

/-- **Palette → channels under alpha optimisation changes only invisible colour** (whole image) -/
theorem indexed_to_channels_visible (w hh : Nat) (il : Bool) (p : List Rgba) (data : Bytes) (ag : Bool) (j : Img)
    (h : indexedToChannels ⟨⟨w, hh, .indexed p, 8, il⟩, data⟩ ag true = some j) :
    sameVisiblePicture ⟨⟨w, hh, .indexed p, 8, il⟩, data⟩ j := by
  rw [indexedToChannels_true_eq] at h
  exact sameVisiblePicture_trans (blacken_visible w hh il p data)
    (samePicture_visible (C01.indexed_to_channels_lossless _ j ag h))


/-! ### the alpha channel replaced by a colour key (alpha optimisation) -/

/-- the first loop of `reduced_alpha_channel` with alpha optimisation on -/
def alphaScanStep (colored : Nat) (st : Bool × Bool × List UInt8) (px : Bytes) : Bool × Bool × List UInt8 :=
  if (!st.1) = true then st
  else if (true && (px.drop colored).all (· = 0)) = true then (true, true, st.2.2)
  else if ((px.drop colored).any fun x => decide (x ≠ 255)) = true then (false, st.2.1, st.2.2)
  else if (true && (px.take colored).all (· = px.getD 0 0)) = true then (true, st.2.1, px.getD 0 0 :: st.2.2)
  else st

/-- what a successful scan establishes -/
theorem alphaScan_ok (colored : Nat) : ∀ (pxs : List Bytes) (st : Bool × Bool × List UInt8),
    (pxs.foldl (alphaScanStep colored) st).1 = true →
    st.1 = true ∧
    (∀ px ∈ pxs, (px.drop colored).all (· = 0) = true ∨ ((px.drop colored).any fun x => decide (x ≠ 255)) = false) ∧
    ((pxs.foldl (alphaScanStep colored) st).2.1 = false → st.2.1 = false ∧ ∀ px ∈ pxs, (px.drop colored).all (· = 0) = false) ∧
    (∀ v ∈ st.2.2, v ∈ (pxs.foldl (alphaScanStep colored) st).2.2) ∧
    (∀ px ∈ pxs, (px.drop colored).all (· = 0) = false → (px.take colored).all (· = px.getD 0 0) = true →
      px.getD 0 0 ∈ (pxs.foldl (alphaScanStep colored) st).2.2) := by
  intro pxs
  induction pxs with
  | nil => intro st h; exact ⟨h, by simp, fun h2 => ⟨h2, by simp⟩, fun v hv => hv, by simp⟩
  | cons px pxs ih =>
    intro st h
    simp only [List.foldl_cons] at h ⊢
    obtain ⟨h1, h2, h3, h4, h5⟩ := ih (alphaScanStep colored st px) h
    -- the step kept the flag, so it did not fail
    have hst : st.1 = true := by
      cases hs : st.1
      · simp [alphaScanStep, hs] at h1
      · rfl
    cases ht : (px.drop colored).all (· = 0)
    · cases hany : ((px.drop colored).any fun x => decide (x ≠ 255))
      · cases hg : (px.take colored).all (· = px.getD 0 0)
        · have hstep : alphaScanStep colored st px = st := by
            simp only [alphaScanStep, hst, ht, hany, hg, Bool.not_true, Bool.false_eq_true, if_false, if_true, Bool.true_and, Bool.and_false, Bool.and_true]
          rw [hstep] at h1 h3 h4 h5 ⊢
          refine ⟨hst, ?_, ?_, h4, ?_⟩
          · intro q hq
            rcases List.mem_cons.mp hq with rfl | hq
            · right; exact hany
            · exact h2 q hq
          · intro hf
            obtain ⟨a, b⟩ := h3 hf
            exact ⟨a, fun q hq => by rcases List.mem_cons.mp hq with rfl | hq; exact ht; exact b q hq⟩
          · intro q hq hqt hqg
            rcases List.mem_cons.mp hq with rfl | hq
            · rw [hg] at hqg; cases hqg
            · exact h5 q hq hqt hqg
        · have hstep : alphaScanStep colored st px = (true, st.2.1, px.getD 0 0 :: st.2.2) := by
            simp only [alphaScanStep, hst, ht, hany, hg, Bool.not_true, Bool.false_eq_true, if_false, if_true, Bool.true_and, Bool.and_false, Bool.and_true]
          rw [hstep] at h1 h3 h4 h5 ⊢
          refine ⟨hst, ?_, ?_, fun v hv => h4 v (List.mem_cons_of_mem _ hv), ?_⟩
          · intro q hq
            rcases List.mem_cons.mp hq with rfl | hq
            · right; exact hany
            · exact h2 q hq
          · intro hf
            obtain ⟨a, b⟩ := h3 hf
            exact ⟨a, fun q hq => by rcases List.mem_cons.mp hq with rfl | hq; exact ht; exact b q hq⟩
          · intro q hq hqt hqg
            rcases List.mem_cons.mp hq with rfl | hq
            · exact h4 _ List.mem_cons_self
            · exact h5 q hq hqt hqg
      · have hstep : alphaScanStep colored st px = (false, st.2.1, st.2.2) := by
          simp only [alphaScanStep, hst, ht, hany, Bool.not_true, Bool.false_eq_true, if_false, if_true, Bool.true_and, Bool.and_false, Bool.and_true]
        rw [hstep] at h1
        cases h1
    · have hstep : alphaScanStep colored st px = (true, true, st.2.2) := by
        simp only [alphaScanStep, hst, ht, Bool.not_true, Bool.false_eq_true, if_false, if_true, Bool.true_and, Bool.and_false, Bool.and_true]
      rw [hstep] at h1 h3 h4 h5 ⊢
      refine ⟨hst, ?_, ?_, h4, ?_⟩
      · intro q hq
        rcases List.mem_cons.mp hq with rfl | hq
        · left; exact ht
        · exact h2 q hq
      · intro hf
        have := (h3 hf).1
        cases this
      · intro q hq hqt hqg
        rcases List.mem_cons.mp hq with rfl | hq
        · rw [ht] at hqt; cases hqt
        · exact h5 q hq hqt hqg

/-- colour type after the alpha channel is replaced by a colour key `t` (one byte, replicated) -/
def keyedCt (ct : ColorType) (depth : Nat) (t : UInt8) : ColorType :=
  let t16 := if depth = 16 then t.toNat * 256 + t.toNat else t.toNat
  match ct with
  | .grayAlpha => .gray (some t16)
  | _ => .rgb (some (t16, t16, t16))

/-- what a successful `reduced_alpha_channel` with alpha optimisation did -/
theorem reducedAlpha_true_char (i j : Img) (h : reducedAlphaChannel i true = some j) :
    i.ihdr.ct.hasAlpha = true ∧
    (∀ px ∈ chunksExact i.bppBytes i.data,
      (px.drop (i.bppBytes - bdOf i.ihdr.depth)).all (· = 0) = true ∨
      ((px.drop (i.bppBytes - bdOf i.ihdr.depth)).any fun x => decide (x ≠ 255)) = false) ∧
    ((j = ⟨{ i.ihdr with ct := noAlphaCt i.ihdr.ct },
          (chunksExact i.bppBytes i.data).flatMap (·.take (i.bppBytes - bdOf i.ihdr.depth))⟩ ∧
      ∀ px ∈ chunksExact i.bppBytes i.data, (px.drop (i.bppBytes - bdOf i.ihdr.depth)).all (· = 0) = false) ∨
     (∃ t : UInt8,
      j = ⟨{ i.ihdr with ct := keyedCt i.ihdr.ct i.ihdr.depth t },
          (chunksExact i.bppBytes i.data).flatMap fun px =>
            if (px.drop (i.bppBytes - bdOf i.ihdr.depth)).all (· = 0) then List.replicate (i.bppBytes - bdOf i.ihdr.depth) t
            else px.take (i.bppBytes - bdOf i.ihdr.depth)⟩ ∧
      ∀ px ∈ chunksExact i.bppBytes i.data, (px.drop (i.bppBytes - bdOf i.ihdr.depth)).all (· = 0) = false →
        (px.take (i.bppBytes - bdOf i.ihdr.depth)).all (· = px.getD 0 0) = true → px.getD 0 0 ≠ t)) := by
  unfold reducedAlphaChannel at h
  simp only [] at h
  have hbd : i.bytesPerChannel = bdOf i.ihdr.depth := rfl
  have hbpp : i.channelsPerPixel * i.bytesPerChannel = i.bppBytes := Nat.mul_comm _ _
  rw [hbpp, hbd] at h
  have facts := alphaScan_ok (i.bppBytes - bdOf i.ihdr.depth) (chunksExact i.bppBytes i.data) (true, false, [])
  unfold alphaScanStep at facts
  generalize List.foldl _ (true, false, []) (chunksExact i.bppBytes i.data) = scan at h facts
  cases ha : i.ihdr.ct.hasAlpha
  case false => simp [ha] at h
  case true =>
    simp only [ha, Bool.not_true, Bool.false_eq_true, if_false] at h
    cases hs : scan.1
    case false => simp [hs] at h
    case true =>
      simp only [hs, Bool.not_true, Bool.false_eq_true, if_false] at h
      obtain ⟨_, f2, f3, _, f5⟩ := facts hs
      refine ⟨rfl, f2, ?_⟩
      cases ht : scan.2.1
      case false =>
        simp only [ht, Bool.false_eq_true, if_false, Option.some.injEq] at h
        left
        refine ⟨?_, (f3 ht).2⟩
        subst h
        cases hc : i.ihdr.ct <;> simp [hc, ColorType.hasAlpha] at ha <;> simp [noAlphaCt]
      case true =>
        simp only [ht, if_true] at h
        right
        -- the key is a value that no opaque gray pixel uses
        generalize hsel : ((match i.ihdr.ct with
            | ColorType.grayAlpha => List.find? (fun v => !scan.2.2.contains v) [0, 255, 85, 170]
            | _ => none).or (List.find? (fun v => !scan.2.2.contains v) (List.map UInt8.ofNat (List.range 256)))) = sel at h
        cases sel with
        | none => simp at h
        | some t =>
          simp only [Option.some.injEq] at h
          have hunused : scan.2.2.contains t = false := by
            have hp : ∀ (l : List UInt8), List.find? (fun v => !scan.2.2.contains v) l = some t → scan.2.2.contains t = false := by
              intro l hl
              have := List.find?_some hl
              simpa using this
            cases hc : i.ihdr.ct <;> rw [hc] at hsel <;> simp only [Option.or] at hsel
            all_goals first
              | exact hp _ hsel
              | (split at hsel
                 · rename_i heq; cases hsel; exact hp _ heq
                 · exact hp _ hsel)
          refine ⟨t, ?_, ?_⟩
          · subst h
            cases hc : i.ihdr.ct <;> simp [hc, ColorType.hasAlpha] at ha <;> simp [keyedCt, hc]
          · intro px hpx hnt hgray heq
            have := f5 px hpx hnt hgray
            rw [heq] at this
            have : scan.2.2.contains t = true := by simpa using this
            rw [hunused] at this
            cases this

theorem all_255 (l : Bytes) (h : (l.any fun x => decide (x ≠ 255)) = false) : ∀ x ∈ l, x = 255 := by
  intro x hx
  have := List.any_eq_false.mp h x hx
  simpa using this

/-- an opaque pixel keeps its meaning when the alpha channel is replaced by a key it does not match -/
theorem keyed_opaque_px (ct : ColorType) (d : Nat) (px : Bytes) (t : UInt8) (ha : ct.hasAlpha = true)
    (hd : d = 8 ∨ d = 16) (hlen : px.length = bdOf d * ct.channels)
    (hop : ((px.drop (bdOf d * ct.channels - bdOf d)).any fun x => decide (x ≠ 255)) = false)
    (hkey : (px.take (bdOf d * ct.channels - bdOf d)).all (· = px.getD 0 0) = true → px.getD 0 0 ≠ t) :
    colourOf (keyedCt ct d t) d (samplesOf d (px.take (bdOf d * ct.channels - bdOf d))) =
      colourOf ct d (samplesOf d px) := by
  have hall := all_255 _ hop
  have ht := t.toNat_lt
  rcases hd with rfl | rfl
  · have hb : bdOf 8 = 1 := rfl
    rw [hb] at hlen hall hkey ⊢
    cases ct with
    | grayAlpha =>
      obtain ⟨g, a, rfl⟩ := length_two px (by simpa [ColorType.channels] using hlen)
      have : a = 255 := hall a (by simp [ColorType.channels])
      subst this
      have hne : g ≠ t := by simpa [ColorType.channels] using hkey
      have hne' : ¬ (t.toNat = g.toNat) := fun h => hne (UInt8.toNat_inj.mp h.symm)
      simp [samplesOf, keyedCt, ColorType.channels, colourOf, keyComponent, Nat.mod_eq_of_lt ht, hne', scaleTo16]
    | rgba =>
      obtain ⟨r, g, b, a, rfl⟩ := length_four px (by simpa [ColorType.channels] using hlen)
      have : a = 255 := hall a (by simp [ColorType.channels])
      subst this
      have hne : ¬ (t.toNat = r.toNat ∧ t.toNat = g.toNat ∧ t.toNat = b.toNat) := by
        rintro ⟨h1, h2, h3⟩
        have e1 : r = t := UInt8.toNat_inj.mp h1.symm
        have e2 : g = t := UInt8.toNat_inj.mp h2.symm
        have e3 : b = t := UInt8.toNat_inj.mp h3.symm
        subst e1 e2 e3
        simp [ColorType.channels] at hkey
      simp [samplesOf, keyedCt, ColorType.channels, colourOf, keyComponent, Nat.mod_eq_of_lt ht, hne, scaleTo16]
    | gray t' => simp [ColorType.hasAlpha] at ha
    | rgb t' => simp [ColorType.hasAlpha] at ha
    | indexed p => simp [ColorType.hasAlpha] at ha
  · have hb : bdOf 16 = 2 := rfl
    rw [hb] at hlen hall hkey ⊢
    have ht16 : t.toNat * 256 + t.toNat < 2 ^ 16 := by omega
    cases ct with
    | grayAlpha =>
      obtain ⟨g1, g2, a1, a2, rfl⟩ := length_four px (by simpa [ColorType.channels] using hlen)
      have e1 : a1 = 255 := hall a1 (by simp [ColorType.channels])
      have e2 : a2 = 255 := hall a2 (by simp [ColorType.channels])
      subst e1 e2
      have h1 := g1.toNat_lt
      have h2 := g2.toNat_lt
      have hne : ¬ (t.toNat * 256 + t.toNat = g1.toNat * 256 + g2.toNat) := by
        intro h
        have e1 : g1 = t := UInt8.toNat_inj.mp (by omega)
        have e2 : g2 = t := UInt8.toNat_inj.mp (by omega)
        subst e1 e2
        simp [ColorType.channels] at hkey
      simp [samplesOf, pairs16, keyedCt, ColorType.channels, colourOf, keyComponent, Nat.mod_eq_of_lt ht16, hne, scaleTo16]
    | rgba =>
      obtain ⟨r1, r2, g1, g2, b1, b2, a1, a2, rfl⟩ := length_eight px (by simpa [ColorType.channels] using hlen)
      have e1 : a1 = 255 := hall a1 (by simp [ColorType.channels])
      have e2 : a2 = 255 := hall a2 (by simp [ColorType.channels])
      subst e1 e2
      have := r1.toNat_lt; have := r2.toNat_lt; have := g1.toNat_lt; have := g2.toNat_lt
      have := b1.toNat_lt; have := b2.toNat_lt
      have hne : ¬ (t.toNat * 256 + t.toNat = r1.toNat * 256 + r2.toNat ∧
          t.toNat * 256 + t.toNat = g1.toNat * 256 + g2.toNat ∧ t.toNat * 256 + t.toNat = b1.toNat * 256 + b2.toNat) := by
        rintro ⟨h1, h2, h3⟩
        have e1 : r1 = t := UInt8.toNat_inj.mp (by omega)
        have e2 : r2 = t := UInt8.toNat_inj.mp (by omega)
        have e3 : g1 = t := UInt8.toNat_inj.mp (by omega)
        have e4 : g2 = t := UInt8.toNat_inj.mp (by omega)
        have e5 : b1 = t := UInt8.toNat_inj.mp (by omega)
        have e6 : b2 = t := UInt8.toNat_inj.mp (by omega)
        subst e1 e2 e3 e4 e5 e6
        simp [ColorType.channels] at hkey
      simp [samplesOf, pairs16, keyedCt, ColorType.channels, colourOf, keyComponent, Nat.mod_eq_of_lt ht16, hne, scaleTo16]
    | gray t' => simp [ColorType.hasAlpha] at ha
    | rgb t' => simp [ColorType.hasAlpha] at ha
    | indexed p => simp [ColorType.hasAlpha] at ha

/-- a fully transparent pixel replaced by the key colour is fully transparent -/
theorem keyed_transparent_px (ct : ColorType) (d : Nat) (t : UInt8) (ha : ct.hasAlpha = true) (hd : d = 8 ∨ d = 16) :
    (colourOf (keyedCt ct d t) d (samplesOf d (List.replicate (bdOf d * ct.channels - bdOf d) t))).a = 0 := by
  have ht := t.toNat_lt
  rcases hd with rfl | rfl
  · cases ct with
    | grayAlpha => simp [keyedCt, bdOf, ColorType.channels, samplesOf, colourOf, keyComponent, Nat.mod_eq_of_lt ht, List.replicate]
    | rgba => simp [keyedCt, bdOf, ColorType.channels, samplesOf, colourOf, keyComponent, Nat.mod_eq_of_lt ht, List.replicate]
    | gray t' => simp [ColorType.hasAlpha] at ha
    | rgb t' => simp [ColorType.hasAlpha] at ha
    | indexed p => simp [ColorType.hasAlpha] at ha
  · have ht16 : t.toNat * 256 + t.toNat < 65536 := by omega
    cases ct with
    | grayAlpha => simp [keyedCt, bdOf, ColorType.channels, samplesOf, pairs16, colourOf, keyComponent, Nat.mod_eq_of_lt ht16, List.replicate]
    | rgba => simp [keyedCt, bdOf, ColorType.channels, samplesOf, pairs16, colourOf, keyComponent, Nat.mod_eq_of_lt ht16, List.replicate]
    | gray t' => simp [ColorType.hasAlpha] at ha
    | rgb t' => simp [ColorType.hasAlpha] at ha
    | indexed p => simp [ColorType.hasAlpha] at ha

/-- **Replacing the alpha channel by a colour key under alpha optimisation changes only invisible
    colour, for the whole image**: fully transparent pixels become the key colour (still fully
    transparent), opaque pixels keep colour and stay opaque because the key is a value no opaque gray
    pixel uses; an image with any other alpha value is refused. -/
theorem reduced_alpha_visible (i j : Img) (n : Nat)
    (hlen : i.data.length = n * i.bppBytes) (hd : i.ihdr.depth = 8 ∨ i.ihdr.depth = 16)
    (h : reducedAlphaChannel i true = some j) : sameVisiblePicture i j := by
  obtain ⟨ha, hcls, hcase⟩ := reducedAlpha_true_char i j h
  have hbpos : 0 < bdOf i.ihdr.depth := by unfold bdOf; split <;> decide
  have hbb : i.bppBytes = bdOf i.ihdr.depth * i.ihdr.ct.channels := rfl
  have hch : 2 ≤ i.ihdr.ct.channels := by
    cases hc : i.ihdr.ct <;> simp [hc, ColorType.hasAlpha] at ha <;> simp [ColorType.channels]
  have hbppos : 0 < i.bppBytes := by rw [hbb]; exact Nat.mul_pos hbpos (by omega)
  obtain ⟨_, hpxlen⟩ := flatten_chunksExact i.bppBytes hbppos n i.data hlen
  rcases hcase with ⟨rfl, hnot⟩ | ⟨t, rfl, hkey⟩
  · -- no transparent pixel: the plain opaque drop
    have hop : ∀ px ∈ chunksExact i.bppBytes i.data,
        ((px.drop (i.bppBytes - bdOf i.ihdr.depth)).any fun x => decide (x ≠ 255)) = false := by
      intro px hpx
      rcases hcls px hpx with h1 | h1
      · rw [hnot px hpx] at h1; cases h1
      · exact h1
    have hch' : (noAlphaCt i.ihdr.ct).channels = i.ihdr.ct.channels - 1 := by
      cases hc : i.ihdr.ct <;> simp [hc, ColorType.hasAlpha] at ha <;> simp [noAlphaCt, ColorType.channels]
    have hj : chunksExact (bdOf i.ihdr.depth * (noAlphaCt i.ihdr.ct).channels)
        ((chunksExact i.bppBytes i.data).flatMap (·.take (i.bppBytes - bdOf i.ihdr.depth))) =
        (chunksExact i.bppBytes i.data).map (·.take (i.bppBytes - bdOf i.ihdr.depth)) := by
      apply chunks_flatMap
      · exact Nat.mul_pos hbpos (by rw [hch']; omega)
      · intro px hpx
        rw [List.length_take, hpxlen px hpx, hbb, hch', Nat.mul_sub, Nat.mul_one]
        exact Nat.min_eq_left (Nat.sub_le _ _)
    apply samePicture_visible
    refine ⟨rfl, rfl, rfl, ?_⟩
    simp only [pixelColours, storagePixels]
    have hjb : (⟨{ i.ihdr with ct := noAlphaCt i.ihdr.ct },
        (chunksExact i.bppBytes i.data).flatMap (·.take (i.bppBytes - bdOf i.ihdr.depth))⟩ : Img).bppBytes =
        bdOf i.ihdr.depth * (noAlphaCt i.ihdr.ct).channels := rfl
    rw [hjb, hj, List.map_map]
    apply List.map_congr_left
    intro px hpx
    simp only [Function.comp]
    have := C01.drop_alpha_px i.ihdr.ct i.ihdr.depth px ha hd (by rw [hpxlen px hpx, hbb]) (by
      rw [← hbb]; exact hop px hpx)
    rw [← hbb] at this
    exact this
  · -- a key was chosen
    have hch' : (keyedCt i.ihdr.ct i.ihdr.depth t).channels = i.ihdr.ct.channels - 1 := by
      cases hc : i.ihdr.ct <;> simp [hc, ColorType.hasAlpha] at ha <;> simp [keyedCt, ColorType.channels]
    let f : Bytes → Bytes := fun px =>
      if (px.drop (i.bppBytes - bdOf i.ihdr.depth)).all (· = 0) then List.replicate (i.bppBytes - bdOf i.ihdr.depth) t
      else px.take (i.bppBytes - bdOf i.ihdr.depth)
    have hj : chunksExact (bdOf i.ihdr.depth * (keyedCt i.ihdr.ct i.ihdr.depth t).channels)
        ((chunksExact i.bppBytes i.data).flatMap f) = (chunksExact i.bppBytes i.data).map f := by
      apply chunks_flatMap
      · exact Nat.mul_pos hbpos (by rw [hch']; omega)
      · intro px hpx
        simp only [f]
        split
        · rw [List.length_replicate, hbb, hch', Nat.mul_sub, Nat.mul_one]
        · rw [List.length_take, hpxlen px hpx, hbb, hch', Nat.mul_sub, Nat.mul_one]
          exact Nat.min_eq_left (Nat.sub_le _ _)
    have hjb : (⟨{ i.ihdr with ct := keyedCt i.ihdr.ct i.ihdr.depth t }, (chunksExact i.bppBytes i.data).flatMap f⟩ : Img).bppBytes =
        bdOf i.ihdr.depth * (keyedCt i.ihdr.ct i.ihdr.depth t).channels := rfl
    refine ⟨rfl, rfl, rfl, ?_, ?_⟩
    · simp only [pixelColours, storagePixels, List.length_map]
      rw [hjb, hj, List.length_map]
    · intro p hp
      simp only [pixelColours, storagePixels] at hp
      rw [hjb, hj, List.map_map, List.zip_map', List.mem_map] at hp
      obtain ⟨px, hpx, rfl⟩ := hp
      simp only [Function.comp, f]
      have hl := hpxlen px hpx
      cases htr : (px.drop (i.bppBytes - bdOf i.ihdr.depth)).all (· = 0)
      · simp only [Bool.false_eq_true, if_false]
        have hop : ((px.drop (i.bppBytes - bdOf i.ihdr.depth)).any fun x => decide (x ≠ 255)) = false := by
          rcases hcls px hpx with h1 | h1
          · rw [htr] at h1; cases h1
          · exact h1
        have := keyed_opaque_px i.ihdr.ct i.ihdr.depth px t ha hd (by rw [hl, hbb]) (by rw [← hbb]; exact hop)
          (by rw [← hbb]; exact hkey px hpx htr)
        rw [← hbb] at this
        rw [this]; exact alphaEq_refl _
      · simp only [if_true]
        have a1 := transparent_px_alpha i.ihdr.ct i.ihdr.depth px ha hd (by rw [hl, hbb]) (by rw [← hbb]; exact htr)
        have a2 := keyed_transparent_px i.ihdr.ct i.ihdr.depth t ha hd
        rw [← hbb] at a2
        exact ⟨by rw [a1, a2], fun hne => absurd a1 hne⟩

example : reducedAlphaChannel ⟨⟨2, 1, .grayAlpha, 8, false⟩, [9, 0, 0, 255]⟩ true =
    some ⟨⟨2, 1, .gray (some 255), 8, false⟩, [255, 0]⟩ := by decide

/-- Non-vacuity: a Sub rewrite of a transparent pixel between two opaque ones. -/
example : optimizeAlphaPixels 1 3 [[1,2,3,255], [9,9,9,0], [4,5,6,255]] [[0,0,0,0],[0,0,0,0],[0,0,0,0]]
    = [[1,2,3,255], [1,2,3,0], [4,5,6,255]] := by decide

end OxiModel.C03

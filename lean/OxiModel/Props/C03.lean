import OxiModel.Filters
import OxiModel.Spec.Pixel
/-
  C03 — alpha optimisation may only change colour under fully transparent pixels.
-/
namespace OxiModel.C03
open OxiModel OxiModel.Spec

/-- what the rewrite may do to one pixel: nothing, unless all its alpha bytes are zero, in which
    case only the bytes in front of the alpha bytes are replaced -/
def pixelRel (cb : Nat) (px q : Bytes) : Prop :=
  if pxTransparent cb px then ∃ c, q = c ++ px.drop cb else q = px

theorem fold_frame (ft cb : Nat) (pixels prevPixels : List Bytes) (fo : Nat) :
    ∀ (l : List (Bytes × Nat)) (acc : List Bytes),
      let r := l.foldl (fun acc (p : Bytes × Nat) =>
        if pxTransparent cb p.1 then
          acc ++ [alphaColour ft cb p.2 pixels prevPixels acc fo ++ p.1.drop cb]
        else acc ++ [p.1]) acc
      r.length = acc.length + l.length ∧ (∀ k (hk : k < acc.length), r[k]? = acc[k]?) ∧
      ∀ k (hk : k < l.length), ∃ q, r[acc.length + k]? = some q ∧ pixelRel cb l[k].1 q := by
  intro l
  induction l with
  | nil => intro acc; simp
  | cons p l ih =>
    intro acc
    simp only [List.foldl_cons]
    cases ht : pxTransparent cb p.1
    case true =>
      simp only [if_true]
      have := ih (acc ++ [alphaColour ft cb p.2 pixels prevPixels acc fo ++ p.1.drop cb])
      simp only [List.length_append, List.length_cons, List.length_nil] at this
      obtain ⟨h1, h2, h3⟩ := this
      refine ⟨by simp only [List.length_cons]; omega, ?_, ?_⟩
      · intro k hk
        rw [h2 k (by omega)]
        simp [List.getElem?_append_left hk]
      · intro k hk
        cases k with
        | zero =>
          refine ⟨alphaColour ft cb p.2 pixels prevPixels acc fo ++ p.1.drop cb, ?_, ?_⟩
          · rw [Nat.add_zero, h2 acc.length (by omega)]
            simp
          · simp only [List.getElem_cons_zero, pixelRel, ht, if_true]
            exact ⟨_, rfl⟩
        | succ k =>
          simp only [List.length_cons] at hk
          obtain ⟨q, hq1, hq2⟩ := h3 k (by omega)
          refine ⟨q, ?_, ?_⟩
          · rw [← hq1]; congr 1; omega
          · simpa using hq2
    case false =>
      simp only [Bool.false_eq_true, if_false]
      have := ih (acc ++ [p.1])
      simp only [List.length_append, List.length_cons, List.length_nil] at this
      obtain ⟨h1, h2, h3⟩ := this
      refine ⟨by simp only [List.length_cons]; omega, ?_, ?_⟩
      · intro k hk
        rw [h2 k (by omega)]
        simp [List.getElem?_append_left hk]
      · intro k hk
        cases k with
        | zero =>
          refine ⟨p.1, ?_, ?_⟩
          · rw [Nat.add_zero, h2 acc.length (by omega)]
            simp
          · simp [pixelRel, ht]
        | succ k =>
          simp only [List.length_cons] at hk
          obtain ⟨q, hq1, hq2⟩ := h3 k (by omega)
          refine ⟨q, ?_, ?_⟩
          · rw [← hq1]; congr 1; omega
          · simpa using hq2

/-- **Frame property of the per-filter alpha rewrite.** For every filter type, every pixel size and
    every line: the rewrite returns as many pixels as it was given; a pixel that is not fully
    transparent is returned unchanged; a fully transparent pixel keeps its alpha bytes (as the
    suffix after the rewritten colour bytes). -/
theorem alpha_rewrite_frame (ft cb : Nat) (pixels prevPixels : List Bytes) :
    (optimizeAlphaPixels ft cb pixels prevPixels).length = pixels.length ∧
    ∀ k (hk : k < pixels.length), ∃ q, (optimizeAlphaPixels ft cb pixels prevPixels)[k]? = some q ∧
      pixelRel cb pixels[k] q := by
  unfold optimizeAlphaPixels
  have := fold_frame ft cb pixels prevPixels
    ((pixels.findIdx? fun px => (px.drop cb).any (· ≠ 0)).getD 0) pixels.zipIdx []
  simp only [List.length_nil, Nat.zero_add, List.length_zipIdx] at this
  obtain ⟨h1, _, h3⟩ := this
  refine ⟨h1, ?_⟩
  intro k hk
  obtain ⟨q, hq1, hq2⟩ := h3 k hk
  refine ⟨q, hq1, ?_⟩
  simpa using hq2

/-- Filter type None performs no rewrite at all ("assume transparent pixels already set to 0"). -/
theorem none_filter_no_rewrite (bpp : Nat) (data prev : Bytes) (cb : Nat) :
    optimizeAlpha 0 bpp data prev cb = data := by
  simp [optimizeAlpha]

/-- A pixel whose alpha samples are zero is invisible whatever its colour bytes: two RGBA pixels
    with alpha 0 are related by `alphaEq` regardless of colour. -/
theorem transparent_pixels_alphaEq (depth r g b r' g' b' : Nat) :
    alphaEq (colourOf .rgba depth [r, g, b, 0]) (colourOf .rgba depth [r', g', b', 0]) := by
  simp [alphaEq, colourOf, scaleTo16]

theorem transparent_ga_alphaEq (depth g g' : Nat) :
    alphaEq (colourOf .grayAlpha depth [g, 0]) (colourOf .grayAlpha depth [g', 0]) := by
  simp [alphaEq, colourOf, scaleTo16]

/-- `alphaEq` is an equivalence containing equality (so chains of alpha-optimising runs compose). -/
theorem alphaEq_refl (p : Px) : alphaEq p p := ⟨rfl, fun _ => rfl⟩
theorem alphaEq_symm {p q : Px} (h : alphaEq p q) : alphaEq q p :=
  ⟨h.1.symm, fun hq => (h.2 (by rw [h.1]; exact hq)).symm⟩
theorem alphaEq_trans {p q r : Px} (h1 : alphaEq p q) (h2 : alphaEq q r) : alphaEq p r :=
  ⟨h1.1.trans h2.1, fun hp => (h1.2 hp).trans (h2.2 (by rw [← h1.1]; exact hp))⟩

/-- Non-vacuity: a Sub rewrite of a transparent pixel between two opaque ones. -/
example : optimizeAlphaPixels 1 3 [[1,2,3,255], [9,9,9,0], [4,5,6,255]] [[0,0,0,0],[0,0,0,0],[0,0,0,0]]
    = [[1,2,3,255], [1,2,3,0], [4,5,6,255]] := by decide

end OxiModel.C03

import OxiModel.Reductions
import OxiModel.Spec.Pixel
import OxiModel.LosslessProofs
import OxiModel.DepthProofs
/-
  C01 — lossless: each reduction maps a pixel to a pixel with exactly the same 16-bit RGBA meaning.
  The theorems below are the per-pixel exactness facts ("the mapping is exact": hi==lo bytes,
  r==g==b, opaque alpha, replicated bit patterns, key conversion); they hold for all sample values.
-/
namespace OxiModel.C01
open OxiModel OxiModel.Spec

/-! ### sample scaling -/

theorem scaleTo16_8 (b : Nat) : scaleTo16 8 b = b * 257 := by
  unfold scaleTo16; omega

theorem scaleTo16_16 (v : Nat) : scaleTo16 16 v = v := by
  unfold scaleTo16; omega

/-- 16→8, exact path: a sample whose two bytes are equal means the same at 8 bits. -/
theorem depth16to8_sample (hi : Nat) : scaleTo16 16 (hi * 256 + hi) = scaleTo16 8 hi := by
  rw [scaleTo16_8, scaleTo16_16]; omega

/-- 16→8, key: a sample with equal bytes equals the 16-bit key iff its byte equals the converted
    key; a key with unequal bytes matches no such sample (and is dropped). -/
theorem depth16to8_key (hi k : Nat) (hhi : hi < 256) (hk : k < 65536) :
    (keyComponent 16 k = hi * 256 + hi) ↔ ((exactKey k).map (keyComponent 8) = some hi) := by
  have e16 : (2:Nat) ^ 16 = 65536 := by decide
  have e8 : (2:Nat) ^ 8 = 256 := by decide
  have hk' : k % 65536 = k := Nat.mod_eq_of_lt hk
  have h1 : k / 256 % 256 = k / 256 := Nat.mod_eq_of_lt (by omega)
  unfold keyComponent exactKey
  simp only [e16, e8, hk', h1]
  by_cases h : k / 256 = k % 256
  · rw [if_pos h]
    simp only [Option.map_some, Option.some.injEq, h1]
    omega
  · rw [if_neg h]
    simp only [Option.map_none]
    constructor
    · intro h2; omega
    · intro h2; cases h2

/-- 16→8 on a grayscale pixel: same colour, same transparency. -/
theorem depth16to8_gray_pixel (t : Option Nat) (hi : Nat) (hhi : hi < 256) (ht : ∀ k, t = some k → k < 65536) :
    colourOf (.gray t) 16 [hi * 256 + hi] = colourOf (trns16to8 (.gray t) exactKey) 8 [hi] := by
  cases t with
  | none => simp [colourOf, trns16to8, depth16to8_sample]
  | some k =>
    have hk := ht k rfl
    have := depth16to8_key hi k hhi hk
    simp only [colourOf, trns16to8, List.getD_cons_zero, depth16to8_sample, Option.map_some] at *
    congr 1
    by_cases h : keyComponent 16 k = hi * 256 + hi
    · simp [h, this.mp h]
    · have h' : ¬ (Option.map (keyComponent 8) (exactKey k) = some hi) := fun x => h (this.mpr x)
      simp [h, h']

/-- 1/2/4 → 8 bits (grayscale): replicating the bit pattern is exact. -/
theorem expand_gray_sample : ∀ depth ∈ [1, 2, 4], ∀ v < 2 ^ depth,
    scaleTo16 8 (replicateBits v depth) = scaleTo16 depth v := by
  decide

/-- 8 → 1/2/4 bits (grayscale): a byte made of identical groups keeps its value when only one
    group is stored. -/
theorem reduce_gray_sample : ∀ depth ∈ [1, 2, 4], ∀ v < 2 ^ depth,
    scaleTo16 depth ((replicateBits v depth) % 2 ^ depth) = scaleTo16 8 (replicateBits v depth) := by
  decide

/-- RGB→gray: a pixel with r = g = b means the same as the gray pixel; the key is carried over when
    it is gray itself and can match no gray pixel otherwise (well-formed key: components below 2^depth). -/
theorem rgb_to_gray_pixel (depth g : Nat) (t : Option (Nat × Nat × Nat))
    (hwf : ∀ r g' b, t = some (r, g', b) → r < 2 ^ depth ∧ g' < 2 ^ depth ∧ b < 2 ^ depth) :
    colourOf (.rgb t) depth [g, g, g] = colourOf (grayCtOf (.rgb t)) depth [g] := by
  cases t with
  | none => simp [colourOf, grayCtOf]
  | some k =>
    obtain ⟨r, g', b⟩ := k
    obtain ⟨hr, hg, hb⟩ := hwf r g' b rfl
    simp only [grayCtOf, colourOf, List.getD_cons_zero, List.getD_cons_succ, Option.map_some, keyComponent,
      Nat.mod_eq_of_lt hr, Nat.mod_eq_of_lt hg, Nat.mod_eq_of_lt hb]
    congr 1
    by_cases h : r = g' ∧ g' = b
    · obtain ⟨rfl, rfl⟩ := h
      simp [keyComponent, Nat.mod_eq_of_lt hr]
    · simp only [h, if_false, Option.map_none]
      have : ¬ ((r, g', b) = (g, g, g)) := by
        intro heq
        injection heq with h1 h2
        injection h2 with h2 h3
        exact h ⟨by omega, by omega⟩
      simp [this]

/-- RGBA→gray+alpha: same statement without a key. -/
theorem rgba_to_ga_pixel (depth g a : Nat) :
    colourOf .rgba depth [g, g, g, a] = colourOf .grayAlpha depth [g, a] := by
  simp [colourOf]

/-- Dropping an alpha channel that is fully opaque everywhere (no alpha optimisation): the colour
    type without alpha and without key means the same. -/
theorem drop_opaque_alpha_rgba (depth r g b : Nat) (hd : 0 < depth) :
    colourOf .rgba depth [r, g, b, 2 ^ depth - 1] = colourOf (.rgb none) depth [r, g, b] := by
  have hpos : 0 < 2 ^ depth - 1 := by
    have : 2 ≤ 2 ^ depth := by
      calc 2 = 2 ^ 1 := by decide
        _ ≤ 2 ^ depth := Nat.pow_le_pow_right (by decide) hd
    omega
  simp [colourOf, scaleTo16, Nat.mul_div_cancel_left _ hpos]

theorem drop_opaque_alpha_ga (depth g : Nat) (hd : 0 < depth) :
    colourOf .grayAlpha depth [g, 2 ^ depth - 1] = colourOf (.gray none) depth [g] := by
  have hpos : 0 < 2 ^ depth - 1 := by
    have : 2 ≤ 2 ^ depth := by
      calc 2 = 2 ^ 1 := by decide
        _ ≤ 2 ^ depth := Nat.pow_le_pow_right (by decide) hd
    omega
  simp [colourOf, scaleTo16, Nat.mul_div_cancel_left _ hpos]

/-- To indexed: a palette entry built from a pixel means what the pixel meant (8-bit channels). -/
theorem to_indexed_rgba_pixel (pal : List Rgba) (idx : Nat) (r g b a : UInt8)
    (h : pal[idx]? = some ⟨r, g, b, a⟩) :
    colourOf (.indexed pal) 8 [idx] = colourOf .rgba 8 [r.toNat, g.toNat, b.toNat, a.toNat] := by
  simp [colourOf, h, scaleTo16_8]

theorem to_indexed_ga_pixel (pal : List Rgba) (idx : Nat) (g a : UInt8)
    (h : pal[idx]? = some ⟨g, g, g, a⟩) :
    colourOf (.indexed pal) 8 [idx] = colourOf .grayAlpha 8 [g.toNat, a.toNat] := by
  simp [colourOf, h, scaleTo16_8]

/-! ### image level: the whole picture is preserved -/

/-- colour-key components are below `n` (what a parsed tRNS chunk gives with `n = 65536`) -/
def keyBelow (n : Nat) : ColorType → Prop
  | .gray (some k) => k < n
  | .rgb (some (r, g, b)) => r < n ∧ g < n ∧ b < n
  | _ => True

/-- 16→8, one pixel of any colour type that can have 16-bit samples, given as its high bytes. -/
theorem depth16to8_pixel (ct : ColorType) (s : List Nat) (hs : ∀ k, s.getD k 0 < 256)
    (hct : ct.isIndexed = false) (hkey : keyBelow 65536 ct) :
    colourOf ct 16 (s.map fun h => h * 256 + h) = colourOf (trns16to8 ct exactKey) 8 s := by
  have hg := getD_map_zero (fun h => h * 256 + h) (by simp) s
  cases ct with
  | indexed p => simp [ColorType.isIndexed] at hct
  | gray t =>
    have h0 := depth16to8_gray_pixel t (s.getD 0 0) (hs 0)
      (by intro k hk; subst hk; exact hkey)
    cases t with
    | none => simp only [colourOf, trns16to8, hg, depth16to8_sample, Option.map_none, reduceCtorEq, if_false]
    | some k =>
      simp only [colourOf, trns16to8, List.getD_cons_zero] at h0
      simp only [colourOf, trns16to8, hg]
      exact h0
  | grayAlpha => simp only [colourOf, trns16to8, hg, depth16to8_sample]
  | rgba => simp only [colourOf, trns16to8, hg, depth16to8_sample]
  | rgb t =>
    cases t with
    | none => simp only [colourOf, trns16to8, hg, depth16to8_sample, Option.map_none, reduceCtorEq, if_false]
    | some k =>
      obtain ⟨r, g, b⟩ := k
      obtain ⟨hr, hgk, hb⟩ := hkey
      have kr := depth16to8_key (s.getD 0 0) r (hs 0) hr
      have kg := depth16to8_key (s.getD 1 0) g (hs 1) hgk
      have kb := depth16to8_key (s.getD 2 0) b (hs 2) hb
      simp only [colourOf, trns16to8, hg, depth16to8_sample, Option.map_some]
      generalize s.getD 0 0 = a0 at *
      generalize s.getD 1 0 = a1 at *
      generalize s.getD 2 0 = a2 at *
      cases er : exactKey r <;> cases eg : exactKey g <;> cases eb : exactKey b <;>
        simp only [er, eg, eb, Option.map_none, Option.map_some, reduceCtorEq, iff_false,
          Option.some.injEq] at kr kg kb <;>
        simp [kr, kg, kb]

/-- **16→8 is lossless for the whole image** (exact path, `scale_16 = false`): whenever the
    reduction applies, the reduced image shows the same picture — for every size, every non-indexed
    colour type, with or without a colour key. -/
theorem depth16to8_lossless (i j : Img) (n : Nat)
    (hlen : i.data.length = n * i.bppBytes)
    (hct : i.ihdr.ct.isIndexed = false) (hkey : keyBelow 65536 i.ihdr.ct)
    (h : reducedBitDepth16to8 i false = some j) : samePicture i j := by
  unfold reducedBitDepth16to8 at h
  by_cases hd : i.ihdr.depth = 16
  · simp only [hd, ne_eq, not_true_eq_false, if_false, Bool.false_eq_true] at h
    cases hany : ((pairs16 i.data).any fun p => p.1 ≠ p.2)
    case true => simp only [hany, if_true, reduceCtorEq] at h
    case false =>
      simp only [hany, Bool.false_eq_true, if_false, Option.some.injEq] at h
      subst h
      have hall : ∀ p ∈ pairs16 i.data, p.1 = p.2 := by
        intro p hp
        have := List.any_eq_false.mp hany p hp
        simpa using this
      refine ⟨rfl, rfl, rfl, ?_⟩
      have hchan' : ∀ ct, (trns16to8 ct exactKey).channels = ct.channels := by
        intro ct; unfold trns16to8; split <;> (try split) <;> rfl
      have hchan := hchan' i.ihdr.ct
      have hcpos : 0 < i.ihdr.ct.channels := by cases i.ihdr.ct <;> simp [ColorType.channels]
      have hbpp : i.bppBytes = 2 * i.ihdr.ct.channels := by
        simp [Img.bppBytes, Img.bytesPerChannel, Img.channelsPerPixel, hd]
      rw [hbpp] at hlen
      obtain ⟨hch, hpx⟩ := chunks_16to8 (·.1) i.data i.ihdr.ct.channels n hcpos hlen
      simp only [pixelColours, storagePixels, Img.bppBytes, Img.bytesPerChannel,
        Img.channelsPerPixel, hd, if_true, hchan]
      have h8 : ((8 : Nat) = 16) = False := by simp
      simp only [h8, if_false, Nat.one_mul, hch, List.map_map]
      apply List.map_congr_left
      intro px hpxm
      obtain ⟨_, hsub⟩ := hpx px hpxm
      simp only [Function.comp, samplesOf, if_true, h8, if_false, List.map_map]
      have e1 : (pairs16 px).map (fun p => p.1.toNat * 256 + p.2.toNat) =
          ((pairs16 px).map (fun p => p.1.toNat)).map (fun h => h * 256 + h) := by
        rw [List.map_map]
        apply List.map_congr_left
        intro p hp
        simp [Function.comp, hall p (hsub p hp)]
      rw [e1]
      have e2 : (pairs16 px).map ((fun x => x.toNat) ∘ fun x : UInt8 × UInt8 => x.1) =
          (pairs16 px).map (fun p => p.1.toNat) := rfl
      rw [e2]
      have hs : ∀ k, ((pairs16 px).map (fun p => p.1.toNat)).getD k 0 < 256 := by
        intro k
        have := getD_toNat_lt ((pairs16 px).map (·.1)) k
        rw [List.map_map] at this
        exact this
      exact depth16to8_pixel i.ihdr.ct _ hs hct hkey
  · simp [hd] at h

/-- RGB(A)→gray(+alpha), one stored pixel with r = g = b: dropping the first two samples keeps the meaning. -/
theorem rgb_to_gray_px (ct : ColorType) (d : Nat) (px : Bytes) (hrgb : ct.isRgb = true)
    (hlen : px.length = bdOf d * ct.channels) (hg : isGrayPx (bdOf d) px = true)
    (hkey : keyBelow (2 ^ d) ct) :
    colourOf ct d (samplesOf d px) = colourOf (grayCtOf ct) d (samplesOf d (px.drop (2 * bdOf d))) := by
  by_cases hd : d = 16
  · subst hd
    have hb : bdOf 16 = 2 := rfl
    rw [hb] at hlen hg ⊢
    cases ct with
    | rgb t =>
      obtain ⟨r1, r2, g1, g2, b1, b2, rfl⟩ := length_six px (by simpa [ColorType.channels] using hlen)
      simp [isGrayPx] at hg
      obtain ⟨⟨rfl, rfl⟩, rfl, rfl⟩ := hg
      have := rgb_to_gray_pixel 16 (r1.toNat * 256 + r2.toNat) t (by
        intro r g' b ht; subst ht; exact hkey)
      simpa [samplesOf, pairs16, grayCtOf] using this
    | rgba =>
      obtain ⟨r1, r2, g1, g2, b1, b2, a1, a2, rfl⟩ := length_eight px (by simpa [ColorType.channels] using hlen)
      simp [isGrayPx] at hg
      obtain ⟨⟨rfl, rfl⟩, rfl, rfl⟩ := hg
      simp [samplesOf, pairs16, grayCtOf, colourOf]
    | gray t => simp [ColorType.isRgb] at hrgb
    | grayAlpha => simp [ColorType.isRgb] at hrgb
    | indexed p => simp [ColorType.isRgb] at hrgb
  · have hb : bdOf d = 1 := by simp [bdOf, hd]
    rw [hb] at hlen hg ⊢
    cases ct with
    | rgb t =>
      obtain ⟨r, g, b, rfl⟩ := length_three px (by simpa [ColorType.channels] using hlen)
      simp [isGrayPx] at hg
      obtain ⟨rfl, rfl⟩ := hg
      have := rgb_to_gray_pixel d r.toNat t (by
        intro r' g' b ht; subst ht; exact hkey)
      simpa [samplesOf, hd, grayCtOf] using this
    | rgba =>
      obtain ⟨r, g, b, a, rfl⟩ := length_four px (by simpa [ColorType.channels] using hlen)
      simp [isGrayPx] at hg
      obtain ⟨rfl, rfl⟩ := hg
      simp [samplesOf, hd, grayCtOf, colourOf]
    | gray t => simp [ColorType.isRgb] at hrgb
    | grayAlpha => simp [ColorType.isRgb] at hrgb
    | indexed p => simp [ColorType.isRgb] at hrgb

/-- **RGB(A) → grayscale(+alpha) is lossless for the whole image**: whenever the reduction applies
    the result shows the same picture (any size, 8 or 16 bits, with or without a colour key). -/
theorem rgb_to_gray_lossless (i j : Img) (n : Nat)
    (hlen : i.data.length = n * i.bppBytes) (hkey : keyBelow (2 ^ i.ihdr.depth) i.ihdr.ct)
    (h : reducedRgbToGrayscale i = some j) : samePicture i j := by
  unfold reducedRgbToGrayscale at h
  cases hrgb : i.ihdr.ct.isRgb
  case false => simp [hrgb] at h
  case true =>
    simp only [hrgb, Bool.not_true, Bool.false_eq_true, if_false] at h
    have hbd : i.bytesPerChannel = bdOf i.ihdr.depth := rfl
    have hbpp : i.channelsPerPixel * i.bytesPerChannel = i.bppBytes := Nat.mul_comm _ _
    rw [hbpp, hbd] at h
    cases hall : (chunksExact i.bppBytes i.data).all (isGrayPx (bdOf i.ihdr.depth))
    case false => simp [hall] at h
    case true =>
      simp only [hall, if_true, Option.some.injEq] at h
      subst h
      refine ⟨rfl, rfl, rfl, ?_⟩
      have hch : 2 ≤ i.ihdr.ct.channels ∧ (grayCtOf i.ihdr.ct).channels = i.ihdr.ct.channels - 2 := by
        cases hc : i.ihdr.ct <;> simp [hc, ColorType.isRgb] at hrgb <;> simp [grayCtOf, ColorType.channels]
      have hbpos : 0 < bdOf i.ihdr.depth := by unfold bdOf; split <;> decide
      have hbb : i.bppBytes = bdOf i.ihdr.depth * i.ihdr.ct.channels := rfl
      have hbppos : 0 < i.bppBytes := by rw [hbb]; exact Nat.mul_pos hbpos (by omega)
      obtain ⟨_, hpxlen⟩ := flatten_chunksExact i.bppBytes hbppos n i.data hlen
      have hj : chunksExact (bdOf i.ihdr.depth * (grayCtOf i.ihdr.ct).channels)
          ((chunksExact i.bppBytes i.data).flatMap (·.drop (2 * bdOf i.ihdr.depth))) =
          (chunksExact i.bppBytes i.data).map (·.drop (2 * bdOf i.ihdr.depth)) := by
        apply chunks_flatMap
        · exact Nat.mul_pos hbpos (by
            cases hc : i.ihdr.ct <;> simp [hc, ColorType.isRgb] at hrgb <;> simp [grayCtOf, ColorType.channels])
        · intro px hpx
          rw [List.length_drop, hpxlen px hpx, hbb, hch.2, Nat.mul_sub]
          rw [Nat.mul_comm 2]
      simp only [pixelColours, storagePixels]
      have hjb : (⟨{ i.ihdr with ct := grayCtOf i.ihdr.ct },
          (chunksExact i.bppBytes i.data).flatMap (·.drop (2 * bdOf i.ihdr.depth))⟩ : Img).bppBytes =
          bdOf i.ihdr.depth * (grayCtOf i.ihdr.ct).channels := rfl
      rw [hjb, hj, List.map_map]
      apply List.map_congr_left
      intro px hpx
      simp only [Function.comp]
      exact rgb_to_gray_px i.ihdr.ct i.ihdr.depth px hrgb (by rw [hpxlen px hpx, hbb])
        (List.all_eq_true.mp hall px hpx) hkey

/-- dropping an opaque alpha channel, one stored pixel (8- or 16-bit samples) -/
theorem drop_alpha_px (ct : ColorType) (d : Nat) (px : Bytes) (ha : ct.hasAlpha = true)
    (hd : d = 8 ∨ d = 16) (hlen : px.length = bdOf d * ct.channels)
    (hop : ((px.drop (bdOf d * ct.channels - bdOf d)).any fun x => decide (x ≠ 255)) = false) :
    colourOf ct d (samplesOf d px) =
      colourOf (noAlphaCt ct) d (samplesOf d (px.take (bdOf d * ct.channels - bdOf d))) := by
  have hall := any_ne_false _ hop
  rcases hd with rfl | rfl
  · have hb : bdOf 8 = 1 := rfl
    rw [hb] at hlen hall ⊢
    cases ct with
    | grayAlpha =>
      obtain ⟨g, a, rfl⟩ := length_two px (by simpa [ColorType.channels] using hlen)
      have : a = 255 := hall a (by simp [ColorType.channels])
      subst this
      have := drop_opaque_alpha_ga 8 g.toNat (by decide)
      simpa [samplesOf, noAlphaCt, ColorType.channels] using this
    | rgba =>
      obtain ⟨r, g, b, a, rfl⟩ := length_four px (by simpa [ColorType.channels] using hlen)
      have : a = 255 := hall a (by simp [ColorType.channels])
      subst this
      have := drop_opaque_alpha_rgba 8 r.toNat g.toNat b.toNat (by decide)
      simpa [samplesOf, noAlphaCt, ColorType.channels] using this
    | gray t => simp [ColorType.hasAlpha] at ha
    | rgb t => simp [ColorType.hasAlpha] at ha
    | indexed p => simp [ColorType.hasAlpha] at ha
  · have hb : bdOf 16 = 2 := rfl
    rw [hb] at hlen hall ⊢
    cases ct with
    | grayAlpha =>
      obtain ⟨g1, g2, a1, a2, rfl⟩ := length_four px (by simpa [ColorType.channels] using hlen)
      have e1 : a1 = 255 := hall a1 (by simp [ColorType.channels])
      have e2 : a2 = 255 := hall a2 (by simp [ColorType.channels])
      subst e1 e2
      have := drop_opaque_alpha_ga 16 (g1.toNat * 256 + g2.toNat) (by decide)
      simpa [samplesOf, pairs16, noAlphaCt, ColorType.channels] using this
    | rgba =>
      obtain ⟨r1, r2, g1, g2, b1, b2, a1, a2, rfl⟩ := length_eight px (by simpa [ColorType.channels] using hlen)
      have e1 : a1 = 255 := hall a1 (by simp [ColorType.channels])
      have e2 : a2 = 255 := hall a2 (by simp [ColorType.channels])
      subst e1 e2
      have := drop_opaque_alpha_rgba 16 (r1.toNat * 256 + r2.toNat) (g1.toNat * 256 + g2.toNat)
        (b1.toNat * 256 + b2.toNat) (by decide)
      simpa [samplesOf, pairs16, noAlphaCt, ColorType.channels] using this
    | gray t => simp [ColorType.hasAlpha] at ha
    | rgb t => simp [ColorType.hasAlpha] at ha
    | indexed p => simp [ColorType.hasAlpha] at ha

/-- **Dropping a fully opaque alpha channel is lossless for the whole image** (no alpha
    optimisation): whenever the reduction applies the result shows the same picture. -/
theorem drop_alpha_lossless (i j : Img) (n : Nat)
    (hlen : i.data.length = n * i.bppBytes) (hd : i.ihdr.depth = 8 ∨ i.ihdr.depth = 16)
    (h : reducedAlphaChannel i false = some j) : samePicture i j := by
  obtain ⟨ha, hop, rfl⟩ := reducedAlpha_false_char i j h
  refine ⟨rfl, rfl, rfl, ?_⟩
  have hbpos : 0 < bdOf i.ihdr.depth := by unfold bdOf; split <;> decide
  have hbb : i.bppBytes = bdOf i.ihdr.depth * i.ihdr.ct.channels := rfl
  have hch : 2 ≤ i.ihdr.ct.channels ∧ (noAlphaCt i.ihdr.ct).channels = i.ihdr.ct.channels - 1 := by
    cases hc : i.ihdr.ct <;> simp [hc, ColorType.hasAlpha] at ha <;> simp [noAlphaCt, ColorType.channels]
  have hbppos : 0 < i.bppBytes := by rw [hbb]; exact Nat.mul_pos hbpos (by omega)
  obtain ⟨_, hpxlen⟩ := flatten_chunksExact i.bppBytes hbppos n i.data hlen
  have hj : chunksExact (bdOf i.ihdr.depth * (noAlphaCt i.ihdr.ct).channels)
      ((chunksExact i.bppBytes i.data).flatMap (·.take (i.bppBytes - bdOf i.ihdr.depth))) =
      (chunksExact i.bppBytes i.data).map (·.take (i.bppBytes - bdOf i.ihdr.depth)) := by
    apply chunks_flatMap
    · exact Nat.mul_pos hbpos (by rw [hch.2]; omega)
    · intro px hpx
      rw [List.length_take, hpxlen px hpx, hbb, hch.2, Nat.mul_sub, Nat.mul_one]
      exact Nat.min_eq_left (Nat.sub_le _ _)
  simp only [pixelColours, storagePixels]
  have hjb : (⟨{ i.ihdr with ct := noAlphaCt i.ihdr.ct },
      (chunksExact i.bppBytes i.data).flatMap (·.take (i.bppBytes - bdOf i.ihdr.depth))⟩ : Img).bppBytes =
      bdOf i.ihdr.depth * (noAlphaCt i.ihdr.ct).channels := rfl
  rw [hjb, hj, List.map_map]
  apply List.map_congr_left
  intro px hpx
  simp only [Function.comp]
  have := drop_alpha_px i.ihdr.ct i.ihdr.depth px ha hd (by rw [hpxlen px hpx, hbb]) (by
    rw [← hbb]; exact hop px hpx)
  rw [← hbb] at this
  exact this

/-- the palette entry made from a stored pixel means what the pixel meant -/
theorem paletteEntry_meaning (ct : ColorType) (px : Bytes) (hct : ct.isIndexed = false)
    (hlen : px.length = ct.channels) :
    entryPx (paletteEntry ct px) = colourOf ct 8 (px.map (·.toNat)) := by
  cases ct with
  | indexed p => simp [ColorType.isIndexed] at hct
  | grayAlpha =>
    obtain ⟨g, a, rfl⟩ := length_two px (by simpa [ColorType.channels] using hlen)
    simp [entryPx, paletteEntry, colourOf, scaleTo16_8]
  | rgba =>
    obtain ⟨r, g, b, a, rfl⟩ := length_four px (by simpa [ColorType.channels] using hlen)
    simp [entryPx, paletteEntry, colourOf, scaleTo16_8]
  | gray t =>
    obtain ⟨g, t1, rfl, h1⟩ := length_succ px 0 (by simpa [ColorType.channels] using hlen)
    have := List.eq_nil_of_length_eq_zero h1
    subst this
    cases t with
    | none => simp [entryPx, paletteEntry, colourOf, scaleTo16_8]
    | some k =>
      have hk := ofNat_eq_iff k g
      simp only [entryPx, paletteEntry, colourOf, scaleTo16_8, List.map_cons, List.map_nil,
        List.getD_cons_zero, Option.map_some, keyComponent, ne_eq, Option.some.injEq]
      by_cases hh : UInt8.ofNat k = g
      · have := hk.mp hh
        simp [hh, this]
      · have : ¬ (k % 256 = g.toNat) := fun x => hh (hk.mpr x)
        have hh' : ¬ (g = UInt8.ofNat k) := fun x => hh x.symm
        simp [hh', this]
  | rgb t =>
    obtain ⟨r, g, b, rfl⟩ := length_three px (by simpa [ColorType.channels] using hlen)
    cases t with
    | none => simp [entryPx, paletteEntry, colourOf, scaleTo16_8]
    | some k =>
      obtain ⟨kr, kg, kb⟩ := k
      have hr := ofNat_eq_iff kr r
      have hg := ofNat_eq_iff kg g
      have hb := ofNat_eq_iff kb b
      simp only [entryPx, paletteEntry, colourOf, scaleTo16_8, List.map_cons, List.map_nil,
        List.getD_cons_zero, List.getD_cons_succ, Option.map_some, keyComponent, ne_eq,
        Option.some.injEq, Prod.mk.injEq]
      by_cases hh : (r = UInt8.ofNat kr ∧ g = UInt8.ofNat kg ∧ b = UInt8.ofNat kb)
      · obtain ⟨h1, h2, h3⟩ := hh
        have e1 := hr.mp h1.symm
        have e2 := hg.mp h2.symm
        have e3 := hb.mp h3.symm
        simp [← h1, ← h2, ← h3, e1, e2, e3]
      · have : ¬ (kr % 256 = r.toNat ∧ kg % 256 = g.toNat ∧ kb % 256 = b.toNat) := by
          intro ⟨x1, x2, x3⟩
          exact hh ⟨(hr.mpr x1).symm, (hg.mpr x2).symm, (hb.mpr x3).symm⟩
        simp [hh, this]

/-- **Conversion to a palette is lossless for the whole image**: whenever `reduced_to_indexed`
    applies (8-bit gray, gray+alpha, RGB or RGBA input, with or without a colour key, at most 256
    distinct pixels), every palette index of the result means what the pixel it replaces meant. -/
theorem to_indexed_lossless (i j : Img) (ag : Bool) (n : Nat)
    (hlen : i.data.length = n * i.bppBytes)
    (h : reducedToIndexed i ag = some j) : samePicture i j := by
  unfold reducedToIndexed at h
  by_cases hd : i.ihdr.depth = 8
  · simp only [hd, ne_eq, not_true_eq_false, if_false] at h
    cases hix : i.ihdr.ct.isIndexed
    case true => simp [hix] at h
    case false =>
      simp only [hix, Bool.false_eq_true, if_false] at h
      split at h
      · cases h
      · cases hb : buildPalette (chunksExact i.ihdr.ct.channels i.data) [] [] with
        | none => simp [hb] at h
        | some pr =>
          obtain ⟨pmap, raw⟩ := pr
          simp only [hb, Option.some.injEq] at h
          subst h
          obtain ⟨idxs, h1, h2, _, _⟩ := buildPalette_spec _ [] [] pmap raw hb (by simp)
          simp only [List.reverse_nil, List.nil_append] at h1
          subst h1
          refine ⟨rfl, rfl, rfl, ?_⟩
          have hbb : i.bppBytes = i.ihdr.ct.channels := by
            simp [Img.bppBytes, Img.bytesPerChannel, Img.channelsPerPixel, hd]
          have hcpos : 0 < i.ihdr.ct.channels := by cases i.ihdr.ct <;> simp [ColorType.channels]
          rw [hbb] at hlen
          obtain ⟨_, hpxlen⟩ := flatten_chunksExact i.ihdr.ct.channels hcpos n i.data hlen
          have hjb : Img.bppBytes ⟨⟨i.ihdr.width, i.ihdr.height,
              .indexed (pmap.map (paletteEntry i.ihdr.ct)), 8, i.ihdr.interlaced⟩, raw⟩ = 1 := rfl
          simp only [pixelColours, storagePixels]
          rw [hjb, hbb, chunksExact_one, List.map_map]
          -- right-hand side: a function of `pmap[b]?`; left-hand side: the same function of `some px`
          let F : Option Bytes → Px := fun o => match o.map (paletteEntry i.ihdr.ct) with
            | some e => entryPx e
            | none => ⟨0, 0, 0, 65535⟩
          have hr : raw.map ((fun px => colourOf (.indexed (pmap.map (paletteEntry i.ihdr.ct))) 8 (samplesOf 8 px)) ∘ fun b => [b]) =
              (raw.map (fun b => pmap[b.toNat]?)).map F := by
            rw [List.map_map]
            apply List.map_congr_left
            intro b _
            simp only [Function.comp, samplesOf, List.map_cons, List.map_nil, F]
            rw [if_neg (by decide : ¬ ((8 : Nat) = 16)), colourOf_indexed, List.getElem?_map]
            all_goals (cases pmap[b.toNat]? <;> rfl)
          have hl : (chunksExact i.ihdr.ct.channels i.data).map (fun px => colourOf i.ihdr.ct i.ihdr.depth (samplesOf i.ihdr.depth px)) =
              ((chunksExact i.ihdr.ct.channels i.data).map some).map F := by
            rw [List.map_map]
            apply List.map_congr_left
            intro px hpx
            simp only [Function.comp, F, Option.map_some, hd]
            rw [paletteEntry_meaning i.ihdr.ct px hix (hpxlen px hpx)]
            simp [samplesOf]
          rw [hl, ← h2]
          exact hr.symm
  · simp [hd] at h

theorem colourOf_indexed_getD (p : List Rgba) (d k : Nat) :
    colourOf (.indexed p) d [k] = entryPx (p.getD k blackEntry) := by
  rw [colourOf_indexed, List.getD_eq_getElem?_getD]
  cases p[k]? <;> rfl



theorem entry_rgba (c : Rgba) : entryPx c = colourOf .rgba 8 [c.r.toNat, c.g.toNat, c.b.toNat, c.a.toNat] := by
  simp [entryPx, colourOf, scaleTo16_8]
theorem entry_rgb (c : Rgba) (h : c.a = 255) : entryPx c = colourOf (.rgb none) 8 [c.r.toNat, c.g.toNat, c.b.toNat] := by
  simp [entryPx, colourOf, scaleTo16_8, h]
theorem entry_ga (c : Rgba) (h : c.r = c.g ∧ c.g = c.b) : entryPx c = colourOf .grayAlpha 8 [c.b.toNat, c.a.toNat] := by
  simp [entryPx, colourOf, scaleTo16_8, h.1, h.2]
theorem entry_g (c : Rgba) (h : c.r = c.g ∧ c.g = c.b) (h2 : c.a = 255) : entryPx c = colourOf (.gray none) 8 [c.b.toNat] := by
  simp [entryPx, colourOf, scaleTo16_8, h.1, h.2, h2]

/-- **Palette → channels is lossless for the whole image** (no alpha optimisation): every pixel of
    the result means what its palette entry meant, for any palette and any indices (an index beyond
    the palette means opaque black on both sides, as in the code). -/
theorem indexed_to_channels_lossless (i j : Img) (ag : Bool)
    (h : indexedToChannels i ag false = some j) : samePicture i j := by
  unfold indexedToChannels at h
  simp only [Bool.false_eq_true, if_false] at h
  by_cases hd : i.ihdr.depth = 8
  · simp only [hd, ne_eq, not_true_eq_false, if_false] at h
    cases hc : i.ihdr.ct with
    | indexed p0 =>
      simp only [hc] at h
      have hib : i.bppBytes = 1 := by
        simp [Img.bppBytes, Img.bytesPerChannel, Img.channelsPerPixel, hd, hc, ColorType.channels]
      have hmem := getD_mem_or p0
      cases hg : (ag && p0.all fun c => decide (c.r = c.g ∧ c.g = c.b)) <;>
        cases ha : (p0.any fun c => decide (c.a ≠ 255)) <;>
        simp only [hg, ha, Bool.false_eq_true, if_false, if_true, List.drop_zero, List.drop_succ_cons,
          Nat.sub_zero, Nat.reduceSub, List.take_succ_cons, List.take_zero, List.take_nil] at h <;>
        split at h <;> cases h <;> refine ⟨rfl, rfl, rfl, ?_⟩ <;>
        simp only [pixelColours, storagePixels, hib, chunksExact_one, List.map_map, hc]
      all_goals simp only [Img.bppBytes, Img.bytesPerChannel, Img.channelsPerPixel, ColorType.channels,
        if_neg (by decide : ¬ ((8 : Nat) = 16)), Nat.one_mul]
      all_goals rw [chunks_flatMap' _ _ (by decide) _ (by intros; rfl), List.map_map]
      all_goals apply List.map_congr_left
      all_goals intro b _
      all_goals simp only [Function.comp, samplesOf, hd, if_neg (by decide : ¬ ((8 : Nat) = 16)),
        List.map_cons, List.map_nil, colourOf_indexed_getD]
      · exact entry_rgb _ (opaque_entries p0 ha _)
      · exact entry_rgba _
      · exact entry_g _ (gray_entries p0 ag hg _) (opaque_entries p0 ha _)
      · exact entry_ga _ (gray_entries p0 ag hg _)
    | gray t => simp [hc] at h
    | rgb t => simp [hc] at h
    | grayAlpha => simp [hc] at h
    | rgba => simp [hc] at h
  · simp [hd] at h

/-- **Condensing the palette is lossless for the whole image** (no alpha optimisation): unused and
    duplicate entries are dropped and every index is remapped to an entry of the same colour. -/
theorem reduced_palette_lossless (i j : Img) (h : reducedPalette i false = some j) : samePicture i j := by
  unfold reducedPalette at h
  by_cases hd : i.ihdr.depth = 8
  · simp only [hd, ne_eq, not_true_eq_false, if_false] at h
    cases hc : i.ihdr.ct with
    | indexed palette =>
      simp only [hc] at h
      have hu : ((List.range 256).filter fun k => i.data.contains (UInt8.ofNat k)).length ≤ 256 := by
        have := List.length_filter_le (fun k => i.data.contains (UInt8.ofNat k)) (List.range 256)
        simpa using this
      have hmemU := used_mem i.data
      generalize ((List.range 256).filter fun k => i.data.contains (UInt8.ofNat k)) = U at h hu hmemU
      obtain ⟨hinv, hlen⟩ := palFold_inv palette U ([], [], false) [] (by intro k hk; cases hk) (by simpa using hu)
      generalize List.foldl (palStep palette false) ([], [], false) U = st at h hinv hlen
      have hib : i.bppBytes = 1 := by
        simp [Img.bppBytes, Img.bytesPerChannel, Img.channelsPerPixel, hd, hc, ColorType.channels]
      have key : ∀ b ∈ i.data, ∃ idx, st.2.1.lookup b.toNat = some idx ∧
          st.1[idx]? = some (palette.getD b.toNat blackEntry) ∧ (st.2.2 = false → idx = b.toNat) := by
        intro b hb
        exact hinv b.toNat (by simpa using hmemU b hb)
      cases hch : st.2.2
      case true =>
        simp only [hch, if_true, Option.some.injEq] at h
        subst h
        refine ⟨rfl, rfl, rfl, ?_⟩
        simp only [pixelColours, storagePixels, hib, chunksExact_one, List.map_map, hc]
        have hjb : Img.bppBytes ⟨⟨i.ihdr.width, i.ihdr.height, .indexed st.1, 8, i.ihdr.interlaced⟩,
            i.data.map fun b => UInt8.ofNat ((st.2.1.lookup b.toNat).getD 0)⟩ = 1 := rfl
        rw [hjb, chunksExact_one, List.map_map, List.map_map]
        apply List.map_congr_left
        intro b hb
        obtain ⟨idx, h1, h2, _⟩ := key b hb
        have hlt := lt_of_getElem?_some _ _ _ h2
        simp only [Function.comp, samplesOf, hd, if_neg (by decide : ¬ ((8 : Nat) = 16)),
          List.map_cons, List.map_nil, colourOf_indexed_getD]
        rw [lookup_getD_ofNat _ _ idx h1 (by omega), getD_of_getElem? _ _ _ _ h2]
      case false =>
        simp only [hch, Bool.false_eq_true, if_false] at h
        split at h
        · simp only [Option.some.injEq] at h
          subst h
          refine ⟨rfl, rfl, rfl, ?_⟩
          simp only [pixelColours, storagePixels, hib, chunksExact_one, List.map_map, hc]
          have hjb : Img.bppBytes ⟨⟨i.ihdr.width, i.ihdr.height, .indexed st.1, 8, i.ihdr.interlaced⟩, i.data⟩ = 1 := rfl
          rw [hjb, chunksExact_one, List.map_map]
          apply List.map_congr_left
          intro b hb
          obtain ⟨idx, h1, h2, h3⟩ := key b hb
          have := h3 hch
          subst this
          simp only [Function.comp, samplesOf, hd, if_neg (by decide : ¬ ((8 : Nat) = 16)),
            List.map_cons, List.map_nil, colourOf_indexed_getD]
          rw [getD_of_getElem? _ _ _ _ h2]
        · cases h
    | gray t => simp [hc] at h
    | rgb t => simp [hc] at h
    | grayAlpha => simp [hc] at h
    | rgba => simp [hc] at h
  · simp [hd] at h

/-- **Reordering the palette is lossless for the whole image** (valid input: at most 256 entries and
    every index inside the palette): every remapped index points at the colour the old index had. -/
theorem sorted_palette_lossless (i j : Img) (palette : List Rgba) (hc : i.ihdr.ct = .indexed palette)
    (hpl : palette.length ≤ 256) (hidx : ∀ b ∈ i.data, b.toNat < palette.length)
    (h : sortedPalette i = some j) : samePicture i j := by
  unfold sortedPalette at h
  by_cases hd : i.ihdr.depth = 8
  · simp only [hd, ne_eq, not_true_eq_false, if_false, hc] at h
    split at h
    · cases h
    · cases hm : mostPopularEdgeColor palette.length i with
      | none => simp [hm] at h
      | some keepFirst =>
        simp only [hm] at h
        split at h
        · cases h
        · simp only [Option.some.injEq] at h
          subst h
          refine ⟨rfl, rfl, rfl, ?_⟩
          have hib : i.bppBytes = 1 := by
            simp [Img.bppBytes, Img.bytesPerChannel, Img.channelsPerPixel, hd, hc, ColorType.channels]
          generalize hfin : sortedFinal (enumeratedPalette palette) keepFirst = final
          have hmemf : ∀ x, x ∈ final ↔ x ∈ enumeratedPalette palette := by
            intro x; rw [← hfin]; exact mem_sortedFinal _ _ x
          have hlenf : final.length = palette.length := by
            rw [← hfin, length_sortedFinal, length_enumeratedPalette]
          have hjb : Img.bppBytes ⟨⟨i.ihdr.width, i.ihdr.height, .indexed (final.map (·.2)), 8, i.ihdr.interlaced⟩,
              i.data.map fun b => UInt8.ofNat (((final.map (·.1)).idxOf? b.toNat).getD 0)⟩ = 1 := rfl
          simp only [pixelColours, storagePixels, hib, chunksExact_one, List.map_map, hc]
          rw [hjb, chunksExact_one, List.map_map, List.map_map]
          apply List.map_congr_left
          intro b hb
          have hbl := hidx b hb
          -- the old index occurs in the remapping
          have hin : (b.toNat, palette[b.toNat]) ∈ final :=
            (hmemf _).mpr ((mem_enumerated palette _ _).mpr (List.getElem?_eq_getElem hbl))
          have hinr : b.toNat ∈ final.map (·.1) := List.mem_map.mpr ⟨_, hin, rfl⟩
          cases hix : (final.map (·.1)).idxOf? b.toNat with
          | none => exact absurd hinr (idxOf?_none _ _ hix)
          | some k =>
            have hk := idxOf?_some _ _ _ hix
            rw [List.getElem?_map] at hk
            cases hfk : final[k]? with
            | none => rw [hfk] at hk; cases hk
            | some e =>
              rw [hfk] at hk
              simp only [Option.map_some, Option.some.injEq] at hk
              have hklt : k < final.length := lt_of_getElem?_some _ _ _ hfk
              have hen : e ∈ enumeratedPalette palette := (hmemf e).mp (List.mem_of_getElem? hfk)
              have hcol : palette[b.toNat]? = some e.2 := by
                have := (mem_enumerated palette e.1 e.2).mp hen
                rw [hk] at this; exact this
              simp only [Function.comp, samplesOf, hd, if_neg (by decide : ¬ ((8 : Nat) = 16)),
                List.map_cons, List.map_nil, colourOf_indexed_getD]
              rw [hix, Option.getD_some, ofNat_toNat_lt k (by omega), getD_of_getElem? _ _ _ _ hcol]
              have : (final.map (·.2))[k]? = some e.2 := by rw [List.getElem?_map, hfk]; rfl
              rw [getD_of_getElem? _ _ _ _ this]
  · simp [hd] at h

/-! ### fewer than 8 bits per sample -/

theorem expandByte_spec_aux : ∀ depth ∈ [1, 2, 4], ∀ n < 256,
    expandByte depth false (UInt8.ofNat n) = (subSamples depth (UInt8.ofNat n)).map (fun v => UInt8.ofNat v) ∧
    expandByte depth true (UInt8.ofNat n) = (subSamples depth (UInt8.ofNat n)).map (fun v => UInt8.ofNat (replicateBits v depth)) := by
  decide +kernel

theorem expandByte_spec (depth : Nat) (hd : depth ∈ [1, 2, 4]) (b : UInt8) :
    expandByte depth false b = (subSamples depth b).map (fun v => UInt8.ofNat v) ∧
    expandByte depth true b = (subSamples depth b).map (fun v => UInt8.ofNat (replicateBits v depth)) := by
  have := expandByte_spec_aux depth hd b.toNat b.toNat_lt
  rwa [UInt8.ofNat_toNat] at this

theorem subSamples_lt (depth : Nat) (b : UInt8) : ∀ v ∈ subSamples depth b, v < 2 ^ depth := by
  intro v hv
  simp only [subSamples, List.mem_map] at hv
  obtain ⟨k, _, rfl⟩ := hv
  exact Nat.mod_lt _ (Nat.pow_pos (by decide))

/-- replicated key against replicated sample -/
theorem replicate_key : ∀ depth ∈ [1, 2, 4], ∀ t < 2 ^ depth, ∀ v < 2 ^ depth,
    (keyComponent 8 (replicateBits t depth) = replicateBits v depth ↔ keyComponent depth t = v) ∧
    replicateBits v depth < 256 := by
  decide

/-- one sample of a grayscale image expanded to 8 bits means the same -/
theorem expand_gray_meaning (depth : Nat) (hd : depth ∈ [1, 2, 4]) (t : Option Nat) (v : Nat) (hv : v < 2 ^ depth)
    (ht : ∀ k, t = some k → k < 2 ^ depth) :
    colourOf (.gray (t.map fun k => replicateBits k depth)) 8 [(UInt8.ofNat (replicateBits v depth)).toNat] =
      colourOf (.gray t) depth [v] := by
  have hs := expand_gray_sample depth hd v hv
  cases t with
  | none =>
    have h256 := (replicate_key depth hd 0 (Nat.pow_pos (by decide)) v hv).2
    simp only [colourOf, Option.map_none, List.getD_cons_zero, ofNat_toNat_lt _ h256, hs]
    simp
  | some k =>
    have hk := ht k rfl
    obtain ⟨hiff, h256⟩ := replicate_key depth hd k hk v hv
    simp only [colourOf, Option.map_some, List.getD_cons_zero, ofNat_toNat_lt _ h256, hs]
    congr 1
    by_cases h : keyComponent depth k = v
    · simp [h, hiff.mpr h]
    · have : ¬ keyComponent 8 (replicateBits k depth) = replicateBits v depth := fun x => h (hiff.mp x)
      simp [h, this]

theorem flatMap_congr_mem {α β} (l : List α) (f g : α → List β) (h : ∀ a ∈ l, f a = g a) :
    l.flatMap f = l.flatMap g := by
  induction l with
  | nil => rfl
  | cons a l ih =>
    simp only [List.flatMap_cons]
    rw [h a List.mem_cons_self, ih (fun b hb => h b (List.mem_cons_of_mem _ hb))]

theorem flatMap_map_comm {α β γ} (l : List α) (f : α → List β) (g : β → γ) :
    l.flatMap (fun a => (f a).map g) = (l.flatMap f).map g := by
  induction l with
  | nil => rfl
  | cons a l ih => simp [List.flatMap_cons, ih]

theorem expand_line_gray (depth : Nat) (hd : depth ∈ [1, 2, 4]) (t : Option Nat)
    (hkey : ∀ k, t = some k → k < 2 ^ depth) (line : Bytes) (px : Nat) :
    ((line.flatMap (expandByte depth true)).take px).map
        (fun b => colourOf (.gray (t.map fun k => replicateBits k depth)) 8 [b.toNat]) =
      ((line.flatMap (subSamples depth)).take px).map (fun v => colourOf (.gray t) depth [v]) := by
  have hexp : line.flatMap (expandByte depth true) =
      (line.flatMap (subSamples depth)).map (fun v => UInt8.ofNat (replicateBits v depth)) := by
    rw [← flatMap_map_comm]
    apply flatMap_congr_mem
    intro b _
    exact (expandByte_spec depth hd b).2
  rw [hexp, ← List.map_take, List.map_map]
  apply List.map_congr_left
  intro v hv
  have hvlt : v < 2 ^ depth := by
    obtain ⟨b, _, hb⟩ := List.mem_flatMap.mp (List.mem_of_mem_take hv)
    exact subSamples_lt _ b v hb
  exact expand_gray_meaning depth hd t v hvlt hkey

theorem expand_line_indexed (depth : Nat) (hd : depth ∈ [1, 2, 4]) (p : List Rgba) (line : Bytes) (px : Nat) :
    ((line.flatMap (expandByte depth false)).take px).map (fun b => colourOf (.indexed p) 8 [b.toNat]) =
      ((line.flatMap (subSamples depth)).take px).map (fun v => colourOf (.indexed p) depth [v]) := by
  have hexp : line.flatMap (expandByte depth false) =
      (line.flatMap (subSamples depth)).map (fun v => UInt8.ofNat v) := by
    rw [← flatMap_map_comm]
    apply flatMap_congr_mem
    intro b _
    exact (expandByte_spec depth hd b).1
  rw [hexp, ← List.map_take, List.map_map]
  apply List.map_congr_left
  intro v hv
  have hvlt : v < 2 ^ depth := by
    obtain ⟨b, _, hb⟩ := List.mem_flatMap.mp (List.mem_of_mem_take hv)
    exact subSamples_lt _ b v hb
  have h256 : v < 256 := by
    simp only [List.mem_cons, List.mem_nil_iff, or_false] at hd
    rcases hd with h1 | h1 | h1 <;> rw [h1] at hvlt <;> omega
  simp only [Function.comp, colourOf, List.getD_cons_zero, ofNat_toNat_lt v h256]

/-- **Expanding 1/2/4-bit samples to 8 bits is lossless for the whole image**: the 8-bit result shows,
    pixel for pixel, what the packed rows showed (grayscale with or without key, and indexed). -/
theorem expand_to_8_lossless (i j : Img) (lines : List (UInt8 × Bytes × Option Nat × Nat))
    (hd : i.ihdr.depth ∈ [1, 2, 4]) (hl : i.scanLines false = some lines)
    (hct : (∃ t, i.ihdr.ct = .gray t ∧ ∀ k, t = some k → k < 2 ^ i.ihdr.depth) ∨ (∃ p, i.ihdr.ct = .indexed p))
    (h : expandedBitDepthTo8 i = some j) :
    j.ihdr.width = i.ihdr.width ∧ j.ihdr.height = i.ihdr.height ∧ j.ihdr.interlaced = i.ihdr.interlaced ∧
    pixelColours j = lowColours i.ihdr.ct i.ihdr.depth lines := by
  obtain ⟨⟨w, hh, ct, depth, il⟩, data⟩ := i
  simp only at hd hl hct
  unfold expandedBitDepthTo8 at h
  have hlt : ¬ (depth ≥ 8 ∨ depth = 0) := by
    simp only [List.mem_cons, List.mem_nil_iff, or_false] at hd
    omega
  simp only [hlt, if_false, hl, Option.some.injEq] at h
  subst h
  refine ⟨rfl, rfl, rfl, ?_⟩
  simp only [pixelColours, storagePixels, lowColours]
  rcases hct with ⟨t, hc, hkey⟩ | ⟨p, hc⟩
  · subst hc
    cases t with
    | none =>
      have hb : Img.bppBytes ⟨⟨w, hh, .gray none, 8, il⟩, lines.flatMap fun l =>
          (l.2.1.flatMap (expandByte depth true)).take l.2.2.2⟩ = 1 := rfl
      simp only [hb, chunksExact_one, List.map_map, List.map_flatMap]
      apply flatMap_congr_mem
      intro l _
      exact expand_line_gray depth hd none hkey l.2.1 l.2.2.2
    | some k =>
      have hb : Img.bppBytes ⟨⟨w, hh, .gray (some (replicateBits k depth)), 8, il⟩, lines.flatMap fun l =>
          (l.2.1.flatMap (expandByte depth true)).take l.2.2.2⟩ = 1 := rfl
      simp only [hb, chunksExact_one, List.map_map, List.map_flatMap]
      apply flatMap_congr_mem
      intro l _
      exact expand_line_gray depth hd (some k) hkey l.2.1 l.2.2.2
  · subst hc
    have hb : Img.bppBytes ⟨⟨w, hh, .indexed p, 8, il⟩, lines.flatMap fun l =>
        (l.2.1.flatMap (expandByte depth false)).take l.2.2.2⟩ = 1 := rfl
    simp only [hb, chunksExact_one, List.map_map, List.map_flatMap]
    apply flatMap_congr_mem
    intro l _
    exact expand_line_indexed depth hd p l.2.1 l.2.2.2

/-- one gray pixel byte that is the replication of its low bits means the same when only those bits are kept -/
theorem reduce_gray_meaning (mb : Nat) (hmb : mb ∈ [1, 2, 4]) (t : Option Nat) (ht : ∀ k, t = some k → k < 256)
    (b : UInt8) (hrep : isRep mb b = true) :
    colourOf (.gray (t.bind (reducedKey mb))) mb [lowOf mb b] = colourOf (.gray t) 8 [b.toNat] := by
  have hv : lowOf mb b < 2 ^ mb := Nat.mod_lt _ (Nat.pow_pos (by decide))
  have hb : replicateBits (lowOf mb b) mb = b.toNat := by simpa [isRep] using hrep
  have hs := reduce_gray_sample mb hmb (lowOf mb b) hv
  have hlow : replicateBits (lowOf mb b) mb % 2 ^ mb = lowOf mb b := by rw [hb]; rfl
  rw [hlow, hb] at hs
  cases t with
  | none => simp [colourOf, hs]
  | some k =>
    have hk := keyOk_all mb hmb k (ht k rfl) (lowOf mb b) hv
    simp only [keyOk, decide_eq_true_eq, hb] at hk
    simp only [colourOf, Option.bind_some, List.getD_cons_zero, hs, Option.map_some]
    congr 1
    by_cases h : keyComponent 8 k = b.toNat
    · simp [h, hk.mpr h]
    · have : ¬ ((reducedKey mb k).map (keyComponent mb) = some (lowOf mb b)) := fun x => h (hk.mp x)
      simp [h, this]

/-- the rows the reduction writes -/
def packedLines (mb : Nat) (lines : List (UInt8 × Bytes × Option Nat × Nat)) : List (UInt8 × Bytes × Option Nat × Nat) :=
  lines.map fun l => (l.1, (chunks (8 / mb) l.2.1).map (packLow mb), l.2.2.1, l.2.2.2)

theorem lowColours_packed (mb : Nat) (hmb : mb ∈ [1, 2, 4]) (ct' : ColorType) (lines : List (UInt8 × Bytes × Option Nat × Nat))
    (hpx : ∀ l ∈ lines, l.2.2.2 = l.2.1.length) :
    lowColours ct' mb (packedLines mb lines) =
      lines.flatMap fun l => l.2.1.map fun b => colourOf ct' mb [lowOf mb b] := by
  unfold lowColours packedLines
  rw [List.flatMap_map]
  apply flatMap_congr_mem
  intro l hl
  simp only
  rw [hpx l hl, row_unpack mb hmb l.2.1.length l.2.1 (Nat.le_refl _), List.map_map]
  rfl

theorem reduce_gray_final (w hh : Nat) (il : Bool) (t : Option Nat) (data : Bytes) (mb : Nat) (hmb : mb ∈ [1, 2, 4])
    (lines : List (UInt8 × Bytes × Option Nat × Nat))
    (hpart : data = lines.flatMap (·.2.1)) (hpx : ∀ l ∈ lines, l.2.2.2 = l.2.1.length)
    (ht : ∀ k, t = some k → k < 256) (hrep : ∀ b ∈ data, isRep mb b = true) :
    lowColours (.gray (t.bind (reducedKey mb))) mb (packedLines mb lines) =
      pixelColours ⟨⟨w, hh, .gray t, 8, il⟩, data⟩ := by
  rw [lowColours_packed mb hmb _ lines hpx]
  have hb : Img.bppBytes ⟨⟨w, hh, .gray t, 8, il⟩, data⟩ = 1 := rfl
  simp only [pixelColours, storagePixels, hb, chunksExact_one, List.map_map]
  conv => rhs; rw [hpart, List.map_flatMap]
  apply flatMap_congr_mem
  intro l hlm
  apply List.map_congr_left
  intro b hbm
  have hbd : b ∈ data := by rw [hpart]; exact List.mem_flatMap.mpr ⟨l, hlm, hbm⟩
  exact reduce_gray_meaning mb hmb t ht b (hrep b hbd)

/-- **Reducing 8-bit grayscale to 1/2/4 bits is lossless for the whole image**: the packed rows,
    read back as the specification packs samples, show the original pixels (key included). The two
    hypotheses on `lines` are what C18 proves of the scan-line iterator (the lines partition the data; a
    one-channel 8-bit line has as many bytes as pixels). -/
theorem reduce_depth_gray_lossless (w hh : Nat) (il : Bool) (t : Option Nat) (data : Bytes) (j : Img)
    (lines : List (UInt8 × Bytes × Option Nat × Nat))
    (hl : (⟨⟨w, hh, .gray t, 8, il⟩, data⟩ : Img).scanLines false = some lines)
    (hpart : data = lines.flatMap (·.2.1)) (hpx : ∀ l ∈ lines, l.2.2.2 = l.2.1.length)
    (ht : ∀ k, t = some k → k < 256)
    (h : reducedBitDepth8OrLess ⟨⟨w, hh, .gray t, 8, il⟩, data⟩ = some j) :
    ∃ mb, mb ∈ [1, 2, 4] ∧ j.ihdr = ⟨w, hh, .gray (t.bind (reducedKey mb)), mb, il⟩ ∧
      j.data = (packedLines mb lines).flatMap (·.2.1) ∧
      lowColours j.ihdr.ct mb (packedLines mb lines) = pixelColours ⟨⟨w, hh, .gray t, 8, il⟩, data⟩ := by
  unfold reducedBitDepth8OrLess at h
  simp only [ColorType.channels, ne_eq, not_true_eq_false, or_self, if_false, hl] at h
  cases hm : grayMinBits data with
  | none => simp [hm] at h
  | some mb =>
    simp only [hm, Option.some.injEq] at h
    obtain ⟨hmb, _, hrep⟩ := grayMinBits_rep data 1 mb (by decide) hm
    subst h
    have fin := reduce_gray_final w hh il t data mb hmb lines hpart hpx ht hrep
    cases t with
    | none => exact ⟨mb, hmb, rfl, by simp only [packedLines, List.flatMap_map], fin⟩
    | some k => exact ⟨mb, hmb, rfl, by simp only [packedLines, List.flatMap_map], fin⟩

/-- **Reducing an 8-bit indexed image to 1/2/4 bits is lossless** (indices inside the palette) -/
theorem reduce_depth_indexed_lossless (w hh : Nat) (il : Bool) (p : List Rgba) (data : Bytes) (j : Img)
    (lines : List (UInt8 × Bytes × Option Nat × Nat))
    (hl : (⟨⟨w, hh, .indexed p, 8, il⟩, data⟩ : Img).scanLines false = some lines)
    (hpart : data = lines.flatMap (·.2.1)) (hpx : ∀ l ∈ lines, l.2.2.2 = l.2.1.length)
    (hidx : ∀ b ∈ data, b.toNat < p.length)
    (h : reducedBitDepth8OrLess ⟨⟨w, hh, .indexed p, 8, il⟩, data⟩ = some j) :
    ∃ mb, mb ∈ [1, 2, 4] ∧ j.ihdr = ⟨w, hh, .indexed p, mb, il⟩ ∧ p.length ≤ 2 ^ mb ∧
      j.data = (packedLines mb lines).flatMap (·.2.1) ∧
      lowColours j.ihdr.ct mb (packedLines mb lines) = pixelColours ⟨⟨w, hh, .indexed p, 8, il⟩, data⟩ := by
  unfold reducedBitDepth8OrLess at h
  simp only [ColorType.channels, ne_eq, not_true_eq_false, or_self, if_false, hl] at h
  have fin : ∀ mb, mb ∈ [1, 2, 4] → p.length ≤ 2 ^ mb →
      lowColours (.indexed p) mb (packedLines mb lines) = pixelColours ⟨⟨w, hh, .indexed p, 8, il⟩, data⟩ := by
    intro mb hmb hp
    rw [lowColours_packed mb hmb _ lines hpx]
    have hb : Img.bppBytes ⟨⟨w, hh, .indexed p, 8, il⟩, data⟩ = 1 := rfl
    simp only [pixelColours, storagePixels, hb, chunksExact_one, List.map_map]
    conv => rhs; rw [hpart, List.map_flatMap]
    apply flatMap_congr_mem
    intro l hlm
    apply List.map_congr_left
    intro b hbm
    have hbd : b ∈ data := by rw [hpart]; exact List.mem_flatMap.mpr ⟨l, hlm, hbm⟩
    have hlt : b.toNat < 2 ^ mb := Nat.lt_of_lt_of_le (hidx b hbd) hp
    have hlow : lowOf mb b = b.toNat := Nat.mod_eq_of_lt hlt
    simp only [Function.comp, samplesOf, if_neg (by decide : ¬ ((8 : Nat) = 16)), List.map_cons, List.map_nil,
      hlow, colourOf]
  by_cases h2 : p.length ≤ 2
  · simp only [h2, if_true, Option.some.injEq] at h
    subst h
    exact ⟨1, by decide, rfl, by simpa using h2, by simp only [packedLines, List.flatMap_map], fin 1 (by decide) (by simpa using h2)⟩
  · by_cases h4 : p.length ≤ 4
    · simp only [h2, h4, if_true, if_false, Option.some.injEq] at h
      subst h
      exact ⟨2, by decide, rfl, by simpa using h4, by simp only [packedLines, List.flatMap_map], fin 2 (by decide) (by simpa using h4)⟩
    · by_cases h16 : p.length ≤ 16
      · simp only [h2, h4, h16, if_true, if_false, Option.some.injEq] at h
        subst h
        exact ⟨4, by decide, rfl, by simpa using h16, by simp only [packedLines, List.flatMap_map], fin 4 (by decide) (by simpa using h16)⟩
      · simp [h2, h4, h16] at h

/-- Non-vacuity: a concrete 16-bit keyed pixel -/
example : colourOf (.gray (some 0x3434)) 16 [0x34 * 256 + 0x34] = ⟨0x3434, 0x3434, 0x3434, 0⟩ ∧
          colourOf (trns16to8 (.gray (some 0x3434)) exactKey) 8 [0x34] = ⟨0x3434, 0x3434, 0x3434, 0⟩ := by decide

/-! Non-vacuity of the image-level theorems: concrete images on which each reduction applies (and
    whose data length is a whole number of pixels, keys below the bound). -/
example : reducedBitDepth16to8 ⟨⟨2, 1, .gray (some 0x3434), 16, false⟩, [0x34, 0x34, 0x12, 0x12]⟩ false =
    some ⟨⟨2, 1, .gray (some 0x34), 8, false⟩, [0x34, 0x12]⟩ := by decide
example : reducedRgbToGrayscale ⟨⟨2, 1, .rgb (some (7, 7, 7)), 8, false⟩, [7, 7, 7, 9, 9, 9]⟩ =
    some ⟨⟨2, 1, .gray (some 7), 8, false⟩, [7, 9]⟩ := by decide
example : reducedAlphaChannel ⟨⟨1, 2, .rgba, 8, false⟩, [1, 2, 3, 255, 4, 5, 6, 255]⟩ false =
    some ⟨⟨1, 2, .rgb none, 8, false⟩, [1, 2, 3, 4, 5, 6]⟩ := by decide
example : reducedToIndexed ⟨⟨3, 1, .rgb (some (4, 5, 6)), 8, false⟩, [1, 2, 3, 4, 5, 6, 1, 2, 3]⟩ true =
    some ⟨⟨3, 1, .indexed [⟨1, 2, 3, 255⟩, ⟨4, 5, 6, 0⟩], 8, false⟩, [0, 1, 0]⟩ := by decide

example : indexedToChannels ⟨⟨2, 1, .indexed [⟨1, 2, 3, 255⟩, ⟨4, 5, 6, 0⟩], 8, false⟩, [1, 0]⟩ true false =
    some ⟨⟨2, 1, .rgba, 8, false⟩, [4, 5, 6, 0, 1, 2, 3, 255]⟩ := by decide

example : reducedPalette ⟨⟨3, 1, .indexed [⟨9, 9, 9, 255⟩, ⟨1, 2, 3, 255⟩, ⟨1, 2, 3, 255⟩], 8, false⟩, [2, 1, 2]⟩ false =
    some ⟨⟨3, 1, .indexed [⟨1, 2, 3, 255⟩], 8, false⟩, [0, 0, 0]⟩ := by decide

example : expandedBitDepthTo8 ⟨⟨3, 1, .gray (some 2), 2, false⟩, [0b10011100]⟩ =
    some ⟨⟨3, 1, .gray (some 0xAA), 8, false⟩, [0xAA, 0x55, 0xFF]⟩ := by decide

example : reducedBitDepth8OrLess ⟨⟨3, 1, .gray (some 0x55), 8, false⟩, [0xAA, 0x55, 0xFF]⟩ =
    some ⟨⟨3, 1, .gray (some 1), 2, false⟩, [0b10011100]⟩ := by decide

/-! ### the co-occurrence palette sorters: their shared final steps -/

/-- the `byte_map` loop: for a remapping without repetitions, entry `r[k]` of the table ends up as `k`
    (everything else keeps its value) -/
theorem byteMap_fold : ∀ (r : List Nat) (s : Nat) (m m' : List Nat),
    (r.zipIdx s).foldlM (fun (m : List Nat) (p : Nat × Nat) =>
      if p.1 < 256 then some (m.set p.1 (p.2 % 256)) else none) m = some m' →
    r.Nodup → m.length = 256 →
    m'.length = 256 ∧ (∀ k (hk : k < r.length), m'[r[k]]? = some ((s + k) % 256)) ∧
      (∀ v, v ∉ r → m'[v]? = m[v]?) := by
  intro r
  induction r with
  | nil =>
    intro s m m' h _ hm
    simp only [List.zipIdx_nil, List.foldlM_nil] at h
    cases h
    exact ⟨hm, fun k hk => absurd hk (by simp), fun _ _ => rfl⟩
  | cons v0 rest ih =>
    intro s m m' h hnd hm
    simp only [List.zipIdx_cons, List.foldlM_cons] at h
    by_cases hv : v0 < 256
    · simp only [hv, if_true] at h
      have hnd' := List.nodup_cons.mp hnd
      obtain ⟨hl, hk, hrest⟩ := ih (s + 1) (m.set v0 (s % 256)) m' h hnd'.2 (by simp [hm])
      refine ⟨hl, ?_, ?_⟩
      · intro k hkl
        cases k with
        | zero =>
          simp only [List.getElem_cons_zero, Nat.add_zero]
          rw [hrest v0 hnd'.1, List.getElem?_set_self (by omega)]
        | succ k =>
          simp only [List.getElem_cons_succ]
          have := hk k (by simpa using hkl)
          rw [this]
          congr 2
          omega
      · intro v hv'
        have hne : v0 ≠ v := fun e => hv' (by rw [e]; exact List.mem_cons_self)
        have hnr : v ∉ rest := fun hm' => hv' (List.mem_cons_of_mem _ hm')
        rw [hrest v hnr, List.getElem?_set_ne hne]
    · simp only [hv, if_false] at h
      cases h

/-- **Applying a palette permutation is lossless for the whole image** - the step every co-occurrence
    sorter (`sorted_palette_mzeng`, `sorted_palette_battiato`) ends with: for ANY remapping without
    repetitions that contains every index the image uses (at most 256 entries), the new palette entry at
    each remapped index is the colour the old index had.  Entries beyond the palette make the real code
    panic (`none` in the model), never return a wrong picture. -/
theorem palette_reorder_lossless (i j : Img) (palette : List Rgba) (remapping : List Nat)
    (hc : i.ihdr.ct = .indexed palette) (hd : i.ihdr.depth = 8)
    (hnd : remapping.Nodup) (hlen : remapping.length ≤ 256)
    (huse : ∀ b ∈ i.data, b.toNat ∈ remapping)
    (h : applyPaletteReorder i remapping = some (some j)) : samePicture i j := by
  unfold applyPaletteReorder at h
  simp only [hc] at h
  split at h
  · cases h
  · split at h
    · cases h
    · rename_i hall
      have hall' : (remapping.all fun v => decide (v < palette.length)) = true := by
        cases hq : (remapping.all fun v => decide (v < palette.length)) with
        | true => rfl
        | false => rw [hq] at hall; exact absurd rfl hall
      cases hbm : reorderByteMap remapping with
      | none => simp [hbm] at h
      | some byteMap =>
        simp only [hbm, Option.some.injEq] at h
        subst h
        unfold reorderByteMap at hbm
        obtain ⟨hl, hk, _⟩ := byteMap_fold remapping 0 _ byteMap hbm hnd List.length_replicate
        refine ⟨rfl, rfl, rfl, ?_⟩
        have hib : i.bppBytes = 1 := by
          simp [Img.bppBytes, Img.bytesPerChannel, Img.channelsPerPixel, hd, hc, ColorType.channels]
        have hjb : Img.bppBytes ⟨⟨i.ihdr.width, i.ihdr.height,
            .indexed (remapping.map fun v => palette.getD v ⟨0, 0, 0, 255⟩), i.ihdr.depth, i.ihdr.interlaced⟩,
            i.data.map fun b => UInt8.ofNat (byteMap.getD b.toNat 0)⟩ = 1 := by
          simp [Img.bppBytes, Img.bytesPerChannel, Img.channelsPerPixel, hd, ColorType.channels]
        simp only [pixelColours, storagePixels, hib, chunksExact_one, List.map_map, hc]
        rw [hjb, chunksExact_one, List.map_map, List.map_map]
        apply List.map_congr_left
        intro b hb
        -- position of the old index in the remapping
        obtain ⟨k, hkl, hkb⟩ := List.getElem_of_mem (huse b hb)
        have hmk := hk k hkl
        rw [hkb, Nat.zero_add, Nat.mod_eq_of_lt (by omega)] at hmk
        have hvlt : b.toNat < palette.length := by
          have := List.all_eq_true.mp hall' b.toNat (huse b hb)
          simpa using this
        simp only [Function.comp, samplesOf, hd, if_neg (by decide : ¬ ((8 : Nat) = 16)),
          List.map_cons, List.map_nil, colourOf_indexed_getD]
        rw [getD_of_getElem? _ _ _ _ hmk, ofNat_toNat_lt k (by omega)]
        have hnew : (remapping.map fun v => palette.getD v ⟨0, 0, 0, 255⟩)[k]? =
            some (palette.getD b.toNat ⟨0, 0, 0, 255⟩) := by
          rw [List.getElem?_map, List.getElem?_eq_getElem hkl, hkb]; rfl
        rw [getD_of_getElem? _ _ _ _ hnew]
        rw [List.getD_eq_getElem?_getD, List.getD_eq_getElem?_getD, List.getElem?_eq_getElem hvlt]
        rfl

theorem drop_append_take_perm {α} (l : List α) (n : Nat) : (l.drop n ++ l.take n).Perm l := by
  have := List.perm_append_comm (l₁ := l.drop n) (l₂ := l.take n)
  rw [List.take_append_drop] at this
  exact this

theorem rotateLeft_perm_own {α} (l : List α) (n : Nat) : (l.rotateLeft n).Perm l := by
  unfold List.rotateLeft
  simp only
  split
  · exact List.Perm.refl _
  · exact drop_append_take_perm l _

theorem rotateRight_perm_own {α} (l : List α) (n : Nat) : (l.rotateRight n).Perm l := by
  unfold List.rotateRight
  simp only
  split
  · exact List.Perm.refl _
  · exact drop_append_take_perm l _

/-- **Moving the most popular colour to the front only rearranges the remapping**: whatever it does
    (nothing, a rotation, a reversal and a rotation) the result has the same entries, each as often. -/
theorem most_popular_perm (data : Bytes) (r r' : List Nat) (h : applyMostPopularColor data r = some r') :
    r'.Perm r := by
  unfold applyMostPopularColor at h
  simp only at h
  split at h
  · cases h; exact List.Perm.refl _
  · split at h
    · cases h
    · split at h
      · cases h
        exact (rotateRight_perm_own _ _).trans (List.reverse_perm _)
      · cases h
        exact rotateLeft_perm_own _ _

/-- **A co-occurrence sorter is lossless whenever the order it computed is a rearrangement of the
    palette's indices** (the order heuristics themselves - Zeng's and Battiato's - are not modelled:
    that their output is such a rearrangement is observed on every generated case, not proved). -/
theorem cooccurrence_sorter_lossless (i j : Img) (palette : List Rgba) (order : List Nat)
    (hc : i.ihdr.ct = .indexed palette) (hd : i.ihdr.depth = 8)
    (hnd : order.Nodup) (hlen : order.length ≤ 256) (huse : ∀ b ∈ i.data, b.toNat ∈ order)
    (h : reorderWith i order = some (some j)) : samePicture i j := by
  unfold reorderWith at h
  cases hp : applyMostPopularColor i.data order with
  | none => simp [hp] at h
  | some r =>
    simp only [hp] at h
    have hperm := most_popular_perm i.data order r hp
    exact palette_reorder_lossless i j palette r hc hd (hperm.nodup_iff.mpr hnd)
      (by rw [hperm.length_eq]; exact hlen) (fun b hb => hperm.mem_iff.mpr (huse b hb)) h

/-- Non-vacuity: a 2x2 image over a three-colour palette, order [2, 0, 1] -/
example :
    let i : Img := ⟨⟨2, 2, .indexed [⟨1, 1, 1, 255⟩, ⟨2, 2, 2, 255⟩, ⟨3, 3, 3, 255⟩], 8, false⟩, [0, 1, 2, 2]⟩
    reorderWith i [2, 0, 1] =
      some (some ⟨⟨2, 2, .indexed [⟨3, 3, 3, 255⟩, ⟨1, 1, 1, 255⟩, ⟨2, 2, 2, 255⟩], 8, false⟩, [1, 2, 0, 0]⟩) := by
  decide

end OxiModel.C01

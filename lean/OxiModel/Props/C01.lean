import OxiModel.Reductions
import OxiModel.Spec.Pixel
import OxiModel.LosslessProofs
/-
  C01 — lossless: each reduction maps a pixel to a pixel with exactly the same 16-bit RGBA meaning.
  The theorems below are the per-pixel exactness facts ("the mapping is exact": hi==lo bytes,
  r==g==b, opaque alpha, replicated bit patterns, key conversion); they hold for all sample values.
-/
namespace OxiModel.C01
open OxiModel OxiModel.Spec

/-! ### sample scaling -/

theorem scaleTo16_8 (b : Nat) : scaleTo16 8 b = b * 257 := by
  unfold scaleTo16; omega

theorem scaleTo16_16 (v : Nat) : scaleTo16 16 v = v := by
  unfold scaleTo16; omega

/-- 16→8, exact path: a sample whose two bytes are equal means the same at 8 bits. -/
theorem depth16to8_sample (hi : Nat) : scaleTo16 16 (hi * 256 + hi) = scaleTo16 8 hi := by
  rw [scaleTo16_8, scaleTo16_16]; omega

/-- 16→8, key: a sample with equal bytes equals the 16-bit key iff its byte equals the converted
    key; a key with unequal bytes matches no such sample (and is dropped). -/
theorem depth16to8_key (hi k : Nat) (hhi : hi < 256) (hk : k < 65536) :
    (keyComponent 16 k = hi * 256 + hi) ↔ ((exactKey k).map (keyComponent 8) = some hi) := by
  have e16 : (2:Nat) ^ 16 = 65536 := by decide
  have e8 : (2:Nat) ^ 8 = 256 := by decide
  have hk' : k % 65536 = k := Nat.mod_eq_of_lt hk
  have h1 : k / 256 % 256 = k / 256 := Nat.mod_eq_of_lt (by omega)
  unfold keyComponent exactKey
  simp only [e16, e8, hk', h1]
  by_cases h : k / 256 = k % 256
  · rw [if_pos h]
    simp only [Option.map_some, Option.some.injEq, h1]
    omega
  · rw [if_neg h]
    simp only [Option.map_none]
    constructor
    · intro h2; omega
    · intro h2; cases h2

/-- 16→8 on a grayscale pixel: same colour, same transparency. -/
theorem depth16to8_gray_pixel (t : Option Nat) (hi : Nat) (hhi : hi < 256) (ht : ∀ k, t = some k → k < 65536) :
    colourOf (.gray t) 16 [hi * 256 + hi] = colourOf (trns16to8 (.gray t) exactKey) 8 [hi] := by
  cases t with
  | none => simp [colourOf, trns16to8, depth16to8_sample]
  | some k =>
    have hk := ht k rfl
    have := depth16to8_key hi k hhi hk
    simp only [colourOf, trns16to8, List.getD_cons_zero, depth16to8_sample, Option.map_some] at *
    congr 1
    by_cases h : keyComponent 16 k = hi * 256 + hi
    · simp [h, this.mp h]
    · have h' : ¬ (Option.map (keyComponent 8) (exactKey k) = some hi) := fun x => h (this.mpr x)
      simp [h, h']

/-- 1/2/4 → 8 bits (grayscale): replicating the bit pattern is exact. -/
theorem expand_gray_sample : ∀ depth ∈ [1, 2, 4], ∀ v < 2 ^ depth,
    scaleTo16 8 (replicateBits v depth) = scaleTo16 depth v := by
  decide

/-- 8 → 1/2/4 bits (grayscale): a byte made of identical groups keeps its value when only one
    group is stored. -/
theorem reduce_gray_sample : ∀ depth ∈ [1, 2, 4], ∀ v < 2 ^ depth,
    scaleTo16 depth ((replicateBits v depth) % 2 ^ depth) = scaleTo16 8 (replicateBits v depth) := by
  decide

/-- RGB→gray: a pixel with r = g = b means the same as the gray pixel; the key is carried over when
    it is gray itself and can match no gray pixel otherwise (well-formed key: components below 2^depth). -/
theorem rgb_to_gray_pixel (depth g : Nat) (t : Option (Nat × Nat × Nat))
    (hwf : ∀ r g' b, t = some (r, g', b) → r < 2 ^ depth ∧ g' < 2 ^ depth ∧ b < 2 ^ depth) :
    colourOf (.rgb t) depth [g, g, g] =
    colourOf (.gray (match t with
                     | some (r, g', b) => if r = g' ∧ g' = b then some r else none
                     | none => none)) depth [g] := by
  cases t with
  | none => simp [colourOf]
  | some k =>
    obtain ⟨r, g', b⟩ := k
    obtain ⟨hr, hg, hb⟩ := hwf r g' b rfl
    simp only [colourOf, List.getD_cons_zero, List.getD_cons_succ, Option.map_some, keyComponent,
      Nat.mod_eq_of_lt hr, Nat.mod_eq_of_lt hg, Nat.mod_eq_of_lt hb]
    congr 1
    by_cases h : r = g' ∧ g' = b
    · obtain ⟨rfl, rfl⟩ := h
      simp [keyComponent, Nat.mod_eq_of_lt hr]
    · simp only [h, if_false, Option.map_none]
      have : ¬ ((r, g', b) = (g, g, g)) := by
        intro heq
        injection heq with h1 h2
        injection h2 with h2 h3
        exact h ⟨by omega, by omega⟩
      simp [this]

/-- RGBA→gray+alpha: same statement without a key. -/
theorem rgba_to_ga_pixel (depth g a : Nat) :
    colourOf .rgba depth [g, g, g, a] = colourOf .grayAlpha depth [g, a] := by
  simp [colourOf]

/-- Dropping an alpha channel that is fully opaque everywhere (no alpha optimisation): the colour
    type without alpha and without key means the same. -/
theorem drop_opaque_alpha_rgba (depth r g b : Nat) (hd : 0 < depth) :
    colourOf .rgba depth [r, g, b, 2 ^ depth - 1] = colourOf (.rgb none) depth [r, g, b] := by
  have hpos : 0 < 2 ^ depth - 1 := by
    have : 2 ≤ 2 ^ depth := by
      calc 2 = 2 ^ 1 := by decide
        _ ≤ 2 ^ depth := Nat.pow_le_pow_right (by decide) hd
    omega
  simp [colourOf, scaleTo16, Nat.mul_div_cancel_left _ hpos]

theorem drop_opaque_alpha_ga (depth g : Nat) (hd : 0 < depth) :
    colourOf .grayAlpha depth [g, 2 ^ depth - 1] = colourOf (.gray none) depth [g] := by
  have hpos : 0 < 2 ^ depth - 1 := by
    have : 2 ≤ 2 ^ depth := by
      calc 2 = 2 ^ 1 := by decide
        _ ≤ 2 ^ depth := Nat.pow_le_pow_right (by decide) hd
    omega
  simp [colourOf, scaleTo16, Nat.mul_div_cancel_left _ hpos]

/-- To indexed: a palette entry built from a pixel means what the pixel meant (8-bit channels). -/
theorem to_indexed_rgba_pixel (pal : List Rgba) (idx : Nat) (r g b a : UInt8)
    (h : pal[idx]? = some ⟨r, g, b, a⟩) :
    colourOf (.indexed pal) 8 [idx] = colourOf .rgba 8 [r.toNat, g.toNat, b.toNat, a.toNat] := by
  simp [colourOf, h, scaleTo16_8]

theorem to_indexed_ga_pixel (pal : List Rgba) (idx : Nat) (g a : UInt8)
    (h : pal[idx]? = some ⟨g, g, g, a⟩) :
    colourOf (.indexed pal) 8 [idx] = colourOf .grayAlpha 8 [g.toNat, a.toNat] := by
  simp [colourOf, h, scaleTo16_8]

/-! ### image level: the whole picture is preserved -/

/-- colour-key components are below `n` (what a parsed tRNS chunk gives with `n = 65536`) -/
def keyBelow (n : Nat) : ColorType → Prop
  | .gray (some k) => k < n
  | .rgb (some (r, g, b)) => r < n ∧ g < n ∧ b < n
  | _ => True

/-- 16→8, one pixel of any colour type that can have 16-bit samples, given as its high bytes. -/
theorem depth16to8_pixel (ct : ColorType) (s : List Nat) (hs : ∀ k, s.getD k 0 < 256)
    (hct : ct.isIndexed = false) (hkey : keyBelow 65536 ct) :
    colourOf ct 16 (s.map fun h => h * 256 + h) = colourOf (trns16to8 ct exactKey) 8 s := by
  have hg := getD_map_zero (fun h => h * 256 + h) (by simp) s
  cases ct with
  | indexed p => simp [ColorType.isIndexed] at hct
  | gray t =>
    have h0 := depth16to8_gray_pixel t (s.getD 0 0) (hs 0)
      (by intro k hk; subst hk; exact hkey)
    cases t with
    | none => simp only [colourOf, trns16to8, hg, depth16to8_sample, Option.map_none, reduceCtorEq, if_false]
    | some k =>
      simp only [colourOf, trns16to8, List.getD_cons_zero] at h0
      simp only [colourOf, trns16to8, hg]
      exact h0
  | grayAlpha => simp only [colourOf, trns16to8, hg, depth16to8_sample]
  | rgba => simp only [colourOf, trns16to8, hg, depth16to8_sample]
  | rgb t =>
    cases t with
    | none => simp only [colourOf, trns16to8, hg, depth16to8_sample, Option.map_none, reduceCtorEq, if_false]
    | some k =>
      obtain ⟨r, g, b⟩ := k
      obtain ⟨hr, hgk, hb⟩ := hkey
      have kr := depth16to8_key (s.getD 0 0) r (hs 0) hr
      have kg := depth16to8_key (s.getD 1 0) g (hs 1) hgk
      have kb := depth16to8_key (s.getD 2 0) b (hs 2) hb
      simp only [colourOf, trns16to8, hg, depth16to8_sample, Option.map_some]
      generalize s.getD 0 0 = a0 at *
      generalize s.getD 1 0 = a1 at *
      generalize s.getD 2 0 = a2 at *
      cases er : exactKey r <;> cases eg : exactKey g <;> cases eb : exactKey b <;>
        simp only [er, eg, eb, Option.map_none, Option.map_some, reduceCtorEq, iff_false,
          Option.some.injEq] at kr kg kb <;>
        simp [kr, kg, kb]

/-- **16→8 is lossless for the whole image** (exact path, `scale_16 = false`): whenever the
    reduction applies, the reduced image shows the same picture — for every size, every non-indexed
    colour type, with or without a colour key. -/
theorem depth16to8_lossless (i j : Img) (n : Nat)
    (hlen : i.data.length = n * i.bppBytes)
    (hct : i.ihdr.ct.isIndexed = false) (hkey : keyBelow 65536 i.ihdr.ct)
    (h : reducedBitDepth16to8 i false = some j) : samePicture i j := by
  unfold reducedBitDepth16to8 at h
  by_cases hd : i.ihdr.depth = 16
  · simp only [hd, ne_eq, not_true_eq_false, if_false, Bool.false_eq_true] at h
    cases hany : ((pairs16 i.data).any fun p => p.1 ≠ p.2)
    case true => simp only [hany, if_true, reduceCtorEq] at h
    case false =>
      simp only [hany, Bool.false_eq_true, if_false, Option.some.injEq] at h
      subst h
      have hall : ∀ p ∈ pairs16 i.data, p.1 = p.2 := by
        intro p hp
        have := List.any_eq_false.mp hany p hp
        simpa using this
      refine ⟨rfl, rfl, rfl, ?_⟩
      have hchan' : ∀ ct, (trns16to8 ct exactKey).channels = ct.channels := by
        intro ct; unfold trns16to8; split <;> (try split) <;> rfl
      have hchan := hchan' i.ihdr.ct
      have hcpos : 0 < i.ihdr.ct.channels := by cases i.ihdr.ct <;> simp [ColorType.channels]
      have hbpp : i.bppBytes = 2 * i.ihdr.ct.channels := by
        simp [Img.bppBytes, Img.bytesPerChannel, Img.channelsPerPixel, hd]
      rw [hbpp] at hlen
      obtain ⟨hch, hpx⟩ := chunks_16to8 (·.1) i.data i.ihdr.ct.channels n hcpos hlen
      simp only [pixelColours, storagePixels, Img.bppBytes, Img.bytesPerChannel,
        Img.channelsPerPixel, hd, if_true, hchan]
      have h8 : ((8 : Nat) = 16) = False := by simp
      simp only [h8, if_false, Nat.one_mul, hch, List.map_map]
      apply List.map_congr_left
      intro px hpxm
      obtain ⟨_, hsub⟩ := hpx px hpxm
      simp only [Function.comp, samplesOf, if_true, h8, if_false, List.map_map]
      have e1 : (pairs16 px).map (fun p => p.1.toNat * 256 + p.2.toNat) =
          ((pairs16 px).map (fun p => p.1.toNat)).map (fun h => h * 256 + h) := by
        rw [List.map_map]
        apply List.map_congr_left
        intro p hp
        simp [Function.comp, hall p (hsub p hp)]
      rw [e1]
      have e2 : (pairs16 px).map ((fun x => x.toNat) ∘ fun x : UInt8 × UInt8 => x.1) =
          (pairs16 px).map (fun p => p.1.toNat) := rfl
      rw [e2]
      have hs : ∀ k, ((pairs16 px).map (fun p => p.1.toNat)).getD k 0 < 256 := by
        intro k
        have := getD_toNat_lt ((pairs16 px).map (·.1)) k
        rw [List.map_map] at this
        exact this
      exact depth16to8_pixel i.ihdr.ct _ hs hct hkey
  · simp [hd] at h

/-- Non-vacuity: a concrete 16-bit keyed pixel -/
example : colourOf (.gray (some 0x3434)) 16 [0x34 * 256 + 0x34] = ⟨0x3434, 0x3434, 0x3434, 0⟩ ∧
          colourOf (trns16to8 (.gray (some 0x3434)) exactKey) 8 [0x34] = ⟨0x3434, 0x3434, 0x3434, 0⟩ := by decide

end OxiModel.C01

import OxiModel.Front
import OxiModel.GeomProofs
/-
  C05 — any byte string is handled without panic, overflow or runaway memory (front end).
  Partial in the brief's sense: the theorems cover the chunk walker, animation-chunk handling,
  header parsing/validation and the size computation that sizes the inflate buffer; what runs
  after a header has been accepted (reductions, evaluator) is covered by the worker-process oracle.
-/
namespace OxiModel.C05
open OxiModel

theorem sliceP_ok (b : Bytes) (lo hi : Nat) (h1 : lo ≤ hi) (h2 : hi ≤ b.length) :
    sliceP b lo hi = .ok ((b.drop lo).take (hi - lo)) := by
  simp [sliceP, h1, h2]

/-- **The chunk walker never indexes out of range**, whatever the bytes, the offset and `fix_errors`. -/
theorem parseNextChunk_never_panics (b : Bytes) (off : Nat) (fix : Bool) :
    parseNextChunkC b off fix ≠ .error .panic := by
  unfold parseNextChunkC
  split
  · simp
  · rename_i h1
    simp only
    split
    · simp
    · rename_i h2
      have hlen : off + 12 + readBE ((b.drop off).take 4) ≤ b.length := by omega
      rw [sliceP_ok b (off + 4) (off + 4 + 4) (by omega) (by omega)]
      simp only
      split
      · simp
      · rw [sliceP_ok b (off + 4 + 4) (off + 4 + 4 + _) (by omega) (by omega)]
        simp only
        rw [sliceP_ok b (off + 4 + 4 + _) (off + 4 + 4 + _ + 4) (by omega) (by omega)]
        simp only
        rw [sliceP_ok b (off + 4) (off + 4 + 4 + _) (by omega) (by omega)]
        simp only
        split <;> simp

/-- …and it is the function the correspondence stream tests: the checked and the plain model agree. -/
theorem parseNextChunkC_eq (b : Bytes) (off : Nat) (fix : Bool) :
    parseNextChunkC b off fix = parseNextChunk b off fix := by
  unfold parseNextChunkC parseNextChunk
  by_cases h1 : off + 4 ≤ b.length
  · have h1' : ¬ (off + 4 > b.length) := by omega
    simp only [h1, not_true_eq_false, if_false, h1']
    by_cases h2 : b.length < off + 12 + readBE ((b.drop off).take 4)
    · simp [h2]
    · simp only [h2, if_false]
      have hlen : off + 12 + readBE ((b.drop off).take 4) ≤ b.length := by omega
      rw [sliceP_ok b (off + 4) (off + 4 + 4) (by omega) (by omega)]
      simp only
      have e1 : off + 4 + 4 - (off + 4) = 4 := by omega
      rw [e1]
      by_cases h3 : (b.drop (off + 4)).take 4 = nm "IEND"
      · simp [h3]
      · simp only [h3, if_false]
        rw [sliceP_ok b (off + 4 + 4) (off + 4 + 4 + _) (by omega) (by omega)]
        simp only
        rw [sliceP_ok b (off + 4 + 4 + _) (off + 4 + 4 + _ + 4) (by omega) (by omega)]
        simp only
        rw [sliceP_ok b (off + 4) (off + 4 + 4 + _) (by omega) (by omega)]
        simp only
        have e2 : ∀ n, off + 4 + 4 + n - (off + 4 + 4) = n := by intro n; omega
        have e3 : ∀ n, off + 4 + 4 + n + 4 - (off + 4 + 4 + n) = 4 := by intro n; omega
        have e4 : ∀ n, off + 4 + 4 + n - (off + 4) = 4 + n := by intro n; omega
        have e5 : off + 4 + 4 = off + 8 := by omega
        have e6 : ∀ n, off + 4 + 4 + n + 4 = off + 12 + n := by intro n; omega
        have e7 : ∀ n, off + 4 + 4 + n = off + 8 + n := by intro n; omega
        simp only [e2, e3, e4]
        have hcat : (b.drop (off + 4)).take (4 + readBE ((b.drop off).take 4)) =
            (b.drop (off + 4)).take 4 ++ (b.drop (off + 8)).take (readBE ((b.drop off).take 4)) := by
          rw [List.take_add]
          congr 1
          rw [List.drop_drop]
        rw [hcat]
        simp only [e5, e6, e7]
  · have h1' : off + 4 > b.length := by omega
    simp [h1, h1']

/-- a parsed chunk always advances the offset by at least 12 and stays inside the data: the walk
    makes progress, so it terminates after at most `len / 12` chunks -/
theorem parseNextChunk_advances (b : Bytes) (off : Nat) (fix : Bool) (c : Chunk) (off' : Nat)
    (h : parseNextChunk b off fix = .ok (some (c, off'))) : off + 12 ≤ off' ∧ off' ≤ b.length := by
  unfold parseNextChunk at h
  split at h
  · cases h
  · simp only at h
    split at h
    · cases h
    · split at h
      · cases h
      · split at h
        · cases h
        · injection h with h
          injection h with h
          injection h with _ h
          omega

/-- fcTL / fdAT: reading the sequence number cannot index out of range (after the `fix:` commit) -/
theorem seqNumber_never_panics (c : Chunk) : seqNumberC c ≠ .error .panic := by
  unfold seqNumberC
  split
  · simp
  · rw [sliceP_ok c.data 0 4 (by omega) (by omega)]
    simp

theorem frameOfFctl_never_panics (d : Bytes) : frameOfFctlC d ≠ .error .panic := by
  unfold frameOfFctlC
  split
  · simp
  · rename_i h
    have h26 : 26 ≤ d.length := by omega
    rw [sliceP_ok d 4 8 (by omega) (by omega), sliceP_ok d 8 12 (by omega) (by omega),
        sliceP_ok d 12 16 (by omega) (by omega), sliceP_ok d 16 20 (by omega) (by omega),
        sliceP_ok d 20 22 (by omega) (by omega), sliceP_ok d 22 24 (by omega) (by omega)]
    have i24 : indexP d 24 = .ok d[24] := by simp [indexP, List.getElem?_eq_getElem (show 24 < d.length by omega)]
    have i25 : indexP d 25 = .ok d[25] := by simp [indexP, List.getElem?_eq_getElem (show 25 < d.length by omega)]
    rw [i24, i25]
    simp only
    split <;> simp

theorem ihdrFields_never_panics (d : Bytes) : ihdrFieldsC d ≠ .error .panic := by
  unfold ihdrFieldsC
  cases h12 : d[12]? with
  | none => simp
  | some il =>
    have hlen : 12 < d.length := by
      rcases List.getElem?_eq_some_iff.mp h12 with ⟨h, _⟩
      exact h
    have i9 : indexP d 9 = .ok d[9] := by simp [indexP, List.getElem?_eq_getElem (show 9 < d.length by omega)]
    have i8 : indexP d 8 = .ok d[8] := by simp [indexP, List.getElem?_eq_getElem (show 8 < d.length by omega)]
    simp only [i9, i8, sliceP_ok d 0 4 (by omega) (by omega), sliceP_ok d 4 8 (by omega) (by omega)]
    simp

theorem grayKey_never_panics (t : Bytes) : grayKeyC t ≠ .error .panic := by
  unfold grayKeyC
  split
  · rw [sliceP_ok t 0 2 (by omega) (by omega)]; simp
  · simp

theorem rgbKey_never_panics (t : Bytes) : rgbKeyC t ≠ .error .panic := by
  unfold rgbKeyC
  split
  · rw [sliceP_ok t 0 2 (by omega) (by omega), sliceP_ok t 2 4 (by omega) (by omega),
        sliceP_ok t 4 6 (by omega) (by omega)]
    simp
  · simp

/-- **Header parsing never panics** for any IHDR/PLTE/tRNS payloads… -/
theorem parseIhdr_never_panics (d : Bytes) (plte trns : Option Bytes) :
    parseIhdrC d plte trns ≠ .error .panic := by
  unfold parseIhdrC
  have hf := ihdrFields_never_panics d
  cases hfe : ihdrFieldsC d with
  | error e => simp only; intro h; apply hf; rw [hfe]; injection h with h; rw [h]
  | ok v =>
    obtain ⟨w, h, depth, ctCode, il⟩ := v
    simp only
    -- the colour-type stage
    have hct : ∀ (ctE : Except ParseErr ColorType), ctE ≠ .error .panic →
        (match ctE with
          | .error e => (.error e : Except ParseErr Ihdr)
          | .ok ct =>
            if ¬ (depth.toNat = 1 ∨ depth.toNat = 2 ∨ depth.toNat = 4 ∨ depth.toNat = 8 ∨ depth.toNat = 16) then .error .badHeader else
            if il.toNat > 1 then .error .badHeader else
            if w = 0 ∨ h = 0 then .error .badHeader else
            if !depthLegal ct depth.toNat then .error .badHeader else
            .ok ⟨w, h, ct, depth.toNat, il.toNat = 1⟩) ≠ .error .panic := by
      intro ctE hne
      cases ctE with
      | error e => simp only; intro h; apply hne; injection h with h; rw [h]
      | ok ct => simp only; split <;> (try simp) ; split <;> (try simp); split <;> (try simp); split <;> simp
    apply hct
    split
    · cases trns with
      | none => simp
      | some t =>
        simp only
        have := grayKey_never_panics t
        cases hk : grayKeyC t with
        | ok k => simp
        | error e => simp only; intro h; apply this; rw [hk]; injection h with h; rw [h]
    · cases trns with
      | none => simp
      | some t =>
        simp only
        have := rgbKey_never_panics t
        cases hk : rgbKeyC t with
        | ok k => simp
        | error e => simp only; intro h; apply this; rw [hk]; injection h with h; rw [h]
    · simp
    · simp
    · simp
    · simp

/-- …and an accepted header has non-zero dimensions and a depth legal for its colour type
    (so every scan line holds at least one whole pixel: the `assert!`s of (un)filter_line hold). -/
theorem parseIhdr_wellformed (d : Bytes) (plte trns : Option Bytes) (hd : Ihdr)
    (h : parseIhdrC d plte trns = .ok hd) :
    1 ≤ hd.width ∧ 1 ≤ hd.height ∧ depthLegal hd.ct hd.depth = true := by
  unfold parseIhdrC at h
  split at h
  · cases h
  · rename_i w hh depth ctCode il _
    simp only at h
    split at h
    · cases h
    · rename_i ct _
      split at h
      · cases h
      · split at h
        · cases h
        · split at h
          · cases h
          · rename_i hz
            split at h
            · cases h
            · rename_i hl
              injection h with h
              subst h
              simp only
              refine ⟨by omega, by omega, ?_⟩
              simpa using hl

/-- **The buffer sized from the header is bounded by a fixed multiple of the bytes present.**
    If the size guard of `PngImage::new` lets a (non-interlaced) header through, the inflate buffer
    `raw_data_size` is at most `17 · 1032 · len + 14` bytes — no gigabytes from a few hundred bytes,
    and far below 2^64, so the size arithmetic cannot overflow. -/
theorem alloc_bounded_progressive (hd : Ihdr) (len : Nat) (hw : 1 ≤ hd.width) (hb : 1 ≤ hd.bpp)
    (hg : sizeGuard hd len = true) (hil : hd.interlaced = false) :
    rawDataSize hd.width hd.height hd.bpp hd.interlaced ≤ 17 * (len * 1032) + 14 := by
  simp only [sizeGuard, decide_eq_true_eq] at hg
  rw [hil]
  simp only [rawDataSize, bitmapSize, Bool.not_false, if_true]
  -- ((w*bpp+7)/8)*h + h ≤ w*h*bpp/8 + 2h, and h ≤ 8*(w*h*bpp/8) + 7
  have key : (hd.width * hd.bpp + 7) / 8 * hd.height ≤ hd.width * hd.height * hd.bpp / 8 + hd.height := by
    have h1 : (hd.width * hd.bpp + 7) / 8 * hd.height ≤ ((hd.width * hd.bpp + 7) * hd.height) / 8 := by
      rw [Nat.le_div_iff_mul_le (by decide : 0 < 8)]
      have := Nat.div_mul_le_self (hd.width * hd.bpp + 7) 8
      calc (hd.width * hd.bpp + 7) / 8 * hd.height * 8
          = (hd.width * hd.bpp + 7) / 8 * 8 * hd.height := by rw [Nat.mul_right_comm]
        _ ≤ (hd.width * hd.bpp + 7) * hd.height := Nat.mul_le_mul_right _ this
    have h2 : (hd.width * hd.bpp + 7) * hd.height = hd.width * hd.height * hd.bpp + 7 * hd.height := by
      rw [Nat.add_mul, Nat.mul_right_comm]
    rw [h2] at h1
    omega
  have hh : hd.height ≤ hd.width * hd.height * hd.bpp := by
    calc hd.height = 1 * hd.height * 1 := by omega
      _ ≤ hd.width * hd.height * hd.bpp := Nat.mul_le_mul (Nat.mul_le_mul hw (Nat.le_refl _)) hb
  omega

theorem bitmap_le (bpp pw ph : Nat) : bitmapSize bpp pw ph ≤ pw * ph * bpp / 8 + ph := by
  unfold bitmapSize
  have h1 : (pw * bpp + 7) / 8 * ph ≤ ((pw * bpp + 7) * ph) / 8 := by
    rw [Nat.le_div_iff_mul_le (by decide : 0 < 8)]
    have := Nat.div_mul_le_self (pw * bpp + 7) 8
    calc (pw * bpp + 7) / 8 * ph * 8
        = (pw * bpp + 7) / 8 * 8 * ph := by rw [Nat.mul_right_comm]
      _ ≤ (pw * bpp + 7) * ph := Nat.mul_le_mul_right _ this
  have h2 : (pw * bpp + 7) * ph = pw * ph * bpp + 7 * ph := by
    rw [Nat.add_mul, Nat.mul_right_comm]
  rw [h2] at h1
  omega

theorem area_mono (bpp pw ph w h : Nat) (h1 : pw ≤ w) (h2 : ph ≤ h) : pw * ph * bpp / 8 ≤ w * h * bpp / 8 :=
  Nat.div_le_div_right (Nat.mul_le_mul_right _ (Nat.mul_le_mul h1 h2))

/-- one pass of the interlaced size computation -/
theorem pass_term_le (bpp pw ph w h : Nat) (h1 : pw ≤ w) (h2 : ph ≤ h) :
    bitmapSize bpp pw ph + ph ≤ w * h * bpp / 8 + 2 * h := by
  have := bitmap_le bpp pw ph
  have := area_mono bpp pw ph w h h1 h2
  omega

/-- **Interlaced headers too**: if the size guard lets the header through, the buffer sized from it
    is at most `119 · 1032 · len + 98` bytes (seven passes, each at most the whole image plus two
    bytes per row; a crude but fixed multiple of the bytes present). -/
theorem alloc_bounded_interlaced (hd : Ihdr) (len : Nat) (hw : 1 ≤ hd.width) (hb : 1 ≤ hd.bpp)
    (hg : sizeGuard hd len = true) (hil : hd.interlaced = true) :
    rawDataSize hd.width hd.height hd.bpp hd.interlaced ≤ 119 * (len * 1032) + 98 := by
  simp only [sizeGuard, decide_eq_true_eq] at hg
  rw [hil]
  simp only [rawDataSize, Bool.not_true, Bool.false_eq_true, if_false]
  generalize hG : hd.width * hd.height * hd.bpp / 8 = G at hg
  have hh : hd.height ≤ hd.width * hd.height * hd.bpp := by
    calc hd.height = 1 * hd.height * 1 := by omega
      _ ≤ hd.width * hd.height * hd.bpp := Nat.mul_le_mul (Nat.mul_le_mul hw (Nat.le_refl _)) hb
  have hh8 : hd.height ≤ 8 * G + 7 := by omega
  have t1 := pass_term_le hd.bpp ((hd.width + 7) / 8) ((hd.height + 7) / 8) hd.width hd.height (by omega) (by omega)
  have t2 := pass_term_le hd.bpp ((hd.width + 3) / 8) ((hd.height + 7) / 8) hd.width hd.height (by omega) (by omega)
  have t3 := pass_term_le hd.bpp ((hd.width + 3) / 4) ((hd.height + 3) / 8) hd.width hd.height (by omega) (by omega)
  have t4 := pass_term_le hd.bpp ((hd.width + 1) / 4) ((hd.height + 3) / 4) hd.width hd.height (by omega) (by omega)
  have t5 := pass_term_le hd.bpp ((hd.width + 1) / 2) ((hd.height + 1) / 4) hd.width hd.height (by omega) (by omega)
  have t6 := pass_term_le hd.bpp (hd.width / 2) ((hd.height + 1) / 2) hd.width hd.height (by omega) (by omega)
  have t7 := pass_term_le hd.bpp hd.width (hd.height / 2) hd.width hd.height (by omega) (by omega)
  rw [hG] at t1 t2 t3 t4 t5 t6 t7
  split <;> split <;> split <;> omega

/-- either layout: a fixed multiple of the bytes present -/
theorem alloc_bounded (hd : Ihdr) (len : Nat) (hw : 1 ≤ hd.width) (hb : 1 ≤ hd.bpp)
    (hg : sizeGuard hd len = true) :
    rawDataSize hd.width hd.height hd.bpp hd.interlaced ≤ 119 * (len * 1032) + 98 := by
  cases hil : hd.interlaced
  · have := alloc_bounded_progressive hd len hw hb hg hil
    rw [hil] at this; omega
  · have := alloc_bounded_interlaced hd len hw hb hg hil
    rw [hil] at this; exact this

/-- Non-vacuity: a concrete truncated fcTL is an error, a good IHDR is accepted, a zero width is not. -/
example : (match seqNumberC ⟨[], [0, 0]⟩ with | .error .truncated => true | _ => false) = true ∧
    (parseIhdrC [0,0,0,5, 0,0,0,3, 8, 2, 0, 0, 1] none none).isOk = true ∧
    (parseIhdrC [0,0,0,0, 0,0,0,3, 8, 2, 0, 0, 1] none none).isOk = false := by decide

end OxiModel.C05

import OxiModel.Cli
/-
  C09 — the command line means what the manual says (decision logic).
  Runtime part (clap's parsing, process exit plumbing, where log lines go) is outside the model and
  checked by running the real binary.
-/
namespace OxiModel.C09
open OxiModel

/-- **Preset table**: for every level 0–6 the options built by `from_preset` have exactly the
    compression level, filter set and evaluation mode the manual lists (a finite table: `decide`
    over all of it is a proof). -/
theorem presets_match_manual : ∀ level ∈ [0, 1, 2, 3, 4, 5, 6],
    (fromPreset level).deflate = .lib (manualPreset level).1 ∧
    sameSet (fromPreset level).filter (manualPreset level).2.1 = true ∧
    (fromPreset level).fastEvaluation = (manualPreset level).2.2 := by
  decide

/-- nothing else differs from the defaults in any preset -/
theorem presets_only_touch_three_fields : ∀ level ∈ [0, 1, 2, 3, 4, 5, 6],
    { fromPreset level with deflate := defaultOptions.deflate, filter := defaultOptions.filter,
                            fastEvaluation := defaultOptions.fastEvaluation } = defaultOptions := by
  decide

/-- every field but the policy and the compressor comes from the infallible first part -/
theorem cli_fields (f : Flags) (o : CliOptions) (h : cliToOptions f = some o) :
    o = { baseOptions f with strip := o.strip, deflate := o.deflate } := by
  simp only [cliToOptions, Option.map_eq_some_iff] at h
  obtain ⟨p, _, rfl⟩ := h
  rfl

/-- `-o max` is level 6 -/
theorem max_is_six (f : Flags) : cliToOptions { f with opt := some 7 } = cliToOptions { f with opt := some 6 } := by
  simp [cliToOptions, baseOptions, presetOf, policyOf, deflaterOf]

/-- **Explicit settings override the preset** (the translation never looks at argument order:
    `Flags` carries none): an explicit `-f` list is the filter set whatever `-o` says. -/
theorem explicit_filters_override (f : Flags) (fs : List Nat) (o : CliOptions)
    (h : cliToOptions { f with filters := some fs } = some o) : o.filter = fs := by
  rw [cli_fields _ o h]
  simp [baseOptions]

/-- every preset uses libdeflate -/
theorem preset_is_lib (f : Flags) : ∃ l, (presetOf f).deflate = .lib l := by
  unfold presetOf
  cases f.opt with
  | none => exact ⟨11, rfl⟩
  | some l =>
    simp only
    unfold fromPreset
    split <;> simp [setLevel, defaultOptions]

/-- an explicit `--zc` is the compression level (when Zopfli is not selected), whatever `-o` says -/
theorem explicit_zc_overrides (f : Flags) (z : Nat) (o : CliOptions) (hz : f.zopfli = false)
    (h : cliToOptions { f with zc := some z } = some o) : o.deflate = .lib z := by
  simp only [cliToOptions, Option.map_eq_some_iff] at h
  obtain ⟨p, _, rfl⟩ := h
  obtain ⟨l, hl⟩ := preset_is_lib f
  simp only [presetOf] at hl
  simp only [deflaterOf, hz, Bool.false_eq_true, if_false, baseOptions, presetOf, hl]

/-- `--fast` turns fast evaluation on whatever the preset -/
theorem fast_flag (f : Flags) (o : CliOptions) (h : cliToOptions { f with fast := true } = some o) :
    o.fastEvaluation = true := by
  rw [cli_fields _ o h]
  simp [baseOptions]

/-- **`--nx` implies keep-interlacing unless `-i` is given**, and switches the four reductions off. -/
theorem nx_implies_keep (f : Flags) (o : CliOptions) (hi : f.interlace = none)
    (h : cliToOptions { f with nx := true } = some o) :
    o.interlace = none ∧ o.bitDepth = false ∧ o.colorType = false ∧ o.palette = false ∧ o.grayscale = false := by
  rw [cli_fields _ o h]
  simp [baseOptions, hi]

theorem explicit_interlace_wins (f : Flags) (i : Option Bool) (o : CliOptions)
    (h : cliToOptions { f with interlace := some i } = some o) : o.interlace = i := by
  rw [cli_fields _ o h]
  simp [baseOptions]

/-- without `--nx` the four switches are exactly the negated no-bit-depth / no-colour / no-palette /
    no-grayscale flags; `--nz` only switches recompression off; the lossy switches, force and fix are
    passed through -/
theorem switch_flags (f : Flags) (o : CliOptions) (hnx : f.nx = false) (h : cliToOptions f = some o) :
    o.bitDepth = !f.nb ∧ o.colorType = !f.nc ∧ o.palette = !f.np ∧ o.grayscale = !f.ng ∧
    o.idatRecoding = !f.nz ∧ o.optimizeAlpha = f.alpha ∧ o.scale16 = f.scale16 ∧ o.force = f.force ∧
    o.fixErrors = f.fix := by
  rw [cli_fields _ o h]
  simp [baseOptions, hnx]

/-- the strip policy: `-s` and `--strip safe` mean Safe, `--strip all` All, no flag None -/
theorem policy_table (f : Flags) (hk : f.keep = none) :
    (f.strip = none → f.stripSafe = false → policyOf f = some .none) ∧
    (f.stripSafe = true → f.strip = none → policyOf f = some .safe) ∧
    (f.strip = some .safe → f.stripSafe = false → policyOf f = some .safe) ∧
    (f.strip = some .all → f.stripSafe = false → policyOf f = some .all) := by
  refine ⟨?_, ?_, ?_, ?_⟩ <;> intro h1 h2 <;> simp [policyOf, hk, h1, h2, stripPolicy]

/-- the critical chunks cannot be named in `--strip` -/
theorem strip_forbidden (names : List String) (ns : List Bytes) (hm : names.mapM parseChunkName = some ns)
    (hf : ns.any forbiddenStrip.contains = true) : stripPolicy (.list names) = none := by
  simp only [stripPolicy]
  split
  · rfl
  · simp [hm, hf]

/-- **Exit status**: 0 if at least one file was processed successfully, otherwise 1 if some file
    failed, otherwise 3 (only skipped, or nothing to do). -/
theorem exit_status_rule (rs : List RunResult) :
    exitStatus rs = if .ok ∈ rs then 0 else if .failed ∈ rs then 1 else 3 := by
  unfold exitStatus
  have key : ∀ (l : List RunResult) (acc : RunResult),
      (l.foldl (fun acc r => if r.rank < acc.rank then r else acc) acc = .ok ↔ (acc = .ok ∨ .ok ∈ l)) ∧
      (l.foldl (fun acc r => if r.rank < acc.rank then r else acc) acc = .failed ↔
        ((acc = .failed ∧ .ok ∉ l) ∨ (acc = .skipped ∧ .ok ∉ l ∧ .failed ∈ l))) := by
    intro l
    induction l with
    | nil => intro acc; cases acc <;> simp
    | cons r l ih =>
      intro acc
      simp only [List.foldl_cons]
      have := ih (if r.rank < acc.rank then r else acc)
      cases r <;> cases acc <;> simp [RunResult.rank] at this ⊢ <;> exact this
  obtain ⟨h1, h2⟩ := key rs .skipped
  by_cases hok : RunResult.ok ∈ rs
  · have : rs.foldl (fun acc r => if r.rank < acc.rank then r else acc) .skipped = .ok := h1.mpr (Or.inr hok)
    simp [this, hok]
  · by_cases hf : RunResult.failed ∈ rs
    · have : rs.foldl (fun acc r => if r.rank < acc.rank then r else acc) .skipped = .failed :=
        h2.mpr (Or.inr ⟨rfl, hok, hf⟩)
      simp [this, hok, hf]
    · have hne1 : rs.foldl (fun acc r => if r.rank < acc.rank then r else acc) .skipped ≠ .ok := by
        intro h; rcases h1.mp h with h | h
        · cases h
        · exact hok h
      have hne2 : rs.foldl (fun acc r => if r.rank < acc.rank then r else acc) .skipped ≠ .failed := by
        intro h; rcases h2.mp h with ⟨h, _⟩ | ⟨_, _, h⟩
        · cases h
        · exact hf h
      cases hm : rs.foldl (fun acc r => if r.rank < acc.rank then r else acc) .skipped with
      | ok => exact absurd hm hne1
      | failed => exact absurd hm hne2
      | skipped => simp [hok, hf]

/-- **Directories are descended only with `--recursive`**: without it no file below a directory is taken. -/
theorem no_descent_without_recursive (top : Bool) (n : String) (children rest : List Entry) :
    collectFiles false top (.dir n children :: rest) = collectFiles false top rest := by
  simp [collectFiles]

/-- files named on the command line are always taken … -/
theorem top_level_files_taken (r : Bool) (n : String) (rest : List Entry) :
    collectFiles r true (.file n :: rest) = n :: collectFiles r true rest := by
  simp [collectFiles]

/-- … below the top level only names with extension png or apng are -/
theorem nested_files_filtered (r : Bool) (n : String) (rest : List Entry) (h : hasPngExt n = false) :
    collectFiles r false (.file n :: rest) = collectFiles r false rest := by
  simp [collectFiles, h]

/-! ### where the result goes -/

/-- **`--pretend` writes nowhere**, whatever other destination option is given. -/
theorem pretend_routes_nowhere (d : DestFlags) (name : String) (h : d.pretend = true) :
    fileOut d name = .none := by
  unfold fileOut baseOut
  cases d.dir <;> simp [h]

/-- `--stdout` (without `--pretend`) sends the result to standard output only. -/
theorem stdout_route (d : DestFlags) (name : String) (hp : d.pretend = false) (hs : d.stdout = true) :
    fileOut d name = .stdout := by
  unfold fileOut baseOut
  cases d.dir <;> simp [hp, hs]

/-- `--dir D` sends the result to `D/<same file name>`; `--preserve` is carried over. -/
theorem dir_route (d : DestFlags) (name dd : String) (hp : d.pretend = false) (hs : d.stdout = false)
    (hd : d.dir = some dd) : fileOut d name = .path (some (dd ++ "/" ++ name)) d.preserve := by
  unfold fileOut baseOut
  simp [hp, hs, hd]

/-- otherwise `--out F` names the file, and with neither the input file itself is the destination -/
theorem out_or_inplace_route (d : DestFlags) (name : String) (hp : d.pretend = false) (hs : d.stdout = false)
    (hd : d.dir = none) : fileOut d name = .path d.out d.preserve := by
  unfold fileOut baseOut
  simp [hp, hs, hd]

/-- the four cases are all there is -/
theorem route_cases (d : DestFlags) (name : String) :
    fileOut d name = .none ∨ fileOut d name = .stdout ∨
    (∃ dd, d.dir = some dd ∧ fileOut d name = .path (some (dd ++ "/" ++ name)) d.preserve) ∨
    fileOut d name = .path d.out d.preserve := by
  cases hp : d.pretend
  · cases hs : d.stdout
    · cases hd : d.dir with
      | none => exact Or.inr (Or.inr (Or.inr (out_or_inplace_route d name hp hs hd)))
      | some dd => exact Or.inr (Or.inr (Or.inl ⟨dd, rfl, dir_route d name dd hp hs hd⟩))
    · exact Or.inr (Or.inl (stdout_route d name hp hs))
  · exact Or.inl (pretend_routes_nowhere d name hp)

example : fileOut { pretend := true, dir := some "o" } "a.png" = .none ∧
    fileOut { dir := some "o", preserve := true } "a.png" = .path (some "o/a.png") true ∧
    fileOut {} "a.png" = .path none false := by decide

/-- Non-vacuity -/
example : exitStatus [.skipped, .failed, .ok] = 0 ∧ exitStatus [.skipped, .failed] = 1 ∧ exitStatus [] = 3 ∧
    (cliToOptions { opt := some 3, zc := some 9 }).map (·.deflate) = some (.lib 9) := by decide

end OxiModel.C09

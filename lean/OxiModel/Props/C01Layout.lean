import OxiModel.Props.C18Reverse
import OxiModel.Spec.Decode
/-
  C01, the layout change: what an image SHOWS at image coordinates (x, y) - independent of whether its
  pixels are stored row by row or in the Adam7 order - is kept by `interlace_image` and by
  `deinterlace_image` (8- and 16-bit samples, every width and height from 1 upward).  With
  `Spec.samePicture` (same layout, same colours in storage order: what every reduction is proved to
  keep) this closes C01's chain: reductions and layout changes in any order keep the colour at every
  coordinate.
-/
namespace OxiModel.C01L
open OxiModel OxiModel.Spec OxiModel.C18

/-- where the pixel at image coordinates (x, y) is stored: row-major, or its place in the
    specification's Adam7 order -/
def storageIndex (hdr : Ihdr) (x y : Nat) : Nat :=
  if hdr.interlaced then (adam7Order hdr.width hdr.height).idxOf (x, y) else y * hdr.width + x

/-- the 16-bit RGBA colour the image shows at (x, y) -/
def colourAt (i : Img) (x y : Nat) : Option Px := (pixelColours i)[storageIndex i.ihdr x y]?

/-- same image: same size, and at every coordinate inside it the same colour, actually present -/
def sameImage (a b : Img) : Prop :=
  a.ihdr.width = b.ihdr.width ∧ a.ihdr.height = b.ihdr.height ∧
  ∀ x y, x < a.ihdr.width → y < a.ihdr.height → colourAt a x y = colourAt b x y

theorem sameImage_refl (a : Img) : sameImage a a := ⟨rfl, rfl, fun _ _ _ _ => rfl⟩
theorem sameImage_symm {a b : Img} (h : sameImage a b) : sameImage b a :=
  ⟨h.1.symm, h.2.1.symm, fun x y hx hy => (h.2.2 x y (h.1 ▸ hx) (h.2.1 ▸ hy)).symm⟩
theorem sameImage_trans {a b c : Img} (h1 : sameImage a b) (h2 : sameImage b c) : sameImage a c :=
  ⟨h1.1.trans h2.1, h1.2.1.trans h2.2.1, fun x y hx hy =>
    (h1.2.2 x y hx hy).trans (h2.2.2 x y (h1.1 ▸ hx) (h1.2.1 ▸ hy))⟩

/-- what the reductions keep (`samePicture`: same layout, same colours in storage order) is the same image -/
theorem samePicture_sameImage {a b : Img} (h : samePicture a b) : sameImage a b := by
  obtain ⟨hw, hh, hil, hc⟩ := h
  refine ⟨hw, hh, ?_⟩
  intro x y _ _
  unfold colourAt storageIndex
  rw [hc, hw, hh, hil]

/-- the colour a non-interlaced image of whole-byte pixels shows at (x, y), from its rows -/
theorem colourAt_progressive (i : Img) (hc : 0 < i.bppBytes) (hw : 1 ≤ i.ihdr.width) (hil : i.ihdr.interlaced = false)
    (hlen : i.data.length = i.ihdr.height * (i.ihdr.width * i.bppBytes)) (x y : Nat) (hx : x < i.ihdr.width)
    (hy : y < i.ihdr.height) :
    colourAt i x y = some (colourOf i.ihdr.ct i.ihdr.depth (samplesOf i.ihdr.depth
      (pixelAt i.bppBytes ((chunksExact (i.ihdr.width * i.bppBytes) i.data).getD y []) x))) := by
  have hwc : 0 < i.ihdr.width * i.bppBytes := Nat.mul_pos hw hc
  obtain ⟨_, hpl⟩ := flatten_chunksExact (i.ihdr.width * i.bppBytes) hwc i.ihdr.height i.data hlen
  have hRlen := chunksExact_length (i.ihdr.width * i.bppBytes) hwc i.ihdr.height i.data hlen
  have hyR : y < (chunksExact (i.ihdr.width * i.bppBytes) i.data).length := by omega
  unfold colourAt storageIndex pixelColours storagePixels
  simp only [hil, Bool.false_eq_true, if_false]
  rw [List.getElem?_map, chunksExact_rows i.bppBytes i.ihdr.width i.ihdr.height hc hw i.data hlen]
  have hblocks : ∀ b ∈ (chunksExact (i.ihdr.width * i.bppBytes) i.data).map (chunksExact i.bppBytes),
      b.length = i.ihdr.width := by
    intro b hb
    obtain ⟨r, hr, rfl⟩ := List.mem_map.mp hb
    exact chunksExact_length i.bppBytes hc i.ihdr.width r (hpl r hr)
  rw [getElem?_flatten_blocks i.ihdr.width hw _ hblocks]
  have e1 : (y * i.ihdr.width + x) / i.ihdr.width = y := by
    rw [Nat.mul_comm, Nat.mul_add_div hw, Nat.div_eq_of_lt hx, Nat.add_zero]
  have e2 : (y * i.ihdr.width + x) % i.ihdr.width = x := by
    rw [Nat.mul_comm, Nat.mul_add_mod, Nat.mod_eq_of_lt hx]
  rw [e1, e2, List.getElem?_map, List.getElem?_eq_getElem hyR]
  simp only [Option.map_some, Option.bind_some]
  have hrow : (chunksExact (i.ihdr.width * i.bppBytes) i.data)[y].length = i.ihdr.width * i.bppBytes :=
    hpl _ (List.getElem_mem hyR)
  have hxl : x < (chunksExact i.bppBytes (chunksExact (i.ihdr.width * i.bppBytes) i.data)[y]).length := by
    rw [chunksExact_length i.bppBytes hc i.ihdr.width _ hrow]; exact hx
  rw [List.getElem?_eq_getElem hxl]
  simp only [Option.map_some, Option.some.injEq]
  unfold pixelAt
  rw [getD_rows _ y hyR, List.getD_eq_getElem?_getD, List.getElem?_eq_getElem hxl]
  rfl

/-- bytes per pixel against bits per pixel, for 8- and 16-bit samples -/
theorem bpp_bytes (i : Img) (hd : i.ihdr.depth = 8 ∨ i.ihdr.depth = 16) : i.ihdr.bpp = 8 * i.bppBytes := by
  unfold Ihdr.bpp Img.bppBytes Img.bytesPerChannel Img.channelsPerPixel
  rcases hd with hd | hd <;> simp [hd] <;> omega

/-- **Interlacing keeps the image**: for every width and height from 1 upward and 8- or 16-bit samples
    of any colour type, `interlace_image` succeeds and its result shows at every coordinate (x, y) the
    colour the original shows there (read through the specification's Adam7 order), and that colour
    is present. -/
theorem interlace_same_image (i : Img) (hd : i.ihdr.depth = 8 ∨ i.ihdr.depth = 16) (hch : 0 < i.ihdr.ct.channels)
    (hw : 1 ≤ i.ihdr.width) (hil : i.ihdr.interlaced = false)
    (hlen : i.data.length = i.ihdr.height * (i.ihdr.width * i.bppBytes)) :
    ∃ j, interlaceImage i = some j ∧ sameImage i j ∧
      ∀ x y, x < i.ihdr.width → y < i.ihdr.height → (colourAt i x y).isSome := by
  have hc : 0 < i.bppBytes := by
    unfold Img.bppBytes Img.bytesPerChannel Img.channelsPerPixel
    split <;> omega
  have hbpp := bpp_bytes i hd
  have hstored := interlace_stored_pixels i i.bppBytes hc hbpp hw hil hlen
  cases hj : interlaceImage i with
  | none => rw [hj] at hstored; simp at hstored
  | some j =>
    rw [hj] at hstored
    simp only [Option.map_some, Option.some.injEq] at hstored
    have hjh : j.ihdr = { i.ihdr with interlaced := true } := by
      unfold interlaceImage at hj
      cases hd' : interlaceData i with
      | none => rw [hd'] at hj; simp at hj
      | some d =>
        rw [hd'] at hj
        simp only [Option.map_some, Option.some.injEq] at hj
        rw [← hj]
    have hjb : j.bppBytes = i.bppBytes := by
      unfold Img.bppBytes Img.bytesPerChannel Img.channelsPerPixel
      rw [hjh]
    refine ⟨j, rfl, ⟨by rw [hjh], by rw [hjh], ?_⟩, ?_⟩
    · intro x y hx hy
      rw [colourAt_progressive i hc hw hil hlen x y hx hy]
      unfold colourAt storageIndex pixelColours storagePixels
      rw [hjb, hstored, hjh]
      simp only [if_true]
      have hmem : (x, y) ∈ adam7Order i.ihdr.width i.ihdr.height := by
        apply List.count_pos_iff.mp
        rw [adam7Order_each_once i.ihdr.width i.ihdr.height x y hx hy]
        exact Nat.one_pos
      have hk := List.idxOf_lt_length_of_mem hmem
      rw [List.getElem?_map, List.getElem?_map, List.getElem?_eq_getElem hk, List.getElem_idxOf hk]
      rfl
    · intro x y hx hy
      rw [colourAt_progressive i hc hw hil hlen x y hx hy]
      rfl

/-- **De-interlacing keeps the image**: ANY interlaced image of the header-implied size (8- or 16-bit
    samples, every width and height from 1 upward) is de-interlaced without a panic into an image that
    shows the same colour at every coordinate. -/
theorem deinterlace_same_image (j : Img) (hd : j.ihdr.depth = 8 ∨ j.ihdr.depth = 16) (hch : 0 < j.ihdr.ct.channels)
    (hw : 1 ≤ j.ihdr.width) (hh : 1 ≤ j.ihdr.height) (hil : j.ihdr.interlaced = true)
    (hlen : j.data.length = j.ihdr.height * (j.ihdr.width * j.bppBytes)) :
    ∃ i, deinterlaceImage j = some i ∧ sameImage j i := by
  have hc : 0 < j.bppBytes := by
    unfold Img.bppBytes Img.bytesPerChannel Img.channelsPerPixel
    split <;> omega
  obtain ⟨jh, jd⟩ := j
  obtain ⟨i, hi, hih, hil', hback⟩ := interlace_deinterlace_bytes jh (Img.bppBytes ⟨jh, jd⟩) hc
    (bpp_bytes ⟨jh, jd⟩ hd) hw hh hil jd hlen
  refine ⟨i, hi, ?_⟩
  have hib : i.bppBytes = Img.bppBytes ⟨jh, jd⟩ := by
    unfold Img.bppBytes Img.bytesPerChannel Img.channelsPerPixel
    rw [hih]
  obtain ⟨j', hj', hsame, _⟩ := interlace_same_image i (by rw [hih]; exact hd) (by rw [hih]; exact hch)
    (by rw [hih]; exact hw) (by rw [hih]) (by rw [hih, hib, hil']; exact hlen)
  rw [hback] at hj'
  rw [← Option.some.inj hj'] at hsame
  exact sameImage_symm hsame

/-- Non-vacuity: a 3x2 RGB-8 image; its interlaced form stores the pixels in another order and shows the
    same colour at (1, 1). -/
example :
    let i : Img := ⟨⟨3, 2, .rgb none, 8, false⟩, [1,2,3, 4,5,6, 7,8,9, 10,11,12, 13,14,15, 16,17,18]⟩
    i.data.length = i.ihdr.height * (i.ihdr.width * i.bppBytes) ∧
    (interlaceImage i).map (·.data) ≠ some i.data ∧
    colourAt i 1 1 = some ⟨13 * 257, 14 * 257, 15 * 257, 65535⟩ ∧
    (interlaceImage i).bind (fun j => colourAt j 1 1) = colourAt i 1 1 := by
  decide

end OxiModel.C01L

import OxiModel.Sched
import OxiModel.NestedProofs
/-
  C16 — optimisation always terminates, whatever the thread-pool shape (protocol level).
  Partial in the brief's sense: the theorems are about the evaluator's spawn / yield / collect
  protocol for one evaluator, with other workers modelled as "may steal and run a queued job at any
  time, and finish it"; rayon's sleep/wake machinery, OS scheduling and the composition of many
  nested evaluators on shared worker stacks are covered by the event-log replay and the watchdog runs.
-/
namespace OxiModel.C16
open OxiModel

/-- invariants of reachable states -/
structure SchedInv (s : SchedState) : Prop where
  noLocal : ∀ j ∈ s.jobs, j ≠ .runningLocal
  recvAllStarted : (s.phase = .receiving ∨ s.phase = .returned) → ∀ j ∈ s.jobs, j ≠ .queued
  retAllDone : s.phase = .returned → ∀ j ∈ s.jobs, j = .finished

theorem filter_length_zero {α} (l : List α) (p : α → Bool) (h : (l.filter p).length = 0) :
    ∀ x ∈ l, p x = false := by
  intro x hx
  cases hp : p x with
  | false => rfl
  | true =>
    have : x ∈ l.filter p := List.mem_filter.mpr ⟨hx, hp⟩
    have := List.length_pos_of_mem this
    omega

theorem mem_set_cases {α} {l : List α} {i : Nat} {a x : α} (h : x ∈ l.set i a) : x = a ∨ x ∈ l := by
  rcases List.mem_or_eq_of_mem_set h with h | h
  · right; exact h
  · left; exact h

theorem exists_queued (l : List JobState) (h : (l.filter (· ≠ .queued)).length ≠ l.length) :
    ∃ i : Nat, l[i]? = some JobState.queued := by
  induction l with
  | nil => simp at h
  | cons x xs ih =>
    by_cases hx : x = .queued
    · exact ⟨0, by simp [hx]⟩
    · have : (xs.filter (· ≠ .queued)).length ≠ xs.length := by
        intro heq
        apply h
        rw [List.filter_cons]
        have hd : decide (x ≠ JobState.queued) = true := by simpa using hx
        rw [if_pos hd]
        simp only [List.length_cons, heq]
      obtain ⟨i, hi⟩ := ih this
      exact ⟨i + 1, by simpa using hi⟩

theorem inv_step {s s' : SchedState} (hi : SchedInv s) (hs : SchedStep s s') : SchedInv s' := by
  cases hs with
  | submit h =>
    refine ⟨?_, ?_, ?_⟩
    · intro j hj
      rcases List.mem_append.mp hj with hj | hj
      · exact hi.noLocal j hj
      · simp at hj; subst hj; simp
    · intro hp; simp only at hp; rw [h] at hp; rcases hp with hp | hp <;> cases hp
    · intro hp; simp only at hp; rw [h] at hp; cases hp
  | collect h =>
    refine ⟨hi.noLocal, ?_, ?_⟩
    · intro hp; simp only at hp; rcases hp with hp | hp <;> cases hp
    · intro hp; simp only at hp; cases hp
  | yieldRun i h hp hq =>
    refine ⟨?_, ?_, ?_⟩
    · intro j hj; rcases mem_set_cases hj with rfl | hj
      · simp
      · exact hi.noLocal j hj
    · intro hph; simp only at hph; rw [h] at hph; rcases hph with hph | hph <;> cases hph
    · intro hph; simp only at hph; rw [h] at hph; cases hph
  | steal i hq =>
    refine ⟨?_, ?_, ?_⟩
    · intro j hj; rcases mem_set_cases hj with rfl | hj
      · simp
      · exact hi.noLocal j hj
    · intro hph j hj
      rcases mem_set_cases hj with rfl | hj
      · simp
      · exact hi.recvAllStarted hph j hj
    · intro hph
      -- a queued job exists, so the phase cannot be `returned`
      have hmem : JobState.queued ∈ s.jobs := List.mem_of_getElem? hq
      have := hi.retAllDone hph _ hmem
      cases this
  | remoteFinish i hq =>
    refine ⟨?_, ?_, ?_⟩
    · intro j hj; rcases mem_set_cases hj with rfl | hj
      · simp
      · exact hi.noLocal j hj
    · intro hph j hj
      rcases mem_set_cases hj with rfl | hj
      · simp
      · exact hi.recvAllStarted hph j hj
    · intro hph j hj
      rcases mem_set_cases hj with rfl | hj
      · rfl
      · exact hi.retAllDone hph j hj
  | block h he =>
    refine ⟨hi.noLocal, ?_, ?_⟩
    · intro _ j hj
      -- executed = nth: the filter keeps everything, so nothing is queued
      simp only [SchedState.executed, SchedState.nth] at he
      intro hq
      have hlt : (s.jobs.filter (· ≠ .queued)).length < s.jobs.length := by
        have hsub := List.length_filter_le (fun x => decide (x ≠ JobState.queued)) s.jobs
        rcases Nat.lt_or_ge (s.jobs.filter (· ≠ .queued)).length s.jobs.length with h1 | h1
        · exact h1
        · have heq : (s.jobs.filter (· ≠ .queued)) = s.jobs := by
            apply List.filter_eq_self.mpr
            have := List.length_filter_eq_length_iff.mp (by omega : (s.jobs.filter (· ≠ .queued)).length = s.jobs.length)
            exact this
          have hall := List.filter_eq_self.mp heq j hj
          subst hq
          simp at hall
      omega
    · intro hp; simp only at hp; cases hp
  | ret h hs =>
    refine ⟨hi.noLocal, ?_, ?_⟩
    · intro _; exact hi.recvAllStarted (Or.inl h)
    · intro _ j hj
      have := filter_length_zero s.jobs (· ≠ .finished) hs j hj
      simpa using this

theorem inv_reach (inPool : Bool) {s : SchedState} (hr : SchedReach (schedInit inPool) s) : SchedInv s := by
  induction hr with
  | refl =>
    refine ⟨by simp [schedInit], ?_, ?_⟩
    · intro hp; simp [schedInit] at hp
    · intro hp; simp [schedInit] at hp
  | step _ hs ih => exact inv_step ih hs

/-- **Progress (no deadlock)**: every reachable state that has not returned has an enabled step. -/
theorem progress (inPool : Bool) (s : SchedState) (hr : SchedReach (schedInit inPool) s)
    (hn : s.phase ≠ .returned) : ∃ s', SchedStep s s' := by
  have hi := inv_reach inPool hr
  cases hph : s.phase with
  | spawning => exact ⟨_, SchedStep.collect s hph⟩
  | yielding =>
    by_cases he : s.executed = s.nth
    · exact ⟨_, SchedStep.block s hph he⟩
    · -- some job is still queued: it can be started
      have : ∃ i : Nat, s.jobs[i]? = some JobState.queued :=
        exists_queued s.jobs (by simpa [SchedState.executed, SchedState.nth] using he)
      obtain ⟨i, hq⟩ := this
      exact ⟨_, SchedStep.steal s i hq⟩
  | receiving =>
    by_cases hs : s.sendersLeft = 0
    · exact ⟨_, SchedStep.ret s hph hs⟩
    · -- an unfinished job exists; it has started and is not local, so it runs remotely and can finish
      have : ∃ i : Nat, s.jobs[i]? = some JobState.runningRemote := by
        simp only [SchedState.sendersLeft] at hs
        have hpos : 0 < (s.jobs.filter (· ≠ .finished)).length := by omega
        obtain ⟨j, hj⟩ := List.exists_mem_of_length_pos hpos
        have hjm := (List.mem_filter.mp hj).1
        have hjn : j ≠ .finished := by simpa using (List.mem_filter.mp hj).2
        have h1 := hi.noLocal j hjm
        have h2 := hi.recvAllStarted (Or.inl hph) j hjm
        have hjr : j = .runningRemote := by cases j <;> simp_all
        subst hjr
        obtain ⟨i, hlt, hget⟩ := List.getElem_of_mem hjm
        exact ⟨i, by rw [List.getElem?_eq_getElem hlt, hget]⟩
      obtain ⟨i, hq⟩ := this
      exact ⟨_, SchedStep.remoteFinish s i hq⟩
  | returned => exact absurd hph hn

/-- the steps available when **no other worker ever helps** (a pool of one thread, or a pool
    whose other workers are all busy elsewhere) -/
inductive SoloStep : SchedState → SchedState → Prop
  | submit (s) (h : s.phase = .spawning) : SoloStep s { s with jobs := s.jobs ++ [.queued] }
  | collect (s) (h : s.phase = .spawning) : SoloStep s { s with phase := .yielding }
  | yieldRun (s) (i : Nat) (h : s.phase = .yielding) (hp : s.inPool = true) (hq : s.jobs[i]? = some .queued) :
      SoloStep s { s with jobs := s.jobs.set i .finished }
  | block (s) (h : s.phase = .yielding) (he : s.executed = s.nth) : SoloStep s { s with phase := .receiving }
  | ret (s) (h : s.phase = .receiving) (hs : s.sendersLeft = 0) : SoloStep s { s with phase := .returned }

inductive SoloReach (s0 : SchedState) : SchedState → Prop
  | refl : SoloReach s0 s0
  | step {s s'} : SoloReach s0 s → SoloStep s s' → SoloReach s0 s'

theorem solo_is_sched {s s' : SchedState} (h : SoloStep s s') : SchedStep s s' := by
  cases h with
  | submit h => exact SchedStep.submit s h
  | collect h => exact SchedStep.collect s h
  | yieldRun i h hp hq => exact SchedStep.yieldRun s i h hp hq
  | block h he => exact SchedStep.block s h he
  | ret h hs => exact SchedStep.ret s h hs

theorem solo_reach_is_reach {s0 s : SchedState} (h : SoloReach s0 s) : SchedReach s0 s := by
  induction h with
  | refl => exact SchedReach.refl
  | step _ hs ih => exact SchedReach.step ih (solo_is_sched hs)

/-- in solo executions every job is queued or finished -/
theorem solo_jobs {s : SchedState} (h : SoloReach (schedInit true) s) :
    s.inPool = true ∧ ∀ j ∈ s.jobs, j = .queued ∨ j = .finished := by
  induction h with
  | refl => simp [schedInit]
  | step _ hs ih =>
    obtain ⟨ip, ij⟩ := ih
    cases hs with
    | submit h =>
      refine ⟨ip, ?_⟩
      intro j hj
      rcases List.mem_append.mp hj with hj | hj
      · exact ij j hj
      · simp at hj; left; exact hj
    | collect h => exact ⟨ip, ij⟩
    | yieldRun i h hp hq =>
      refine ⟨ip, ?_⟩
      intro j hj
      rcases mem_set_cases hj with rfl | hj
      · right; rfl
      · exact ij j hj
    | block h he => exact ⟨ip, ij⟩
    | ret h hs => exact ⟨ip, ij⟩

/-- **A pool of one thread cannot deadlock**: when the caller is itself a worker of the pool, it
    makes progress on its own — the spin loop runs the queued jobs through `yield_local`, and the
    blocking receive is only entered once nothing is left to run. -/
theorem solo_progress (s : SchedState) (hr : SoloReach (schedInit true) s) (hn : s.phase ≠ .returned) :
    ∃ s', SoloStep s s' := by
  have hi := inv_reach true (solo_reach_is_reach hr)
  obtain ⟨hpool, hjobs⟩ := solo_jobs hr
  cases hph : s.phase with
  | spawning => exact ⟨_, SoloStep.collect s hph⟩
  | yielding =>
    by_cases he : s.executed = s.nth
    · exact ⟨_, SoloStep.block s hph he⟩
    · have : ∃ i : Nat, s.jobs[i]? = some JobState.queued :=
        exists_queued s.jobs (by simpa [SchedState.executed, SchedState.nth] using he)
      obtain ⟨i, hq⟩ := this
      exact ⟨_, SoloStep.yieldRun s i hph hpool hq⟩
  | receiving =>
    have hs : s.sendersLeft = 0 := by
      simp only [SchedState.sendersLeft]
      have : s.jobs.filter (· ≠ .finished) = [] := by
        rw [List.filter_eq_nil_iff]
        intro j hj
        rcases hjobs j hj with h | h
        · exact absurd h (hi.recvAllStarted (Or.inl hph) j hj)
        · simp [h]
      rw [this]; rfl
    exact ⟨_, SoloStep.ret s hph hs⟩
  | returned => exact absurd hph hn

/-- The spin loop is what prevents the deadlock: blocking with a job still queued, on a worker of a
    one-thread pool, is a stuck state (this is the state the exit condition `executed == nth` rules out). -/
theorem blocking_early_is_stuck :
    ¬ ∃ s', SoloStep ⟨.receiving, [.queued], true⟩ s' := by
  rintro ⟨s', h⟩
  cases h with
  | submit h => cases h
  | collect h => cases h
  | yieldRun i h hp hq => cases h
  | block h he => cases h
  | ret h hs => simp [SchedState.sendersLeft] at hs

/-- **No candidate is lost and the pool is left clean**: when collection returns, every submitted
    job has run to completion (nothing of this evaluator remains queued or running). -/
theorem collection_complete (inPool : Bool) (s : SchedState) (hr : SchedReach (schedInit inPool) s)
    (h : s.phase = .returned) : ∀ j ∈ s.jobs, j = .finished :=
  (inv_reach inPool hr).retAllDone h

/-- termination measure -/
def measure (s : SchedState) : Nat :=
  2 * (s.jobs.filter (· = .queued)).length + (s.jobs.filter (· = .runningRemote)).length + s.phaseRank

theorem count_set_queued (l : List JobState) (i : Nat) (b : JobState) (h : l[i]? = some .queued) (hb : b ≠ .queued) :
    ((l.set i b).filter (· = .queued)).length + 1 = (l.filter (· = .queued)).length := by
  induction l generalizing i with
  | nil => simp at h
  | cons x xs ih =>
    cases i with
    | zero =>
      simp only [List.getElem?_cons_zero, Option.some.injEq] at h
      subst h
      simp [List.set, List.filter_cons, hb]
    | succ n =>
      simp only [List.getElem?_cons_succ] at h
      have := ih n h
      by_cases hx : x = .queued <;> simp [List.set, List.filter_cons, hx] <;> omega

theorem count_set_other (l : List JobState) (i : Nat) (a b c : JobState) (h : l[i]? = some a)
    (hac : a ≠ c) (hbc : b ≠ c) : ((l.set i b).filter (· = c)).length = (l.filter (· = c)).length := by
  induction l generalizing i with
  | nil => simp at h
  | cons x xs ih =>
    cases i with
    | zero =>
      simp only [List.getElem?_cons_zero, Option.some.injEq] at h
      subst h
      simp [List.set, List.filter_cons, hac, hbc]
    | succ n =>
      simp only [List.getElem?_cons_succ] at h
      have := ih n h
      by_cases hx : x = c <;> simp [List.set, List.filter_cons, hx, this]

theorem count_set_to (l : List JobState) (i : Nat) (a b : JobState) (h : l[i]? = some a) (hab : a ≠ b) :
    ((l.set i b).filter (· = b)).length = (l.filter (· = b)).length + 1 := by
  induction l generalizing i with
  | nil => simp at h
  | cons x xs ih =>
    cases i with
    | zero =>
      simp only [List.getElem?_cons_zero, Option.some.injEq] at h
      subst h
      simp [List.set, List.filter_cons, hab]
    | succ n =>
      simp only [List.getElem?_cons_succ] at h
      have := ih n h
      by_cases hx : x = b <;> simp [List.set, List.filter_cons, hx, this] <;> omega

theorem count_set_from (l : List JobState) (i : Nat) (a b : JobState) (h : l[i]? = some a) (hab : b ≠ a) :
    ((l.set i b).filter (· = a)).length + 1 = (l.filter (· = a)).length := by
  induction l generalizing i with
  | nil => simp at h
  | cons x xs ih =>
    cases i with
    | zero =>
      simp only [List.getElem?_cons_zero, Option.some.injEq] at h
      subst h
      simp [List.set, List.filter_cons, hab]
    | succ n =>
      simp only [List.getElem?_cons_succ] at h
      have := ih n h
      by_cases hx : x = a <;> simp [List.set, List.filter_cons, hx] <;> omega

/-- **Termination**: once collection has begun every step strictly decreases the measure, so an
    evaluator with `n` jobs returns after at most `2n + 2` further steps, whatever the pool shape
    and whatever the interleaving of thieves. -/
theorem step_decreases (s s' : SchedState) (h : SchedStep s s') (hph : s.phase ≠ .spawning) :
    measure s' < measure s := by
  cases h with
  | submit h => exact absurd h hph
  | collect h => exact absurd h hph
  | yieldRun i h hp hq =>
    simp only [measure, SchedState.phaseRank]
    have h1 := count_set_from s.jobs i .queued .finished hq (by decide)
    have h2 := count_set_other s.jobs i .queued .finished .runningRemote hq (by decide) (by decide)
    omega
  | steal i hq =>
    simp only [measure, SchedState.phaseRank]
    have h1 := count_set_from s.jobs i .queued .runningRemote hq (by decide)
    have h2 := count_set_to s.jobs i .queued .runningRemote hq (by decide)
    omega
  | remoteFinish i hq =>
    simp only [measure, SchedState.phaseRank]
    have h1 := count_set_other s.jobs i .runningRemote .finished .queued hq (by decide) (by decide)
    have h2 := count_set_from s.jobs i .runningRemote .finished hq (by decide)
    omega
  | block h he => simp only [measure, SchedState.phaseRank, h]; omega
  | ret h hs => simp only [measure, SchedState.phaseRank, h]; omega

/-- Non-vacuity: a one-thread pool runs two jobs to completion. -/
example : SoloReach (schedInit true) ⟨.returned, [.finished, .finished], true⟩ := by
  have s0 : SoloReach (schedInit true) (schedInit true) := .refl
  have s1 := SoloReach.step s0 (SoloStep.submit _ rfl)
  have s2 := SoloReach.step s1 (SoloStep.submit _ rfl)
  have s3 := SoloReach.step s2 (SoloStep.collect _ rfl)
  have s4 := SoloReach.step s3 (SoloStep.yieldRun _ 0 rfl rfl rfl)
  have s5 := SoloReach.step s4 (SoloStep.yieldRun _ 1 rfl rfl rfl)
  have s6 := SoloReach.step s5 (SoloStep.block _ rfl rfl)
  exact SoloReach.step s6 (SoloStep.ret _ rfl rfl)

/-! ### many evaluators nested on the workers' stacks (image tasks, evaluation jobs, trials)

  The theorems above follow one evaluator. What a pool really runs is a forest: image tasks whose
  collectors wait in `yield_local` (running jobs of their own queue only), evaluation jobs that fork
  one trial per filter and wait in rayon's join (running local jobs or stealing), and pure trials -
  and whatever a waiting job picks up runs *on top of it* on the same stack. `OxiModel/Nested.lean`
  is that system for any forest, any number of workers and any distribution / stealing pattern. -/

/-- **Progress**: some step is always enabled while a job is unfinished. -/
theorem nested_progress (F : Nest.Forest) (workers : Nat) (hw : 0 < workers) (s : Nest.State)
    (hr : Nest.Reach F workers s) (hnf : ¬ Nest.allFinished F s) : ∃ s', Nest.Step F workers s s' :=
  Nest.progress F workers hw s hr hnf

/-- **No stealing is needed - a pool of one thread cannot deadlock**, nested calls included. -/
theorem nested_progress_without_stealing (F : Nest.Forest) (workers : Nat) (hw : 0 < workers) (s : Nest.State)
    (hr : Nest.ReachLocal F workers s) (hnf : ¬ Nest.allFinished F s) : ∃ s', Nest.StepLocal F workers s s' :=
  Nest.progress_without_stealing F workers hw s hr hnf

/-- **Termination**: every step decreases a measure bounded by three times the number of jobs. -/
theorem nested_termination (F : Nest.Forest) (workers : Nat) (s s' : Nest.State) (h : Nest.Step F workers s s') :
    Nest.measure F s' < Nest.measure F s ∧ Nest.measure F s ≤ 3 * F.n :=
  ⟨Nest.step_decreases F workers s s' h, Nest.measure_le F s⟩

/-- Non-vacuity: the four-job forest (collector → evaluation job → two trials) on one worker -/
example : ∃ s', Nest.Step Nest.exampleForest 1 Nest.init s' :=
  Nest.progress Nest.exampleForest 1 (by decide) Nest.init Nest.Reach.refl (by
    intro h
    have := h 0 (by decide)
    simp [Nest.init] at this)

end OxiModel.C16

import OxiModel.EvaluateProofs
import OxiModel.Props.C02
/-
  C17 — the smallest completed trial is the one that is emitted.
-/
namespace OxiModel.C17
open OxiModel OxiModel.C02

/-- The collector's choice is one of the completed trials and no completed trial has a smaller key. -/
theorem selected_is_minimum (published : List Trial) (m : Trial) (h : minByKey published = some m) :
    m ∈ published ∧ ∀ c ∈ published, keyLe m c :=
  ⟨minByKey_mem h, minByKey_le h⟩

/-- It never emits a trial that lost to another completed trial. -/
theorem never_emits_loser (published : List Trial) (m : Trial) (h : minByKey published = some m) :
    ¬ ∃ c ∈ published, keyLt c m := by
  rintro ⟨c, hc, hlt⟩
  have := minByKey_le h c hc
  unfold keyLe keyLt keyEq at *
  omega

/-- Something is selected whenever at least one trial completed. -/
theorem selects_when_nonempty (published : List Trial) (h : published ≠ []) :
    ∃ m, minByKey published = some m := minByKey_isSome h

/-- The fixed tie-break rule: smaller estimated size, then fewer raw bytes, then lower filter
    number, then the later submission. -/
theorem tie_break_rule (a b : Trial) :
    keyLt a b ↔ (a.idat + a.key < b.idat + b.key ∨
      (a.idat + a.key = b.idat + b.key ∧ (a.raw < b.raw ∨
        (a.raw = b.raw ∧ (a.filter < b.filter ∨ (a.filter = b.filter ∧ b.nth < a.nth)))))) := by
  unfold keyLt Trial.est; exact Iff.rfl

/-- The choice is a function of the *set* of completed trials, not of their arrival order. -/
theorem arrival_order_irrelevant (l1 l2 : List Trial) (hd : distinctKeys l1)
    (hsame : ∀ x, x ∈ l1 ↔ x ∈ l2) (m : Trial) (h : minByKey l1 = some m) : minByKey l2 = some m := by
  have hd2 : distinctKeys l2 := fun a ha b hb => hd a ((hsame a).mpr ha) b ((hsame b).mpr hb)
  apply minByKey_eq_of_min hd2 ((hsame m).mp (minByKey_mem h))
  intro c hc
  exact minByKey_le h c ((hsame c).mpr hc)

/-- **Across the two evaluators of the fast path**: what goes to the main compression / acceptance
    test is the result in hand or a completed trial of the second evaluator, and neither the result
    in hand nor any completed trial of the second evaluator has a smaller key. -/
theorem handoff_minimal (prev : Option Trial) (published : List Trial) (r : Trial)
    (h : handoff prev (minByKey published) = some r) :
    (prev = some r ∨ r ∈ published) ∧ (∀ p, prev = some p → ¬ keyLt p r) ∧
    (∀ c ∈ published, ¬ keyLt c r) := by
  cases hm : minByKey published with
  | none =>
    have hp : published = [] := by
      cases published with
      | nil => rfl
      | cons a l => simp [minByKey] at hm
    subst hp
    cases prev with
    | none => simp [handoff, hm] at h
    | some p =>
      simp only [handoff, hm, Option.some.injEq] at h
      subst h
      exact ⟨Or.inl rfl, (fun q hq => by cases hq; exact keyLt_irrefl _), (fun c hc => by cases hc)⟩
  | some m =>
    have hmem := minByKey_mem hm
    have hle := minByKey_le hm
    cases prev with
    | none =>
      simp only [handoff, hm, Option.some.injEq] at h
      subst h
      exact ⟨Or.inr hmem, (fun p hp => by cases hp), (fun c hc => not_keyLt_iff_keyLe.mpr (hle c hc))⟩
    | some p =>
      simp only [handoff, hm] at h
      by_cases hlt : keyLt m p
      · simp only [hlt, if_true, Option.some.injEq] at h
        subst h
        exact ⟨Or.inr hmem, (fun q hq => by cases hq; exact keyLt_asymm hlt),
          (fun c hc => not_keyLt_iff_keyLe.mpr (hle c hc))⟩
      · simp only [hlt, if_false, Option.some.injEq] at h
        subst h
        refine ⟨Or.inl rfl, (fun q hq => by cases hq; exact keyLt_irrefl _), ?_⟩
        intro c hc hcp
        have h1 : keyLe m c := hle c hc
        have h2 : keyLe p m := not_keyLt_iff_keyLe.mp hlt
        have h3 : keyLe p c := keyLe_trans h2 h1
        exact (not_keyLt_iff_keyLe.mpr h3) hcp

/-- the code before the repair took the second evaluator's winner unconditionally: with a result of
    82 bytes in hand, a trial of 94 bytes (IDAT 70 within the limit 82, plus 24 bytes of PLTE) won -/
example : handoff (some ⟨0, 0, 58, 24, 60⟩) (minByKey [⟨0, 4, 70, 24, 60⟩]) = some ⟨0, 0, 58, 24, 60⟩ := by decide

/-- Non-vacuity: every tie-break level decides some pair. -/
example : keyLt ⟨0,0,10,0,5⟩ ⟨1,0,11,0,5⟩ ∧ keyLt ⟨0,0,10,0,4⟩ ⟨1,0,10,0,5⟩ ∧
          keyLt ⟨0,1,10,0,5⟩ ⟨1,2,10,0,5⟩ ∧ keyLt ⟨1,3,10,0,5⟩ ⟨0,3,10,0,5⟩ := by decide

/-! ### what the ranking counts besides IDAT -/

theorem sum_map_three {α} (l : List α) : (l.map fun _ => 3).sum = 3 * l.length := by
  induction l with
  | nil => rfl
  | cons a l ih => simp only [List.map_cons, List.sum_cons, List.length_cons, ih]; omega

/-- **The size the ranking adds for PLTE / tRNS is the size those chunks take in the file**: for every
    colour type, `key_chunks_size` (12 bytes of framing plus the payload of each chunk the header
    implies) equals the number of bytes `output` writes for them - a one-byte tRNS chunk included (the
    seeded change C17m left exactly that one out of the ranking). -/
theorem ranking_size_is_written_size (ct : ColorType)
    (hpal : ∀ p, ct = .indexed p → p.length ≤ 256) :
    keyChunksSize ct = ((keyChunks ct).flatMap writeBlock).length := by
  have hfr : ∀ c ∈ keyChunks ct, Framable c := by
    intro c hc
    constructor
    · rcases keyChunks_names ct c hc with h | h <;> rw [h] <;> rfl
    · cases ct with
      | indexed p =>
        have hp := hpal p rfl
        simp only [keyChunks] at hc
        split at hc
        · simp only [List.mem_cons, List.mem_nil_iff, or_false] at hc
          rcases hc with rfl | rfl
          · simp only [List.length_flatMap, List.length_cons, List.length_nil]
            have := sum_map_three p
            simp at this ⊢
            omega
          · simp only [List.length_map, List.length_take]; omega
        · simp only [List.mem_cons, List.mem_nil_iff, or_false] at hc
          subst hc
          simp only [List.length_flatMap, List.length_cons, List.length_nil]
          have := sum_map_three p
          simp at this ⊢
          omega
      | gray t => cases t <;> simp [keyChunks] at hc; subst hc; simp [be16]
      | rgb t =>
        cases t with
        | none => simp [keyChunks] at hc
        | some k => obtain ⟨r, g, b⟩ := k; simp [keyChunks] at hc; subst hc; simp [be16]
      | grayAlpha => simp [keyChunks] at hc
      | rgba => simp [keyChunks] at hc
  unfold keyChunksSize
  generalize keyChunks ct = cs at hfr
  induction cs with
  | nil => rfl
  | cons c cs ih =>
    simp only [List.map_cons, List.sum_cons, List.flatMap_cons, List.length_append]
    rw [writeBlock_length c (hfr c List.mem_cons_self), ih (fun d hd => hfr d (List.mem_cons_of_mem _ hd))]

end OxiModel.C17

import OxiModel.EvaluateProofs
/-
  C17 — the smallest completed trial is the one that is emitted.
-/
namespace OxiModel.C17
open OxiModel

/-- The collector's choice is one of the completed trials and no completed trial has a smaller key. -/
theorem selected_is_minimum (published : List Trial) (m : Trial) (h : minByKey published = some m) :
    m ∈ published ∧ ∀ c ∈ published, keyLe m c :=
  ⟨minByKey_mem h, minByKey_le h⟩

/-- It never emits a trial that lost to another completed trial. -/
theorem never_emits_loser (published : List Trial) (m : Trial) (h : minByKey published = some m) :
    ¬ ∃ c ∈ published, keyLt c m := by
  rintro ⟨c, hc, hlt⟩
  have := minByKey_le h c hc
  unfold keyLe keyLt keyEq at *
  omega

/-- Something is selected whenever at least one trial completed. -/
theorem selects_when_nonempty (published : List Trial) (h : published ≠ []) :
    ∃ m, minByKey published = some m := minByKey_isSome h

/-- The fixed tie-break rule: smaller estimated size, then fewer raw bytes, then lower filter
    number, then the later submission. -/
theorem tie_break_rule (a b : Trial) :
    keyLt a b ↔ (a.idat + a.key < b.idat + b.key ∨
      (a.idat + a.key = b.idat + b.key ∧ (a.raw < b.raw ∨
        (a.raw = b.raw ∧ (a.filter < b.filter ∨ (a.filter = b.filter ∧ b.nth < a.nth)))))) := by
  unfold keyLt Trial.est; exact Iff.rfl

/-- The choice is a function of the *set* of completed trials, not of their arrival order. -/
theorem arrival_order_irrelevant (l1 l2 : List Trial) (hd : distinctKeys l1)
    (hsame : ∀ x, x ∈ l1 ↔ x ∈ l2) (m : Trial) (h : minByKey l1 = some m) : minByKey l2 = some m := by
  have hd2 : distinctKeys l2 := fun a ha b hb => hd a ((hsame a).mpr ha) b ((hsame b).mpr hb)
  apply minByKey_eq_of_min hd2 ((hsame m).mp (minByKey_mem h))
  intro c hc
  exact minByKey_le h c ((hsame c).mpr hc)

/-- **Across the two evaluators of the fast path**: what goes to the main compression / acceptance
    test is the result in hand or a completed trial of the second evaluator, and neither the result
    in hand nor any completed trial of the second evaluator has a smaller key. -/
theorem handoff_minimal (prev : Option Trial) (published : List Trial) (r : Trial)
    (h : handoff prev (minByKey published) = some r) :
    (prev = some r ∨ r ∈ published) ∧ (∀ p, prev = some p → ¬ keyLt p r) ∧
    (∀ c ∈ published, ¬ keyLt c r) := by
  cases hm : minByKey published with
  | none =>
    have hp : published = [] := by
      cases published with
      | nil => rfl
      | cons a l => simp [minByKey] at hm
    subst hp
    cases prev with
    | none => simp [handoff, hm] at h
    | some p =>
      simp only [handoff, hm, Option.some.injEq] at h
      subst h
      exact ⟨Or.inl rfl, (fun q hq => by cases hq; exact keyLt_irrefl _), (fun c hc => by cases hc)⟩
  | some m =>
    have hmem := minByKey_mem hm
    have hle := minByKey_le hm
    cases prev with
    | none =>
      simp only [handoff, hm, Option.some.injEq] at h
      subst h
      exact ⟨Or.inr hmem, (fun p hp => by cases hp), (fun c hc => not_keyLt_iff_keyLe.mpr (hle c hc))⟩
    | some p =>
      simp only [handoff, hm] at h
      by_cases hlt : keyLt m p
      · simp only [hlt, if_true, Option.some.injEq] at h
        subst h
        exact ⟨Or.inr hmem, (fun q hq => by cases hq; exact keyLt_asymm hlt),
          (fun c hc => not_keyLt_iff_keyLe.mpr (hle c hc))⟩
      · simp only [hlt, if_false, Option.some.injEq] at h
        subst h
        refine ⟨Or.inl rfl, (fun q hq => by cases hq; exact keyLt_irrefl _), ?_⟩
        intro c hc hcp
        have h1 : keyLe m c := hle c hc
        have h2 : keyLe p m := not_keyLt_iff_keyLe.mp hlt
        have h3 : keyLe p c := keyLe_trans h2 h1
        exact (not_keyLt_iff_keyLe.mpr h3) hcp

/-- the code before the repair took the second evaluator's winner unconditionally: with a result of
    82 bytes in hand, a trial of 94 bytes (IDAT 70 within the limit 82, plus 24 bytes of PLTE) won -/
example : handoff (some ⟨0, 0, 58, 24, 60⟩) (minByKey [⟨0, 4, 70, 24, 60⟩]) = some ⟨0, 0, 58, 24, 60⟩ := by decide

/-- Non-vacuity: every tie-break level decides some pair. -/
example : keyLt ⟨0,0,10,0,5⟩ ⟨1,0,11,0,5⟩ ∧ keyLt ⟨0,0,10,0,4⟩ ⟨1,0,10,0,5⟩ ∧
          keyLt ⟨0,1,10,0,5⟩ ⟨1,2,10,0,5⟩ ∧ keyLt ⟨1,3,10,0,5⟩ ⟨0,3,10,0,5⟩ := by decide

end OxiModel.C17

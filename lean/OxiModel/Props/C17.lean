import OxiModel.EvaluateProofs
/-
  C17 — the smallest completed trial is the one that is emitted.
-/
namespace OxiModel.C17
open OxiModel

/-- The collector's choice is one of the completed trials and no completed trial has a smaller key. -/
theorem selected_is_minimum (published : List Trial) (m : Trial) (h : minByKey published = some m) :
    m ∈ published ∧ ∀ c ∈ published, keyLe m c :=
  ⟨minByKey_mem h, minByKey_le h⟩

/-- It never emits a trial that lost to another completed trial. -/
theorem never_emits_loser (published : List Trial) (m : Trial) (h : minByKey published = some m) :
    ¬ ∃ c ∈ published, keyLt c m := by
  rintro ⟨c, hc, hlt⟩
  have := minByKey_le h c hc
  unfold keyLe keyLt keyEq at *
  omega

/-- Something is selected whenever at least one trial completed. -/
theorem selects_when_nonempty (published : List Trial) (h : published ≠ []) :
    ∃ m, minByKey published = some m := minByKey_isSome h

/-- The fixed tie-break rule: smaller estimated size, then fewer raw bytes, then lower filter
    number, then the later submission. -/
theorem tie_break_rule (a b : Trial) :
    keyLt a b ↔ (a.idat + a.key < b.idat + b.key ∨
      (a.idat + a.key = b.idat + b.key ∧ (a.raw < b.raw ∨
        (a.raw = b.raw ∧ (a.filter < b.filter ∨ (a.filter = b.filter ∧ b.nth < a.nth)))))) := by
  unfold keyLt Trial.est; exact Iff.rfl

/-- The choice is a function of the *set* of completed trials, not of their arrival order. -/
theorem arrival_order_irrelevant (l1 l2 : List Trial) (hd : distinctKeys l1)
    (hsame : ∀ x, x ∈ l1 ↔ x ∈ l2) (m : Trial) (h : minByKey l1 = some m) : minByKey l2 = some m := by
  have hd2 : distinctKeys l2 := fun a ha b hb => hd a ((hsame a).mpr ha) b ((hsame b).mpr hb)
  apply minByKey_eq_of_min hd2 ((hsame m).mp (minByKey_mem h))
  intro c hc
  exact minByKey_le h c ((hsame c).mpr hc)

/-- Non-vacuity: every tie-break level decides some pair. -/
example : keyLt ⟨0,0,10,0,5⟩ ⟨1,0,11,0,5⟩ ∧ keyLt ⟨0,0,10,0,4⟩ ⟨1,0,10,0,5⟩ ∧
          keyLt ⟨0,1,10,0,5⟩ ⟨1,2,10,0,5⟩ ∧ keyLt ⟨1,3,10,0,5⟩ ⟨0,3,10,0,5⟩ := by decide

end OxiModel.C17

import OxiModel.FiltersProofs
/-
  C19 — every row-filter strategy round-trips every byte pattern (line level).
  Property theorems only; helper lemmas live in `OxiModel/FiltersProofs.lean`.
-/
namespace OxiModel.C19
open OxiModel

/-- What `filter_line` writes for any of the five filter types reconstructs, under the
    specification's rules, to exactly the bytes that were filtered — for every pixel size `bpp ≥ 1`,
    every current line and every prior line (all neighbour triples at once). -/
theorem line_roundtrip (ft bpp : Nat) (cur prior : Bytes) (hft : ft ≤ 4) (hb : 0 < bpp)
    (hlen : bpp ≤ cur.length) (heq : cur.length = prior.length) :
    ∃ body, filterLineBody ft bpp cur prior = some body ∧
            Spec.recon ft bpp body prior = some cur := by
  refine ⟨Spec.encode (Spec.pred ft) bpp cur prior, filterLineBody_eq_encode ft bpp cur prior hft hb hlen heq, ?_⟩
  simp [Spec.recon, hft, decode_encode _ bpp hb]

/-- oxipng's own reconstruction of foreign rows agrees with the specification wherever it does not
    panic, including the rejection of filter types above 4. -/
theorem unfilter_is_spec (ft bpp : Nat) (data prior : Bytes) (hb : 0 < bpp)
    (hlen : bpp ≤ data.length) (heq : data.length = prior.length) :
    unfilterLine ft bpp data prior = some (Spec.recon ft bpp data prior) :=
  unfilterLine_eq_recon ft bpp data prior hb hlen heq

/-- The Paeth predictor is the specification's on all 2^24 triples. -/
theorem paeth_is_spec (a b c : UInt8) : paeth a b c = Spec.paeth a b c := paeth_eq_spec a b c

/-- Only legal filter-type bytes are written by `filter_line`. -/
theorem filter_byte_legal (ft bpp : Nat) (cur prior out : Bytes)
    (h : filterLine ft bpp cur prior = some out) : ∃ body, out = UInt8.ofNat ft :: body ∧ ft ≤ 4 := by
  unfold filterLine at h
  cases hb : filterLineBody ft bpp cur prior with
  | none => simp [hb] at h
  | some body =>
    simp [hb] at h
    refine ⟨body, h.symm, ?_⟩
    unfold filterLineBody at hb
    split at hb
    · cases hb
    · split at hb <;> first | omega | cases hb

/-- Non-vacuity: the hypotheses are met by a concrete 2-pixel RGB row. -/
example : ∃ body, filterLineBody 4 3 [1,2,3,250,4,9] [9,9,9,1,1,1] = some body ∧
    Spec.recon 4 3 body [9,9,9,1,1,1] = some [1,2,3,250,4,9] :=
  line_roundtrip 4 3 _ _ (by decide) (by decide) (by decide) (by decide)

end OxiModel.C19

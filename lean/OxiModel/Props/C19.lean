import OxiModel.FiltersProofs
import OxiModel.FilterImageProofs
/-
  C19 — every row-filter strategy round-trips every byte pattern (line level).
  Property theorems only; helper lemmas live in `OxiModel/FiltersProofs.lean`.
-/
namespace OxiModel.C19
open OxiModel

/-- What `filter_line` writes for any of the five filter types reconstructs, under the
    specification's rules, to exactly the bytes that were filtered — for every pixel size `bpp ≥ 1`,
    every current line and every prior line (all neighbour triples at once). -/
theorem line_roundtrip (ft bpp : Nat) (cur prior : Bytes) (hft : ft ≤ 4) (hb : 0 < bpp)
    (hlen : bpp ≤ cur.length) (heq : cur.length = prior.length) :
    ∃ body, filterLineBody ft bpp cur prior = some body ∧
            Spec.recon ft bpp body prior = some cur := by
  refine ⟨Spec.encode (Spec.pred ft) bpp cur prior, filterLineBody_eq_encode ft bpp cur prior hft hb hlen heq, ?_⟩
  simp [Spec.recon, hft, decode_encode _ bpp hb]

/-- oxipng's own reconstruction of foreign rows agrees with the specification wherever it does not
    panic, including the rejection of filter types above 4. -/
theorem unfilter_is_spec (ft bpp : Nat) (data prior : Bytes) (hb : 0 < bpp)
    (hlen : bpp ≤ data.length) (heq : data.length = prior.length) :
    unfilterLine ft bpp data prior = some (Spec.recon ft bpp data prior) :=
  unfilterLine_eq_recon ft bpp data prior hb hlen heq

/-- The Paeth predictor is the specification's on all 2^24 triples. -/
theorem paeth_is_spec (a b c : UInt8) : paeth a b c = Spec.paeth a b c := paeth_eq_spec a b c

/-- Only legal filter-type bytes are written by `filter_line`. -/
theorem filter_byte_legal (ft bpp : Nat) (cur prior out : Bytes)
    (h : filterLine ft bpp cur prior = some out) : ∃ body, out = UInt8.ofNat ft :: body ∧ ft ≤ 4 := by
  unfold filterLine at h
  cases hb : filterLineBody ft bpp cur prior with
  | none => simp [hb] at h
  | some body =>
    simp [hb] at h
    refine ⟨body, h.symm, ?_⟩
    unfold filterLineBody at hb
    split at hb
    · cases hb
    · split at hb <;> first | omega | cases hb

/-! ### image level -/

/-- **Every strategy, every per-row choice.** Filtering the rows of an image with ANY list of filter
    types 0..4 — in particular the fixed type of the five delta strategies (with their first-row
    fallback) and whatever a heuristic strategy picks row by row from the set it tries — and
    reconstructing per the specification (prior row = previous reconstructed row of the same pass,
    zeros at the start of a pass) returns exactly the rows that were filtered. -/
theorem image_roundtrip_any_choice (bpp : Nat) (hb : 0 < bpp) (rows : List Row) (fts : List Nat)
    (hfts : ∀ ft ∈ fts, ft ≤ 4) (hwf : RowsWF bpp rows none 0)
    (frows : List (Nat × Bytes × Option Nat)) (h : filterRows bpp rows fts none [] = some frows) :
    reconRows bpp frows none [] = some (rows.map (·.1)) :=
  recon_filter_rows bpp hb rows fts none [] frows hfts hwf h

/-- what a heuristic strategy may pick is always a legal filter type -/
theorem heuristic_choices_legal (first : Bool) : ∀ ft ∈ heuristicChoices first, ft ≤ 4 := by
  cases first <;> decide

/-- The stream `filter_image` writes for a standard strategy is the serialisation (type byte, then
    body, per row) of rows filtered with legal types, and reconstructs to the image data. -/
theorem standard_strategy_roundtrip (strategy bpp : Nat) (hs : strategy ≤ 4) (hb : 0 < bpp)
    (lines : List (UInt8 × Bytes × Option Nat × Nat)) (out : Bytes)
    (hwf : RowsWF bpp (rowsOfLines lines) none 0)
    (h : filterLinesStd strategy bpp lines none [] [] = some out) :
    ∃ frows, out = serialise frows ∧ (∀ fr ∈ frows, fr.1 ≤ 4) ∧
      reconRows bpp frows none [] = some ((rowsOfLines lines).map (·.1)) := by
  rw [filterLinesStd_eq] at h
  simp only [Option.map_eq_some_iff, List.nil_append] at h
  obtain ⟨frows, hf, rfl⟩ := h
  refine ⟨frows, rfl, ?_, ?_⟩
  · -- the types written are the chosen ones
    have : ∀ (rows : List Row) (fts : List Nat) (pp : Option Nat) (pl : Bytes) (fr : List (Nat × Bytes × Option Nat)),
        (∀ ft ∈ fts, ft ≤ 4) → filterRows bpp rows fts pp pl = some fr → ∀ x ∈ fr, x.1 ≤ 4 := by
      intro rows
      induction rows with
      | nil => intro fts pp pl fr _ h x hx; simp [filterRows] at h; subst h; cases hx
      | cons r rest ih =>
        intro fts pp pl fr hfts h x hx
        obtain ⟨d, p⟩ := r
        cases fts with
        | nil => simp [filterRows] at h
        | cons ft fts =>
          simp only [filterRows] at h
          split at h
          · cases h
          · simp only [Option.map_eq_some_iff] at h
            obtain ⟨fr', hfr', rfl⟩ := h
            rcases List.mem_cons.mp hx with rfl | hx
            · exact hfts ft List.mem_cons_self
            · exact ih fts p d fr' (fun f hf => hfts f (List.mem_cons_of_mem _ hf)) hfr' x hx
    exact this _ _ _ _ _ (stdChoices_le strategy hs _ _) hf
  · exact recon_filter_rows bpp hb _ _ none [] frows (stdChoices_le strategy hs _ _) hwf hf

/-- oxipng's own `unfilter_image` is the specification's reconstruction on every well-formed
    filtered image (legal filter bytes, whole pixels, equal row lengths within a pass). -/
theorem unfilter_image_is_spec (bpp : Nat) (hb : 0 < bpp) (frows : List (Nat × Bytes × Option Nat))
    (hwf : FRowsWF bpp frows none 0) :
    unfilterLines bpp (toLines frows) none [] [] =
      (reconRows bpp frows none []).map fun ls => some ls.flatten := by
  have := unfilterLines_eq_reconRows bpp hb frows none [] [] hwf
  simpa using this

/-- Non-vacuity: the hypotheses are met by a concrete 2-pixel RGB row. -/
example : ∃ body, filterLineBody 4 3 [1,2,3,250,4,9] [9,9,9,1,1,1] = some body ∧
    Spec.recon 4 3 body [9,9,9,1,1,1] = some [1,2,3,250,4,9] :=
  line_roundtrip 4 3 _ _ (by decide) (by decide) (by decide) (by decide)

end OxiModel.C19

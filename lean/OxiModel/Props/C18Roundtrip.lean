import OxiModel.Props.C18
import OxiModel.DeinterlaceProofs
/-
  C18, last clause: "doing both conversions returns the original pixels" - `deinterlace_image` applied
  to the result of `interlace_image` is the original image, for every width and height from 1 upward
  (pixels of whole bytes).  The proof runs the de-interlacing state machine (`deStep`, the literal
  model of the loop in `deinterlace_bytes`, with `increment_pass` and the constants table) over the
  lines the scan-line iterator cuts out of the interlaced data, pass by pass and row by row, with the
  invariant "the working lines agree with the original wherever something was written".
-/
namespace OxiModel.C18
open OxiModel OxiModel.DeProofs OxiModel.Spec

/-! ### lattices are arithmetic progressions -/

/-- the seven (start, step) pairs of the Adam7 table (columns and rows use the same seven) -/
def latticePairs : List (Nat × Nat) := [(0, 8), (4, 8), (0, 4), (2, 4), (0, 2), (1, 2), (0, 1)]

theorem lattice_ap (start step : Nat) (hp : (start, step) ∈ latticePairs) (n : Nat) :
    latticeList n start step = List.range' start (Spec.passCount n start step) step := by
  have hcases : (start = 0 ∧ step = 8) ∨ (start = 4 ∧ step = 8) ∨ (start = 0 ∧ step = 4) ∨ (start = 2 ∧ step = 4) ∨
      (start = 0 ∧ step = 2) ∨ (start = 1 ∧ step = 2) ∨ (start = 0 ∧ step = 1) := by
    simp only [latticePairs, List.mem_cons, Prod.mk.injEq, List.mem_nil_iff, or_false] at hp
    exact hp
  induction n with
  | zero =>
    rcases hcases with ⟨rfl, rfl⟩ | ⟨rfl, rfl⟩ | ⟨rfl, rfl⟩ | ⟨rfl, rfl⟩ | ⟨rfl, rfl⟩ | ⟨rfl, rfl⟩ | ⟨rfl, rfl⟩ <;> rfl
  | succ n ih =>
    have hl : latticeList (n + 1) start step =
        latticeList n start step ++ (if start ≤ n ∧ (n - start) % step = 0 then [n] else []) := by
      simp only [latticeList, List.range_succ, List.filter_append, List.filter_cons, List.filter_nil]
      congr 1
      by_cases hc : start ≤ n ∧ (n - start) % step = 0
      · simp [hc]
      · simp [hc]
    rw [hl, ih]
    by_cases hc : start ≤ n ∧ (n - start) % step = 0
    · have hN : Spec.passCount (n + 1) start step = Spec.passCount n start step + 1 ∧
          n = start + step * Spec.passCount n start step := by
        unfold Spec.passCount
        rcases hcases with ⟨rfl, rfl⟩ | ⟨rfl, rfl⟩ | ⟨rfl, rfl⟩ | ⟨rfl, rfl⟩ | ⟨rfl, rfl⟩ | ⟨rfl, rfl⟩ | ⟨rfl, rfl⟩ <;> omega
      rw [if_pos hc, hN.1, List.range'_concat, ← hN.2]
    · have hN : Spec.passCount (n + 1) start step = Spec.passCount n start step := by
        unfold Spec.passCount
        rcases hcases with ⟨rfl, rfl⟩ | ⟨rfl, rfl⟩ | ⟨rfl, rfl⟩ | ⟨rfl, rfl⟩ | ⟨rfl, rfl⟩ | ⟨rfl, rfl⟩ | ⟨rfl, rfl⟩ <;> omega
      rw [if_neg hc, hN, List.append_nil]

/-- members of a pass lattice below `n` -/
theorem lattice_bound (start step : Nat) (hp : (start, step) ∈ latticePairs) (n m : Nat)
    (hm : m < Spec.passCount n start step) : start + step * m < n := by
  have hcases : (start = 0 ∧ step = 8) ∨ (start = 4 ∧ step = 8) ∨ (start = 0 ∧ step = 4) ∨ (start = 2 ∧ step = 4) ∨
      (start = 0 ∧ step = 2) ∨ (start = 1 ∧ step = 2) ∨ (start = 0 ∧ step = 1) := by
    simp only [latticePairs, List.mem_cons, Prod.mk.injEq, List.mem_nil_iff, or_false] at hp
    exact hp
  unfold Spec.passCount at hm
  rcases hcases with ⟨rfl, rfl⟩ | ⟨rfl, rfl⟩ | ⟨rfl, rfl⟩ | ⟨rfl, rfl⟩ | ⟨rfl, rfl⟩ | ⟨rfl, rfl⟩ | ⟨rfl, rfl⟩ <;> omega

/-! ### indexing into a concatenation of equal-length blocks -/

theorem getElem?_flatten_blocks {α} (c : Nat) (hc : 0 < c) :
    ∀ (L : List (List α)), (∀ b ∈ L, b.length = c) → ∀ i : Nat,
      L.flatten[i]? = (L[i / c]?).bind (·[i % c]?) := by
  intro L
  induction L with
  | nil => intro _ i; simp
  | cons b L ih =>
    intro hL i
    have hb : b.length = c := hL b List.mem_cons_self
    rw [List.flatten_cons]
    by_cases hi : i < c
    · rw [List.getElem?_append_left (by omega), Nat.div_eq_of_lt hi, Nat.mod_eq_of_lt hi]
      simp
    · have hge : c ≤ i := Nat.le_of_not_lt hi
      rw [List.getElem?_append_right (by omega), hb, ih (fun q hq => hL q (List.mem_cons_of_mem _ hq))]
      have e1 : i / c = (i - c) / c + 1 := by
        have := Nat.add_div_right (i - c) hc
        rw [Nat.sub_add_cancel hge] at this
        exact this
      have e2 : i % c = (i - c) % c := by
        have := Nat.add_mod_right (i - c) c
        rw [Nat.sub_add_cancel hge] at this
        exact this
      rw [e1, e2, List.getElem?_cons_succ]

theorem length_flatten_blocks {α} (c : Nat) :
    ∀ (L : List (List α)), (∀ b ∈ L, b.length = c) → L.flatten.length = L.length * c := by
  intro L
  induction L with
  | nil => intro _; simp
  | cons b L ih =>
    intro hL
    rw [List.flatten_cons, List.length_append, hL b List.mem_cons_self,
      ih (fun q hq => hL q (List.mem_cons_of_mem _ hq)), List.length_cons, Nat.succ_mul, Nat.add_comm]

/-! ### the lines of a pass -/

/-- geometry of pass `p` (1-based, as `deinterlace_image` counts) -/
def geom (p : Nat) : Spec.PassGeom := Spec.adam7.getD (p - 1) ⟨0, 0, 1, 1⟩

def pcOf (p : Nat) : PassConst := ⟨(geom p).xs, (geom p).ys, (geom p).dx, (geom p).dy⟩

theorem constants_pcOf (p : Nat) (h1 : 1 ≤ p) (h7 : p ≤ 7) : interlacedConstants p = some (pcOf p) := by
  have : p = 1 ∨ p = 2 ∨ p = 3 ∨ p = 4 ∨ p = 5 ∨ p = 6 ∨ p = 7 := by omega
  rcases this with rfl | rfl | rfl | rfl | rfl | rfl | rfl <;> rfl

theorem geom_cols (p : Nat) (h1 : 1 ≤ p) (h7 : p ≤ 7) : ((geom p).xs, (geom p).dx) ∈ latticePairs := by
  have : p = 1 ∨ p = 2 ∨ p = 3 ∨ p = 4 ∨ p = 5 ∨ p = 6 ∨ p = 7 := by omega
  rcases this with rfl | rfl | rfl | rfl | rfl | rfl | rfl <;> decide

theorem geom_rows (p : Nat) (h1 : 1 ≤ p) (h7 : p ≤ 7) : ((geom p).ys, (geom p).dy) ∈ latticePairs := by
  have : p = 1 ∨ p = 2 ∨ p = 3 ∨ p = 4 ∨ p = 5 ∨ p = 6 ∨ p = 7 := by omega
  rcases this with rfl | rfl | rfl | rfl | rfl | rfl | rfl <;> decide

/-- pixel `x` of a row of `c`-unit pixels -/
def pixelAt {α} (c : Nat) (row : List α) (x : Nat) : List α := (chunksExact c row).getD x []

/-- the line of pass `p` cut from one row: the row's pixels at the pass's columns, in order -/
def passRowUnits {α} (c w p : Nat) (row : List α) : List α :=
  ((List.range' (geom p).xs (Spec.passCount w (geom p).xs (geom p).dx) (geom p).dx).map (pixelAt c row)).flatten

/-- rows of the image that carry a line of pass `p` -/
def passRowsOf (p h : Nat) : List Nat :=
  List.range' (geom p).ys (Spec.passCount h (geom p).ys (geom p).dy) (geom p).dy

theorem pixelAt_getElem? {α} (c w : Nat) (hc : 0 < c) (row : List α) (hl : row.length = w * c) (x t : Nat)
    (hx : x < w) (ht : t < c) : (pixelAt c row x)[t]? = row[x * c + t]? ∧ (pixelAt c row x).length = c := by
  obtain ⟨hfl, hpl⟩ := flatten_chunksExact c hc w row hl
  have hlen := chunksExact_length c hc w row hl
  have hget : (chunksExact c row)[x]? = some (pixelAt c row x) := by
    unfold pixelAt
    rw [List.getD_eq_getElem?_getD, List.getElem?_eq_getElem (by omega)]
    rfl
  constructor
  · have := getElem?_flatten_blocks c hc (chunksExact c row) hpl (x * c + t)
    rw [hfl] at this
    rw [this]
    have e1 : (x * c + t) / c = x := by
      rw [Nat.mul_comm, Nat.mul_add_div hc, Nat.div_eq_of_lt ht, Nat.add_zero]
    have e2 : (x * c + t) % c = t := by
      rw [Nat.mul_comm, Nat.mul_add_mod, Nat.mod_eq_of_lt ht]
    rw [e1, e2, hget]
    rfl
  · exact hpl _ (List.mem_of_getElem? hget)

/-- **What a pass line holds**: unit `i` of the line cut from `row` for pass `p` is the row's unit at
    the position `scatterLine` writes unit `i` to - and that position exists. -/
theorem units_spec {α} (c w p : Nat) (hc : 0 < c) (h1 : 1 ≤ p) (h7 : p ≤ 7) (row : List α) (hl : row.length = w * c) :
    (passRowUnits c w p row).length = Spec.passCount w (geom p).xs (geom p).dx * c ∧
    ∀ i, i < Spec.passCount w (geom p).xs (geom p).dx * c →
      idxOf c (geom p).xs (geom p).dx i < w * c ∧
      (passRowUnits c w p row)[i]? = row[idxOf c (geom p).xs (geom p).dx i]? := by
  have hcols := geom_cols p h1 h7
  have hblocks : ∀ b ∈ (List.range' (geom p).xs (Spec.passCount w (geom p).xs (geom p).dx) (geom p).dx).map (pixelAt c row),
      b.length = c := by
    intro b hb
    obtain ⟨x, hx, rfl⟩ := List.mem_map.mp hb
    obtain ⟨m, hm, rfl⟩ := List.mem_range'.mp hx
    exact (pixelAt_getElem? c w hc row hl _ 0 (lattice_bound _ _ hcols w m hm) hc).2
  constructor
  · unfold passRowUnits
    rw [length_flatten_blocks c _ hblocks, List.length_map, List.length_range']
  · intro i hi
    have hm : i / c < Spec.passCount w (geom p).xs (geom p).dx := by
      rw [Nat.div_lt_iff_lt_mul hc]; exact hi
    have ht : i % c < c := Nat.mod_lt _ hc
    have hx := lattice_bound _ _ hcols w (i / c) hm
    have hidx : idxOf c (geom p).xs (geom p).dx i = ((geom p).xs + (geom p).dx * (i / c)) * c + i % c := by
      unfold idxOf
      rw [Nat.mul_comm (i / c) (geom p).dx, Nat.add_comm]
    constructor
    · rw [hidx]
      calc ((geom p).xs + (geom p).dx * (i / c)) * c + i % c
          < ((geom p).xs + (geom p).dx * (i / c)) * c + c := by omega
        _ = ((geom p).xs + (geom p).dx * (i / c) + 1) * c := by rw [Nat.succ_mul]
        _ ≤ w * c := Nat.mul_le_mul_right c hx
    · unfold passRowUnits
      rw [getElem?_flatten_blocks c hc _ hblocks i, List.getElem?_map, List.getElem?_range' hm]
      simp only [Option.map_some, Option.bind_some]
      rw [(pixelAt_getElem? c w hc row hl _ (i % c) hx ht).1, hidx]

theorem lattice_upper (start step : Nat) (hp : (start, step) ∈ latticePairs) (n : Nat) :
    n ≤ start + step * Spec.passCount n start step := by
  have hcases : (start = 0 ∧ step = 8) ∨ (start = 4 ∧ step = 8) ∨ (start = 0 ∧ step = 4) ∨ (start = 2 ∧ step = 4) ∨
      (start = 0 ∧ step = 2) ∨ (start = 1 ∧ step = 2) ∨ (start = 0 ∧ step = 1) := by
    simp only [latticePairs, List.mem_cons, Prod.mk.injEq, List.mem_nil_iff, or_false] at hp
    exact hp
  unfold Spec.passCount
  rcases hcases with ⟨rfl, rfl⟩ | ⟨rfl, rfl⟩ | ⟨rfl, rfl⟩ | ⟨rfl, rfl⟩ | ⟨rfl, rfl⟩ | ⟨rfl, rfl⟩ | ⟨rfl, rfl⟩ <;> omega

theorem not_empty_iff (p w h : Nat) :
    ¬ passEmptyS p w h ↔ Spec.passCount w (geom p).xs (geom p).dx ≠ 0 ∧ Spec.passCount h (geom p).ys (geom p).dy ≠ 0 := by
  simp only [passEmptyS, geom, not_or]

/-- positions of row `y` written while the lines of pass `p` are consumed -/
def Covered {α} (c w h : Nat) (R : List (List α)) (p y j : Nat) : Prop :=
  y ∈ passRowsOf p h ∧ ∃ i, i < (passRowUnits c w p (R.getD y [])).length ∧ j = idxOf c (geom p).xs (geom p).dx i

/-- the lines of pass `p` in the order the interlaced data holds them (none when the pass is empty);
    `enc` packs a line's units into bytes (the identity for byte pixels, bit packing below 8 bits) -/
def passLinesG {α} (enc : List α → Bytes) (c w h p : Nat) (R : List (List α)) : List Bytes :=
  if passEmptyS p w h then [] else (passRowsOf p h).map fun y => enc (passRowUnits c w p (R.getD y []))

/-- byte pixels: the units are the bytes -/
def passLinesOf (c w h p : Nat) (R : List Bytes) : List Bytes :=
  if passEmptyS p w h then [] else (passRowsOf p h).map fun y => passRowUnits c w p (R.getD y [])

/-- the lines of pass `p` given directly (`lineOf p y` = the line of pass `p` cut from row `y`) -/
def passLinesL (lineOf : Nat → Nat → Bytes) (w h p : Nat) : List Bytes :=
  if passEmptyS p w h then [] else (passRowsOf p h).map (lineOf p)

theorem passLinesG_eq_L {α} (enc : List α → Bytes) (c w h p : Nat) (R : List (List α)) :
    passLinesG enc c w h p R = passLinesL (fun p y => enc (passRowUnits c w p (R.getD y []))) w h p := rfl

theorem flatMap_nil_of_forall {α β} (l : List α) (f : α → List β) (hf : ∀ a ∈ l, f a = []) : l.flatMap f = [] := by
  induction l with
  | nil => rfl
  | cons a l ih =>
    rw [List.flatMap_cons, hf a List.mem_cons_self, ih (fun b hb => hf b (List.mem_cons_of_mem _ hb))]
    rfl

/-- **One whole pass** of `deinterlace_bytes`: from the first row of a pass that has lines, consuming
    that pass's lines leaves the machine where `advance` puts it after the pass's last row, with
    agreement grown by the pass's positions. -/
theorem run_one_passL {α} (lineOf : Nat → Nat → Bytes) (unitsOf : PassConst → Bytes → Option (List α))
    (w h c : Nat) (hc : 0 < c) (R : List (List α)) (hR : R.length = h)
    (hrows : ∀ r ∈ R, r.length = w * c) (p : Nat) (h1 : 1 ≤ p) (h7 : p ≤ 7) (hne : ¬ passEmptyS p w h)
    (hunits : ∀ y, y < h → unitsOf (pcOf p) (lineOf p y) = some (passRowUnits c w p (R.getD y [])))
    (A : Array (Array α)) (S : Nat → Nat → Prop) (hinv : Inv R A S) :
    ∃ A', Inv R A' (fun y j => S y j ∨ Covered c w h R p y j) ∧ ∃ ylast, h ≤ ylast + (geom p).dy ∧
      ((passRowsOf p h).map (lineOf p)).foldlM
          (deStep w h c unitsOf) ⟨A, p, (geom p).ys, false⟩ = advance w h p ylast (pcOf p) A' := by
  obtain ⟨hwne, hhne⟩ := (not_empty_iff p w h).mp hne
  have hrowsP := geom_rows p h1 h7
  obtain ⟨n, hn⟩ : ∃ n, Spec.passCount h (geom p).ys (geom p).dy = n + 1 := ⟨_, (Nat.succ_pred_eq_of_ne_zero hhne).symm⟩
  have hlow := lattice_bound _ _ hrowsP h n (by omega)
  have hup := lattice_upper _ _ hrowsP h
  rw [hn, Nat.mul_succ] at hup
  have hU : ∀ y, y < h → ∀ i, i < (passRowUnits c w p (R.getD y [])).length →
      ∃ v, cellL R y (idxOf c (pcOf p).xShift (pcOf p).xStep i) = some v ∧
        (passRowUnits c w p (R.getD y []))[i]? = some v := by
    intro y hy i hi
    have hyR : y < R.length := by omega
    have hget : R.getD y [] = R[y] := by
      rw [List.getD_eq_getElem?_getD, List.getElem?_eq_getElem hyR]; rfl
    have hl : R[y].length = w * c := hrows _ (List.getElem_mem hyR)
    obtain ⟨hlen, hspec⟩ := units_spec c w p hc h1 h7 R[y] hl
    rw [hget] at hi ⊢
    rw [hlen] at hi
    obtain ⟨hb, hv⟩ := hspec i hi
    refine ⟨R[y][idxOf c (geom p).xs (geom p).dx i]'(by omega), ?_, ?_⟩
    · simp only [cellL, pcOf, List.getElem?_eq_getElem hyR, Option.bind_some]
      exact List.getElem?_eq_getElem (by omega)
    · rw [hv]
      exact List.getElem?_eq_getElem (by omega)
  obtain ⟨A', hinv', hrun⟩ := run_pass_rows w h c unitsOf R p (pcOf p)
    (lineOf p) (fun y => passRowUnits c w p (R.getD y [])) hR
    (constants_pcOf p h1 h7) hunits hU n (geom p).ys A S hinv
    (by simp only [pcOf]; rw [Nat.mul_comm]; exact hlow)
    (by simp only [pcOf]; rw [Nat.mul_comm]; omega)
  refine ⟨A', ?_, (geom p).ys + n * (geom p).dy, ?_, ?_⟩
  · refine ⟨hinv'.size, hinv'.rows, ?_⟩
    intro y j hS
    apply hinv'.agree
    rcases hS with hS | ⟨hm, hi⟩
    · exact Or.inl hS
    · right
      simp only [passRowsOf, hn] at hm
      exact ⟨hm, hi⟩
  · rw [Nat.mul_comm]; omega
  · simp only [passRowsOf, hn]
    exact hrun

/-- the same with the lines given as packed units (`enc`) -/
theorem run_one_pass {α} (enc : List α → Bytes) (unitsOf : PassConst → Bytes → Option (List α))
    (w h c : Nat) (hc : 0 < c) (R : List (List α)) (hR : R.length = h)
    (hrows : ∀ r ∈ R, r.length = w * c) (p : Nat) (h1 : 1 ≤ p) (h7 : p ≤ 7) (hne : ¬ passEmptyS p w h)
    (hdec : ∀ row : List α, row.length = w * c →
      unitsOf (pcOf p) (enc (passRowUnits c w p row)) = some (passRowUnits c w p row))
    (A : Array (Array α)) (S : Nat → Nat → Prop) (hinv : Inv R A S) :
    ∃ A', Inv R A' (fun y j => S y j ∨ Covered c w h R p y j) ∧ ∃ ylast, h ≤ ylast + (geom p).dy ∧
      ((passRowsOf p h).map fun y => enc (passRowUnits c w p (R.getD y []))).foldlM
          (deStep w h c unitsOf) ⟨A, p, (geom p).ys, false⟩ = advance w h p ylast (pcOf p) A' := by
  apply run_one_passL (fun p y => enc (passRowUnits c w p (R.getD y []))) unitsOf w h c hc R hR hrows p h1 h7 hne _ A S hinv
  intro y hy
  have hyR : y < R.length := by omega
  apply hdec
  rw [List.getD_eq_getElem?_getD, List.getElem?_eq_getElem hyR]
  exact hrows _ (List.getElem_mem hyR)

/-- **All remaining passes**: started on the first row of a pass that has lines, the machine consumes
    the lines of that pass and of every later one (`increment_pass` skipping exactly the passes
    without lines) and ends with agreement grown by all their positions. -/
theorem run_from_passL {α} (lineOf : Nat → Nat → Bytes) (unitsOf : PassConst → Bytes → Option (List α))
    (w h c : Nat) (hw : 1 ≤ w) (hh : 1 ≤ h) (hc : 0 < c) (R : List (List α)) (hR : R.length = h)
    (hrows : ∀ r ∈ R, r.length = w * c)
    (hdec : ∀ p, 1 ≤ p → p ≤ 7 → ¬ passEmptyS p w h → ∀ y, y < h →
      unitsOf (pcOf p) (lineOf p y) = some (passRowUnits c w p (R.getD y []))) :
    ∀ (d p : Nat), p + d = 7 → 1 ≤ p → ¬ passEmptyS p w h →
      ∀ (A : Array (Array α)) (S : Nat → Nat → Prop), Inv R A S →
      ∃ st', ((List.range' p (d + 1)).flatMap fun q => passLinesL lineOf w h q).foldlM
            (deStep w h c unitsOf) ⟨A, p, (geom p).ys, false⟩ = some st' ∧
        Inv R st'.lines (fun y j => S y j ∨ ∃ q, p ≤ q ∧ q ≤ 7 ∧ Covered c w h R q y j) := by
  intro d
  induction d using Nat.strongRecOn with
  | ind d ih =>
    intro p hpd h1 hne A S hinv
    have h7 : p ≤ 7 := by omega
    obtain ⟨A', hinv', ylast, hlast, hrun⟩ := run_one_passL lineOf unitsOf w h c hc R hR hrows p h1 h7 hne (hdec p h1 h7 hne) A S hinv
    have hsplit : ((List.range' p (d + 1)).flatMap fun q => passLinesL lineOf w h q) =
        ((passRowsOf p h).map (lineOf p)) ++
          ((List.range' (p + 1) d).flatMap fun q => passLinesL lineOf w h q) := by
      rw [List.range'_succ, List.flatMap_cons]
      congr 1
      simp only [passLinesL, hne, if_false]
    rw [hsplit, List.foldlM_append, hrun]
    unfold advance
    simp only [show ylast + (pcOf p).yStep ≥ h from hlast, if_true]
    have hspec := incrementPass_is_spec p w h h1 h7 hw hh
    cases hinc : incrementPass p w h with
    | none =>
      rw [hinc] at hspec
      simp only at hspec
      have hrest : ((List.range' (p + 1) d).flatMap fun q => passLinesL lineOf w h q) = [] := by
        apply flatMap_nil_of_forall
        intro m hm
        obtain ⟨i, hi, rfl⟩ := List.mem_range'.mp hm
        have := hspec (p + 1 + 1 * i) (by omega) (by omega)
        simp only [passLinesL, this, if_true]
      rw [hrest]
      refine ⟨⟨A', p, ylast, true⟩, rfl, ?_⟩
      refine ⟨hinv'.size, hinv'.rows, ?_⟩
      intro y j hS
      apply hinv'.agree
      rcases hS with hS | ⟨q, hq1, hq7, hcov⟩
      · exact Or.inl hS
      · by_cases hqp : q = p
        · subst hqp; exact Or.inr hcov
        · -- a later pass has no rows or no columns: nothing is covered there
          exfalso
          have hem := hspec q (by omega) hq7
          obtain ⟨hy, i, hi, _⟩ := hcov
          have hq1' : 1 ≤ q := by omega
          rcases Classical.em (Spec.passCount w (geom q).xs (geom q).dx = 0) with hw0 | hw0
          · simp only [passRowUnits, hw0, List.range'_zero, List.map_nil, List.flatten_nil, List.length_nil] at hi
            omega
          · rcases Classical.em (Spec.passCount h (geom q).ys (geom q).dy = 0) with hh0 | hh0
            · simp only [passRowsOf, hh0, List.range'_zero, List.not_mem_nil] at hy
            · exact (not_empty_iff q w h).mpr ⟨hw0, hh0⟩ hem
    | some q =>
      rw [hinc] at hspec
      simp only at hspec
      obtain ⟨hpq, hq7, hqne, hbetween⟩ := hspec
      have hq1 : 1 ≤ q := by omega
      simp only [constants_pcOf q hq1 hq7]
      have hrest : ((List.range' (p + 1) d).flatMap fun m => passLinesL lineOf w h m) =
          ((List.range' q (7 - q + 1)).flatMap fun m => passLinesL lineOf w h m) := by
        have e : List.range' (p + 1) d = List.range' (p + 1) (q - p - 1) ++ List.range' (p + 1 + (q - p - 1)) (7 - q + 1) := by
          rw [List.range'_append_1]
          congr 1
          omega
        rw [e, List.flatMap_append]
        have e2 : p + 1 + (q - p - 1) = q := by omega
        rw [e2]
        have hnil : ((List.range' (p + 1) (q - p - 1)).flatMap fun m => passLinesL lineOf w h m) = [] := by
          apply flatMap_nil_of_forall
          intro m hm
          obtain ⟨i, hi, rfl⟩ := List.mem_range'.mp hm
          have := hbetween (p + 1 + 1 * i) (by omega) (by omega)
          simp only [passLinesL, this, if_true]
        rw [hnil, List.nil_append]
      rw [hrest]
      obtain ⟨st', hst, hinvF⟩ := ih (7 - q) (by omega) q (by omega) hq1 hqne A' _ hinv'
      refine ⟨st', ?_, ?_⟩
      · exact hst
      · refine ⟨hinvF.size, hinvF.rows, ?_⟩
        intro y j hS
        apply hinvF.agree
        rcases hS with hS | ⟨m, hm1, hm7, hcov⟩
        · exact Or.inl (Or.inl hS)
        · by_cases hmp : m = p
          · subst hmp; exact Or.inl (Or.inr hcov)
          · by_cases hmq : q ≤ m
            · exact Or.inr ⟨m, hmq, hm7, hcov⟩
            · exfalso
              have hem := hbetween m (by omega) (by omega)
              obtain ⟨hy, i, hi, _⟩ := hcov
              rcases Classical.em (Spec.passCount w (geom m).xs (geom m).dx = 0) with hw0 | hw0
              · simp only [passRowUnits, hw0, List.range'_zero, List.map_nil, List.flatten_nil, List.length_nil] at hi
                omega
              · rcases Classical.em (Spec.passCount h (geom m).ys (geom m).dy = 0) with hh0 | hh0
                · simp only [passRowsOf, hh0, List.range'_zero, List.not_mem_nil] at hy
                · exact (not_empty_iff m w h).mpr ⟨hw0, hh0⟩ hem

/-- the same with the lines given as packed units (`enc`) -/
theorem run_from_pass {α} (enc : List α → Bytes) (unitsOf : PassConst → Bytes → Option (List α))
    (w h c : Nat) (hw : 1 ≤ w) (hh : 1 ≤ h) (hc : 0 < c) (R : List (List α)) (hR : R.length = h)
    (hrows : ∀ r ∈ R, r.length = w * c)
    (hdec : ∀ p, 1 ≤ p → p ≤ 7 → ¬ passEmptyS p w h → ∀ row : List α, row.length = w * c →
      unitsOf (pcOf p) (enc (passRowUnits c w p row)) = some (passRowUnits c w p row)) :
    ∀ (d p : Nat), p + d = 7 → 1 ≤ p → ¬ passEmptyS p w h →
      ∀ (A : Array (Array α)) (S : Nat → Nat → Prop), Inv R A S →
      ∃ st', ((List.range' p (d + 1)).flatMap fun q => passLinesG enc c w h q R).foldlM
            (deStep w h c unitsOf) ⟨A, p, (geom p).ys, false⟩ = some st' ∧
        Inv R st'.lines (fun y j => S y j ∨ ∃ q, p ≤ q ∧ q ≤ 7 ∧ Covered c w h R q y j) := by
  apply run_from_passL (fun p y => enc (passRowUnits c w p (R.getD y []))) unitsOf w h c hw hh hc R hR hrows
  intro p h1 h7 hne y hy
  have hyR : y < R.length := by omega
  apply hdec p h1 h7 hne
  rw [List.getD_eq_getElem?_getD, List.getElem?_eq_getElem hyR]
  exact hrows _ (List.getElem_mem hyR)

/-- **Every position of the image is written by some pass** (the pass of its pixel). -/
theorem all_covered {α} (w h c : Nat) (hc : 0 < c) (R : List (List α)) (hR : R.length = h)
    (hrows : ∀ r ∈ R, r.length = w * c) (y j : Nat) (hy : y < h) (hj : j < w * c) :
    ∃ q, 1 ≤ q ∧ q ≤ 7 ∧ Covered c w h R q y j := by
  have hx : j / c < w := by rw [Nat.div_lt_iff_lt_mul hc]; exact hj
  have ht : j % c < c := Nat.mod_lt _ hc
  have hk := (passOf_is_spec (y % 8) (Nat.mod_lt _ (by decide)) ((j / c) % 8) (Nat.mod_lt _ (by decide))).1
  have hmem := (pixel_in_exactly_its_pass w h (j / c) y _ hx hy hk).mpr rfl
  rw [mem_passCoords] at hmem
  generalize hkk : passOf (y % 8) (j / c % 8) = k at hk hmem
  have hg : Spec.adam7.getD k ⟨0, 0, 1, 1⟩ = geom (k + 1) := by simp [geom]
  simp only [hg] at hmem
  obtain ⟨hcx, hcy⟩ := hmem
  have h1 : 1 ≤ k + 1 := by omega
  have h7 : k + 1 ≤ 7 := by omega
  have hxl : j / c ∈ latticeList w (geom (k + 1)).xs (geom (k + 1)).dx := (mem_latticeList _ _ _ _).mpr hcx
  have hyl : y ∈ latticeList h (geom (k + 1)).ys (geom (k + 1)).dy := (mem_latticeList _ _ _ _).mpr hcy
  rw [lattice_ap _ _ (geom_cols _ h1 h7)] at hxl
  rw [lattice_ap _ _ (geom_rows _ h1 h7)] at hyl
  obtain ⟨m, hm, hxm⟩ := List.mem_range'.mp hxl
  refine ⟨k + 1, h1, h7, hyl, m * c + j % c, ?_, ?_⟩
  · have hyR : y < R.length := by omega
    have hget : R.getD y [] = R[y] := by
      rw [List.getD_eq_getElem?_getD, List.getElem?_eq_getElem hyR]; rfl
    rw [hget, (units_spec c w (k + 1) hc h1 h7 R[y] (hrows _ (List.getElem_mem hyR))).1]
    calc m * c + j % c < m * c + c := by omega
      _ = (m + 1) * c := by rw [Nat.succ_mul]
      _ ≤ _ := Nat.mul_le_mul_right c hm
  · unfold idxOf
    have e1 : (m * c + j % c) / c = m := by
      rw [Nat.mul_comm, Nat.mul_add_div hc, Nat.div_eq_of_lt ht, Nat.add_zero]
    have e2 : (m * c + j % c) % c = j % c := by
      rw [Nat.mul_comm, Nat.mul_add_mod, Nat.mod_eq_of_lt ht]
    rw [e1, e2, Nat.mul_comm m, ← hxm]
    have := Nat.div_add_mod j c
    rw [Nat.mul_comm] at this
    omega

/-- all lines of the interlaced image, in storage order -/
def allLinesG {α} (enc : List α → Bytes) (c w h : Nat) (R : List (List α)) : List Bytes :=
  (List.range' 1 7).flatMap fun q => passLinesG enc c w h q R

def allLines (c w h : Nat) (R : List Bytes) : List Bytes :=
  (List.range' 1 7).flatMap fun q => passLinesOf c w h q R

/-- all lines, given directly -/
def allLinesL (lineOf : Nat → Nat → Bytes) (w h : Nat) : List Bytes :=
  (List.range' 1 7).flatMap fun q => passLinesL lineOf w h q

theorem allLinesG_eq_L {α} (enc : List α → Bytes) (c w h : Nat) (R : List (List α)) :
    allLinesG enc c w h R = allLinesL (fun p y => enc (passRowUnits c w p (R.getD y []))) w h := rfl

/-- **The de-interlacing machine rebuilds the original rows**: run from its initial state over all the
    lines of the interlaced image it ends (never panicking) with working lines equal to the rows the
    lines were cut from - for every width, height ≥ 1 and pixel size of `c ≥ 1` units (bytes, or bits
    below 8 bits per pixel), given that `unitsOf` recovers a line's units from its bytes. -/
theorem machine_rebuilds_rowsL {α} (lineOf : Nat → Nat → Bytes) (unitsOf : PassConst → Bytes → Option (List α)) (zero : α)
    (w h c : Nat) (hw : 1 ≤ w) (hh : 1 ≤ h) (hc : 0 < c) (R : List (List α))
    (hR : R.length = h) (hrows : ∀ r ∈ R, r.length = w * c)
    (hdec : ∀ p, 1 ≤ p → p ≤ 7 → ¬ passEmptyS p w h → ∀ y, y < h →
      unitsOf (pcOf p) (lineOf p y) = some (passRowUnits c w p (R.getD y []))) :
    ∃ st', (allLinesL lineOf w h).foldlM (deStep w h c unitsOf)
        ⟨Array.replicate h (Array.replicate (c * w) zero), 1, 0, false⟩ = some st' ∧
      st'.lines.toList.map Array.toList = R := by
  have hinv0 : Inv R (Array.replicate h (Array.replicate (c * w) zero)) (fun _ _ => False) := by
    refine ⟨by simp [hR], ?_, fun _ _ hf => absurd hf id⟩
    intro y
    by_cases hy : y < h
    · have hyR : y < R.length := by omega
      rw [Array.getElem?_eq_getElem (by simpa using hy), List.getElem?_eq_getElem hyR]
      simp [hrows _ (List.getElem_mem hyR), Nat.mul_comm]
    · rw [Array.getElem?_eq_none (by simpa using Nat.le_of_not_lt hy), List.getElem?_eq_none (by omega)]
      rfl
  have hne1 : ¬ passEmptyS 1 w h := by rw [pe1]; omega
  obtain ⟨st', hrun, hinv⟩ := run_from_passL lineOf unitsOf w h c hw hh hc R hR hrows hdec 6 1 rfl (Nat.le_refl _) hne1 _ _ hinv0
  refine ⟨st', hrun, ?_⟩
  apply List.ext_getElem?
  intro y
  rw [List.getElem?_map, Array.getElem?_toList]
  by_cases hy : y < h
  · have hyR : y < R.length := by omega
    have hyA : y < st'.lines.size := by rw [hinv.size]; exact hyR
    rw [Array.getElem?_eq_getElem hyA, List.getElem?_eq_getElem hyR]
    simp only [Option.map_some, Option.some.injEq]
    have hsz : st'.lines[y].size = R[y].length := by
      have := hinv.rows y
      rw [Array.getElem?_eq_getElem hyA, List.getElem?_eq_getElem hyR] at this
      simpa using this
    apply List.ext_getElem?
    intro j
    rw [Array.getElem?_toList]
    by_cases hj : j < w * c
    · obtain ⟨q, hq1, hq7, hcov⟩ := all_covered w h c hc R hR hrows y j hy hj
      have := hinv.agree y j (Or.inr ⟨q, hq1, hq7, hcov⟩)
      simpa [cellA, cellL, Array.getElem?_eq_getElem hyA, List.getElem?_eq_getElem hyR] using this
    · have hl : R[y].length = w * c := hrows _ (List.getElem_mem hyR)
      rw [Array.getElem?_eq_none (by omega), List.getElem?_eq_none (by omega)]
  · have hyA : st'.lines.size ≤ y := by rw [hinv.size]; omega
    rw [Array.getElem?_eq_none hyA, List.getElem?_eq_none (by omega)]
    rfl

/-- the same with the lines given as packed units (`enc`) -/
theorem machine_rebuilds_rowsG {α} (enc : List α → Bytes) (unitsOf : PassConst → Bytes → Option (List α)) (zero : α)
    (w h c : Nat) (hw : 1 ≤ w) (hh : 1 ≤ h) (hc : 0 < c) (R : List (List α))
    (hR : R.length = h) (hrows : ∀ r ∈ R, r.length = w * c)
    (hdec : ∀ p, 1 ≤ p → p ≤ 7 → ¬ passEmptyS p w h → ∀ row : List α, row.length = w * c →
      unitsOf (pcOf p) (enc (passRowUnits c w p row)) = some (passRowUnits c w p row)) :
    ∃ st', (allLinesG enc c w h R).foldlM (deStep w h c unitsOf)
        ⟨Array.replicate h (Array.replicate (c * w) zero), 1, 0, false⟩ = some st' ∧
      st'.lines.toList.map Array.toList = R := by
  apply machine_rebuilds_rowsL (fun p y => enc (passRowUnits c w p (R.getD y []))) unitsOf zero w h c hw hh hc R hR hrows
  intro p h1 h7 hne y hy
  have hyR : y < R.length := by omega
  apply hdec p h1 h7 hne
  rw [List.getD_eq_getElem?_getD, List.getElem?_eq_getElem hyR]
  exact hrows _ (List.getElem_mem hyR)

/-- byte pixels -/
theorem machine_rebuilds_rows (w h c : Nat) (hw : 1 ≤ w) (hh : 1 ≤ h) (hc : 0 < c) (R : List Bytes)
    (hR : R.length = h) (hrows : ∀ r ∈ R, r.length = w * c) :
    ∃ st', (allLines c w h R).foldlM (deStep w h c (fun _ l => some l))
        ⟨Array.replicate h (Array.replicate (c * w) 0), 1, 0, false⟩ = some st' ∧
      st'.lines.toList.map Array.toList = R :=
  machine_rebuilds_rowsG (fun l => l) (fun _ l => some l) 0 w h c hw hh hc R hR hrows (fun _ _ _ _ _ _ => rfl)

/-! ### from the machine to the image functions -/

/-- cutting a concatenation at the pieces' lengths gives the pieces back -/
theorem splitLines_flatten : ∀ (specs : List (Nat × Option Nat × Nat)) (pieces : List Bytes),
    specs.map (·.1) = pieces.map List.length →
    (splitLines false specs pieces.flatten).map (·.2.1) = pieces := by
  intro specs
  induction specs with
  | nil =>
    intro pieces h
    cases pieces with
    | nil => rfl
    | cons a l => simp at h
  | cons sp rest ih =>
    intro pieces h
    obtain ⟨len, pass, px⟩ := sp
    cases pieces with
    | nil => simp at h
    | cons pc ps =>
      simp only [List.map_cons, List.cons.injEq] at h
      obtain ⟨hlen, hrest⟩ := h
      simp only [splitLines, Bool.false_eq_true, if_false, List.flatten_cons, List.map_cons]
      rw [List.take_left' hlen.symm, List.drop_left' hlen.symm, ih ps hrest]

theorem flatMap_filter_if {α β} (l : List α) (P : α → Bool) (f : α → List β) :
    (l.filter P).flatMap f = l.flatMap fun a => if P a then f a else [] := by
  induction l with
  | nil => rfl
  | cons a l ih =>
    rw [List.filter_cons, List.flatMap_cons]
    by_cases h : P a = true
    · rw [if_pos h, if_pos h, List.flatMap_cons, ih]
    · rw [if_neg h, if_neg h, ih, List.nil_append]

/-- a `flatMap` over indexed elements that only looks at positions with `P` is a `flatMap` over those
    positions -/
theorem zipIdx_flatMap_filter {β γ} (P : Nat → Bool) (f : β → Nat → List γ) (d : β) :
    ∀ (l : List β) (s : Nat),
      (l.zipIdx s).flatMap (fun p => if P p.2 then f p.1 p.2 else []) =
        ((List.range' s l.length).filter P).flatMap (fun i => f (l.getD (i - s) d) i) := by
  intro l
  induction l with
  | nil => intro s; rfl
  | cons a l ih =>
    intro s
    rw [List.zipIdx_cons, List.flatMap_cons, List.length_cons, List.range'_succ, List.filter_cons, ih (s + 1)]
    have htail : ((List.range' (s + 1) l.length).filter P).flatMap (fun i => f (l.getD (i - (s + 1)) d) i) =
        ((List.range' (s + 1) l.length).filter P).flatMap (fun i => f ((a :: l).getD (i - s) d) i) := by
      apply flatMap_congr_of_mem
      intro i hi
      have hi' := (List.mem_filter.mp hi).1
      rw [List.mem_range'_1] at hi'
      have e : i - s = (i - (s + 1)) + 1 := by omega
      rw [e, List.getD_cons_succ]
    rw [htail]
    by_cases h : P s = true
    · simp only [h, if_true, List.flatMap_cons, Nat.sub_self, List.getD_cons_zero]
    · simp [h]

/-- rows of a pass lie inside the image -/
theorem passRows_lt (p h y : Nat) (h1 : 1 ≤ p) (h7 : p ≤ 7) (hy : y ∈ passRowsOf p h) : y < h := by
  obtain ⟨m, hm, rfl⟩ := List.mem_range'.mp hy
  exact lattice_bound _ _ (geom_rows p h1 h7) h m hm

theorem getD_rows {α} (R : List (List α)) (y : Nat) (hy : y < R.length) : R.getD y [] = R[y] := by
  rw [List.getD_eq_getElem?_getD, List.getElem?_eq_getElem hy]; rfl

theorem empty_of_count_zero (p w h : Nat)
    (h0 : Spec.passCount w (geom p).xs (geom p).dx = 0 ∨ Spec.passCount h (geom p).ys (geom p).dy = 0) :
    passEmptyS p w h := by
  rcases Classical.em (passEmptyS p w h) with he | he
  · exact he
  · rcases h0 with h0 | h0
    · exact absurd h0 ((not_empty_iff p w h).mp he).1
    · exact absurd h0 ((not_empty_iff p w h).mp he).2

/-- lengths of a pass's lines: as many as the pass has rows, each the packed size of the pass's width -/
theorem passLines_lengths {α} (enc : List α → Bytes) (encLen : Nat → Nat) (henc : ∀ U, (enc U).length = encLen U.length)
    (w h c : Nat) (hc : 0 < c) (R : List (List α)) (hR : R.length = h)
    (hrows : ∀ r ∈ R, r.length = w * c) (p : Nat) (h1 : 1 ≤ p) (h7 : p ≤ 7) :
    (passLinesG enc c w h p R).map List.length =
      if Spec.passCount w (geom p).xs (geom p).dx = 0 then []
      else List.replicate (Spec.passCount h (geom p).ys (geom p).dy) (encLen (Spec.passCount w (geom p).xs (geom p).dx * c)) := by
  unfold passLinesG
  by_cases hw0 : Spec.passCount w (geom p).xs (geom p).dx = 0
  · simp only [empty_of_count_zero p w h (Or.inl hw0), if_true, hw0, List.map_nil]
  · by_cases hh0 : Spec.passCount h (geom p).ys (geom p).dy = 0
    · simp only [empty_of_count_zero p w h (Or.inr hh0), if_true, hw0, if_false, hh0, List.replicate_zero, List.map_nil]
    · have hne : ¬ passEmptyS p w h := (not_empty_iff p w h).mpr ⟨hw0, hh0⟩
      simp only [hne, if_false, hw0, List.map_map]
      have : ∀ y ∈ passRowsOf p h, (List.length ∘ fun y => enc (passRowUnits c w p (R.getD y []))) y =
          (fun _ => encLen (Spec.passCount w (geom p).xs (geom p).dx * c)) y := by
        intro y hy
        have hyh := passRows_lt p h y h1 h7 hy
        have hyR : y < R.length := by omega
        simp only [Function.comp]
        rw [henc, getD_rows R y hyR, (units_spec c w p hc h1 h7 R[y] (hrows _ (List.getElem_mem hyR))).1]
      rw [List.map_congr_left this, List.map_const']
      simp [passRowsOf]

theorem rowBytes_bytes (pw c : Nat) : Spec.rowBytes pw (8 * c) = pw * c := by
  unfold Spec.rowBytes
  rw [Nat.mul_left_comm]
  omega

/-- the specification's line lengths for the interlaced layout are the lengths of the lines cut from
    the rows -/
theorem lens_eq {α} (enc : List α → Bytes) (encLen : Nat → Nat) (henc : ∀ U, (enc U).length = encLen U.length)
    (w h c bpp : Nat) (hc : 0 < c) (hlen : ∀ pw, Spec.rowBytes pw bpp = encLen (pw * c))
    (R : List (List α)) (hR : R.length = h) (hrows : ∀ r ∈ R, r.length = w * c) :
    (Spec.lineLens w h bpp true false).map (·.1) = (allLinesG enc c w h R).map List.length := by
  unfold allLinesG Spec.lineLens
  simp only [Bool.not_true, Bool.false_eq_true, if_false]
  rw [List.map_flatMap, List.map_flatMap]
  have hr : List.range' 1 7 = (List.range 7).map (· + 1) := by decide
  rw [hr, List.flatMap_map]
  apply flatMap_congr_of_mem
  intro k hk
  have hk7 : k < 7 := List.mem_range.mp hk
  have hg : Spec.adam7.getD k ⟨0, 0, 1, 1⟩ = geom (k + 1) := by simp [geom]
  simp only [passLines_lengths enc encLen henc w h c hc R hR hrows (k + 1) (by omega) (by omega), hg, Spec.passDims]
  split
  · rfl
  · rw [List.map_replicate, hlen]
    rfl

/-! ### the interlaced data is the concatenation of those lines -/

/-- the code's pass selection, as the two lattice conditions -/
theorem passOf_eq_iff (k : Nat) (hk : k < 7) (x y : Nat) :
    passOf (y % 8) (x % 8) = k ↔
      (((geom (k + 1)).ys ≤ y ∧ (y - (geom (k + 1)).ys) % (geom (k + 1)).dy = 0) ∧
        ((geom (k + 1)).xs ≤ x ∧ (x - (geom (k + 1)).xs) % (geom (k + 1)).dx = 0)) := by
  have hg : Spec.adam7.getD k ⟨0, 0, 1, 1⟩ = geom (k + 1) := by simp [geom]
  have h1 := onPass_unique (y % 8) (Nat.mod_lt _ (by decide)) (x % 8) (Nat.mod_lt _ (by decide)) k hk
  have h2 := lattice_mod8 k hk x y
  simp only [hg] at h2
  rw [eq_comm, ← h1, ← h2]
  constructor
  · rintro ⟨a, b, c, d⟩; exact ⟨⟨a, b⟩, c, d⟩
  · rintro ⟨⟨a, b⟩, c, d⟩; exact ⟨a, b, c, d⟩

/-- the pixels (groups of `c` units) of one row that `interlace_image` sends to pass `k`, in order -/
def rowPassG {α} (c k rowIdx : Nat) (row : List α) : List α :=
  ((chunksExact c row).zipIdx.filter fun p => decide (passOf (rowIdx % 8) (p.2 % 8) = k)).flatMap (·.1)

/-- **One row of `interlace_image`**: what it contributes to pass `k` is the line `deinterlace_image`
    will find there - the row's pixels at the pass's columns - when the row is one of the pass's rows,
    and nothing otherwise. -/
theorem rowPassG_eq {α} (c w k y : Nat) (hc : 0 < c) (hk : k < 7) (row : List α) (hl : row.length = w * c) :
    rowPassG c k y row =
      if (geom (k + 1)).ys ≤ y ∧ (y - (geom (k + 1)).ys) % (geom (k + 1)).dy = 0
      then passRowUnits c w (k + 1) row else [] := by
  unfold rowPassG
  by_cases hrow : (geom (k + 1)).ys ≤ y ∧ (y - (geom (k + 1)).ys) % (geom (k + 1)).dy = 0
  · rw [if_pos hrow]
    have hQ : ∀ p ∈ (chunksExact c row).zipIdx,
        (fun p : List α × Nat => decide (passOf (y % 8) (p.2 % 8) = k)) p =
        (fun p : List α × Nat => (fun x => decide ((geom (k + 1)).xs ≤ x ∧ (x - (geom (k + 1)).xs) % (geom (k + 1)).dx = 0)) p.2) p := by
      intro p _
      simp only [decide_eq_decide]
      rw [passOf_eq_iff k hk p.2 y]
      exact ⟨fun h => h.2, fun h => ⟨hrow, h⟩⟩
    rw [List.filter_congr hQ, flatMap_filter_if]
    have := zipIdx_flatMap_filter
      (fun x => decide ((geom (k + 1)).xs ≤ x ∧ (x - (geom (k + 1)).xs) % (geom (k + 1)).dx = 0))
      (fun (a : List α) (_ : Nat) => a) [] (chunksExact c row) 0
    rw [this, chunksExact_length c hc w row hl]
    have hlat : (List.range' 0 w).filter (fun x => decide ((geom (k + 1)).xs ≤ x ∧ (x - (geom (k + 1)).xs) % (geom (k + 1)).dx = 0)) =
        latticeList w (geom (k + 1)).xs (geom (k + 1)).dx := by
      rw [latticeList, List.range_eq_range']
    rw [hlat, lattice_ap _ _ (geom_cols (k + 1) (by omega) (by omega))]
    unfold passRowUnits
    rw [List.flatMap_def]
    rfl
  · rw [if_neg hrow]
    have hQ : ∀ p ∈ (chunksExact c row).zipIdx,
        (fun p : List α × Nat => decide (passOf (y % 8) (p.2 % 8) = k)) p = (fun _ => false) p := by
      intro p _
      simp only [decide_eq_false_iff_not]
      rw [passOf_eq_iff k hk p.2 y]
      exact fun h => hrow h.1
    rw [List.filter_congr hQ, List.filter_eq_nil_iff.mpr (fun _ _ h => by cases h)]
    rfl

theorem getD_map_line {α} (dec : Bytes → List α) (lines : List (UInt8 × Bytes × Option Nat × Nat)) (y : Nat)
    (hy : y < lines.length) :
    (lines.map fun l => dec l.2.1).getD y [] = dec (lines.getD y (0, [], none, 0)).2.1 := by
  rw [List.getD_eq_getElem?_getD, List.getD_eq_getElem?_getD, List.getElem?_map, List.getElem?_eq_getElem hy]
  rfl

/-- **One pass of `interlace_image`**: the bytes it writes for pass `k + 1` are that pass's lines, row
    after row (`dec` reads a stored row as units, `enc` packs a line's units). -/
theorem pass_data_eq {α} (enc : List α → Bytes) (dec : Bytes → List α) (henc_nil : enc [] = [])
    (w h c k : Nat) (hc : 0 < c) (hk : k < 7) (lines : List (UInt8 × Bytes × Option Nat × Nat))
    (hlen : lines.length = h) (hrows : ∀ l ∈ lines, (dec l.2.1).length = w * c) :
    (lines.zipIdx.flatMap fun p => enc (rowPassG c k p.2 (dec p.1.2.1))) =
      (passLinesG enc c w h (k + 1) (lines.map fun l => dec l.2.1)).flatten := by
  have hstep : (lines.zipIdx.flatMap fun p => enc (rowPassG c k p.2 (dec p.1.2.1))) =
      lines.zipIdx.flatMap fun p =>
        if (fun y => decide ((geom (k + 1)).ys ≤ y ∧ (y - (geom (k + 1)).ys) % (geom (k + 1)).dy = 0)) p.2
        then (fun (a : UInt8 × Bytes × Option Nat × Nat) (_ : Nat) => enc (passRowUnits c w (k + 1) (dec a.2.1))) p.1 p.2 else [] := by
    apply flatMap_congr_of_mem
    intro p hp
    have hmem : p.1 ∈ lines := by
      obtain ⟨_, h2, h3⟩ := List.mem_zipIdx hp
      simp only [Nat.zero_add] at h2 h3
      rw [h3]; exact List.getElem_mem _
    rw [rowPassG_eq c w k p.2 hc hk (dec p.1.2.1) (hrows _ hmem)]
    simp only [decide_eq_true_eq]
    split
    · rfl
    · exact henc_nil
  rw [hstep, zipIdx_flatMap_filter
    (fun y => decide ((geom (k + 1)).ys ≤ y ∧ (y - (geom (k + 1)).ys) % (geom (k + 1)).dy = 0))
    (fun (a : UInt8 × Bytes × Option Nat × Nat) (_ : Nat) => enc (passRowUnits c w (k + 1) (dec a.2.1)))
    (0, [], none, 0) lines 0, hlen]
  have hlat : (List.range' 0 h).filter (fun y => decide ((geom (k + 1)).ys ≤ y ∧ (y - (geom (k + 1)).ys) % (geom (k + 1)).dy = 0)) =
      passRowsOf (k + 1) h := by
    rw [passRowsOf, ← lattice_ap _ _ (geom_rows (k + 1) (by omega) (by omega)), latticeList, List.range_eq_range']
  rw [hlat]
  have hbody : (passRowsOf (k + 1) h).flatMap (fun i => enc (passRowUnits c w (k + 1) (dec (lines.getD (i - 0) (0, [], none, 0)).2.1))) =
      ((passRowsOf (k + 1) h).map fun y => enc (passRowUnits c w (k + 1) ((lines.map fun l => dec l.2.1).getD y []))).flatten := by
    rw [List.flatMap_def]
    congr 1
    apply List.map_congr_left
    intro y hy
    have hyh := passRows_lt (k + 1) h y (by omega) (by omega) hy
    rw [getD_map_line dec lines y (by omega), Nat.sub_zero]
  rw [hbody]
  unfold passLinesG
  by_cases hne : passEmptyS (k + 1) w h
  · rw [if_pos hne]
    -- an empty pass: no rows, or lines without pixels
    rcases Classical.em (Spec.passCount h (geom (k + 1)).ys (geom (k + 1)).dy = 0) with hh0 | hh0
    · simp only [passRowsOf, hh0, List.range'_zero, List.map_nil, List.flatten_nil]
    · have hw0 : Spec.passCount w (geom (k + 1)).xs (geom (k + 1)).dx = 0 := by
        rcases Classical.em (Spec.passCount w (geom (k + 1)).xs (geom (k + 1)).dx = 0) with h0 | h0
        · exact h0
        · exact absurd hne ((not_empty_iff (k + 1) w h).mpr ⟨h0, hh0⟩)
      have : ∀ y ∈ passRowsOf (k + 1) h,
          (fun y => enc (passRowUnits c w (k + 1) ((lines.map fun l => dec l.2.1).getD y []))) y = [] := by
        intro y _
        simp only [passRowUnits, hw0, List.range'_zero, List.map_nil, List.flatten_nil, henc_nil]
      rw [← List.flatMap_def, flatMap_nil_of_forall _ _ this]
      rfl
  · rw [if_neg hne]

theorem flatten_flatMap {α β} (l : List α) (f : α → List (List β)) :
    (l.flatMap f).flatten = l.flatMap fun a => (f a).flatten := by
  induction l with
  | nil => rfl
  | cons a l ih => rw [List.flatMap_cons, List.flatten_append, ih, List.flatMap_cons]

/-- the scan lines of a non-interlaced image are its rows (`rowBytes width bpp` bytes each) -/
theorem progressive_lines (i : Img) (hb : 1 ≤ i.ihdr.bpp)
    (hw : 1 ≤ i.ihdr.width) (hil : i.ihdr.interlaced = false)
    (hlen : i.data.length = i.ihdr.height * Spec.rowBytes i.ihdr.width i.ihdr.bpp) :
    ∃ lines, i.scanLines false = some lines ∧
      lines.map (·.2.1) = chunksExact (Spec.rowBytes i.ihdr.width i.ihdr.bpp) i.data ∧ lines.length = i.ihdr.height := by
  have hwc : 0 < Spec.rowBytes i.ihdr.width i.ihdr.bpp := by
    unfold Spec.rowBytes
    have : 1 ≤ i.ihdr.width * i.ihdr.bpp := Nat.mul_pos hw hb
    omega
  obtain ⟨hfl, hpl⟩ := flatten_chunksExact _ hwc i.ihdr.height i.data hlen
  have hRlen := chunksExact_length _ hwc i.ihdr.height i.data hlen
  have hds : i.data.length = Spec.dataSize i.ihdr.width i.ihdr.height i.ihdr.bpp false false := by
    rw [dataSize_progressive, hlen]
    simp [Spec.rowBytes, rowBytes]
  have hsplit : (splitLines false (Spec.lineLens i.ihdr.width i.ihdr.height i.ihdr.bpp false false) i.data).map (·.2.1) =
      chunksExact (Spec.rowBytes i.ihdr.width i.ihdr.bpp) i.data := by
    conv => lhs; rw [← hfl]
    apply splitLines_flatten
    have hl : (chunksExact (Spec.rowBytes i.ihdr.width i.ihdr.bpp) i.data).map List.length =
        List.replicate i.ihdr.height (Spec.rowBytes i.ihdr.width i.ihdr.bpp) := by
      rw [List.eq_replicate_iff]
      refine ⟨by rw [List.length_map, hRlen], ?_⟩
      intro b hb
      obtain ⟨px, hpx, rfl⟩ := List.mem_map.mp hb
      exact hpl px hpx
    rw [hl]
    simp only [Spec.lineLens, Bool.not_false, if_true, Bool.false_eq_true, if_false, List.map_replicate]
    rfl
  refine ⟨splitLines false (Spec.lineLens i.ihdr.width i.ihdr.height i.ihdr.bpp false false) i.data, ?_, hsplit, ?_⟩
  · unfold Img.scanLines
    rw [hil, hds, scanLines_progressive_is_spec _ _ _ _ hw hb]
    rfl
  · have := congrArg List.length hsplit
    rw [List.length_map, hRlen] at this
    exact this

/-- **`interlace_image` writes the lines `deinterlace_image` expects**: the interlaced data of a
    non-interlaced image is the concatenation, pass by pass and row by row, of the lines cut from its
    rows - given, per row, that the bits selected for a pass pack to the encoded pixels of that pass
    (`interlace_row_bytes` for byte pixels, `interlace_row_pixels` below 8 bits). -/
theorem interlaceData_eq {α} (enc : List α → Bytes) (dec : Bytes → List α) (henc_nil : enc [] = [])
    (i : Img) (c : Nat) (hc : 0 < c) (lines : List (UInt8 × Bytes × Option Nat × Nat))
    (hl : i.scanLines false = some lines) (hn : lines.length = i.ihdr.height)
    (hrows : ∀ l ∈ lines, (dec l.2.1).length = i.ihdr.width * c)
    (hrowI : ∀ k y, ∀ l ∈ lines, bytesOfBits (lineBitsForPass i.ihdr.width i.ihdr.bpp y k l.2.1) =
      enc (rowPassG c k y (dec l.2.1))) :
    interlaceData i = some (allLinesG enc c i.ihdr.width i.ihdr.height (lines.map fun l => dec l.2.1)).flatten := by
  unfold interlaceData
  rw [hl]
  simp only [Option.some.injEq]
  unfold allLinesG
  rw [flatten_flatMap]
  have hr : List.range' 1 7 = (List.range 7).map (· + 1) := by decide
  rw [hr, List.flatMap_map]
  apply flatMap_congr_of_mem
  intro k hk
  have hk7 : k < 7 := List.mem_range.mp hk
  rw [← pass_data_eq enc dec henc_nil i.ihdr.width i.ihdr.height c k hc hk7 lines hn hrows]
  apply flatMap_congr_of_mem
  intro p hp
  obtain ⟨⟨f, line, pass, px⟩, y⟩ := p
  have hmem : (f, line, pass, px) ∈ lines := by
    obtain ⟨_, h2, h3⟩ := List.mem_zipIdx hp
    simp only [Nat.zero_add] at h2 h3
    rw [h3]; exact List.getElem_mem _
  exact hrowI k y _ hmem

/-- the scan-line iterator cuts the interlaced data back into the lines it was made of -/
theorem interlaced_lines {α} (enc : List α → Bytes) (encLen : Nat → Nat) (henc : ∀ U, (enc U).length = encLen U.length)
    (hdr : Ihdr) (c : Nat) (hc : 0 < c) (hb : 1 ≤ hdr.bpp) (hlen : ∀ pw, Spec.rowBytes pw hdr.bpp = encLen (pw * c))
    (hw : 1 ≤ hdr.width) (hh : 1 ≤ hdr.height) (hil : hdr.interlaced = true) (R : List (List α))
    (hR : R.length = hdr.height) (hrows : ∀ r ∈ R, r.length = hdr.width * c) :
    ∃ L, Img.scanLines ⟨hdr, (allLinesG enc c hdr.width hdr.height R).flatten⟩ false = some L ∧
      L.map (·.2.1) = allLinesG enc c hdr.width hdr.height R := by
  have hlens := lens_eq enc encLen henc hdr.width hdr.height c hdr.bpp hc hlen R hR hrows
  have hds : (allLinesG enc c hdr.width hdr.height R).flatten.length =
      Spec.dataSize hdr.width hdr.height hdr.bpp true false := by
    rw [List.length_flatten, ← hlens]
    rfl
  refine ⟨splitLines false (Spec.lineLens hdr.width hdr.height hdr.bpp true false)
    (allLinesG enc c hdr.width hdr.height R).flatten, ?_, splitLines_flatten _ _ hlens⟩
  unfold Img.scanLines
  simp only [hil, hds]
  rw [iterator_is_spec _ _ _ true false hw hh hb]
  rfl

/-! ### byte pixels (8 to 64 bits per pixel) -/

/-- **`deinterlace_image` on those lines**, byte pixels (data only) -/
theorem deinterlaceData_lines (hdr : Ihdr) (c : Nat) (hc : 0 < c) (hbpp : hdr.bpp = 8 * c)
    (hw : 1 ≤ hdr.width) (hh : 1 ≤ hdr.height) (hil : hdr.interlaced = true) (R : List Bytes)
    (hR : R.length = hdr.height) (hrows : ∀ r ∈ R, r.length = hdr.width * c) :
    deinterlaceData ⟨hdr, (allLinesG (fun l => l) c hdr.width hdr.height R).flatten⟩ = some R.flatten := by
  obtain ⟨L, hscan, hlines⟩ := interlaced_lines (fun l : Bytes => l) (fun n => n) (fun _ => rfl) hdr c hc (by omega)
    (by intro pw; rw [hbpp]; exact rowBytes_bytes pw c) hw hh hil R hR hrows
  obtain ⟨st', hrun, hres⟩ := machine_rebuilds_rowsG (fun l : Bytes => l) (fun _ l => some l) 0
    hdr.width hdr.height c hw hh hc R hR hrows (fun _ _ _ _ _ _ => rfl)
  unfold deinterlaceData
  simp only [hscan, hbpp]
  have hge : 8 * c ≥ 8 := by omega
  have hdiv : 8 * c / 8 = c := Nat.mul_div_cancel_left c (by decide)
  simp only [hge, if_true, hdiv]
  have hfold : L.foldlM
        (fun st (x : UInt8 × Bytes × Option Nat × Nat) =>
          match x with
          | (_, line, _, _) => deStep hdr.width hdr.height c (fun _ l => some l) st line)
        (⟨Array.replicate hdr.height (Array.replicate (c * hdr.width) 0), 1, 0, false⟩ : DeState UInt8) = some st' := by
    have h2 := hrun
    rw [← hlines, List.foldlM_map] at h2
    exact h2
  rw [hfold]
  simp only
  rw [← hres, List.flatMap_def]

/-- **Interlacing and then de-interlacing returns the original image** - for every width and height
    from 1 upward, every colour type and every pixel size of a whole number of bytes (8 to 64 bits):
    `deinterlace_image (interlace_image i) = i`, header and every byte of pixel data; neither function
    panics on the way (`some`).  The hypotheses are exactly "a well-formed non-interlaced in-memory
    image": data of `height` rows of `width` pixels. -/
theorem deinterlace_interlace_bytes (i : Img) (c : Nat) (hc : 0 < c) (hbpp : i.ihdr.bpp = 8 * c)
    (hw : 1 ≤ i.ihdr.width) (hh : 1 ≤ i.ihdr.height) (hil : i.ihdr.interlaced = false)
    (hlen : i.data.length = i.ihdr.height * (i.ihdr.width * c)) :
    ∃ j, interlaceImage i = some j ∧ j.ihdr = { i.ihdr with interlaced := true } ∧
      j.data = (allLinesG (fun l => l) c i.ihdr.width i.ihdr.height (chunksExact (i.ihdr.width * c) i.data)).flatten ∧
      deinterlaceImage j = some i := by
  have hrb : Spec.rowBytes i.ihdr.width i.ihdr.bpp = i.ihdr.width * c := by rw [hbpp]; exact rowBytes_bytes _ c
  have hwc : 0 < i.ihdr.width * c := Nat.mul_pos hw hc
  obtain ⟨lines, hl, hRl, hn⟩ := progressive_lines i (by omega) hw hil (by rw [hrb]; exact hlen)
  rw [hrb] at hRl
  obtain ⟨hfl, hpl⟩ := flatten_chunksExact (i.ihdr.width * c) hwc i.ihdr.height i.data hlen
  have hRlen := chunksExact_length (i.ihdr.width * c) hwc i.ihdr.height i.data hlen
  have hrows : ∀ l ∈ lines, l.2.1.length = i.ihdr.width * c := by
    intro l hlm
    apply hpl
    rw [← hRl]
    exact List.mem_map.mpr ⟨l, hlm, rfl⟩
  have hint := interlaceData_eq (fun l : Bytes => l) (fun l => l) rfl i c hc lines hl hn hrows
    (by
      intro k y l hlm
      rw [hbpp]
      exact interlace_row_bytes i.ihdr.width c y k hc l.2.1 (hrows l hlm))
  have hmap : (lines.map fun l => l.2.1) = chunksExact (i.ihdr.width * c) i.data := hRl
  rw [hmap] at hint
  refine ⟨⟨{ i.ihdr with interlaced := true },
    (allLinesG (fun l => l) c i.ihdr.width i.ihdr.height (chunksExact (i.ihdr.width * c) i.data)).flatten⟩, ?_, rfl, rfl, ?_⟩
  · unfold interlaceImage
    rw [hint]
    rfl
  · unfold deinterlaceImage
    have := deinterlaceData_lines { i.ihdr with interlaced := true } c hc hbpp hw hh rfl
      (chunksExact (i.ihdr.width * c) i.data) hRlen hpl
    rw [this, hfl]
    obtain ⟨⟨w, h, ct, depth, il⟩, data⟩ := i
    simp only at hil
    subst hil
    rfl

/-- the lines of a pass, concatenated, without the case split on emptiness -/
theorem passLines_flatten {α} (enc : List α → Bytes) (henc_nil : enc [] = []) (c w h p : Nat) (R : List (List α)) :
    (passLinesG enc c w h p R).flatten =
      (passRowsOf p h).flatMap fun y => enc (passRowUnits c w p (R.getD y [])) := by
  unfold passLinesG
  by_cases hne : passEmptyS p w h
  · rw [if_pos hne]
    rcases Classical.em (Spec.passCount h (geom p).ys (geom p).dy = 0) with hh0 | hh0
    · simp only [passRowsOf, hh0, List.range'_zero, List.flatMap_nil, List.flatten_nil]
    · have hw0 : Spec.passCount w (geom p).xs (geom p).dx = 0 := by
        rcases Classical.em (Spec.passCount w (geom p).xs (geom p).dx = 0) with h0 | h0
        · exact h0
        · exact absurd hne ((not_empty_iff p w h).mpr ⟨h0, hh0⟩)
      have : ∀ y ∈ passRowsOf p h, (fun y => enc (passRowUnits c w p (R.getD y []))) y = [] := by
        intro y _
        simp only [passRowUnits, hw0, List.range'_zero, List.map_nil, List.flatten_nil, henc_nil]
      rw [flatMap_nil_of_forall _ _ this]
      rfl
  · rw [if_neg hne, List.flatMap_def]

/-- **`interlace_image` moves every pixel to the position the specification assigns it** (whole image,
    byte pixels, every size): the interlaced data is, position by position along the specification's
    Adam7 storage order (`adam7Order`: pass after pass, row after row, the pass's columns), the pixel of
    the original at those coordinates. Together with `adam7Order_each_once` (every coordinate occurs
    exactly once) nothing is lost, duplicated or misplaced. -/
theorem interlace_places_pixels (i : Img) (c : Nat) (hc : 0 < c) (hbpp : i.ihdr.bpp = 8 * c)
    (hw : 1 ≤ i.ihdr.width) (hil : i.ihdr.interlaced = false)
    (hlen : i.data.length = i.ihdr.height * (i.ihdr.width * c)) :
    (interlaceImage i).map (·.data) =
      some ((adam7Order i.ihdr.width i.ihdr.height).flatMap fun xy =>
        pixelAt c ((chunksExact (i.ihdr.width * c) i.data).getD xy.2 []) xy.1) := by
  have hrb : Spec.rowBytes i.ihdr.width i.ihdr.bpp = i.ihdr.width * c := by rw [hbpp]; exact rowBytes_bytes _ c
  have hwc : 0 < i.ihdr.width * c := Nat.mul_pos hw hc
  obtain ⟨lines, hl, hRl, hn⟩ := progressive_lines i (by omega) hw hil (by rw [hrb]; exact hlen)
  rw [hrb] at hRl
  obtain ⟨_, hpl⟩ := flatten_chunksExact (i.ihdr.width * c) hwc i.ihdr.height i.data hlen
  have hrows : ∀ l ∈ lines, l.2.1.length = i.ihdr.width * c := by
    intro l hlm
    apply hpl
    rw [← hRl]
    exact List.mem_map.mpr ⟨l, hlm, rfl⟩
  have hint := interlaceData_eq (fun l : Bytes => l) (fun l => l) rfl i c hc lines hl hn hrows
    (by
      intro k y l hlm
      rw [hbpp]
      exact interlace_row_bytes i.ihdr.width c y k hc l.2.1 (hrows l hlm))
  have hmap : (lines.map fun l => l.2.1) = chunksExact (i.ihdr.width * c) i.data := hRl
  rw [hmap] at hint
  unfold interlaceImage
  rw [hint]
  simp only [Option.map_some, Option.some.injEq]
  unfold allLinesG adam7Order
  rw [flatten_flatMap, List.flatMap_assoc]
  have hr : List.range' 1 7 = (List.range 7).map (· + 1) := by decide
  rw [hr, List.flatMap_map]
  apply flatMap_congr_of_mem
  intro k hk
  have hk7 : k < 7 := List.mem_range.mp hk
  have hg : Spec.adam7.getD k ⟨0, 0, 1, 1⟩ = geom (k + 1) := by simp [geom]
  rw [passLines_flatten _ rfl]
  simp only [passCoords, hg, List.flatMap_assoc, List.flatMap_map]
  rw [lattice_ap _ _ (geom_rows (k + 1) (by omega) (by omega)), lattice_ap _ _ (geom_cols (k + 1) (by omega) (by omega))]
  unfold passRowsOf passRowUnits
  apply flatMap_congr_of_mem
  intro y _
  rw [List.flatMap_def]

/-- the same, pixel by pixel: the `n`-th stored pixel of the interlaced image is the original's pixel at
    the `n`-th coordinates of the specification's Adam7 order - so the interlacing change keeps every
    pixel (C01's clause for the layout change), it only moves it where the specification says -/
theorem interlace_stored_pixels (i : Img) (c : Nat) (hc : 0 < c) (hbpp : i.ihdr.bpp = 8 * c)
    (hw : 1 ≤ i.ihdr.width) (hil : i.ihdr.interlaced = false)
    (hlen : i.data.length = i.ihdr.height * (i.ihdr.width * c)) :
    (interlaceImage i).map (fun j => chunksExact c j.data) =
      some ((adam7Order i.ihdr.width i.ihdr.height).map fun xy =>
        pixelAt c ((chunksExact (i.ihdr.width * c) i.data).getD xy.2 []) xy.1) := by
  have hplace := interlace_places_pixels i c hc hbpp hw hil hlen
  have hwc : 0 < i.ihdr.width * c := Nat.mul_pos hw hc
  obtain ⟨_, hpl⟩ := flatten_chunksExact (i.ihdr.width * c) hwc i.ihdr.height i.data hlen
  have hRlen := chunksExact_length (i.ihdr.width * c) hwc i.ihdr.height i.data hlen
  cases hj : interlaceImage i with
  | none => rw [hj] at hplace; simp at hplace
  | some j =>
    rw [hj] at hplace
    simp only [Option.map_some, Option.some.injEq] at hplace ⊢
    rw [hplace, List.flatMap_def]
    apply chunksExact_flatten c hc
    intro px hpx
    obtain ⟨xy, hxy, rfl⟩ := List.mem_map.mp hpx
    obtain ⟨x, y⟩ := xy
    -- coordinates of the Adam7 order lie inside the image
    unfold adam7Order at hxy
    obtain ⟨k, _, hk⟩ := List.mem_flatMap.mp hxy
    rw [mem_passCoords] at hk
    have hx : x < i.ihdr.width := hk.1.1
    have hy : y < i.ihdr.height := hk.2.1
    have hyR : y < (chunksExact (i.ihdr.width * c) i.data).length := by omega
    simp only
    rw [getD_rows _ y hyR]
    exact (pixelAt_getElem? c i.ihdr.width hc _ (hpl _ (List.getElem_mem hyR)) x 0 hx hc).2

/-- Non-vacuity: a 3x2 RGB-8 image (c = 3) meets the hypotheses; its interlaced form differs from it
    and comes back. -/
example :
    let i : Img := ⟨⟨3, 2, .rgb none, 8, false⟩, [1,2,3, 4,5,6, 7,8,9, 10,11,12, 13,14,15, 16,17,18]⟩
    i.ihdr.bpp = 8 * 3 ∧ i.data.length = i.ihdr.height * (i.ihdr.width * 3) ∧
    (interlaceImage i).map (·.data) = some [1,2,3, 7,8,9, 4,5,6, 10,11,12, 13,14,15, 16,17,18] ∧
    ((interlaceImage i).bind deinterlaceImage) = some i := by
  decide

/-! ### pixels of 1, 2 and 4 bits -/

theorem bits8 : ∀ (b0 b1 b2 b3 b4 b5 b6 b7 : Bool),
    bitsOfByte (byteOfBits [b0, b1, b2, b3, b4, b5, b6, b7]) = [b0, b1, b2, b3, b4, b5, b6, b7] := by
  decide +kernel

theorem bitsOfByte_byteOfBits_full (l : List Bool) (hl : l.length = 8) : bitsOfByte (byteOfBits l) = l := by
  rcases l with _ | ⟨b0, l⟩
  · simp at hl
  rcases l with _ | ⟨b1, l⟩
  · simp at hl
  rcases l with _ | ⟨b2, l⟩
  · simp at hl
  rcases l with _ | ⟨b3, l⟩
  · simp at hl
  rcases l with _ | ⟨b4, l⟩
  · simp at hl
  rcases l with _ | ⟨b5, l⟩
  · simp at hl
  rcases l with _ | ⟨b6, l⟩
  · simp at hl
  rcases l with _ | ⟨b7, l⟩
  · simp at hl
  rcases l with _ | ⟨b8, l⟩
  · exact bits8 b0 b1 b2 b3 b4 b5 b6 b7
  · simp only [List.length_cons] at hl; omega

theorem byteOfBits_pad (l : List Bool) (hl : l.length ≤ 8) :
    byteOfBits l = byteOfBits (l ++ List.replicate (8 - l.length) false) := by
  unfold byteOfBits
  have : (l ++ List.replicate (8 - l.length) false).length = 8 := by simp; omega
  rw [this, Nat.sub_self, List.replicate_zero, List.append_nil]

theorem bitsOfByte_byteOfBits (l : List Bool) (hl : l.length ≤ 8) :
    bitsOfByte (byteOfBits l) = l ++ List.replicate (8 - l.length) false := by
  rw [byteOfBits_pad l hl]
  exact bitsOfByte_byteOfBits_full _ (by simp; omega)

/-- unpacking packed bits gives the bits back, followed by the zero padding of the last byte -/
theorem bitsOf_bytesOfBits : ∀ (n : Nat) (U : List Bool), U.length ≤ n →
    ∃ k, bitsOf (bytesOfBits U) = U ++ List.replicate k false ∧ (bytesOfBits U).length = (U.length + 7) / 8 := by
  intro n
  induction n using Nat.strongRecOn with
  | ind n ih =>
    intro U hU
    by_cases hne : U = []
    · subst hne; exact ⟨0, rfl, rfl⟩
    · unfold bytesOfBits bitsOf
      rw [chunks_cons 8 (by decide) U hne, List.map_cons, List.flatMap_cons]
      have hpos : 0 < U.length := List.length_pos_iff.mpr hne
      have htl : (U.take 8).length ≤ 8 := by simp [List.length_take]; omega
      rw [bitsOfByte_byteOfBits _ htl]
      by_cases h8 : U.length ≤ 8
      · have hd : U.drop 8 = [] := List.drop_eq_nil_of_le h8
        have ht : U.take 8 = U := List.take_of_length_le h8
        rw [hd, ht]
        refine ⟨8 - U.length, ?_, ?_⟩
        · simp [chunks_nil]
        · simp [chunks_nil]; omega
      · have hlt : (U.drop 8).length < n := by simp [List.length_drop]; omega
        obtain ⟨k, hk, hlen⟩ := ih (U.drop 8).length hlt (U.drop 8) (Nat.le_refl _)
        unfold bytesOfBits bitsOf at hk
        unfold bytesOfBits at hlen
        have ht8 : (U.take 8).length = 8 := by simp [List.length_take]; omega
        refine ⟨k, ?_, ?_⟩
        · rw [hk, ht8, Nat.sub_self, List.replicate_zero, List.append_nil, ← List.append_assoc, List.take_append_drop]
        · rw [List.length_cons, hlen, List.length_drop]; omega


theorem bitsOf_bytesOfBits_take (U : List Bool) : (bitsOf (bytesOfBits U)).take U.length = U := by
  obtain ⟨k, hk, _⟩ := bitsOf_bytesOfBits U.length U (Nat.le_refl _)
  rw [hk, List.take_left' rfl]

theorem length_bytesOfBits (U : List Bool) : (bytesOfBits U).length = (U.length + 7) / 8 :=
  (bitsOf_bytesOfBits U.length U (Nat.le_refl _)).choose_spec.2

/-- the units `deinterlace_bits` reads from a pass line: the first `⌈(w - x_shift) / x_step⌉ · bpp` bits
    (the `u32` subtraction panics when `w < x_shift`) -/
def bitUnitsOf (w bpp : Nat) : PassConst → Bytes → Option (List Bool) := fun pc l =>
  if w < pc.xShift then none else some ((bitsOf l).take (((w - pc.xShift + pc.xStep - 1) / pc.xStep) * bpp))

/-- on the lines of a pass that has pixels, `deinterlace_bits` reads back exactly the bits
    `interlace_image` packed (the subtraction does not underflow; the padding is cut off) -/
theorem bit_units_roundtrip (w h bpp : Nat) (hb : 0 < bpp) (p : Nat) (h1 : 1 ≤ p) (h7 : p ≤ 7)
    (hne : ¬ passEmptyS p w h) (row : List Bool) (hl : row.length = w * bpp) :
    bitUnitsOf w bpp (pcOf p) (bytesOfBits (passRowUnits bpp w p row)) = some (passRowUnits bpp w p row) := by
  obtain ⟨hw0, _⟩ := (not_empty_iff p w h).mp hne
  have hx := lattice_bound _ _ (geom_cols p h1 h7) w 0 (by omega)
  have hlenU := (units_spec bpp w p hb h1 h7 row hl).1
  have hN : (w - (geom p).xs + (geom p).dx - 1) / (geom p).dx = Spec.passCount w (geom p).xs (geom p).dx := by
    unfold Spec.passCount
    congr 1
    omega
  unfold bitUnitsOf
  have hnlt : ¬ w < (pcOf p).xShift := by simp only [pcOf]; omega
  rw [if_neg hnlt]
  simp only [pcOf]
  rw [hN, ← hlenU, bitsOf_bytesOfBits_take]

/-- **`deinterlace_image` on the lines**, pixels below 8 bits (data only): the rows come back, each
    packed with zero padding bits. -/
theorem deinterlaceData_lines_bits (hdr : Ihdr) (hb1 : 1 ≤ hdr.bpp) (hb8 : hdr.bpp < 8)
    (hw : 1 ≤ hdr.width) (hh : 1 ≤ hdr.height) (hil : hdr.interlaced = true) (R : List (List Bool))
    (hR : R.length = hdr.height) (hrows : ∀ r ∈ R, r.length = hdr.width * hdr.bpp) :
    deinterlaceData ⟨hdr, (allLinesG bytesOfBits hdr.bpp hdr.width hdr.height R).flatten⟩ =
      some (R.flatMap bytesOfBits) := by
  obtain ⟨L, hscan, hlines⟩ := interlaced_lines bytesOfBits (fun n => (n + 7) / 8) length_bytesOfBits hdr hdr.bpp
    hb1 hb1 (fun _ => rfl) hw hh hil R hR hrows
  obtain ⟨st', hrun, hres⟩ := machine_rebuilds_rowsG bytesOfBits (bitUnitsOf hdr.width hdr.bpp) false
    hdr.width hdr.height hdr.bpp hw hh hb1 R hR hrows
    (fun p h1 h7 hne row hl => bit_units_roundtrip hdr.width hdr.height hdr.bpp hb1 p h1 h7 hne row hl)
  unfold deinterlaceData
  simp only [hscan]
  have hge : ¬ hdr.bpp ≥ 8 := by omega
  simp only [hge, if_false]
  have hfold : L.foldlM
        (fun st (x : UInt8 × Bytes × Option Nat × Nat) =>
          match x with
          | (_, line, _, _) => deStep hdr.width hdr.height hdr.bpp (bitUnitsOf hdr.width hdr.bpp) st line)
        (⟨Array.replicate hdr.height (Array.replicate (hdr.bpp * hdr.width) false), 1, 0, false⟩ : DeState Bool) = some st' := by
    have h2 := hrun
    rw [← hlines, List.foldlM_map] at h2
    exact h2
  unfold bitUnitsOf at hfold
  rw [hfold]
  simp only
  rw [← hres, List.flatMap_map]

/-- **Interlacing and then de-interlacing returns the original pixels, below 8 bits per pixel** - every
    width and height from 1 upward, pixel sizes 1 to 7 bits (1, 2, 4 in PNG): the result is the
    original image with every row's pixels unchanged; the unused bits after the last pixel of a row
    come back as zero (they carry no pixel). Neither function panics. -/
theorem deinterlace_interlace_bits (i : Img) (hb1 : 1 ≤ i.ihdr.bpp) (hb8 : i.ihdr.bpp < 8)
    (hw : 1 ≤ i.ihdr.width) (hh : 1 ≤ i.ihdr.height) (hil : i.ihdr.interlaced = false)
    (hlen : i.data.length = i.ihdr.height * Spec.rowBytes i.ihdr.width i.ihdr.bpp) :
    ∃ j, interlaceImage i = some j ∧ j.ihdr = { i.ihdr with interlaced := true } ∧
      j.data = (allLinesG bytesOfBits i.ihdr.bpp i.ihdr.width i.ihdr.height
        ((chunksExact (Spec.rowBytes i.ihdr.width i.ihdr.bpp) i.data).map
          fun r => (bitsOf r).take (i.ihdr.width * i.ihdr.bpp))).flatten ∧
      deinterlaceImage j = some ⟨i.ihdr,
        (chunksExact (Spec.rowBytes i.ihdr.width i.ihdr.bpp) i.data).flatMap fun r =>
          bytesOfBits ((bitsOf r).take (i.ihdr.width * i.ihdr.bpp))⟩ := by
  have hwc : 0 < Spec.rowBytes i.ihdr.width i.ihdr.bpp := by
    unfold Spec.rowBytes
    have : 1 ≤ i.ihdr.width * i.ihdr.bpp := Nat.mul_pos hw hb1
    omega
  obtain ⟨lines, hl, hRl, hn⟩ := progressive_lines i hb1 hw hil hlen
  obtain ⟨hfl, hpl⟩ := flatten_chunksExact _ hwc i.ihdr.height i.data hlen
  have hRlen := chunksExact_length _ hwc i.ihdr.height i.data hlen
  have hbytes : ∀ l ∈ lines, l.2.1.length = Spec.rowBytes i.ihdr.width i.ihdr.bpp := by
    intro l hlm
    apply hpl
    rw [← hRl]
    exact List.mem_map.mpr ⟨l, hlm, rfl⟩
  have hfit : ∀ l ∈ lines, i.ihdr.width * i.ihdr.bpp ≤ 8 * l.2.1.length := by
    intro l hlm
    rw [hbytes l hlm]
    unfold Spec.rowBytes
    omega
  have hrows : ∀ l ∈ lines, ((fun r : Bytes => (bitsOf r).take (i.ihdr.width * i.ihdr.bpp)) l.2.1).length =
      i.ihdr.width * i.ihdr.bpp := by
    intro l hlm
    simp only [List.length_take, bitsOf_length]
    have := hfit l hlm
    omega
  have hint := interlaceData_eq bytesOfBits (fun r => (bitsOf r).take (i.ihdr.width * i.ihdr.bpp)) rfl
    i i.ihdr.bpp hb1 lines hl hn hrows
    (by
      intro k y l hlm
      rw [interlace_row_pixels i.ihdr.width i.ihdr.bpp y k hb1 l.2.1 (hfit l hlm)]
      rfl)
  have hmap : (lines.map fun l => (bitsOf l.2.1).take (i.ihdr.width * i.ihdr.bpp)) =
      (chunksExact (Spec.rowBytes i.ihdr.width i.ihdr.bpp) i.data).map
        fun r => (bitsOf r).take (i.ihdr.width * i.ihdr.bpp) := by
    rw [← hRl, List.map_map]
    rfl
  rw [hmap] at hint
  refine ⟨⟨{ i.ihdr with interlaced := true },
    (allLinesG bytesOfBits i.ihdr.bpp i.ihdr.width i.ihdr.height
      ((chunksExact (Spec.rowBytes i.ihdr.width i.ihdr.bpp) i.data).map
        fun r => (bitsOf r).take (i.ihdr.width * i.ihdr.bpp))).flatten⟩, ?_, rfl, rfl, ?_⟩
  · unfold interlaceImage
    rw [hint]
    rfl
  · unfold deinterlaceImage
    have : deinterlaceData ⟨{ i.ihdr with interlaced := true },
        (allLinesG bytesOfBits i.ihdr.bpp i.ihdr.width i.ihdr.height
          ((chunksExact (Spec.rowBytes i.ihdr.width i.ihdr.bpp) i.data).map
            fun r => (bitsOf r).take (i.ihdr.width * i.ihdr.bpp))).flatten⟩ =
        some (((chunksExact (Spec.rowBytes i.ihdr.width i.ihdr.bpp) i.data).map
            fun r => (bitsOf r).take (i.ihdr.width * i.ihdr.bpp)).flatMap bytesOfBits) :=
      deinterlaceData_lines_bits { i.ihdr with interlaced := true } hb1 hb8 hw hh rfl
      ((chunksExact (Spec.rowBytes i.ihdr.width i.ihdr.bpp) i.data).map
        fun r => (bitsOf r).take (i.ihdr.width * i.ihdr.bpp))
      (by rw [List.length_map]; exact hRlen)
      (by
        intro r hr
        obtain ⟨b, hbm, rfl⟩ := List.mem_map.mp hr
        simp only [List.length_take, bitsOf_length]
        have := hpl b hbm
        have h8 : i.ihdr.width * i.ihdr.bpp ≤ 8 * b.length := by
          rw [this]; unfold Spec.rowBytes; omega
        exact Nat.min_eq_left h8)
    rw [this, List.flatMap_map]
    obtain ⟨⟨w, h, ct, depth, il⟩, data⟩ := i
    simp only at hil
    subst hil
    rfl

/-- the pixels of every row are the original's: reading the first `width · bpp` bits of a returned row
    gives the first `width · bpp` bits of the original row -/
theorem returned_row_pixels (n : Nat) (r : Bytes) (hn : n ≤ 8 * r.length) :
    (bitsOf (bytesOfBits ((bitsOf r).take n))).take n = (bitsOf r).take n := by
  have hl : ((bitsOf r).take n).length = n := by
    rw [List.length_take, bitsOf_length]; omega
  have := bitsOf_bytesOfBits_take ((bitsOf r).take n)
  rw [hl] at this
  exact this

/-- and when the original's padding bits are zero (what `interlace`/`deinterlace` and every encoder
    of this model write), the round trip returns the image itself, byte for byte -/
theorem deinterlace_interlace_bits_exact (i : Img) (hb1 : 1 ≤ i.ihdr.bpp) (hb8 : i.ihdr.bpp < 8)
    (hw : 1 ≤ i.ihdr.width) (hh : 1 ≤ i.ihdr.height) (hil : i.ihdr.interlaced = false)
    (hlen : i.data.length = i.ihdr.height * Spec.rowBytes i.ihdr.width i.ihdr.bpp)
    (hpad : ∀ r ∈ chunksExact (Spec.rowBytes i.ihdr.width i.ihdr.bpp) i.data,
      bytesOfBits ((bitsOf r).take (i.ihdr.width * i.ihdr.bpp)) = r) :
    ∃ j, interlaceImage i = some j ∧ deinterlaceImage j = some i := by
  obtain ⟨j, h1, _, _, h3⟩ := deinterlace_interlace_bits i hb1 hb8 hw hh hil hlen
  refine ⟨j, h1, ?_⟩
  rw [h3]
  have hwc : 0 < Spec.rowBytes i.ihdr.width i.ihdr.bpp := by
    unfold Spec.rowBytes
    have : 1 ≤ i.ihdr.width * i.ihdr.bpp := Nat.mul_pos hw hb1
    omega
  obtain ⟨hfl, _⟩ := flatten_chunksExact _ hwc i.ihdr.height i.data hlen
  have : ((chunksExact (Spec.rowBytes i.ihdr.width i.ihdr.bpp) i.data).flatMap fun r =>
      bytesOfBits ((bitsOf r).take (i.ihdr.width * i.ihdr.bpp))) = i.data := by
    rw [flatMap_congr_of_mem _ _ (fun r => r) hpad]
    rw [List.flatMap_def, List.map_id']
    exact hfl
  rw [this]

/-- Non-vacuity: a 5x3 gray-2 image (2 bits per pixel, rows of 2 bytes, zero padding) meets the
    hypotheses, is rearranged by interlacing, and comes back. -/
example :
    let i : Img := ⟨⟨5, 3, .gray none, 2, false⟩, [0x1B, 0x40, 0xE4, 0xC0, 0x93, 0x80]⟩
    i.ihdr.bpp = 2 ∧ i.data.length = i.ihdr.height * Spec.rowBytes i.ihdr.width i.ihdr.bpp ∧
    (interlaceImage i).map (·.data) ≠ some i.data ∧
    ((interlaceImage i).bind deinterlaceImage) = some i := by
  decide

end OxiModel.C18

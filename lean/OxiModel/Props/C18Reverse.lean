import OxiModel.Props.C18Roundtrip
import Mathlib.Data.Fintype.Card
import Mathlib.Data.Fintype.Vector
/-
  C18, the other order: de-interlacing ANY well-sized interlaced image (byte pixels) and interlacing
  the result returns the interlaced image.  `interlace_image` restricted to images of a fixed header is
  a map between byte strings of one and the same length (the pass areas partition the image) with a
  left inverse (`deinterlace_interlace_bytes`), hence injective, hence - the set being finite - onto:
  every well-sized interlaced image is the interlacing of some image, and that image is what
  `deinterlace_image` returns.  (Only this file uses Mathlib: finiteness of `List.Vector UInt8 n` and
  "an injective self-map of a finite type is surjective".)
-/
namespace OxiModel.C18
open OxiModel OxiModel.DeProofs OxiModel.Spec

instance : Finite UInt8 :=
  Finite.of_injective (fun u : UInt8 => (⟨u.toNat, u.toNat_lt⟩ : Fin 256))
    (fun _ _ h => UInt8.toNat_inj.mp (Fin.mk.inj h))

/-- interlaced data of byte pixels is as long as the non-interlaced data: the pass areas partition the
    image -/
theorem dataSize_bytes (w h c : Nat) : Spec.dataSize w h (8 * c) true false = h * (w * c) := by
  rw [dataSize_interlaced]
  have hp : ∀ k, passSize k w h (8 * c) false =
      (passDims (adam7.getD k ⟨0, 0, 1, 1⟩) w h).1 * (passDims (adam7.getD k ⟨0, 0, 1, 1⟩) w h).2 * c := by
    intro k
    unfold passSize
    simp only [Bool.false_eq_true, if_false, Nat.add_zero]
    split
    · rename_i h0; rw [h0]; simp
    · have := rowBytes_bytes (passDims (adam7.getD k ⟨0, 0, 1, 1⟩) w h).1 c
      unfold Spec.rowBytes at this
      unfold rowBytes
      rw [this, Nat.mul_comm (passDims (adam7.getD k ⟨0, 0, 1, 1⟩) w h).2, Nat.mul_assoc, Nat.mul_assoc,
        Nat.mul_comm c]
  simp only [hp, ← Nat.add_mul]
  have hsum := pass_areas_partition w h
  simp only [adam7, List.getD_cons_zero, List.getD_cons_succ, passDims, passCount]
  have e1 : (w + 8 - 1 - 0) / 8 = (w + 7) / 8 := by omega
  have e2 : (w + 8 - 1 - 4) / 8 = (w + 3) / 8 := by omega
  have e3 : (w + 4 - 1 - 0) / 4 = (w + 3) / 4 := by omega
  have e4 : (w + 4 - 1 - 2) / 4 = (w + 1) / 4 := by omega
  have e5 : (w + 2 - 1 - 0) / 2 = (w + 1) / 2 := by omega
  have e6 : (w + 2 - 1 - 1) / 2 = w / 2 := by omega
  have e7 : (w + 1 - 1 - 0) / 1 = w := by omega
  have f1 : (h + 8 - 1 - 0) / 8 = (h + 7) / 8 := by omega
  have f3 : (h + 8 - 1 - 4) / 8 = (h + 3) / 8 := by omega
  have f4 : (h + 4 - 1 - 0) / 4 = (h + 3) / 4 := by omega
  have f5 : (h + 4 - 1 - 2) / 4 = (h + 1) / 4 := by omega
  have f6 : (h + 2 - 1 - 0) / 2 = (h + 1) / 2 := by omega
  have f7 : (h + 2 - 1 - 1) / 2 = h / 2 := by omega
  rw [e1, e2, e3, e4, e5, e6, e7, f1, f3, f4, f5, f6, f7, hsum, Nat.mul_comm w h, Nat.mul_assoc]

/-- the interlaced data of the image with data `v` (closed form from `interlaceData_eq`) -/
def ilData (w h c : Nat) (v : Bytes) : Bytes :=
  (allLinesG (fun l => l) c w h (chunksExact (w * c) v)).flatten

theorem ilData_length (w h c : Nat) (hw : 1 ≤ w) (hc : 0 < c) (v : Bytes) (hv : v.length = h * (w * c)) :
    (ilData w h c v).length = h * (w * c) := by
  have hwc : 0 < w * c := Nat.mul_pos hw hc
  obtain ⟨_, hpl⟩ := flatten_chunksExact (w * c) hwc h v hv
  have hRlen := chunksExact_length (w * c) hwc h v hv
  have hlens := lens_eq (fun l : Bytes => l) (fun n => n) (fun _ => rfl) w h c (8 * c) hc
    (fun pw => rowBytes_bytes pw c) (chunksExact (w * c) v) hRlen hpl
  unfold ilData
  rw [List.length_flatten, ← hlens, ← dataSize_bytes w h c]
  rfl

/-- **De-interlacing and then interlacing returns the original interlaced image** - every width and
    height from 1 upward, every pixel size of a whole number of bytes, ANY interlaced data of the
    header-implied size: `deinterlace_image` succeeds, and `interlace_image` of its result is the image
    we started from.  So `deinterlace_image` puts every pixel where `interlace_image` would take it
    from - which by `interlace_places_pixels` is the position the specification assigns. -/
theorem interlace_deinterlace_bytes (hdr : Ihdr) (c : Nat) (hc : 0 < c) (hbpp : hdr.bpp = 8 * c)
    (hw : 1 ≤ hdr.width) (hh : 1 ≤ hdr.height) (hil : hdr.interlaced = true) (D : Bytes)
    (hlen : D.length = hdr.height * (hdr.width * c)) :
    ∃ i, deinterlaceImage ⟨hdr, D⟩ = some i ∧ i.ihdr = { hdr with interlaced := false } ∧
      i.data.length = D.length ∧ interlaceImage i = some ⟨hdr, D⟩ := by
  -- `interlace_image` on data of this header, as a self-map of the byte strings of that length
  let N := hdr.height * (hdr.width * c)
  let f : List.Vector UInt8 N → List.Vector UInt8 N := fun v =>
    ⟨ilData hdr.width hdr.height c v.1, ilData_length hdr.width hdr.height c hw hc v.1 v.2⟩
  -- what the round-trip theorem says about it
  have hround : ∀ v : List.Vector UInt8 N,
      interlaceImage ⟨{ hdr with interlaced := false }, v.1⟩ = some ⟨hdr, (f v).1⟩ ∧
      deinterlaceImage ⟨hdr, (f v).1⟩ = some ⟨{ hdr with interlaced := false }, v.1⟩ := by
    intro v
    obtain ⟨j, hj1, hj2, hjd, hj3⟩ :=
      deinterlace_interlace_bytes ⟨{ hdr with interlaced := false }, v.1⟩ c hc hbpp hw hh rfl v.2
    have hj : j = ⟨hdr, (f v).1⟩ := by
      obtain ⟨jh, jd⟩ := j
      simp only at hj2 hjd
      rw [hj2, hjd]
      obtain ⟨w, h, ct, depth, il⟩ := hdr
      simp only at hil
      subst hil
      rfl
    rw [hj] at hj1 hj3
    exact ⟨hj1, hj3⟩
  have hinj : Function.Injective f := by
    intro a b hab
    have ha := (hround a).2
    have hb := (hround b).2
    rw [hab, hb] at ha
    simp only [Option.some.injEq, Img.mk.injEq, true_and] at ha
    exact Subtype.ext ha.symm
  obtain ⟨v, hv⟩ := Finite.surjective_of_injective hinj ⟨D, hlen⟩
  have hD : (f v).1 = D := congrArg Subtype.val hv
  obtain ⟨h1, h2⟩ := hround v
  rw [hD] at h1 h2
  exact ⟨_, h2, rfl, by rw [hlen]; exact v.2, h1⟩

end OxiModel.C18

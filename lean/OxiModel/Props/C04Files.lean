import OxiModel.Io
/-
  C04 on files: the call sequence of the I/O automaton (`program`, tied to the executable by the
  system-call stream of C12) interpreted over the two files a run can touch - the input and the
  destination, which may be THE SAME FILE under another name (`sub/../a.png`, a link).  Because the
  input is read into memory before the destination is created, the file the destination names ends up
  holding the result - strictly smaller - or exactly the bytes the input had, aliased or not; every
  other file is untouched.
-/
namespace OxiModel.C04F
open OxiModel

/-- the files and streams of one run -/
structure Store where
  input : Bytes          -- content of the input file
  dest : Option Bytes    -- content of the destination when it is a different file (none: absent)
  mem : Bytes            -- what has been read into memory
  out : Bytes            -- standard output so far
  deriving DecidableEq, Repr

/-- does the destination name the input file itself? (in place, or `aliased`: another spelling, a link) -/
def sameFile (c : IoCfg) (aliased : Bool) : Bool :=
  c.route = .inPlace || (aliased && (c.route = .out || c.route = .dir))

/-- what the write phase hands over: the result when there is one to deliver (strictly smaller, or
    forced), else the bytes read at the start (`optimized_output = in_data`) -/
def payload (c : IoCfg) (result mem : Bytes) : Bytes :=
  match c.input with
  | .improvable => result
  | _ => if c.force then result else mem

/-- effect of one system call (`O_TRUNC` on create; writes append; everything else leaves contents alone) -/
def exec (c : IoCfg) (aliased : Bool) (result : Bytes) (s : Store) : Call → Store
  | .readIn => { s with mem := s.input }
  | .createDest => if sameFile c aliased then { s with input := [] } else { s with dest := some [] }
  | .writeDest =>
    if sameFile c aliased then { s with input := s.input ++ payload c result s.mem }
    else { s with dest := some (s.dest.getD [] ++ payload c result s.mem) }
  | .writeStdout => { s with out := s.out ++ payload c result s.mem }
  | _ => s

/-- a fault-free run -/
def run (c : IoCfg) (aliased : Bool) (result : Bytes) (s : Store) : Store :=
  (program c).foldl (exec c aliased result) s

/-- what the run is meant to deliver -/
def delivered (c : IoCfg) (inp result : Bytes) : Bytes :=
  match c.input with
  | .improvable => result
  | _ => if c.force then result else inp

/-- **What the files hold after a run** of a decodable input, whatever stood at the destination before
    and whether or not the destination is the input under another name: the file the destination names
    holds exactly what is delivered (or is as before when nothing is delivered); when that file is not
    the input, the input is untouched; standard output carries the delivery exactly when it is the
    route. -/
theorem files_after_run (c : IoCfg) (aliased : Bool) (inp result : Bytes) (d0 : Option Bytes)
    (hvalid : c.input ≠ .invalid) :
    let s := run c aliased result ⟨inp, d0, [], []⟩
    (sameFile c aliased = true → s.input = (if delivers c then delivered c inp result else inp) ∧ s.dest = d0) ∧
    (sameFile c aliased = false → s.input = inp ∧
      s.dest = (if delivers c ∧ (c.route = .out ∨ c.route = .dir) then some (delivered c inp result) else d0)) ∧
    s.out = (if delivers c ∧ c.route = .stdout then delivered c inp result else []) := by
  obtain ⟨route, preserve, input, force, alsoDir⟩ := c
  cases input
  · cases route <;> cases preserve <;> cases force <;> cases alsoDir <;> cases aliased <;>
      simp [run, program, readPhase, writePhase, delivers, delivered, preserveApplies, exec, sameFile, payload]
  · cases route <;> cases preserve <;> cases force <;> cases alsoDir <;> cases aliased <;>
      simp [run, program, readPhase, writePhase, delivers, delivered, preserveApplies, exec, sameFile, payload]
  · exact absurd rfl hvalid

/-- **Never larger, on files** (unforced): after the run the file the destination names is strictly
    shorter than the input was, or holds the input's bytes exactly - also when the destination is the
    input itself under another name - and it is never left truncated. -/
theorem destination_never_larger (c : IoCfg) (aliased : Bool) (inp result : Bytes) (d0 : Option Bytes)
    (hvalid : c.input ≠ .invalid) (hforce : c.force = false)
    (hres : c.input = .improvable → result.length < inp.length) :
    let s := run c aliased result ⟨inp, d0, [], []⟩
    (sameFile c aliased = true → s.input.length < inp.length ∨ s.input = inp) ∧
    (sameFile c aliased = false → s.input = inp ∧
      ((c.route = .out ∨ c.route = .dir) → ∃ b, s.dest = some b ∧ (b.length < inp.length ∨ b = inp))) := by
  have h := files_after_run c aliased inp result d0 hvalid
  simp only at h ⊢
  obtain ⟨hsame, hdiff, _⟩ := h
  have hdel : (delivered c inp result).length < inp.length ∨ delivered c inp result = inp := by
    unfold delivered
    cases hi : c.input with
    | improvable => left; exact hres hi
    | notImprovable => right; simp [hforce]
    | invalid => exact absurd hi hvalid
  constructor
  · intro hs
    rw [(hsame hs).1]
    split
    · exact hdel
    · right; rfl
  · intro hs
    refine ⟨(hdiff hs).1, ?_⟩
    intro hr
    have hdl : delivers c = true := by
      unfold delivers
      cases hi : c.input with
      | improvable => rfl
      | notImprovable =>
        simp only [hforce, Bool.false_or, decide_eq_true_eq]
        intro hin
        rw [hin] at hr
        simp at hr
      | invalid => exact absurd hi hvalid
    refine ⟨delivered c inp result, ?_, hdel⟩
    rw [(hdiff hs).2]
    simp [hdl, hr]

/-- a run whose destination is not the input's own name always delivers - the result, or a copy of the
    original: whatever made the run give up improving (nothing to gain, a timeout that expired before
    any work), `--out`, `--dir` and standard output receive a file -/
theorem separate_destination_always_delivers (c : IoCfg) (hvalid : c.input ≠ .invalid)
    (hr : c.route = .out ∨ c.route = .dir ∨ c.route = .stdout) : delivers c = true := by
  unfold delivers
  cases hi : c.input with
  | improvable => rfl
  | notImprovable =>
    simp only [Bool.or_eq_true, decide_eq_true_eq]
    right
    intro h
    rw [h] at hr
    simp at hr
  | invalid => exact absurd hi hvalid

/-- Non-vacuity: `--out` onto a link to the input, input not improvable: the file is truncated and
    rewritten from memory and ends up as it was. -/
example :
    let c : IoCfg := { route := .out, preserve := false, input := .notImprovable }
    sameFile c true = true ∧ delivers c = true ∧
    (run c true [9] ⟨[1, 2, 3], none, [], []⟩).input = [1, 2, 3] := by
  decide

end OxiModel.C04F

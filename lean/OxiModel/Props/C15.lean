import OxiModel.Reductions
/-
  C15 — 16-to-8-bit scaling rounds every sample to the nearest 8-bit value.
-/
namespace OxiModel.C15
open OxiModel

/-- value of a 16-bit sample given by its two bytes -/
def val (hi lo : UInt8) : Nat := hi.toNat * 256 + lo.toNat

/-- the specification's rounding: nearest multiple of 257, i.e. round(v / 257) -/
def roundTo8 (v : Nat) : Nat := (v + 128) / 257

theorem scaleSample_eq_round (hi lo : UInt8) : (scaleSample hi lo).toNat = roundTo8 (val hi lo) := by
  have h1 := hi.toNat_lt
  have h2 := lo.toNat_lt
  unfold scaleSample roundTo8 val
  split
  · rename_i h
    subst h
    omega
  · simp only [UInt8.toNat_ofNat']
    omega

/-- every sample becomes the nearest 8-bit value: |257·s − v| ≤ 128 -/
theorem scale_nearest (hi lo : UInt8) :
    257 * (scaleSample hi lo).toNat ≤ val hi lo + 128 ∧ val hi lo ≤ 257 * (scaleSample hi lo).toNat + 128 := by
  rw [scaleSample_eq_round]
  unfold roundTo8
  omega

/-- a value whose two bytes are equal keeps that byte -/
theorem scale_equal_bytes (b : UInt8) : scaleSample b b = b := by simp [scaleSample]

/-- 0x00FF becomes 0x01 (rounded, not truncated) -/
theorem scale_00FF : scaleSample 0x00 0xFF = 0x01 := by decide

/-- the result is a function of the 16-bit value only and is monotone in it -/
theorem scale_monotone (h1 l1 h2 l2 : UInt8) (h : val h1 l1 ≤ val h2 l2) :
    (scaleSample h1 l1).toNat ≤ (scaleSample h2 l2).toNat := by
  rw [scaleSample_eq_round, scaleSample_eq_round]
  unfold roundTo8
  omega

/-- Image level: with scaling requested a 16-bit image always becomes 8-bit, dimensions, colour
    type code and interlacing unchanged, and the data is the sample-wise rounding of the input. -/
theorem scaled_image (i o : Img) (h : reducedBitDepth16to8 i true = some o) :
    o.ihdr.depth = 8 ∧ o.ihdr.width = i.ihdr.width ∧ o.ihdr.height = i.ihdr.height ∧
    o.ihdr.interlaced = i.ihdr.interlaced ∧ o.ihdr.ct.code = i.ihdr.ct.code ∧
    o.data = (pairs16 i.data).map (fun p => scaleSample p.1 p.2) := by
  unfold reducedBitDepth16to8 at h
  split at h
  · cases h
  · simp only [if_true] at h
    unfold scaledBitDepth16to8 at h
    split at h
    · cases h
    · cases h
      refine ⟨rfl, rfl, rfl, rfl, ?_, rfl⟩
      cases hct : i.ihdr.ct with
      | gray t => cases t <;> simp [trns16to8, ColorType.code]
      | rgb t =>
        cases t with
        | none => simp [trns16to8, ColorType.code]
        | some k =>
          obtain ⟨r, g, b⟩ := k
          simp only [trns16to8, scaledKey, ColorType.code]
      | indexed p => simp [trns16to8, ColorType.code]
      | grayAlpha => simp [trns16to8, ColorType.code]
      | rgba => simp [trns16to8, ColorType.code]

/-- 16-bit images are always reduced when scaling is requested -/
theorem scaled_always (i : Img) (h : i.ihdr.depth = 16) : ∃ o, reducedBitDepth16to8 i true = some o := by
  simp [reducedBitDepth16to8, scaledBitDepth16to8, h]

/-- images that are not 16-bit are treated exactly as without the switch -/
theorem non16_unaffected (i : Img) (h : i.ihdr.depth ≠ 16) (s : Bool) :
    reducedBitDepth16to8 i s = reducedBitDepth16to8 i false := by
  simp [reducedBitDepth16to8, h]

/-- The colour key is rounded like a sample: a gray key `k` becomes `round(k/257)`. Hence keyed
    pixels (all samples equal to the key's) stay keyed, and an opaque pixel can become keyed only if
    all its samples round to the key's. -/
theorem gray_key_rounded (i o : Img) (k : Nat) (hk : k < 65536) (hct : i.ihdr.ct = .gray (some k))
    (h : reducedBitDepth16to8 i true = some o) : o.ihdr.ct = .gray (some (roundTo8 k)) := by
  unfold reducedBitDepth16to8 at h
  split at h
  · cases h
  · simp only [if_true] at h
    unfold scaledBitDepth16to8 at h
    split at h
    · cases h
    · cases h
      simp only [hct, trns16to8, scaledKey]
      have := scaleSample_eq_round (UInt8.ofNat (k / 256)) (UInt8.ofNat k)
      rw [this]
      unfold val
      simp only [UInt8.toNat_ofNat']
      have h1 : k / 256 % 2 ^ 8 = k / 256 := by omega
      have h2 : k / 256 * 256 + k % 2 ^ 8 = k := by omega
      rw [h1, h2]

theorem rgb_key_rounded (i o : Img) (r g b : Nat) (hr : r < 65536) (hg : g < 65536) (hb : b < 65536)
    (hct : i.ihdr.ct = .rgb (some (r, g, b)))
    (h : reducedBitDepth16to8 i true = some o) :
    o.ihdr.ct = .rgb (some (roundTo8 r, roundTo8 g, roundTo8 b)) := by
  have key : ∀ k, k < 65536 → scaledKey k = some (roundTo8 k) := by
    intro k hk
    simp only [scaledKey]
    have := scaleSample_eq_round (UInt8.ofNat (k / 256)) (UInt8.ofNat k)
    rw [this]
    unfold val
    simp only [UInt8.toNat_ofNat']
    have h1 : k / 256 % 2 ^ 8 = k / 256 := by omega
    have h2 : k / 256 * 256 + k % 2 ^ 8 = k := by omega
    rw [h1, h2]
  unfold reducedBitDepth16to8 at h
  split at h
  · cases h
  · simp only [if_true] at h
    unfold scaledBitDepth16to8 at h
    split at h
    · cases h
    · cases h
      simp only [hct, trns16to8, key r hr, key g hg, key b hb]

/-- Non-vacuity -/
example : reducedBitDepth16to8 ⟨⟨1, 1, .gray (some 0x00FF), 16, false⟩, [0x12, 0x34]⟩ true =
    some ⟨⟨1, 1, .gray (some 1), 8, false⟩, [0x12]⟩ := by decide

end OxiModel.C15

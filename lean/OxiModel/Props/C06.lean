import OxiModel.EvaluateProofs
/-
  C06 — deterministic output regardless of scheduling: the candidate an evaluator selects does not
  depend on the interleaving of its concurrent trials, nor on the `parallel` feature.
-/
namespace OxiModel.C06
open OxiModel

/-- **Schedule independence.** For every execution of the evaluator protocol — any order in which
    the trials read the shared bound, finish, publish and lower the bound — that has run to
    completion, the collector's `min_by_key` is the `cmp_key`-minimum `M` of the trials admitted by
    the *initial* bound. The best trial can never be pruned by a bound another trial published. -/
theorem selection_schedule_independent (bound0 : Bound) (trials : List Trial) (M : Trial)
    (hM : IsBest bound0 trials M) (hd : distinctKeys trials) (s : EvState)
    (hr : EvReach (evInit bound0 trials) s) (hfin : s.final) :
    minByKey s.published = some M := by
  have inv := evInv_reach hM hr
  obtain ⟨hp, hi⟩ := hfin
  have hMpub : M ∈ s.published := by
    rcases inv.alive with h | h | h
    · rw [hp] at h; cases h
    · obtain ⟨b, hb⟩ := h; rw [hi] at hb; cases hb
    · exact h
  have hdp : distinctKeys s.published := by
    intro a ha b hb h1 h2
    exact hd a (inv.pub_sub a ha).1 b (inv.pub_sub b hb).1 h1 h2
  apply minByKey_eq_of_min hdp hMpub
  intro c hc
  exact hM.least c (inv.pub_sub c hc).1 (inv.pub_sub c hc).2

/-- Two complete executions — e.g. with different pool sizes or timings — select the same candidate. -/
theorem two_runs_agree (bound0 : Bound) (trials : List Trial) (M : Trial)
    (hM : IsBest bound0 trials M) (hd : distinctKeys trials) (s1 s2 : EvState)
    (h1 : EvReach (evInit bound0 trials) s1) (f1 : s1.final)
    (h2 : EvReach (evInit bound0 trials) s2) (f2 : s2.final) :
    minByKey s1.published = minByKey s2.published := by
  rw [selection_schedule_independent bound0 trials M hM hd s1 h1 f1,
      selection_schedule_independent bound0 trials M hM hd s2 h2 f2]

/-- Only trials the initial bound admits are ever published (so with no admissible trial nothing is
    selected, whatever the schedule). -/
theorem published_admissible (bound0 : Bound) (trials : List Trial) (s : EvState)
    (hr : EvReach (evInit bound0 trials) s) :
    (∀ t ∈ s.published, t ∈ trials ∧ fits bound0 t.idat) ∧ leB s.bound bound0 ∧
    (∀ p ∈ s.inflight, p.1 ∈ trials ∧ leB p.2 bound0) ∧ (∀ t ∈ s.pending, t ∈ trials) := by
  induction hr with
  | refl => simp [evInit, leB_refl]
  | step _ hstep ih =>
    obtain ⟨ip, ib, ii, ipd⟩ := ih
    cases hstep with
    | read t h =>
      refine ⟨ip, ib, ?_, ?_⟩
      · intro p hp
        rcases List.mem_cons.mp hp with rfl | hp
        · exact ⟨ipd _ h, ib⟩
        · exact ii p hp
      · intro x hx; exact ipd x (List.mem_of_mem_erase hx)
    | finishOk t b h hf =>
      refine ⟨?_, leB_lower ib _, ?_, ipd⟩
      · intro x hx
        rcases List.mem_cons.mp hx with rfl | hx
        · exact ⟨(ii _ h).1, (ii _ h).2 _ hf⟩
        · exact ip x hx
      · intro p hp; exact ii p (List.mem_of_mem_erase hp)
    | finishPruned t b h hf =>
      exact ⟨ip, ib, fun p hp => ii p (List.mem_of_mem_erase hp), ipd⟩

theorem nothing_admissible_nothing_selected (bound0 : Bound) (trials : List Trial) (s : EvState)
    (hnone : ∀ t ∈ trials, ¬ fits bound0 t.idat)
    (hr : EvReach (evInit bound0 trials) s) : minByKey s.published = none := by
  have h := (published_admissible bound0 trials s hr).1
  cases hs : s.published with
  | nil => rfl
  | cons t ts =>
    have := h t (by rw [hs]; exact List.mem_cons_self)
    exact absurd this.2 (hnone t this.1)

/-- The sequential code path (library built without its `parallel` feature) keeps a running best
    with the rule "keep the previous unless the new key is not larger"; on any arrival order it
    ends with the same candidate as `min_by_key`. -/
theorem sequential_same_choice (published : List Trial) (hd : distinctKeys published) :
    seqBest published = minByKey published := seqBest_eq_minByKey hd

/-- The order in which candidates arrive at the collector is irrelevant. -/
theorem arrival_order_irrelevant (l1 l2 : List Trial) (hd : distinctKeys l1)
    (hsame : ∀ x, x ∈ l1 ↔ x ∈ l2) : minByKey l1 = minByKey l2 := by
  cases l1 with
  | nil =>
    cases l2 with
    | nil => rfl
    | cons t ts => exact absurd ((hsame t).mpr List.mem_cons_self) (by simp)
  | cons t ts =>
    obtain ⟨m, hm⟩ := minByKey_isSome (l := t :: ts) (by simp)
    rw [hm]
    have hd2 : distinctKeys l2 := fun a ha b hb => hd a ((hsame a).mpr ha) b ((hsame b).mpr hb)
    symm
    apply minByKey_eq_of_min hd2 ((hsame m).mp (minByKey_mem hm))
    intro c hc
    exact minByKey_le hm c ((hsame c).mpr hc)

/-- Every step of the protocol consumes work: executions are finite (at most two steps per trial). -/
theorem step_decreases_measure (s s' : EvState) (h : EvStep s s') :
    2 * s'.pending.length + s'.inflight.length < 2 * s.pending.length + s.inflight.length := by
  cases h with
  | read t h =>
    simp only [List.length_cons]
    have := List.length_erase_of_mem h
    have : 0 < s.pending.length := List.length_pos_of_mem h
    omega
  | finishOk t b h hf =>
    simp only
    have := List.length_erase_of_mem h
    have : 0 < s.inflight.length := List.length_pos_of_mem h
    omega
  | finishPruned t b h hf =>
    simp only
    have := List.length_erase_of_mem h
    have : 0 < s.inflight.length := List.length_pos_of_mem h
    omega

/-- Non-vacuity: two trials where the smaller one would be pruned by the other's published size if
    the bound were compared carelessly — the hypotheses of the main theorem are satisfiable. -/
example : IsBest none [⟨0, 0, 100, 0, 400⟩, ⟨1, 5, 90, 20, 400⟩] ⟨0, 0, 100, 0, 400⟩ := by
  refine ⟨by simp, trivial, ?_⟩
  intro t ht _
  simp at ht
  rcases ht with rfl | rfl <;> decide

/-! ### frames of an animation are recompressed in parallel (`recompress_frames`, `try_for_each`) -/

/-- what processing one frame yields: `none` = its data does not decode (an error), `some none` = kept
    as it is, `some (some d)` = replaced by the smaller stream `d` -/
abbrev FrameJob := Option (Option Bytes)

/-- an execution of the parallel `try_for_each`: the set of frames that were processed. Either every
    frame was, or the loop was cut short - which only an error among the processed ones does. -/
def ValidFrameRun (jobs : List FrameJob) (processed : List Nat) : Prop :=
  (∀ i, i < jobs.length → i ∈ processed) ∨ (∃ i ∈ processed, jobs[i]? = some none)

/-- what the call returns: an error if a processed frame failed, else the frames' results -/
def frameRunOutcome (jobs : List FrameJob) (processed : List Nat) : Option (List (Option Bytes)) :=
  if processed.any (fun i => jobs[i]? == some none) then none
  else some (jobs.map fun j => j.getD none)

/-- **The outcome of the parallel frame recompression does not depend on the schedule**: whichever
    frames the workers got to before an error stopped the loop, the call returns an error exactly
    when some frame does not decode, and otherwise the same list of results (each frame's own).
    (A version that swallowed the error would return the half-updated list, which is not a function of
    the input - that is the seeded change C06g.) -/
theorem frames_schedule_independent (jobs : List FrameJob) (p q : List Nat)
    (hp : ValidFrameRun jobs p) (hq : ValidFrameRun jobs q) :
    frameRunOutcome jobs p = frameRunOutcome jobs q := by
  have key : ∀ r, ValidFrameRun jobs r →
      frameRunOutcome jobs r = if jobs.any (· == none) then none else some (jobs.map fun j => j.getD none) := by
    intro r hr
    unfold frameRunOutcome
    by_cases hbad : jobs.any (· == none) = true
    · rw [if_pos hbad]
      have : r.any (fun i => jobs[i]? == some none) = true := by
        rcases hr with hall | ⟨i, hi, hfail⟩
        · obtain ⟨j, hj, hjn⟩ := List.any_eq_true.mp hbad
          obtain ⟨k, hk, hkj⟩ := List.getElem_of_mem hj
          apply List.any_eq_true.mpr
          refine ⟨k, hall k hk, ?_⟩
          rw [List.getElem?_eq_getElem hk, hkj]
          simpa using hjn
        · exact List.any_eq_true.mpr ⟨i, hi, by rw [hfail]; simp⟩
      rw [if_pos this]
    · rw [if_neg hbad]
      have : ¬ (r.any (fun i => jobs[i]? == some none) = true) := by
        intro h
        obtain ⟨i, _, hfail⟩ := List.any_eq_true.mp h
        have hfail' : jobs[i]? = some none := by simpa using hfail
        have hmem : (none : FrameJob) ∈ jobs := List.mem_of_getElem? hfail'
        exact hbad (List.any_eq_true.mpr ⟨none, hmem, by simp⟩)
      rw [if_neg this]
  rw [key p hp, key q hq]

/-- Non-vacuity: three frames, the middle one damaged - processing only the first two (one thread) and
    processing all three are both valid runs, and both return the error. -/
example : ValidFrameRun [some none, none, some (some [1])] [0, 1] ∧
    ValidFrameRun [some none, none, some (some [1])] [2, 0, 1] ∧
    frameRunOutcome [some none, none, some (some [1])] [0, 1] = none := by
  refine ⟨Or.inr ⟨1, by simp, rfl⟩, Or.inr ⟨1, by simp, rfl⟩, by decide⟩

end OxiModel.C06

import OxiModel.Decision
/-
  C04 — never larger: unless output is forced the result is strictly smaller than the input or is
  the input, byte for byte.
-/
namespace OxiModel.C04
open OxiModel

/-- The in-memory call returns something strictly smaller, or the original bytes. -/
theorem never_larger (input candidate : Bytes) :
    (finalMemory input candidate false).length < input.length ∨ finalMemory input candidate false = input := by
  unfold finalMemory isFullyOptimized
  by_cases h : input.length ≤ candidate.length
  · right; simp [h]
  · left; simp [h]; omega

/-- An in-place run that cannot improve the file leaves it untouched; with another destination the
    original bytes are written; otherwise the (strictly smaller) candidate is written. -/
theorem file_routing (input candidate : Bytes) (dest : Dest) :
    match finalFile input candidate false dest with
    | .noWrite => dest = .pretend ∨ (dest = .inPlace ∧ input.length ≤ candidate.length)
    | .write b => (b = input ∧ input.length ≤ candidate.length) ∨
                  (b = candidate ∧ candidate.length < input.length) := by
  unfold finalFile isFullyOptimized
  by_cases h : input.length ≤ candidate.length <;> cases dest <;> simp [h] <;> omega

/-- whatever is written without `force` is never longer than the input -/
theorem written_never_larger (input candidate b : Bytes) (dest : Dest)
    (h : finalFile input candidate false dest = .write b) : b.length < input.length ∨ b = input := by
  have := file_routing input candidate dest
  rw [h] at this
  rcases this with ⟨rfl, _⟩ | ⟨rfl, hlt⟩
  · right; rfl
  · left; exact hlt

/-- Chains of unforced runs with arbitrary optimisers and options never grow the file. -/
theorem chain_never_grows (input : Bytes) (runs : List ((Bytes → Bytes) × Bool))
    (hforce : ∀ r ∈ runs, r.2 = false) : (chain input runs).length ≤ input.length := by
  induction runs generalizing input with
  | nil => simp [chain]
  | cons r rest ih =>
    obtain ⟨opt, force⟩ := r
    have hf : force = false := hforce (opt, force) List.mem_cons_self
    subst hf
    simp only [chain]
    have h1 := never_larger input (opt input)
    have h2 := ih (finalMemory input (opt input) false) (fun r hr => hforce r (List.mem_cons_of_mem _ hr))
    rcases h1 with h1 | h1
    · omega
    · rw [h1] at h2 ⊢; exact h2

/-- …and the file changes at most `input.length` times in any unforced chain: each change strictly
    shrinks it (well-founded descent), so repeated runs reach a byte-level fixed point. -/
theorem chain_changes_bounded (input : Bytes) (runs : List ((Bytes → Bytes) × Bool))
    (hforce : ∀ r ∈ runs, r.2 = false) :
    changes input runs + (chain input runs).length ≤ input.length := by
  induction runs generalizing input with
  | nil => simp [changes, chain]
  | cons r rest ih =>
    obtain ⟨opt, force⟩ := r
    have hf : force = false := hforce (opt, force) List.mem_cons_self
    subst hf
    simp only [changes, chain]
    have h2 := ih (finalMemory input (opt input) false) (fun r hr => hforce r (List.mem_cons_of_mem _ hr))
    rcases never_larger input (opt input) with h1 | h1
    · split <;> omega
    · rw [h1] at h2 ⊢; simp; exact h2

/-- A run that returns its input is a fixed point for that optimiser: running it again returns it again. -/
theorem fixed_point_stable (input : Bytes) (opt : Bytes → Bytes)
    (h : finalMemory input (opt input) false = input) :
    chain input [(opt, false), (opt, false)] = input := by
  simp [chain, h]

/-- A recompressed image stream is accepted only if strictly below the budget derived from the
    original (`idat + PLTE/tRNS` of the input). -/
theorem accepted_below_budget (c : Bool) (est m : Nat) (h : accepted c est (some m) = true) : est < m := by
  simp [accepted] at h; exact h.2

/-- An APNG frame is replaced only by a strictly smaller stream (limit `len - 1`). -/
theorem frame_only_shrinks (oldLen newLen : Nat) (hpos : 0 < oldLen) (hfit : newLen ≤ oldLen - 1) :
    newLen < oldLen := by omega

/-- Non-vacuity: both branches occur. -/
example : finalMemory [1,2,3] [9,9] false = [9,9] ∧ finalMemory [1,2,3] [9,9,9] false = [1,2,3] := by decide

end OxiModel.C04

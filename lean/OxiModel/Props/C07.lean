import OxiModel.Chunks
import OxiModel.Meta
/-
  C07 — metadata chunks are kept, dropped and ordered as the strip policy says.
-/
namespace OxiModel.C07
open OxiModel

def isCritical (name : Bytes) : Prop :=
  name = nm "IDAT" ∨ name = nm "IHDR" ∨ name = nm "PLTE" ∨ name = nm "tRNS"

def isAnim (name : Bytes) : Prop := name = nm "fcTL" ∨ name = nm "fdAT"

/-- **The chunks that define the picture cannot be stripped**: they are matched before the policy
    is consulted, so every policy treats them alike. -/
theorem critical_independent_of_policy (s1 s2 : StripChunks) (st : Collected) (c : Chunk)
    (h : isCritical c.name) : classify s1 st c = classify s2 st c := by
  unfold isCritical at h
  unfold classify
  rcases h with h | h | h | h
  · simp [h]
  · have h0 : nm "IHDR" ≠ nm "IDAT" := by decide
    simp [h, h0]
  · have h0 : nm "PLTE" ≠ nm "IDAT" := by decide
    have h1 : nm "PLTE" ≠ nm "IHDR" := by decide
    simp [h, h0, h1]
  · have h0 : nm "tRNS" ≠ nm "IDAT" := by decide
    have h1 : nm "tRNS" ≠ nm "IHDR" := by decide
    have h2 : nm "tRNS" ≠ nm "PLTE" := by decide
    simp [h, h0, h1, h2]

/-- An ordinary ancillary chunk the policy keeps is recorded exactly once, unchanged, at the end of
    the list; one the policy strips leaves no trace. Nothing else in the state changes. -/
theorem ordinary_chunk (strip : StripChunks) (st : Collected) (c : Chunk)
    (hc : ¬ isCritical c.name) (ha : ¬ isAnim c.name) (h2 : isC2pa c = false) :
    classify strip st c =
      .ok (if strip.keeps c.name then { st with aux := st.aux ++ [c] } else st) := by
  unfold isCritical at hc
  unfold isAnim at ha
  have h1 : c.name ≠ nm "IDAT" := fun h => hc (Or.inl h)
  have h3 : c.name ≠ nm "IHDR" := fun h => hc (Or.inr (Or.inl h))
  have h4 : c.name ≠ nm "PLTE" := fun h => hc (Or.inr (Or.inr (Or.inl h)))
  have h5 : c.name ≠ nm "tRNS" := fun h => hc (Or.inr (Or.inr (Or.inr h)))
  have h6 : ¬ (c.name = nm "fcTL" ∨ c.name = nm "fdAT") := ha
  unfold classify
  simp only [h1, h3, h4, h5, if_false, h2, h6, Bool.false_eq_true]
  split <;> rfl

/-- The C2PA rule: a manifest is dropped under the default policy; any other policy that would
    keep it makes the call fail; a policy that strips its chunk name drops it like any chunk. -/
theorem c2pa_rule (strip : StripChunks) (st : Collected) (c : Chunk) (hn : c.name = nm "caBX")
    (h2 : isC2pa c = true) :
    classify strip st c =
      if strip.keeps c.name then (if strip = .none then .ok st else .error .c2pa) else .ok st := by
  have e1 : nm "caBX" ≠ nm "IDAT" := by decide
  have e2 : nm "caBX" ≠ nm "IHDR" := by decide
  have e3 : nm "caBX" ≠ nm "PLTE" := by decide
  have e4 : nm "caBX" ≠ nm "tRNS" := by decide
  unfold classify
  simp only [hn, e1, e2, e3, e4, if_false]
  rw [← hn]
  simp only [h2, if_true]

/-- the chunks `output` emits for the auxiliary list: (before PLTE) ++ (after PLTE) ++ (after IDAT) -/
def emittedAux (aux : List Chunk) : List Chunk :=
  let (pre, post) := splitAtIdat aux
  pre.filter (fun c => !isAfterPlte c.name) ++ pre.filter (fun c => isAfterPlte c.name) ++ post

/-- **Exactly once, nothing invented**: every auxiliary chunk is emitted as often as it was
    recorded (payload and name untouched), markers for the image data aside. -/
theorem emitted_counts (aux : List Chunk) (c : Chunk) (hc : c.name ≠ nm "IDAT") :
    (emittedAux aux).count c = aux.count c := by
  unfold emittedAux splitAtIdat
  simp only [List.count_append]
  have hpart : ∀ (l : List Chunk), (l.filter (fun c => !isAfterPlte c.name)).count c +
      (l.filter (fun c => isAfterPlte c.name)).count c = l.count c := by
    intro l
    induction l with
    | nil => simp
    | cons x l ih =>
      by_cases hx : isAfterPlte x.name = true <;> simp [List.filter_cons, hx, List.count_cons] <;> omega
  rw [hpart]
  -- count over takeWhile ++ (rest without markers)
  have hsplit : ∀ (l : List Chunk),
      (l.takeWhile fun d => d.name ≠ nm "IDAT").count c +
      ((l.drop ((l.takeWhile fun d => d.name ≠ nm "IDAT").length + 1)).filter fun d => d.name ≠ nm "IDAT").count c
        = l.count c := by
    intro l
    induction l with
    | nil => simp
    | cons x l ih =>
      by_cases hx : x.name = nm "IDAT"
      · have hxc : x ≠ c := fun h => hc (h ▸ hx)
        simp only [List.takeWhile_cons, hx, ne_eq, not_true_eq_false, decide_false, Bool.false_eq_true,
          if_false, List.count_nil, List.length_nil, Nat.zero_add, List.drop_succ_cons, List.drop_zero,
          List.count_cons, beq_iff_eq, hxc]
        -- the remaining markers are filtered out; they are not `c`
        have : ∀ (m : List Chunk), (m.filter fun d => decide (d.name ≠ nm "IDAT")).count c = m.count c := by
          intro m
          exact List.count_filter (by simpa using hc)
        rw [this]; simp
      · simp only [List.takeWhile_cons, hx, ne_eq, not_false_eq_true, decide_true, if_true,
          List.length_cons, List.drop_succ_cons, List.count_cons]
        have := ih
        simp only [ne_eq] at this
        omega
  have := hsplit aux
  simp only [ne_eq] at this ⊢
  omega

/-- **Side of the image data is preserved**: what was recorded before the IDAT marker is emitted
    before IDAT, what was recorded after it is emitted after it. -/
theorem side_of_idat (aux : List Chunk) :
    let (pre, post) := splitAtIdat aux
    (∀ c ∈ pre.filter (fun c => !isAfterPlte c.name) ++ pre.filter (fun c => isAfterPlte c.name), c ∈ pre) ∧
    (∀ c ∈ post, c ∈ aux.drop (pre.length + 1)) := by
  simp only [splitAtIdat]
  constructor
  · intro c hc
    rcases List.mem_append.mp hc with h | h <;> exact (List.mem_filter.mp h).1
  · intro c hc
    exact (List.mem_filter.mp hc).1

/-- **Relative order, as far as it is preserved** (partial): within the chunks that must follow
    PLTE (bKGD, hIST, tRNS, fcTL) and within all the others, on each side of IDAT, the input order
    is kept — each emitted group is a sub-list of the recorded list. -/
theorem order_within_groups_partial (aux : List Chunk) :
    let (pre, post) := splitAtIdat aux
    (pre.filter (fun c => !isAfterPlte c.name)).Sublist aux ∧
    (pre.filter (fun c => isAfterPlte c.name)).Sublist aux ∧ post.Sublist aux := by
  simp only [splitAtIdat]
  refine ⟨?_, ?_, ?_⟩
  · exact List.Sublist.trans List.filter_sublist (List.takeWhile_sublist _)
  · exact List.Sublist.trans List.filter_sublist (List.takeWhile_sublist _)
  · exact List.Sublist.trans List.filter_sublist (List.drop_sublist _ _)

/-- The full-strength order clause is **false** of the model (and of the code: the known finding):
    `bKGD gAMA` before IDAT is emitted as `gAMA bKGD`. -/
theorem order_not_preserved_across_groups :
    emittedAux [⟨nm "bKGD", [1]⟩, ⟨nm "gAMA", [2]⟩, ⟨nm "IDAT", []⟩] =
      [⟨nm "gAMA", [2]⟩, ⟨nm "bKGD", [1]⟩] := by decide

/-- Conditional drops after reductions touch nothing but bKGD / sBIT / hIST / sRGB / iCCP. -/
theorem postprocess_keeps_others (aux : List Chunk) (new orig : Ihdr) (c : Chunk) (hc : c ∈ aux)
    (h : c.name ≠ nm "bKGD" ∧ c.name ≠ nm "sBIT" ∧ c.name ≠ nm "hIST" ∧ c.name ≠ nm "sRGB" ∧ c.name ≠ nm "iCCP") :
    c ∈ postprocessChunks aux new orig := by
  obtain ⟨h1, h2, h3, h4, h5⟩ := h
  simp only [postprocessChunks]
  split <;> split <;> simp [List.mem_filter, hc, h1, h2, h3, h4, h5]

/-- Non-vacuity: a kept private chunk is recorded once; the D-i input is reordered. -/
example : (match classify .none {} ⟨nm "prVt", [7]⟩ with
           | .ok st => st.aux == [⟨nm "prVt", [7]⟩]
           | .error _ => false) = true := by decide

end OxiModel.C07
